#!/bin/sh
# MANIFEST.setup_cmd: build the Lean project (model, theorems, driver) and the Rust harness, offline.
set -e
cd "$(dirname "$0")"
export CARGO_NET_OFFLINE=true
mkdir -p .cache work evidence replays
(cd lean && lake build)
REPO=${N2V_REPO:-/repo}
[ -f harness/Cargo.lock ] || cp $REPO/Cargo.lock harness/Cargo.lock
(cd harness && cargo build --offline --target-dir ../.cache/harness-target)
cargo build --offline --no-default-features --manifest-path $REPO/Cargo.toml --target-dir .cache/n2bin
