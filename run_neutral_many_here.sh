#!/bin/bash
# quick tier of every check against a repository snapshot, once per behaviour-preserving patch given (an alarm is a false alarm)
cd "$(dirname "$0")"
[ -n "$VP_RUN_REPO" ] || { echo "needs VP_RUN_REPO"; exit 2; }
export N2V_REPO=$VP_RUN_REPO; sed -i "s#path = \"/repo\"#path = \"$VP_RUN_REPO\"#" harness/Cargo.toml
[ -d .cache ] || ./setup.sh > setup.log 2>&1
for d in "$@"; do
  echo "=== $d"
  git -C "$VP_RUN_REPO" apply "$d" || { echo "patch does not apply"; continue; }
  for i in $(seq -w 1 20); do
    out=$(timeout 7200 ./check C$i 2>&1); r=$?
    echo "$out" | grep -E "^(VIOLATION)" | cut -c1-200
    echo "C$i exit=$r $(echo "$out" | grep -E "^C$i " | sed 's/.*discharged, //' | cut -c1-110)"
  done
  git -C "$VP_RUN_REPO" checkout -- .
done
