#!/bin/bash
# thorough tier of every check (or of those in N2V_ONLY="04 05"), relative to the directory this script lives in (usable from a `vp run` snapshot)
cd "$(dirname "$0")"
# in a `vp run --with-repo` snapshot: test the repository snapshot, not /repo (which may be patched by seed trials meanwhile)
if [ -n "$VP_RUN_REPO" ]; then export N2V_REPO=$VP_RUN_REPO; sed -i "s#path = \"/repo\"#path = \"$VP_RUN_REPO\"#" harness/Cargo.toml; fi
[ -d .cache ] || ./setup.sh > setup.log 2>&1
for i in ${N2V_ONLY:-$(seq -w 1 20)}; do
  s=$(date +%s)
  out=$(VERIF_TIER=thorough timeout 14400 ./check C$i --tier thorough 2>&1); r=$?
  echo "$out" | grep -E "^(C$i |VIOLATION|KNOWN-FINDING)" | cut -c1-260
  echo "C$i exit=$r wall=$(( $(date +%s) - s ))s"
done
