#!/bin/bash
# quick tier of every check inside a `vp run --with-repo` snapshot, seed from VERIF_SEED (false-alarm hunting with other seeds)
cd "$(dirname "$0")"
if [ -n "$VP_RUN_REPO" ]; then export N2V_REPO=$VP_RUN_REPO; sed -i "s#path = \"/repo\"#path = \"$VP_RUN_REPO\"#" harness/Cargo.toml; fi
[ -d .cache ] || ./setup.sh > setup.log 2>&1
for i in $(seq -w 1 20); do
  s=$(date +%s)
  out=$(timeout 7200 ./check C$i 2>&1); r=$?
  echo "$out" | grep -E "^(C$i |VIOLATION|KNOWN-FINDING)" | cut -c1-260
  echo "C$i exit=$r wall=$(( $(date +%s) - s ))s"
done
