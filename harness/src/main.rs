//! n2v-harness: runs the REAL n2 code (crate built from /repo's working tree, feature
//! "verif") on generated cases and writes, per case, one line of input for the Lean model
//! driver (cases.txt) and one line of observed behaviour (impl.txt).
mod util;
mod m_canon;
mod m_depfile;
mod m_diag;
mod m_opts;
mod m_exec;
mod m_hist;
mod m_load;
mod m_db;
mod m_render;
mod m_sched;
mod proj;

use util::Ctx;

fn main() {
    let args: Vec<String> = std::env::args().collect();
    if args.len() < 5 {
        eprintln!("usage: n2v-harness <mode> <outdir> <seed> <tier> [skip]");
        std::process::exit(2);
    }
    let mode = args[1].as_str();
    let outdir = std::path::PathBuf::from(&args[2]);
    let seed: u64 = args[3].parse().expect("seed");
    let tier = args[4].clone();
    let skip: usize = args.get(5).map(|s| s.parse().expect("skip")).unwrap_or(0);
    // Panics inside the code under test are caught per case; keep stderr quiet.
    std::panic::set_hook(Box::new(|_| {}));
    let mut ctx = Ctx::new(&outdir, seed, &tier, skip);
    match mode {
        "canon" => m_canon::run(&mut ctx),
        "depfile" => m_depfile::run(&mut ctx),
        "render" => m_render::run(&mut ctx),
        "db" => m_db::run(&mut ctx),
        "load" => m_load::run(&mut ctx),
        "hist" => m_hist::run(&mut ctx),
        "exec" => m_exec::run(&mut ctx),
        // only the text functions of task.rs (extract_showincludes, find_last_line): C09
        "showinc" => { std::env::set_var("N2V_EXEC_TEXT_ONLY", "1"); m_exec::run(&mut ctx) }
        "sched" => m_sched::run(&mut ctx),
        // diagnostics of the real binary that quote manifest / command line strings: C12
        "diag" => m_diag::run(&mut ctx),
        // -j / -k through parse_args of the real binary: C04, C05
        "opts" => m_opts::run(&mut ctx),
        _ => {
            eprintln!("unknown mode {mode}");
            std::process::exit(2);
        }
    }
    ctx.finish();
}
