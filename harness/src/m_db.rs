//! C07 / C08: the real db.rs writer and reader.
//!  dbw: records written by the real Writer for a sequence of write_build calls -> bytes.
//!  dbr: a byte prefix of such a log (= crash after that many bytes reached the file) opened by
//!       the real db::open against a (possibly edited) graph -> loaded state, file length after
//!       open, bytes after appending one more record through the returned Writer.
use crate::proj::*;
use crate::util::*;
use n2::verif as v;
use n2::verif::DenseIndex;
use std::path::Path;

#[derive(Clone)]
struct G {
    names: Vec<String>,
    builds: Vec<Vec<usize>>, // outs as indices into names
}

fn mk_graph(g: &G) -> v::Graph {
    let mut graph = v::Graph::default();
    // intern in name order so file ids = name indices at first
    for b in &g.builds {
        let outs: Vec<v::FileId> = b.iter().map(|&i| graph.files.id_from_canonical(g.names[i].clone())).collect();
        let n = outs.len();
        let mut build = v::Build::new(
            v::FileLoc { filename: std::rc::Rc::new(std::path::PathBuf::from("build.ninja")), line: 1 },
            v::BuildIns { ids: vec![], explicit: 0, implicit: 0, order_only: 0 },
            v::BuildOuts { ids: outs, explicit: n },
        );
        build.cmdline = Some("cmd".into());
        graph.add_build(build).unwrap();
    }
    graph
}

fn graph_tokens(g: &G) -> String {
    let mut s = format!("names {}", g.names.len());
    for n in &g.names { s.push(' '); s.push_str(&hex(n.as_bytes())); }
    s.push_str(&format!(" builds {}", g.builds.len()));
    for b in &g.builds {
        s.push_str(&format!(" {}", b.len()));
        for o in b { s.push_str(&format!(" {}", o)); }
    }
    s
}

fn gen_graph(rng: &mut Rng, names: &[String]) -> G {
    let mut idx: Vec<usize> = (0..names.len()).collect();
    rng.shuffle(&mut idx);
    let nb = rng.range(1, 4);
    let mut builds = vec![];
    let mut pos = 0;
    for _ in 0..nb {
        let k = rng.range(1, 3);
        if pos + k > idx.len().saturating_sub(2) { break; }
        builds.push(idx[pos..pos + k].to_vec());
        pos += k;
    }
    if builds.is_empty() { builds.push(vec![idx[0]]); }
    G { names: names.to_vec(), builds }
}

struct W { build: usize, deps: Vec<usize>, hash: u64 }

fn writes_tokens(ws: &[W]) -> String {
    let mut s = format!("writes {}", ws.len());
    for w in ws {
        s.push_str(&format!(" {} {} {}", w.build, w.hash, w.deps.len()));
        for d in &w.deps { s.push_str(&format!(" {}", d)); }
    }
    s
}

fn do_writes(graph: &mut v::Graph, writer: &mut v::DbWriter, g: &G, ws: &[W]) -> Result<(), String> {
    for w in ws {
        let deps: Vec<v::FileId> = w.deps.iter().map(|&i| graph.files.id_from_canonical(g.names[i].clone())).collect();
        let bid = v::BuildId::from(w.build);
        graph.builds[bid].set_discovered_ins(deps);
        writer.write_build(graph, bid, v::BuildHash(w.hash)).map_err(|e| e.to_string())?;
    }
    Ok(())
}

fn loaded_tokens(graph: &v::Graph, hashes: &v::Hashes) -> String {
    let nb = graph.builds.next_id().index();
    let mut s = format!("L {}", nb);
    for i in 0..nb {
        let bid = v::BuildId::from(i);
        match hashes.get(bid) {
            Some(h) => s.push_str(&format!(" {}", h.0)),
            None => s.push_str(" -"),
        }
        let deps = graph.builds[bid].discovered_ins();
        s.push_str(&format!(" {}", deps.len()));
        for d in deps { s.push(' '); s.push_str(&hex(graph.file(*d).name.as_bytes())); }
    }
    s
}

fn gen_writes(rng: &mut Rng, g: &G, big: bool) -> Vec<W> {
    let n = rng.range(1, 5);
    (0..n).map(|_| {
        let nd = if big && rng.chance(1, 3) { *rng.pick(&[255usize, 256, 257, 300]) } else { rng.below(4) };
        W {
            build: rng.below(g.builds.len()),
            deps: (0..nd).map(|_| rng.below(g.names.len())).collect(),
            hash: match rng.below(4) { 0 => rng.next(), 1 => rng.next() % 256, 2 => u64::MAX, _ => rng.next() % 100000 },
        }
    }).collect()
}

pub fn run(ctx: &mut Ctx) {
    ctx.crash_safe = true;
    if ctx.replay_cases().is_some() {
        eprintln!("db replay: re-run with the same VERIF_SEED");
        return;
    }
    let tp = TempProject::new("db");
    let dbp = Path::new("db.bin");
    let nlogs = if ctx.thorough() { 3000 } else { 150 };
    for _ in 0..nlogs {
        tp.reset();
        // name universe
        let nn = ctx.rng.range(5, 9);
        let mut names: Vec<String> = (0..nn).map(|i| match ctx.rng.below(8) {
            0 => format!("dir/é{}", i),
            1 => format!("{}{}", "x".repeat(ctx.rng.range(100, 300)), i),
            2 => format!("日本/{}.o", i),
            _ => format!("f{}", i),
        }).collect();
        names.dedup();
        let big = ctx.rng.chance(1, 10);
        let g1 = gen_graph(&mut ctx.rng, &names);
        let ws = gen_writes(&mut ctx.rng, &g1, big);
        // --- dbw
        let case = format!("dbw {} {}", graph_tokens(&g1), writes_tokens(&ws));
        let mut full: Vec<u8> = vec![];
        ctx.emit(&case, || {
            let _ = std::fs::remove_file(dbp);
            let mut graph = mk_graph(&g1);
            let mut hashes = v::Hashes::default();
            let r = std::panic::catch_unwind(std::panic::AssertUnwindSafe(|| -> Result<(), String> {
                let mut w = v::db_open(dbp, &mut graph, &mut hashes).map_err(|e| e.to_string())?;
                do_writes(&mut graph, &mut w, &g1, &ws)
            }));
            match r {
                Ok(Ok(())) => { full = std::fs::read(dbp).unwrap(); format!("ok {}", hex(&full)) }
                Ok(Err(e)) => format!("err {}", hex(e.as_bytes())),
                Err(p) => format!("panic {}", hex(panic_message(p).as_bytes())),
            }
        });
        ctx.count("logs");
        if full.is_empty() { continue; }
        // --- dbr on prefixes, against the same or an edited graph
        let g2 = if ctx.rng.chance(1, 2) { g1.clone() } else { ctx.count("edited_graph"); gen_graph(&mut ctx.rng, &names) };
        let ks: Vec<usize> = if full.len() <= 400 || ctx.thorough() && full.len() <= 1500 { (0..=full.len()).collect() } else {
            let mut v: Vec<usize> = (0..40).map(|_| ctx.rng.below(full.len() + 1)).collect();
            v.extend([0, 3, 4, 7, 8, 9, 10, full.len() - 1, full.len()]);
            v.sort(); v.dedup(); v
        };
        for k in ks {
            let ws2 = gen_writes(&mut ctx.rng, &g2, false);
            let ws2 = &ws2[..1];
            let case = format!("dbr {} {} {} {}", hex(&full), k, graph_tokens(&g2), writes_tokens(ws2));
            ctx.count("prefix_opens");
            ctx.emit(&case, || {
                std::fs::write(dbp, &full[..k]).unwrap();
                let mut graph = mk_graph(&g2);
                let mut hashes = v::Hashes::default();
                let r = std::panic::catch_unwind(std::panic::AssertUnwindSafe(|| -> Result<String, String> {
                    let mut w = v::db_open(dbp, &mut graph, &mut hashes).map_err(|e| e.to_string())?;
                    let loaded = loaded_tokens(&graph, &hashes);
                    let len_after_open = std::fs::metadata(dbp).unwrap().len();
                    do_writes(&mut graph, &mut w, &g2, ws2)?;
                    drop(w);
                    let fin = std::fs::read(dbp).unwrap();
                    Ok(format!("ok {} {} {}", loaded, len_after_open, hex(&fin)))
                }));
                match r {
                    Ok(Ok(s)) => s,
                    Ok(Err(e)) => format!("err {}", hex(e.as_bytes())),
                    Err(p) => format!("panic {}", hex(panic_message(p).as_bytes())),
                }
            });
        }
    }
    // field-width boundaries of a build record: the output count is a 15-bit field (the top bit
    // marks a build record), the dependency count a 16-bit one.  A record that does not fit must not
    // be written; one that just fits must read back, and the records after it stay attributable.
    let big = std::env::var("N2V_DB_BIG").is_ok();
    let mut shapes: Vec<(usize, usize)> = vec![(2, 65535), (2, 65536)];
    if ctx.thorough() { shapes.push((1, 70000)); }
    if big { shapes.extend([(32767, 0), (32768, 0)]); }
    for (nouts, ndeps) in shapes {
        tp.reset();
        let names: Vec<String> = (0..nouts + 3).map(|i| format!("f{}", i)).collect();
        let g = G { names: names.clone(), builds: vec![(0..nouts).collect(), vec![nouts]] };
        let ws = vec![
            W { build: 0, deps: (0..ndeps).map(|i| nouts + 1 + (i % 2)).collect(), hash: 77 },
            W { build: 1, deps: vec![nouts + 1], hash: 78 },
        ];
        ctx.count("field_width_boundary");
        let case = format!("dbw {} {}", graph_tokens(&g), writes_tokens(&ws));
        let mut full: Vec<u8> = vec![];
        ctx.emit(&case, || {
            let _ = std::fs::remove_file(dbp);
            let mut graph = mk_graph(&g);
            let mut hashes = v::Hashes::default();
            let r = std::panic::catch_unwind(std::panic::AssertUnwindSafe(|| -> Result<(), String> {
                let mut w = v::db_open(dbp, &mut graph, &mut hashes).map_err(|e| e.to_string())?;
                do_writes(&mut graph, &mut w, &g, &ws)
            }));
            match r {
                Ok(Ok(())) => { full = std::fs::read(dbp).unwrap(); format!("ok {}", hex(&full)) }
                Ok(Err(e)) => format!("err {}", hex(e.as_bytes())),
                Err(p) => format!("panic {}", hex(panic_message(p).as_bytes())),
            }
        });
        if full.is_empty() { continue; }
        let ws2 = vec![W { build: 1, deps: vec![], hash: 79 }];
        let k = full.len();
        let case = format!("dbr {} {} {} {}", hex(&full), k, graph_tokens(&g), writes_tokens(&ws2));
        ctx.emit(&case, || {
            std::fs::write(dbp, &full[..k]).unwrap();
            let mut graph = mk_graph(&g);
            let mut hashes = v::Hashes::default();
            let r = std::panic::catch_unwind(std::panic::AssertUnwindSafe(|| -> Result<String, String> {
                let mut w = v::db_open(dbp, &mut graph, &mut hashes).map_err(|e| e.to_string())?;
                let loaded = loaded_tokens(&graph, &hashes);
                let len_after_open = std::fs::metadata(dbp).unwrap().len();
                do_writes(&mut graph, &mut w, &g, &ws2)?;
                drop(w);
                let fin = std::fs::read(dbp).unwrap();
                Ok(format!("ok {} {} {}", loaded, len_after_open, hex(&fin)))
            }));
            match r {
                Ok(Ok(s)) => s,
                Ok(Err(e)) => format!("err {}", hex(e.as_bytes())),
                Err(p) => format!("panic {}", hex(panic_message(p).as_bytes())),
            }
        });
    }
}
