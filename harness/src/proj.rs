//! Random n2 projects (manifest text + sources), temp-dir handling, graph dumps, the scripted
//! executor and the recording Progress.  Shared by the sched / hist modes.
use crate::util::*;
use n2::verif as v;
use n2::verif::DenseIndex;
use std::collections::HashMap;
use std::path::{Path, PathBuf};
use std::sync::{Arc, Mutex};

pub fn set_mtime(path: &Path, secs: i64) {
    use std::os::unix::ffi::OsStrExt;
    let c = std::ffi::CString::new(path.as_os_str().as_bytes()).unwrap();
    let ts = [
        libc::timespec { tv_sec: secs, tv_nsec: 0 },
        libc::timespec { tv_sec: secs, tv_nsec: 0 },
    ];
    unsafe {
        libc::utimensat(libc::AT_FDCWD, c.as_ptr(), ts.as_ptr(), 0);
    }
}

/// Write `content` to `path` (creating parent dirs) with an explicit logical mtime.
pub fn write_file(path: &Path, content: &[u8], mtime: i64) {
    if let Some(p) = path.parent() {
        if !p.as_os_str().is_empty() {
            let _ = std::fs::create_dir_all(p);
        }
    }
    std::fs::write(path, content).unwrap();
    set_mtime(path, mtime);
}

/// A scratch directory per case.  `reset` moves to a directory that was never used before instead of
/// emptying the old one: a command that n2 left running when it stopped early (budget reached,
/// interrupt) may still create its files a moment later, and in a reused directory those files were
/// counted as the NEXT case's observations (false alarm of C05's cliBudgetRespected, correction 23).
pub struct TempProject {
    base: PathBuf,
    gen: std::cell::Cell<u64>,
}
impl TempProject {
    fn cur(&self) -> PathBuf {
        self.base.join(self.gen.get().to_string())
    }
    pub fn new(tag: &str) -> TempProject {
        let root = std::env::var("N2V_TMP").unwrap_or_else(|_| "/verif/work/tmp".into());
        let base = PathBuf::from(root).join(format!("{}-{}", tag, std::process::id()));
        let _ = std::fs::remove_dir_all(&base);
        let tp = TempProject { base, gen: std::cell::Cell::new(0) };
        std::fs::create_dir_all(tp.cur()).unwrap();
        std::env::set_current_dir(tp.cur()).unwrap();
        tp
    }
    pub fn reset(&self) {
        std::env::set_current_dir("/").unwrap();
        // best effort: a late writer can make this fail, the leftovers go with `base` in drop
        let _ = std::fs::remove_dir_all(self.cur());
        self.gen.set(self.gen.get() + 1);
        let _ = std::fs::remove_dir_all(self.cur());
        std::fs::create_dir_all(self.cur()).unwrap();
        std::env::set_current_dir(self.cur()).unwrap();
    }
}
impl Drop for TempProject {
    fn drop(&mut self) {
        let _ = std::env::set_current_dir("/");
        let _ = std::fs::remove_dir_all(&self.base);
    }
}

pub fn state_code(s: v::BuildState) -> usize {
    match s {
        v::BuildState::Unknown => 0,
        v::BuildState::Want => 1,
        v::BuildState::Ready => 2,
        v::BuildState::Queued => 3,
        v::BuildState::Running => 4,
        v::BuildState::Done => 5,
        v::BuildState::Failed => 6,
    }
}

/// Progress implementation that records callbacks into n2's verif event log (so they are
/// totally ordered with the state transitions).
pub struct RecProgress;
/// Things the real code did that no correct run ever does (a total that is not the sum of the
/// buckets, an include note shown to the user, ...): collected per case and emitted as an extra
/// case line (`anomalies ...`) so that the driver reports them as property failures.
pub static ANOMALIES: std::sync::Mutex<Vec<String>> = std::sync::Mutex::new(Vec::new());
pub fn anomaly(s: String) { let mut a = ANOMALIES.lock().unwrap(); if a.len() < 8 && !a.contains(&s) { a.push(s); } }
pub fn take_anomalies() -> Vec<String> { std::mem::take(&mut *ANOMALIES.lock().unwrap()) }

impl v::Progress for RecProgress {
    fn update(&self, counts: &v::StateCounts) {
        let c = v::counts_array(counts);
        let sum: usize = c.iter().sum();
        if counts.total() != sum { anomaly(format!("X-total-{}-vs-{}", counts.total(), sum)); }
        v::log_event(v::Event::Note(format!("U {} {} {} {} {} {}", c[0], c[1], c[2], c[3], c[4], c[5])));
    }
    fn task_started(&self, id: v::BuildId, _build: &v::Build) {
        v::log_event(v::Event::Note(format!("B {}", id.index())));
    }
    fn task_output(&self, _id: v::BuildId, _line: Vec<u8>) {}
    fn task_finished(&self, id: v::BuildId, _build: &v::Build, result: &v::TaskResult) {
        let t = match result.termination {
            v::Termination::Success => "s",
            v::Termination::Failure => "f",
            v::Termination::Interrupted => "i",
        };
        v::log_event(v::Event::Note(format!("F {} {}", id.index(), t)));
        if result.output.windows(21).any(|w| w == b"Note: including file:") { anomaly(format!("X-note-shown-{}", t)); }
        if !result.output.is_empty() {
            v::log_event(v::Event::Note(format!("O {} {}", id.index(), hex(&result.output))));
        }
    }
    fn log(&self, msg: &str) {
        v::log_event(v::Event::Note(format!("L {}", hex(msg.as_bytes()))));
    }
}
pub static REC_PROGRESS: RecProgress = RecProgress;

pub fn events_to_tokens(evs: &[v::Event], keep_notes: &[&str]) -> (usize, String) {
    let mut n = 0;
    let mut s = String::new();
    for e in evs {
        match e {
            v::Event::Set { id, prev, new, counts, pending } => {
                n += 1;
                s.push_str(&format!(
                    " S {} {} {} {} {} {} {} {} {} {}",
                    id, state_code(*prev), state_code(*new),
                    counts[0], counts[1], counts[2], counts[3], counts[4], counts[5], pending
                ));
            }
            v::Event::Note(t) => {
                if keep_notes.iter().any(|k| t.starts_with(k)) {
                    n += 1;
                    s.push(' ');
                    s.push_str(t);
                }
            }
        }
    }
    (n, s)
}

/// `files <n> (<hexname> <producer|-> <nd> <dep>*)* builds <n> (<phony> <hexpool> <nord> f* <nval> f* <nouts> f*)*`
pub fn dump_graph(g: &v::Graph) -> String {
    let mut s = String::new();
    let nfiles = g.files.all_ids().count();
    s.push_str(&format!("files {}", nfiles));
    for fid in g.files.all_ids() {
        let f = g.file(fid);
        s.push_str(&format!(" {} ", hex(f.name.as_bytes())));
        match f.input {
            Some(b) => s.push_str(&format!("{}", b.index())),
            None => s.push('-'),
        }
        s.push_str(&format!(" {}", f.dependents.len()));
        for d in &f.dependents {
            s.push_str(&format!(" {}", d.index()));
        }
    }
    let nb = g.builds.next_id().index();
    s.push_str(&format!(" builds {}", nb));
    for i in 0..nb {
        let b = &g.builds[v::BuildId::from(i)];
        s.push_str(&format!(
            " {} {}",
            if b.cmdline.is_none() { 1 } else { 0 },
            hex(b.pool.as_deref().unwrap_or("").as_bytes())
        ));
        let ord = b.ordering_ins();
        s.push_str(&format!(" {}", ord.len()));
        for f in ord { s.push_str(&format!(" {}", f.index())); }
        let val = b.validation_ins();
        s.push_str(&format!(" {}", val.len()));
        for f in val { s.push_str(&format!(" {}", f.index())); }
        let outs = b.outs();
        s.push_str(&format!(" {}", outs.len()));
        for f in outs { s.push_str(&format!(" {}", f.index())); }
    }
    s
}

/// What a scripted command does when it "succeeds".
#[derive(Clone, Default)]
pub struct CmdEffect {
    pub outs: Vec<String>,
    /// depfile path and text to write, if any
    pub depfile: Option<(String, Vec<u8>)>,
    pub output: Vec<u8>,
    /// Do not touch outputs whose content would not change (restat-like behaviour).
    pub keep_mtime_if_same: bool,
    pub content: Vec<u8>,
}

pub struct Script {
    pub rng: Rng,
    pub fail_pct: usize,
    pub interrupt_pct: usize,
    pub abort_pct: usize,
    pub effects: HashMap<String, CmdEffect>,
    pub clock: Arc<Mutex<i64>>,
    pub log: Arc<Mutex<Vec<String>>>,
    /// Fixed failing commands (by cmdline), if any: overrides fail_pct.
    pub failing: Option<Vec<String>>,
}

impl v::Executor for Script {
    fn choose(&mut self, pending: &[String]) -> v::Release {
        if self.abort_pct > 0 && self.rng.below(100) < self.abort_pct {
            self.log.lock().unwrap().push("abort".into());
            return v::Release::Abort;
        }
        let index = self.rng.below(pending.len());
        let cmd = &pending[index];
        let r = self.rng.below(100);
        let termination = match &self.failing {
            Some(f) => if f.contains(cmd) { v::Termination::Failure } else { v::Termination::Success },
            None => {
                if r < self.fail_pct { v::Termination::Failure }
                else if r < self.fail_pct + self.interrupt_pct { v::Termination::Interrupted }
                else { v::Termination::Success }
            }
        };
        let mut output = vec![];
        if termination == v::Termination::Success {
            if let Some(eff) = self.effects.get(cmd) {
                let mut clock = self.clock.lock().unwrap();
                *clock += 1;
                for o in &eff.outs {
                    let p = Path::new(o);
                    if eff.keep_mtime_if_same {
                        if let Ok(old) = std::fs::read(p) {
                            if old == eff.content { continue; }
                        }
                    }
                    write_file(p, &eff.content, *clock);
                }
                if let Some((dp, text)) = &eff.depfile {
                    write_file(Path::new(dp), text, *clock);
                }
                if !eff.output.is_empty() { output.push(eff.output.clone()); }
            }
        }
        self.log.lock().unwrap().push(format!("{} {:?}", cmd, termination));
        v::Release::Finish { index, termination, output }
    }
}

/// Run one in-process invocation of the real `run::build`.  Returns (result token, events).
pub fn invoke(options: v::Options, build_file: Option<String>, targets: Vec<String>, script: Script) -> (String, Vec<v::Event>) {
    v::take_events();
    v::set_progress_override(Some(&REC_PROGRESS));
    v::set_executor(Some(Box::new(script)));
    let tickets_before = v::exec_tickets();
    let r = std::panic::catch_unwind(std::panic::AssertUnwindSafe(|| v::verif_build(options, build_file, targets)));
    let evs = v::take_events();
    // Every started task thread reaches the executor hook; wait for stragglers so that none
    // of them checks in during the NEXT invocation.
    let started = evs.iter().filter(|e| matches!(e, v::Event::Note(t) if t.starts_with("B "))).count() as u64;
    let deadline = std::time::Instant::now() + std::time::Duration::from_secs(10);
    while v::exec_tickets() - tickets_before < started && std::time::Instant::now() < deadline {
        std::thread::yield_now();
    }
    v::set_executor(None);
    v::set_progress_override(None);
    let res = match r {
        Ok(Ok(Some(n))) => format!("ok {}", n),
        Ok(Ok(None)) => "fail".to_string(),
        Ok(Err(e)) => format!("err {}", hex(e.to_string().as_bytes())),
        Err(p) => {
            if p.downcast_ref::<v::VerifAbort>().is_some() { "killed".to_string() }
            else { format!("panic {}", hex(panic_message(p).as_bytes())) }
        }
    };
    (res, evs)
}
