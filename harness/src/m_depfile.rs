//! C15 (and C12 for depfiles): real `depfile::parse` on exhaustive short strings, structured
//! depfiles under random formattings, and raw/mutated bytes.
use crate::util::*;

pub fn norm_msg(m: &str) -> String {
    // "expected ':', got 'b'" -> "expected ':'"
    match m.find(", got ") {
        Some(i) => m[..i].to_string(),
        None => m.to_string(),
    }
}

fn run_one(text: &[u8]) -> String {
    let text = text.to_vec();
    let r = std::panic::catch_unwind(move || n2::verif::depfile_parse(&text));
    match r {
        Ok(Ok(entries)) => {
            let mut s = format!("ok {}", entries.len());
            for (t, deps) in entries {
                s.push_str(&format!(" {} {}", hex(t.as_bytes()), deps.len()));
                for d in deps {
                    s.push(' ');
                    s.push_str(&hex(d.as_bytes()));
                }
            }
            s
        }
        Ok(Err((msg, ofs, _fmt))) => format!("err {} {}", ofs, hex(norm_msg(&msg).as_bytes())),
        Err(e) => format!("panic {}", panic_message(e)),
    }
}

fn replay_line(ctx: &mut Ctx, line: &str) {
    let toks: Vec<&str> = line.split_whitespace().collect();
    if toks.len() >= 2 && (toks[0] == "depfile" || toks[0] == "depfileS") {
        if let Some(b) = unhex(toks[1]) {
            ctx.emit(line, || run_one(&b));
        }
    }
}

fn gen_name(rng: &mut Rng) -> Vec<u8> {
    let pool: [&str; 18] = ["a", "b.c", "src/x.h", "C:/odd\\path.c", "é", "日本.h", "a:b", "o.o", "x\\y", "d/../e", "./f", "g:",
        "m$n", "p#q", "%.o", "~/h", "x$$y", "t@u"];
    let mut s = pool[rng.below(pool.len())].as_bytes().to_vec();
    if rng.chance(1, 4) {
        s.extend_from_slice(format!("{}", rng.below(50)).as_bytes());
    }
    s
}

pub fn run(ctx: &mut Ctx) {
    ctx.crash_safe = true;
    if let Some(cases) = ctx.replay_cases() {
        for c in cases { replay_line(ctx, &c); }
        return;
    }
    for c in ctx.corpus_cases("depfile") { replay_line(ctx, &c); ctx.count("corpus"); }
    // 1. exhaustive over {a, ' ', ':', '\\', '\n'}
    let alpha: &[u8] = b"a :\\\n";
    let maxlen = if ctx.thorough() { 8 } else { 6 };
    ctx.emit("depfile -", || run_one(b""));
    for len in 1..=maxlen {
        let total = alpha.len().pow(len as u32);
        for mut k in 0..total {
            let mut s = Vec::with_capacity(len);
            for _ in 0..len { s.push(alpha[k % alpha.len()]); k /= alpha.len(); }
            ctx.count("exhaustive");
            ctx.emit(&format!("depfile {}", hex(&s)), || run_one(&s));
        }
    }
    // 1b. exhaustive over a second alphabet: the characters a Makefile treats specially and n2 does not
    // (tab, CR, `$`, `#`, `%`) and a non-ASCII byte, among name characters and the structural ones
    let alpha2: &[u8] = b"a :\\\n\t\r$#\xc3";
    let maxlen2 = if ctx.thorough() { 5 } else { 4 };
    for len in 1..=maxlen2 {
        let total = alpha2.len().pow(len as u32);
        for mut k in 0..total {
            let mut s = Vec::with_capacity(len);
            for _ in 0..len { s.push(alpha2[k % alpha2.len()]); k /= alpha2.len(); }
            if s.iter().all(|c| alpha.contains(c)) { continue; }
            ctx.count("exhaustive_special");
            ctx.emit(&format!("depfile {}", hex(&s)), || run_one(&s));
        }
    }
    // 2. structured depfiles x formatting
    let n = if ctx.thorough() { 200_000 } else { 8_000 };
    for _ in 0..n {
        let nent = match ctx.rng.below(10) { 0 => 0, 1..=6 => 1, 7 | 8 => 2, _ => ctx.rng.range(3, 5) };
        let mut entries: Vec<(Vec<u8>, Vec<Vec<u8>>)> = Vec::new();
        for _ in 0..nent {
            let mut t = gen_name(&mut ctx.rng);
            // property's side conditions on names: no leading/trailing backslash; a target
            // followed by blank-before-colon must not end in ':'
            while t.ends_with(b":") || t.ends_with(b"\\") || t.starts_with(b"\\") { t.push(b'x'); }
            if ctx.rng.chance(1, 6) && !entries.is_empty() {
                t = entries[ctx.rng.below(entries.len())].0.clone();
                ctx.count("dup_target");
            }
            let nd = match ctx.rng.below(6) { 0 => 0, 1 | 2 => 1, _ => ctx.rng.range(2, 6) };
            let mut deps = Vec::new();
            for _ in 0..nd {
                let mut d = gen_name(&mut ctx.rng);
                while d.ends_with(b"\\") || d.starts_with(b"\\") { d.push(b'x'); }
                deps.push(d);
            }
            entries.push((t, deps));
        }
        // render
        let mut text: Vec<u8> = Vec::new();
        let blanks = |rng: &mut Rng, text: &mut Vec<u8>, min: usize| {
            let k = min + if rng.chance(1, 3) { rng.below(3) } else { 0 };
            for _ in 0..k { text.push(b' '); }
        };
        if ctx.rng.chance(1, 5) { text.extend_from_slice(b"\n \n"); }
        for (i, (t, deps)) in entries.iter().enumerate() {
            text.extend_from_slice(t);
            if ctx.rng.chance(1, 4) { blanks(&mut ctx.rng, &mut text, 1); }
            text.push(b':');
            for d in deps {
                if ctx.rng.chance(1, 4) {
                    blanks(&mut ctx.rng, &mut text, 1);
                    // one or several consecutive continuations (an empty element of a joined list
                    // leaves a line holding only blanks and the next backslash)
                    let reps = if ctx.rng.chance(1, 3) { ctx.rng.range(2, 4) } else { 1 };
                    for _ in 0..reps {
                        text.extend_from_slice(b"\\\n");
                        blanks(&mut ctx.rng, &mut text, 0);
                    }
                    ctx.count("continuation");
                    if reps > 1 { ctx.count("multi_continuation"); }
                } else {
                    blanks(&mut ctx.rng, &mut text, 1);
                }
                text.extend_from_slice(d);
            }
            if ctx.rng.chance(1, 4) { blanks(&mut ctx.rng, &mut text, 1); }
            let last = i + 1 == entries.len();
            if !last || ctx.rng.chance(2, 3) {
                text.push(b'\n');
                if ctx.rng.chance(1, 4) { text.push(b'\n'); }
            } else {
                ctx.count("no_final_newline");
            }
        }
        let mut case = format!("depfileS {} {}", hex(&text), entries.len());
        for (t, deps) in &entries {
            case.push_str(&format!(" {} {}", hex(t), deps.len()));
            for d in deps { case.push(' '); case.push_str(&hex(d)); }
        }
        ctx.count("structured");
        ctx.emit(&case, || run_one(&text));
    }
    // 3. raw bytes and mutations
    let n = if ctx.thorough() { 200_000 } else { 8_000 };
    let alpha2: &[u8] = b"ab :\\\n\r\t\0$#|.\xc3\xa9\xe6";
    for _ in 0..n {
        let len = ctx.rng.range(1, 40);
        let s: Vec<u8> = (0..len).map(|_| alpha2[ctx.rng.below(alpha2.len())]).collect();
        ctx.count("raw");
        ctx.emit(&format!("depfile {}", hex(&s)), || run_one(&s));
    }
}
