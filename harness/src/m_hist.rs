//! Histories (C02, C03, C09, C17, also C05/C08/C18 end to end): random projects and random
//! sequences of edits and invocations, played against the REAL n2 in-process (real loader, real
//! log, real Work/Runner; only process spawning is scripted).  Commands follow a fixed
//! semantics that the Lean model shares (Model/Work.lean `sem`):
//!   output content = hex16(fnv1a(cmdline 0 outname {0 1 content | 0 2}* per dirtying input
//!                                 {0 3 (1 content | 2)}* per reported dep))
//!   reported deps  = the `#name` tokens in the contents of the explicit inputs (only for steps
//!                    with a depfile or deps = msvc)
//!   `!fail` / `!int` token in an explicit input => the command fails / is interrupted
//!   `gen <in> <out>` copies its first explicit input (manifest generator)
use crate::proj::*;
use crate::util::*;
use n2::verif as v;
use n2::verif::DenseIndex;
use std::collections::HashMap;
use std::path::Path;
use std::sync::{Arc, Mutex};

fn fnv(bs: &[u8]) -> u64 {
    let mut h: u64 = 14695981039346656037;
    for b in bs { h = (h ^ (*b as u64)).wrapping_mul(1099511628211); }
    h
}
fn hex16(h: u64) -> Vec<u8> { format!("{:016x}", h).into_bytes() }
fn tokens(c: &[u8]) -> Vec<Vec<u8>> {
    c.split(|b| *b == b' ' || *b == b'\n').filter(|t| !t.is_empty()).map(|t| t.to_vec()).collect()
}

#[derive(Clone)]
struct StepInfo {
    explicit: Vec<String>,
    dirtying: Vec<String>,
    outs: Vec<String>,
    depfile: Option<String>,
    showinc: bool,
    cmdline: String,
}

fn steps_of(st: &v::LoadState) -> HashMap<String, StepInfo> {
    let g = &st.graph;
    let mut m = HashMap::new();
    let nb = g.builds.next_id().index();
    for i in 0..nb {
        let b = &g.builds[v::BuildId::from(i)];
        if let Some(cmd) = &b.cmdline {
            let name = |f: &v::FileId| g.file(*f).name.clone();
            m.insert(cmd.clone(), StepInfo {
                explicit: b.explicit_ins().iter().map(name).collect(),
                dirtying: b.dirtying_ins().iter().map(name).collect(),
                outs: b.outs().iter().map(name).collect(),
                depfile: b.depfile.clone(),
                showinc: b.parse_showincludes,
                cmdline: cmd.clone(),
            });
        }
    }
    m
}

struct HistExec {
    rng: Rng,
    steps: HashMap<String, StepInfo>,
    clock: Arc<Mutex<i64>>,
    manifest_mtime: i64,
}

fn read_or(p: &str) -> Option<Vec<u8>> { std::fs::read(p).ok() }

fn manifest_mtime() -> i64 {
    use std::os::unix::fs::MetadataExt;
    // the manifest and the generated fragment it may include
    let a = std::fs::metadata("build.ninja").map(|m| m.mtime()).unwrap_or(-1);
    let b = std::fs::metadata("frag.ninja").map(|m| m.mtime()).unwrap_or(-1);
    a.wrapping_mul(1_000_003).wrapping_add(b)
}

impl HistExec {
    fn info(&mut self, cmd: &str) -> Option<StepInfo> {
        // If the manifest was regenerated (and reloaded by n2) since we last looked, learn the
        // new steps first: a command line can stay the same while its declared inputs change.
        let mt = manifest_mtime();
        if mt != self.manifest_mtime || !self.steps.contains_key(cmd) {
            v::pause_event_log(true);
            let r = std::panic::catch_unwind(|| v::load_read("build.ninja"));
            v::pause_event_log(false);
            if let Ok(Ok(st)) = r { self.steps = steps_of(&st); self.manifest_mtime = mt; }
        }
        self.steps.get(cmd).cloned()
    }
}

impl v::Executor for HistExec {
    fn choose(&mut self, pending: &[String]) -> v::Release {
        let index = self.rng.below(pending.len());
        let cmd = pending[index].clone();
        let Some(info) = self.info(&cmd) else {
            return v::Release::Finish { index, termination: v::Termination::Failure, output: vec![b"unknown command".to_vec()] };
        };
        // outcome from the contents of the explicit inputs
        let mut toks: Vec<Vec<u8>> = vec![];
        for e in &info.explicit { if let Some(c) = read_or(e) { toks.extend(tokens(&c)); } }
        if toks.iter().any(|t| t == b"!int") {
            return v::Release::Finish { index, termination: v::Termination::Interrupted, output: vec![] };
        }
        if toks.iter().any(|t| t == b"!fail") {
            // a failing compiler still prints its include notes first
            let mut o: Vec<u8> = vec![];
            if info.showinc {
                for t in toks.iter().filter(|t| t.len() > 1 && t[0] == b'#') { o.extend_from_slice(b"Note: including file:  "); o.extend_from_slice(&t[1..]); o.extend_from_slice(b"\r\n"); }
            }
            o.extend_from_slice(b"boom\n");
            return v::Release::Finish { index, termination: v::Termination::Failure, output: vec![o] };
        }
        let reads_deps = info.depfile.is_some() || info.showinc;
        let deps: Vec<Vec<u8>> = if reads_deps {
            toks.iter().filter(|t| t.len() > 1 && t[0] == b'#').map(|t| t[1..].to_vec()).collect()
        } else { vec![] };
        let mut clock = self.clock.lock().unwrap();
        *clock += 1;
        let is_gen = cmd.starts_with("gen ");
        let digest = |o: &str| -> Vec<u8> {
            let mut body: Vec<u8> = cmd.as_bytes().to_vec();
            body.push(0); body.extend_from_slice(o.as_bytes());
            for d in &info.dirtying {
                body.push(0);
                match read_or(d) { Some(c) => { body.push(1); body.extend(c); } None => body.push(2) }
            }
            for d in &deps {
                body.push(0); body.push(3);
                let mut name = String::from_utf8_lossy(d).to_string();
                if !name.is_empty() { v::canonicalize_path(&mut name); }
                match read_or(&name) { Some(c) => { body.push(1); body.extend(c); } None => body.push(2) }
            }
            hex16(fnv(&body))
        };
        // `rw ...` commands also rewrite their last dirtying input (content computed from the pre-state)
        let rw_content: Option<(String, Vec<u8>)> = if cmd.starts_with("rw ") {
            info.dirtying.last().map(|n| (n.clone(), digest(n)))
        } else { None };
        let is_split = cmd.starts_with("split ");
        if is_split {
            // the i-th output depends on the i-th dirtying input only (on all of them if there are fewer);
            // an output whose content would not change is left alone, modification time included
            for (i, o) in info.outs.iter().enumerate() {
                let mut body: Vec<u8> = cmd.as_bytes().to_vec();
                body.push(0); body.extend_from_slice(o.as_bytes());
                let rel: Vec<&String> = match info.dirtying.get(i) { Some(d) => vec![d], None => info.dirtying.iter().collect() };
                for d in rel {
                    body.push(0);
                    match read_or(d) { Some(c) => { body.push(1); body.extend(c); } None => body.push(2) }
                }
                let content = hex16(fnv(&body));
                if read_or(o).as_deref() != Some(&content[..]) { write_file(Path::new(o), &content, *clock); }
            }
        }
        for o in info.outs.iter().filter(|_| !is_split) {
            let content = if is_gen {
                info.explicit.first().and_then(|e| read_or(e)).unwrap_or_default()
            } else {
                let mut body: Vec<u8> = cmd.as_bytes().to_vec();
                body.push(0); body.extend_from_slice(o.as_bytes());
                for d in &info.dirtying {
                    body.push(0);
                    match read_or(d) { Some(c) => { body.push(1); body.extend(c); } None => body.push(2) }
                }
                for d in &deps {
                    body.push(0); body.push(3);
                    let mut name = String::from_utf8_lossy(d).to_string();
                    if !name.is_empty() { v::canonicalize_path(&mut name); }
                    match read_or(&name) { Some(c) => { body.push(1); body.extend(c); } None => body.push(2) }
                }
                hex16(fnv(&body))
            };
            write_file(Path::new(o), &content, *clock);
        }
        if let Some((name, content)) = rw_content { write_file(Path::new(&name), &content, *clock); }
        let mut output: Vec<Vec<u8>> = vec![];
        if let Some(dp) = &info.depfile {
            // a Makefile-style depfile, with continuations now and then
            let mut text: Vec<u8> = info.outs[0].as_bytes().to_vec();
            text.push(b':');
            for (i, d) in deps.iter().enumerate() {
                if i % 3 == 2 { text.extend_from_slice(b" \\\n "); } else { text.push(b' '); }
                text.extend_from_slice(d);
            }
            text.push(b'\n');
            write_file(Path::new(dp), &text, *clock);
        }
        if info.showinc {
            let mut o: Vec<u8> = b"compiling\n".to_vec();
            for d in &deps { o.extend_from_slice(b"Note: including file:  "); o.extend_from_slice(d); o.extend_from_slice(b"\r\n"); }
            output.push(o);
        }
        v::Release::Finish { index, termination: v::Termination::Success, output }
    }
}

// ------------------------------------------------------------------ projects
#[derive(Clone)]
struct HStep { outs: Vec<String>, iouts: Vec<String>, rule: String, expl: Vec<String>, impl_: Vec<String>, oo: Vec<String>, val: Vec<String>, flag: String }

#[derive(Clone)]
struct HProj { steps: Vec<HStep>, force: Vec<(String, String)>, generator: bool, gen_last: bool, fragment: bool, rule_suffix: usize, comment: usize, defaults: Vec<String> }

impl HProj {
    fn manifest(&self) -> String {
        let mut s = String::new();
        for _ in 0..self.comment { s.push_str("# edited\n"); }
        let sfx = if self.rule_suffix == 0 { String::new() } else { format!("_{}", self.rule_suffix) };
        s.push_str(&format!("rule plain{sfx}\n  command = plain $flag $in -o $out\n"));
        s.push_str(&format!("rule cc{sfx}\n  command = cc $flag -c $in -o $out\n  depfile = $out.d\n  deps = gcc\n"));
        s.push_str(&format!("rule cl{sfx}\n  command = cl $flag $in $out\n  deps = msvc\n"));
        s.push_str(&format!("rule rsp{sfx}\n  command = link @$out.rsp $out\n  rspfile = $out.rsp\n  rspfile_content = $flag $in\n"));
        s.push_str(&format!("rule rw{sfx}\n  command = rw $flag $in -o $out\n"));
        s.push_str(&format!("rule split{sfx}\n  command = split $flag $in -o $out\n"));
        if !self.fragment { s.push_str("rule gen\n  command = gen $in $out\n"); }
        // the regeneration step first, or last (as CMake writes it): then the manifest is not the
        // first file the text mentions
        if self.generator && !self.gen_last { s.push_str("build build.ninja: gen build.ninja.in\n"); }
        for st in &self.steps {
            s.push_str("build");
            for o in &st.outs { s.push(' '); s.push_str(o); }
            if !st.iouts.is_empty() { s.push_str(" |"); for o in &st.iouts { s.push(' '); s.push_str(o); } }
            s.push_str(": ");
            s.push_str(&if st.rule == "phony" { "phony".to_string() } else { format!("{}{}", st.rule, sfx) });
            for x in &st.expl { s.push(' '); s.push_str(x); }
            if !st.impl_.is_empty() { s.push_str(" |"); for x in &st.impl_ { s.push(' '); s.push_str(x); } }
            if !st.oo.is_empty() { s.push_str(" ||"); for x in &st.oo { s.push(' '); s.push_str(x); } }
            if !st.val.is_empty() { s.push_str(" |@"); for x in &st.val { s.push(' '); s.push_str(x); } }
            s.push('\n');
            if st.rule != "phony" { s.push_str(&format!("  flag = {}\n", st.flag)); }
        }
        if self.generator && self.gen_last { s.push_str("build build.ninja: gen build.ninja.in\n"); }
        if !self.defaults.is_empty() { s.push_str("default"); for d in &self.defaults { s.push(' '); s.push_str(d); } s.push('\n'); }
        s
    }
    fn all_outs(&self) -> Vec<String> { self.steps.iter().flat_map(|s| s.outs.iter().chain(s.iouts.iter()).cloned().collect::<Vec<_>>()).collect() }
}

const NSRC: usize = 4;
const NHDR: usize = 3;

fn gen_hproj(rng: &mut Rng) -> HProj {
    let n = rng.range(2, 6);
    let mut steps: Vec<HStep> = vec![];
    let mut force: Vec<(String, String)> = vec![];
    // a source file that is ALSO declared as the output of an input-less phony step (CMake style)
    let phony_src = rng.chance(1, 4);
    if phony_src {
        steps.push(HStep { outs: vec!["p0".into()], iouts: vec![], rule: "phony".into(), expl: vec![], impl_: vec![], oo: vec![], val: vec![], flag: String::new() });
    }
    for i in 0..n {
        let rule = match rng.below(14) { 0 => "phony", 1..=3 => "plain", 4..=6 => "cc", 7 => "cl", 8 | 9 => "rsp", 10 | 11 => "rw", _ => "split" }.to_string();
        let mut st = HStep { outs: vec![format!("o{}", i)], iouts: vec![], rule, expl: vec![], impl_: vec![], oo: vec![], val: vec![], flag: format!("-f{}", i) };
        if rng.chance(1, 6) || st.rule == "split" { st.outs.push(format!("sub/o{}b", i)); }
        if rng.chance(1, 5) && st.rule != "phony" { st.iouts.push(format!("o{}i", i)); }
        let earlier: Vec<String> = steps.iter().filter(|s| s.rule != "phony").flat_map(|s| s.outs.clone()).collect();
        let earlier_any: Vec<String> = steps.iter().flat_map(|s| s.outs.clone()).collect();
        let pick_src = |rng: &mut Rng| format!("s{}", rng.below(NSRC));
        st.expl.push(if !earlier.is_empty() && rng.chance(1, 2) { earlier[rng.below(earlier.len())].clone() } else { pick_src(rng) });
        if rng.chance(1, 3) || st.rule == "split" { st.expl.push(pick_src(rng)); }
        if phony_src && rng.chance(1, 3) { if rng.chance(1, 2) { st.expl.push("p0".into()); } else { st.impl_.push("p0".into()); } }
        // a command that rewrites an input rewrites a file only it reads: its private cache file
        // `c<i>` (a plain source, or declared as the output of an input-less phony step below)
        if st.rule == "rw" { st.impl_.push(format!("c{}", i)); }
        if rng.chance(1, 4) { st.impl_.push(if !earlier.is_empty() && rng.chance(1, 2) { earlier[rng.below(earlier.len())].clone() } else { pick_src(rng) }); }
        if rng.chance(1, 4) && !earlier_any.is_empty() { st.oo.push(earlier_any[rng.below(earlier_any.len())].clone()); }
        if rng.chance(1, 6) { st.oo.push(format!("h{}", rng.below(NHDR))); }
        // a header that is BOTH an order-only input and (through the first explicit source, if it is
        // a source) a reported dependency of a step that reads dependencies
        if (st.rule == "cc" || st.rule == "cl") && st.expl[0].starts_with('s') && rng.chance(1, 3) {
            let h = format!("h{}", rng.below(NHDR));
            if !st.oo.contains(&h) { st.oo.push(h.clone()); }
            force.push((st.expl[0].clone(), h));
        }
        if rng.chance(1, 8) && !earlier_any.is_empty() { st.val.push(earlier_any[rng.below(earlier_any.len())].clone()); }
        steps.push(st);
    }
    let caches: Vec<String> = steps.iter().filter(|s| s.rule == "rw").map(|s| s.impl_.last().unwrap().clone()).collect();
    for c in caches {
        if rng.chance(1, 2) {
            steps.push(HStep { outs: vec![c], iouts: vec![], rule: "phony".into(), expl: vec![], impl_: vec![], oo: vec![], val: vec![], flag: String::new() });
        }
    }
    let defaults = if rng.chance(1, 3) { vec![format!("o{}", rng.below(n))] } else { vec![] };
    // flavours: plain manifest | classic generator (build.ninja: gen build.ninja.in) | a generated
    // fragment that build.ninja includes, build.ninja itself being a phony output depending on it
    let flavour = rng.below(8);
    HProj { steps, force, generator: flavour < 2, gen_last: rng.chance(1, 2), fragment: flavour == 2, rule_suffix: 0, comment: 0, defaults }
}

fn src_content(rng: &mut Rng, version: usize) -> Vec<u8> {
    let mut s = format!("v{}", version);
    // headers in any order (the order of a step's discovered dependencies is part of what is recorded)
    let mut hs: Vec<usize> = (0..NHDR).collect();
    rng.shuffle(&mut hs);
    for h in hs { if rng.chance(1, 3) { s.push_str(&format!(" #h{}", h)); } }
    if rng.chance(1, 12) { s.push_str(" #./h0"); }
    if rng.chance(1, 12) { s.push_str(" #d/../h1"); }
    if rng.chance(1, 15) { s.push_str(" #gone.h"); }
    // a long report (more than 16 names, as a real compiler's): existing headers under many spellings
    if rng.chance(1, 5) {
        let n = 17 + rng.below(8);
        for k in 0..n { s.push_str(&format!(" #{}h{}", "./".repeat(k % 5 + 1), k % NHDR)); }
    }
    if rng.chance(1, 25) { s.push_str(" !fail"); }
    if rng.chance(1, 80) { s.push_str(" !int"); }
    s.into_bytes()
}

enum Op { W(String, i64, Vec<u8>), D(String), I { par: usize, k: Option<usize>, adopt: bool, targets: Vec<String>, mf: String } }

fn op_tokens(op: &Op) -> String {
    match op {
        Op::W(n, m, c) => format!("W {} {} {}", hex(n.as_bytes()), m, hex(c)),
        Op::D(n) => format!("D {}", hex(n.as_bytes())),
        Op::I { par, k, adopt, targets, mf } => {
            let mut s = format!("I {} {} {} {}", par, k.map(|k| k.to_string()).unwrap_or("-".into()), if *adopt { 1 } else { 0 }, targets.len());
            for t in targets { s.push(' '); s.push_str(&hex(t.as_bytes())); }
            s.push(' '); s.push_str(&hex(mf.as_bytes()));
            s
        }
    }
}

fn norm_result(res: &str) -> String {
    if let Some(h) = res.strip_prefix("err ") {
        let m = String::from_utf8_lossy(&unhex(h).unwrap_or_default()).to_string();
        let kind = if m.starts_with("parse error") { "parse".to_string() }
            else if m.contains("is already an output at") { "dupout".to_string() }
            else if m.contains("unknown rule") { "unknown rule".to_string() }
            else if m.contains("invalid deps attribute") { "invalid deps attribute".to_string() }
            else if m.contains("empty path") { "empty path".to_string() }
            else if m.starts_with("read ") { "read".to_string() }
            else { crate::m_sched::norm_err(&m) };
        format!("err {}", hex(kind.as_bytes()))
    } else { res.to_string() }
}

fn dump_fs() -> String {
    let mut files: Vec<(String, i64, Vec<u8>)> = vec![];
    fn walk(dir: &Path, prefix: &str, out: &mut Vec<(String, i64, Vec<u8>)>) {
        let Ok(rd) = std::fs::read_dir(dir) else { return };
        for e in rd.flatten() {
            let name = e.file_name().to_string_lossy().to_string();
            let rel = if prefix.is_empty() { name.clone() } else { format!("{}/{}", prefix, name) };
            let p = e.path();
            if p.is_dir() { walk(&p, &rel, out); continue; }
            if rel == ".n2_db" || rel.ends_with(".d") || rel.ends_with(".rsp") { continue; }
            use std::os::unix::fs::MetadataExt;
            let m = e.metadata().map(|m| m.mtime()).unwrap_or(0);
            out.push((rel, m, std::fs::read(&p).unwrap_or_default()));
        }
    }
    walk(Path::new("."), "", &mut files);
    files.sort();
    let mut s = format!("FS {}", files.len());
    for (n, m, c) in files { s.push_str(&format!(" {} {} {}", hex(n.as_bytes()), m, hex(&c))); }
    s
}

pub fn run(ctx: &mut Ctx) {
    ctx.crash_safe = true;
    if ctx.replay_cases().is_some() {
        eprintln!("hist replay: re-run with the same VERIF_SEED; the case index is in the replay file");
        return;
    }
    let tp = TempProject::new("hist");
    let nhist = if ctx.thorough() { 8_000 } else { 1_200 };
    for _ in 0..nhist {
        tp.reset();
        let mut rng = Rng(ctx.rng.next());
        let mut proj = gen_hproj(&mut rng);
        let mut clock: i64 = 1_000_000;   // user edits; commands use 5000.. (never collide)
        let mut version = 1usize;
        let mut ops: Vec<Op> = vec![];
        // initial tree
        let manifest_file = |p: &HProj| if p.fragment { "frag.ninja.in" } else if p.generator { "build.ninja.in" } else { "build.ninja" };
        if proj.fragment {
            // the fixed top-level manifest, and a first (empty, older) fragment so that the include works
            clock += 1; ops.push(Op::W("frag.ninja".into(), clock, b"# empty\n".to_vec()));
            clock += 1; ops.push(Op::W("build.ninja".into(), clock,
                b"rule gen\n  command = gen $in $out\nbuild frag.ninja: gen frag.ninja.in\nbuild build.ninja: phony frag.ninja\ninclude frag.ninja\n".to_vec()));
            ctx.count("with_generated_fragment");
        }
        clock += 1; ops.push(Op::W(manifest_file(&proj).to_string(), clock, proj.manifest().into_bytes()));
        if proj.generator {
            // bootstrap: a first manifest that only knows how to regenerate itself
            clock += 1; ops.push(Op::W("build.ninja".into(), clock, b"rule gen\n  command = gen $in $out\nbuild build.ninja: gen build.ninja.in\n".to_vec()));
            // the .in must be newer-or-different anyway: no record yet => dirty
        }
        for i in 0..NSRC {
            clock += 1;
            let mut c = src_content(&mut rng, version);
            for (src, h) in &proj.force { if *src == format!("s{}", i) && !c.windows(h.len() + 1).any(|w| w[0] == b'#' && &w[1..] == h.as_bytes()) { c.extend_from_slice(format!(" #{}", h).as_bytes()); } }
            ops.push(Op::W(format!("s{}", i), clock, c));
        }
        if !proj.force.is_empty() { ctx.count("with_orderonly_and_reported_header"); }
        for st in proj.steps.iter().filter(|s| s.rule == "rw") {
            clock += 1; ops.push(Op::W(st.impl_.last().unwrap().clone(), clock, b"cache".to_vec())); ctx.count("rw_steps");
        }
        for _ in proj.steps.iter().filter(|s| s.rule == "split") { ctx.count("split_steps"); }
        let has_p0 = proj.steps.iter().any(|s| s.outs.iter().any(|o| o == "p0"));
        if has_p0 { clock += 1; ops.push(Op::W("p0".into(), clock, b"cache v1".to_vec())); ctx.count("with_phony_declared_source"); }
        for i in 0..NHDR { if !rng.chance(1, 8) { clock += 1; ops.push(Op::W(format!("h{}", i), clock, format!("hdr{}", i).into_bytes())); } }
        let mut removed: Vec<String> = vec![];
        let nops = rng.range(4, 14);
        let mut last_was_invoke = false;
        for step in 0..nops {
            let r = if step == 0 { 0 } else { rng.below(100) };
            if r < 40 {
                let mut targets = vec![];
                if rng.chance(1, 3) { let outs = proj.all_outs(); if !outs.is_empty() { targets.push(outs[rng.below(outs.len())].clone()); } }
                if rng.chance(1, 30) { targets.push("./o0".into()); }
                // names the manifest no longer (or never) declares but the build log may know: outputs of
                // removed steps, headers known only from depfiles
                if rng.chance(1, 12) && !removed.is_empty() { targets.push(removed[rng.below(removed.len())].clone()); ctx.count("target_removed_output"); }
                if rng.chance(1, 40) { targets.push(format!("h{}", rng.below(NHDR))); }
                // the manifest named by `-f` under different spellings of the same file
                let mf = match rng.below(12) { 0 => "./build.ninja", 1 => "zz/../build.ninja", _ => "build.ninja" }.to_string();
                ops.push(Op::I { par: rng.range(1, 3), k: if rng.chance(1, 3) { Some(rng.range(1, 2)) } else { None }, adopt: rng.chance(1, 30), targets, mf });
                if rng.chance(1, 2) && !last_was_invoke {
                    // immediately again: must be a no-op after a success
                    ops.push(Op::I { par: 2, k: None, adopt: false, targets: vec![], mf: "build.ninja".into() });
                }
                last_was_invoke = true;
                continue;
            }
            last_was_invoke = false;
            version += 1;
            clock += 1;
            // now and then a file is replaced by an OLDER copy: its modification time goes backwards
            // (to a value it does not have now - a content change still comes with an mtime change)
            let mut stamp = |rng: &mut Rng, name: &str, ctx: &mut Ctx| -> i64 {
                let cur = ops.iter().rev().find_map(|o| match o { Op::W(n, m, _) if n == name => Some(*m), _ => None });
                if clock > 3 && rng.chance(1, 6) {
                    let t = 1 + rng.below((clock - 1) as usize) as i64;
                    if Some(t) != cur { ctx.count("edits_with_older_mtime"); return t; }
                }
                clock
            };
            if r < 55 {
                if has_p0 && rng.chance(1, 5) { ops.push(Op::W("p0".into(), clock, format!("cache v{}", version).into_bytes())); }
                else { let i = rng.below(NSRC); let n = format!("s{}", i); let t = stamp(&mut rng, &n, ctx); ops.push(Op::W(n, t, src_content(&mut rng, version))); }
            }
            else if r < 62 { let i = rng.below(NHDR); let n = format!("h{}", i); let t = stamp(&mut rng, &n, ctx); ops.push(Op::W(n, t, format!("hdr{}v{}", i, version).into_bytes())); }
            else if r < 66 {
                // prefer a header that some step also names as an order-only input (a discovered
                // dependency that is an ordering input as well must still only make the step dirty)
                let oo: Vec<String> = proj.steps.iter().flat_map(|s| s.oo.iter().filter(|x| x.starts_with('h')).cloned().collect::<Vec<_>>()).collect();
                if !oo.is_empty() && rng.chance(1, 2) { ops.push(Op::D(oo[rng.below(oo.len())].clone())); }
                else { ops.push(Op::D(format!("h{}", rng.below(NHDR)))); }
            }
            else if r < 69 { ops.push(Op::D(format!("s{}", rng.below(NSRC)))); }
            else if r < 77 { let outs = proj.all_outs(); if !outs.is_empty() { ops.push(Op::D(outs[rng.below(outs.len())].clone())); } }
            else if r < 82 { let outs = proj.all_outs(); if !outs.is_empty() { ops.push(Op::W(outs[rng.below(outs.len())].clone(), clock, b"tampered".to_vec())); } }
            else {
                // manifest edit
                match rng.below(11) {
                    8 | 9 | 10 => {
                        // a new step that names a header explicitly, placed first or last: headers so far
                        // known only from depfiles/the log now get their ids from the manifest
                        let st = HStep { outs: vec![format!("x{}", version)], iouts: vec![], rule: "plain".into(),
                            expl: vec![format!("h{}", rng.below(NHDR))], impl_: vec![], oo: vec![], val: vec![], flag: "-x".into() };
                        if rng.chance(1, 2) { proj.steps.insert(0, st); } else { proj.steps.push(st); }
                    }
                    7 => {
                        // drop the last explicit input of a step that has several ($in and rspfile content shrink)
                        let cands: Vec<usize> = (0..proj.steps.len()).filter(|i| proj.steps[*i].expl.len() > 1).collect();
                        if !cands.is_empty() { let i = cands[rng.below(cands.len())]; proj.steps[i].expl.pop(); }
                    }
                    6 => {
                        // change, add or drop the `default` statement
                        let outs: Vec<String> = proj.steps.iter().map(|s| s.outs[0].clone()).collect();
                        proj.defaults = if rng.chance(1, 3) || outs.is_empty() { vec![] } else { vec![outs[rng.below(outs.len())].clone()] };
                    }
                    0 => { proj.comment += 1; }
                    1 => { proj.rule_suffix += 1; }
                    2 => { if proj.steps.len() > 1 { let a = rng.below(proj.steps.len() - 1); proj.steps.swap(a, a + 1);
                            // keep references pointing backwards only where needed: a swap may create forward refs (fine: still acyclic)
                          } }
                    3 => {
                        // change a flag: longer, or shorter than before (response-file content shrinks); prefer rspfile steps
                        let rsp: Vec<usize> = (0..proj.steps.len()).filter(|i| proj.steps[*i].rule == "rsp").collect();
                        let i = if !rsp.is_empty() && rng.chance(1, 2) { rsp[rng.below(rsp.len())] } else { rng.below(proj.steps.len()) };
                        proj.steps[i].flag = if rng.chance(1, 2) { format!("-g{}", version) } else { "-s".to_string() };
                    }
                    4 => { if proj.steps.len() > 2 { let i = rng.below(proj.steps.len()); let gone = proj.steps.remove(i);
                            removed.extend(gone.outs.iter().cloned());
                            proj.defaults.retain(|d| !gone.outs.contains(d));
                            for st in proj.steps.iter_mut() { for l in [&mut st.expl, &mut st.impl_, &mut st.oo, &mut st.val] { for x in l.iter_mut() { if gone.outs.contains(x) && !x.starts_with('c') { *x = "s0".into(); } } } } } }
                    _ => { let i = rng.below(proj.steps.len()); if proj.steps[i].rule != "phony" { proj.steps[i].impl_.insert(0, format!("s{}", rng.below(NSRC))); } }
                }
                ops.push(Op::W(manifest_file(&proj).to_string(), clock, proj.manifest().into_bytes()));
            }
        }
        if !matches!(ops.last(), Some(Op::I { .. })) { ops.push(Op::I { par: 2, k: None, adopt: false, targets: vec![], mf: "build.ninja".into() }); }
        let mut case = format!("hist {}", ops.len());
        for op in &ops { case.push(' '); case.push_str(&op_tokens(op)); }
        let ninv = ops.iter().filter(|o| matches!(o, Op::I { .. })).count();
        ctx.count("histories"); ctx.add("invocations", ninv as u64);
        if proj.generator { ctx.count("with_generator"); }
        let exec_seed = rng.next();
        ctx.emit(&case, || {
            let mut parts: Vec<String> = vec![];
            let mut logs: Vec<String> = vec![];
            let clk = Arc::new(Mutex::new(5000i64));
            let mut erng = Rng(exec_seed);
            for op in &ops {
                match op {
                    Op::W(n, m, c) => { write_file(Path::new(n), c, *m); }
                    Op::D(n) => { let _ = std::fs::remove_file(n); }
                    Op::I { par, k, adopt, targets, mf } => {
                        let steps = match std::panic::catch_unwind(|| { v::pause_event_log(true); let r = v::load_read("build.ninja"); v::pause_event_log(false); r }) {
                            Ok(Ok(st)) => steps_of(&st),
                            _ => { v::pause_event_log(false); HashMap::new() }
                        };
                        let exec = HistExec { rng: Rng(erng.next()), steps, clock: clk.clone(), manifest_mtime: manifest_mtime() };
                        let options = v::Options { failures_left: *k, parallelism: *par, explain: false, adopt: *adopt };
                        v::take_events();
                        v::set_progress_override(Some(&REC_PROGRESS));
                        v::set_executor(Some(Box::new(exec)));
                        let tickets_before = v::exec_tickets();
                        let r = std::panic::catch_unwind(std::panic::AssertUnwindSafe(|| v::verif_build(options, Some(mf.clone()), targets.clone())));
                        let evs = v::take_events();
                        let started = evs.iter().filter(|e| matches!(e, v::Event::Note(t) if t.starts_with("B "))).count() as u64;
                        let deadline = std::time::Instant::now() + std::time::Duration::from_secs(10);
                        while v::exec_tickets() - tickets_before < started && std::time::Instant::now() < deadline { std::thread::yield_now(); }
                        v::set_executor(None);
                        v::set_progress_override(None);
                        let res = match r {
                            Ok(Ok(Some(n))) => format!("ok {}", n),
                            Ok(Ok(None)) => "fail".to_string(),
                            Ok(Err(e)) => format!("err {}", hex(e.to_string().as_bytes())),
                            Err(p) => format!("panic {}", hex(panic_message(p).as_bytes())),
                        };
                        let (n, toks) = events_to_tokens(&evs, &["U ", "B ", "F ", "R"]);
                        parts.push(format!("INV {} T {}{} {}", norm_result(&res), n, toks, dump_fs()));
                        logs.push(format!("LOG {}", hex(&std::fs::read(".n2_db").unwrap_or_default())));
                    }
                }
            }
            format!("{} %% {}", parts.join(" ; "), logs.join(" "))
        });
        let an = take_anomalies();
        ctx.emit_anomalies(&format!("hist {}", ctx.index - 1), an);
    }
}
