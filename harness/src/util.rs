use std::collections::BTreeMap;
use std::io::Write;

pub struct Rng(pub u64);
impl Rng {
    pub fn next(&mut self) -> u64 {
        self.0 = self.0.wrapping_add(0x9E3779B97F4A7C15);
        let mut z = self.0;
        z = (z ^ (z >> 30)).wrapping_mul(0xBF58476D1CE4E5B9);
        z = (z ^ (z >> 27)).wrapping_mul(0x94D049BB133111EB);
        z ^ (z >> 31)
    }
    pub fn below(&mut self, n: usize) -> usize {
        if n == 0 { 0 } else { (self.next() % n as u64) as usize }
    }
    pub fn range(&mut self, lo: usize, hi: usize) -> usize {
        lo + self.below(hi - lo + 1)
    }
    pub fn chance(&mut self, num: usize, den: usize) -> bool {
        self.below(den) < num
    }
    pub fn pick<'a, T>(&mut self, xs: &'a [T]) -> &'a T {
        &xs[self.below(xs.len())]
    }
    pub fn shuffle<T>(&mut self, xs: &mut [T]) {
        for i in (1..xs.len()).rev() {
            let j = self.below(i + 1);
            xs.swap(i, j);
        }
    }
}

pub fn hex(b: &[u8]) -> String {
    if b.is_empty() {
        return "-".into();
    }
    let mut s = String::with_capacity(b.len() * 2);
    for x in b {
        s.push_str(&format!("{:02x}", x));
    }
    s
}

pub fn unhex(s: &str) -> Option<Vec<u8>> {
    if s == "-" {
        return Some(vec![]);
    }
    if s.len() % 2 != 0 {
        return None;
    }
    (0..s.len() / 2)
        .map(|i| u8::from_str_radix(&s[2 * i..2 * i + 2], 16).ok())
        .collect()
}

pub fn panic_message(e: Box<dyn std::any::Any + Send>) -> String {
    if let Some(s) = e.downcast_ref::<&str>() {
        s.to_string()
    } else if let Some(s) = e.downcast_ref::<String>() {
        s.clone()
    } else {
        "?".into()
    }
}

/// Per-run context: writes cases/impl lines, keeps distribution counters.
pub struct Ctx {
    pub rng: Rng,
    pub seed: u64,
    pub tier: String,
    pub skip: usize,
    pub index: usize,
    cases: std::fs::File,
    imp: std::fs::File,
    outdir: std::path::PathBuf,
    pub stats: BTreeMap<String, u64>,
    pub crash_safe: bool,
    cbuf: Vec<u8>,
    ibuf: Vec<u8>,
}

impl Ctx {
    pub fn new(outdir: &std::path::Path, seed: u64, tier: &str, skip: usize) -> Ctx {
        std::fs::create_dir_all(outdir).unwrap();
        let open = |name: &str| {
            std::fs::OpenOptions::new()
                .create(true)
                .append(skip > 0)
                .write(true)
                .truncate(skip == 0)
                .open(outdir.join(name))
                .unwrap()
        };
        Ctx {
            rng: Rng(seed),
            seed,
            tier: tier.to_string(),
            skip,
            index: 0,
            cases: open("cases.txt"),
            imp: open("impl.txt"),
            outdir: outdir.to_path_buf(),
            stats: BTreeMap::new(),
            crash_safe: false,
            cbuf: Vec::new(),
            ibuf: Vec::new(),
        }
    }
    /// Case lines to run instead of generating (replay of a recorded case), if requested.
    pub fn replay_cases(&self) -> Option<Vec<String>> {
        let p = std::env::var("N2V_REPLAY").ok()?;
        let text = std::fs::read_to_string(p).ok()?;
        Some(text.lines().filter(|l| !l.trim().is_empty()).map(|l| l.to_string()).collect())
    }
    /// Corpus of minimised past cases for `mode` (run first).
    pub fn corpus_cases(&self, mode: &str) -> Vec<String> {
        let Ok(dir) = std::env::var("N2V_CORPUS") else { return vec![] };
        let p = std::path::Path::new(&dir).join(format!("{mode}.txt"));
        match std::fs::read_to_string(p) {
            Ok(text) => text.lines().filter(|l| !l.trim().is_empty() && !l.starts_with('#')).map(|l| l.to_string()).collect(),
            Err(_) => vec![],
        }
    }
    pub fn thorough(&self) -> bool {
        self.tier == "thorough"
    }
    pub fn count(&mut self, key: &str) {
        *self.stats.entry(key.to_string()).or_insert(0) += 1;
    }
    pub fn add(&mut self, key: &str, n: u64) {
        *self.stats.entry(key.to_string()).or_insert(0) += n;
    }
    /// Emit one case.  `case` is the driver input line; `run` produces the observed line.
    /// With `crash_safe`, the case line is flushed before `run` so that a dying process
    /// identifies its culprit (impl.txt then has one line fewer than cases.txt).
    pub fn emit(&mut self, case: &str, run: impl FnOnce() -> String) {
        let i = self.index;
        self.index += 1;
        if i < self.skip {
            return;
        }
        debug_assert!(!case.contains('\n'));
        self.cbuf.extend_from_slice(case.as_bytes());
        self.cbuf.push(b'\n');
        if self.crash_safe {
            self.flush_cases();
        }
        let mut out = run();
        if out.contains('\n') {
            out = out.replace('\n', "\\n");
        }
        self.ibuf.extend_from_slice(out.as_bytes());
        self.ibuf.push(b'\n');
        if self.crash_safe || self.ibuf.len() > 1 << 16 {
            self.flush_all();
        }
    }
    fn flush_cases(&mut self) {
        self.cases.write_all(&self.cbuf).unwrap();
        self.cbuf.clear();
    }
    fn flush_all(&mut self) {
        self.flush_cases();
        self.imp.write_all(&self.ibuf).unwrap();
        self.ibuf.clear();
    }
    /// Extra case line carrying the anomalies the real code exhibited during the previous case.
    pub fn emit_anomalies(&mut self, origin: &str, anomalies: Vec<String>) {
        let impl_line = if anomalies.is_empty() { "none".to_string() } else { anomalies.join(" ") };
        self.emit(&format!("anomalies {}", origin), || impl_line);
    }

    pub fn finish(&mut self) {
        self.flush_all();
        let mut s = String::from("{");
        let mut first = true;
        for (k, v) in &self.stats {
            if !first {
                s.push(',');
            }
            first = false;
            s.push_str(&format!("\"{}\":{}", k, v));
        }
        s.push('}');
        std::fs::write(self.outdir.join("stats.json"), s).unwrap();
        std::fs::write(self.outdir.join("done"), format!("{}\n", self.index)).unwrap();
    }
}
