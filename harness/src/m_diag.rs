//! Diagnostics of the REAL binary that quote a string taken from the manifest or the command
//! line (C12: "either proceeds or reports an `n2: error:` diagnostic and exits 1; never
//! panics"). Every position in which n2 formats such a string is filled with byte strings that
//! are awkward to format: truncated / overlong / surrogate UTF-8, lone continuation bytes, 0xff,
//! quotes, backslashes, control and non-printable characters.
//!
//! case line:  n2bin diag <tag> <hex awkward string> <hex manifest> <hex argv or ->
//! impl line:  code=<exit code or -1> error=<0|1> panic=<0|1>
use crate::proj::TempProject;
use crate::util::{hex, Ctx};
use std::os::unix::ffi::OsStrExt;
use std::process::Command;

pub const AWKWARD: [&[u8]; 18] = [
    b"\xc3", b"\xe6\x97", b"\xf0\x9f\x98", b"\x97", b"\xc0\xaf", b"\xff", b"\xed\xa0\x80", b"\xf4\x90\x80\x80",
    b"\xc3\xa9", b"\xe6\x97\xa5", b"\xf0\x9f\x98\x80", b"\"", b"\\", b"\x01", b"\x7f", b"\xc2\x80", b"\xe2\x80\x8f", b"'",
];

pub fn manifest_for(tag: &str, a: &[u8]) -> (Vec<u8>, Option<Vec<u8>>) {
    let mut m: Vec<u8> = vec![];
    let mut argv = None;
    let p = |m: &mut Vec<u8>, s: &str| m.extend_from_slice(s.as_bytes());
    match tag {
        "dupacross" => { p(&mut m, "build "); m.extend_from_slice(a); p(&mut m, ": phony\nbuild other "); m.extend_from_slice(a); p(&mut m, ": phony\n"); }
        "dupwithin" => { p(&mut m, "rule r\n  command = true\nbuild "); m.extend_from_slice(a); p(&mut m, " "); m.extend_from_slice(a); p(&mut m, ": r\n"); }
        "deps" => { p(&mut m, "rule r\n  command = true\n  deps = "); m.extend_from_slice(a); p(&mut m, "\nbuild o: r\n"); }
        "pool" => { p(&mut m, "rule r\n  command = true\n  pool = "); m.extend_from_slice(a); p(&mut m, "\nbuild o: r\n"); }
        "include" => { p(&mut m, "include "); m.extend_from_slice(a); p(&mut m, "\n"); }
        "subninja" => { p(&mut m, "subninja "); m.extend_from_slice(a); p(&mut m, "\n"); }
        "input" => { p(&mut m, "rule r\n  command = true\nbuild o: r "); m.extend_from_slice(a); p(&mut m, "\n"); }
        "argv" => { p(&mut m, "rule r\n  command = true\nbuild o: r\n"); argv = Some(a.to_vec()); }
        "desc" => { p(&mut m, "rule r\n  command = false\n  description = "); m.extend_from_slice(a); p(&mut m, "\nbuild o: r\n"); }
        "cmd" => { p(&mut m, "rule r\n  command = false # "); m.extend_from_slice(a); p(&mut m, "\nbuild o: r\n"); }
        "depfile" => { p(&mut m, "rule r\n  command = true\n  depfile = "); m.extend_from_slice(a); p(&mut m, "\nbuild o: r\n"); }
        "rule" => { p(&mut m, "build o: "); m.extend_from_slice(a); p(&mut m, "\n"); }
        _ => {}
    }
    (m, argv)
}

pub const TAGS: [&str; 12] = ["dupacross", "dupwithin", "deps", "pool", "include", "subninja", "input", "argv", "desc", "cmd", "depfile", "rule"];

fn run_bin(bin: &str, manifest: &[u8], argv: &Option<Vec<u8>>) -> String {
    std::fs::write("build.ninja", manifest).unwrap();
    let mut c = Command::new(bin);
    if let Some(a) = argv { c.arg(std::ffi::OsStr::from_bytes(a)); }
    c.env("RUST_BACKTRACE", "0");
    let Ok(o) = c.output() else { return "spawn-failed".into() };
    let find = |hay: &[u8], n: &[u8]| hay.windows(n.len()).any(|w| w == n);
    let error = find(&o.stdout, b"n2: error:") || find(&o.stderr, b"n2: error:");
    let panic = find(&o.stderr, b"panicked") || o.status.code().is_none() || o.status.code() == Some(101);
    format!("code={} error={} panic={}", o.status.code().unwrap_or(-1), error as u8, panic as u8)
}

pub fn run(ctx: &mut Ctx) {
    // one line per case on disk before the binary runs: the watchdog of ./check looks at file growth
    ctx.crash_safe = true;
    let Ok(bin) = std::env::var("N2V_N2BIN") else { return };
    let tp = TempProject::new("diag");
    if let Some(cases) = ctx.replay_cases() {
        for c in cases {
            let t: Vec<&str> = c.split(' ').collect();
            if t.len() == 6 && t[0] == "n2bin" && t[1] == "diag" {
                let m = crate::util::unhex(t[4]).unwrap_or_default();
                let argv = if t[5] == "-" { None } else { crate::util::unhex(t[5]) };
                ctx.emit(&c, || { tp.reset(); run_bin(&bin, &m, &argv) });
            }
        }
        return;
    }
    let mut strings: Vec<Vec<u8>> = vec![];
    for a in AWKWARD {
        strings.push(a.to_vec());
        let mut v = b"out".to_vec(); v.extend_from_slice(a); strings.push(v);
        let mut v = a.to_vec(); v.extend_from_slice(b"x"); strings.push(v);
    }
    if ctx.thorough() {
        for _ in 0..400 {
            let n = ctx.rng.range(1, 6);
            let mut v = vec![];
            for _ in 0..n { v.extend_from_slice(*ctx.rng.pick(&AWKWARD)); if ctx.rng.chance(1, 3) { v.push(b'a' + ctx.rng.below(26) as u8); } }
            strings.push(v);
        }
    }
    // command lines: whatever the arguments, a diagnostic or a normal outcome, never a panic
    let clis: Vec<Vec<&[u8]>> = vec![
        vec![b"-j", b"0"], vec![b"-j", b"1"], vec![b"-j", b"abc"], vec![b"-j"], vec![b"-j", b"-1"], vec![b"-j", b"99999999999999999999"],
        vec![b"-k", b"1"], vec![b"-k", b"2"], vec![b"-k", b"abc"], vec![b"-k"], vec![b"-k", b"-1"],
        vec![b"-f", b"nosuch.ninja"], vec![b"-f", b"."], vec![b"-f", b""], vec![b"-f"], vec![b"-f", b"build.ninja", b"-f", b"build.ninja"],
        vec![b"-C", b"nosuchdir"], vec![b"-C", b"."], vec![b"-C"], vec![b"-C", b"build.ninja"],
        vec![b"-t", b"list"], vec![b"-t", b"bogus"], vec![b"-t"], vec![b"-t", b"restat"], vec![b"-d", b"list"], vec![b"-d", b"bogus"], vec![b"-d", b"explain"],
        vec![b"--version"], vec![b"-h"], vec![b"--help"], vec![b"--bogus"], vec![b"-x"], vec![b"-v"],
        vec![b"o", b"o"], vec![b"o", b"nosuch"], vec![b""], vec![b"./o"], vec![b"o/"], vec![b"-"], vec![b"--"], vec![b"--", b"-j"],
        vec![b"\xff"], vec![b"-f", b"\xff"], vec![b"-C", b"\xff"], vec![b"-j", b"\xff"],
    ];
    for args in &clis {
        let joined: Vec<u8> = args.iter().map(|a| a.to_vec()).collect::<Vec<_>>().join(&0u8);
        ctx.count("diag_cli");
        let case = format!("n2bin cli {}", if joined.is_empty() { "-".to_string() } else { hex(&joined) });
        let bin2 = bin.clone();
        let args2: Vec<Vec<u8>> = args.iter().map(|a| a.to_vec()).collect();
        ctx.emit(&case, || {
            tp.reset();
            std::fs::write("build.ninja", b"rule r\n  command = true\nbuild o: r\n").unwrap();
            let mut c = Command::new(&bin2);
            for a in &args2 { c.arg(std::ffi::OsStr::from_bytes(a)); }
            c.env("RUST_BACKTRACE", "0");
            let Ok(o) = c.output() else { return "spawn-failed".into() };
            let find = |hay: &[u8], n: &[u8]| hay.windows(n.len()).any(|w| w == n);
            let error = find(&o.stdout, b"n2: error:") || find(&o.stderr, b"n2: error:");
            let panic = find(&o.stderr, b"panicked") || o.status.code().is_none() || o.status.code() == Some(101);
            format!("code={} error={} panic={}", o.status.code().unwrap_or(-1), error as u8, panic as u8)
        });
    }
    for tag in TAGS {
        for a in &strings {
            // a backslash / quote has no special meaning in a manifest, but '#' text and command
            // lines go through sh: keep the shell out of it (the strings sit inside a comment)
            let (m, argv) = manifest_for(tag, a);
            ctx.count(&format!("diag_{}", tag));
            let case = format!("n2bin diag {} {} {} {}", tag, hex(a), hex(&m), argv.as_ref().map(|v| hex(v)).unwrap_or("-".into()));
            ctx.emit(&case, || { tp.reset(); run_bin(&bin, &m, &argv) });
        }
    }
}
