//! C10 / C11 / C12 / C14: the real loader (load::read) on generated manifests.
//!   - abstract manifests rendered under two random spellings (`loadpair`)
//!   - duplicate-output injection
//!   - malformed inputs: exhaustive short token strings, mutated valid manifests, raw bytes
use crate::proj::*;
use crate::util::*;
use n2::verif as v;
use n2::verif::DenseIndex;
use std::io::Write;

// ---------------------------------------------------------------- abstract manifests
#[derive(Clone, Debug)]
pub enum Tok { Lit(String), Var(String) }
pub type Val = Vec<Tok>;

#[derive(Clone, Debug, Default)]
pub struct ABuild {
    pub outs: Vec<Val>, pub n_eo: usize, pub rule: String,
    pub ins: [Vec<Val>; 4], pub vars: Vec<(String, Val)>,
}
#[derive(Clone, Debug)]
pub enum AStmt {
    Bind(String, Val), Rule(String, Vec<(String, Val)>), Build(ABuild), Default(Vec<Val>),
    Pool(String, String), Include(usize, bool), Comment(String), Blank,
}
#[derive(Clone, Debug, Default)]
pub struct AManifest { pub files: Vec<(String, Vec<AStmt>)> }

fn is_name_char(c: char) -> bool { c.is_ascii_alphanumeric() || c == '_' || c == '-' }

/// Render a value/path.  `path`: blanks, ':' must be escaped ('|' never appears in literals).
fn render_val(rng: &mut Rng, v: &Val, path: bool, noise: bool) -> String {
    let mut s = String::new();
    for (i, t) in v.iter().enumerate() {
        match t {
            Tok::Lit(l) => {
                for (j, c) in l.chars().enumerate() {
                    match c {
                        '$' => s.push_str("$$"),
                        ' ' if path || (i == 0 && j == 0) => s.push_str("$ "),
                        ':' if path => s.push_str("$:"),
                        ' ' | ':' if noise && rng.chance(1, 6) => { s.push('$'); s.push(c); }
                        _ => s.push(c),
                    }
                    // a `$`-newline in the middle of a token: empty literal + skipped indent.  Not
                    // before a literal blank (the indent skipping would eat it) and not at the very
                    // end of the value (it would eat the separator that follows).
                    let next_is_blank = l.chars().nth(j + 1) == Some(' ');
                    let last = j + 1 == l.chars().count();
                    if noise && !next_is_blank && !last && rng.chance(1, 25) {
                        s.push_str("$\n");
                        for _ in 0..rng.below(4) { s.push(' '); }
                    }
                }
            }
            Tok::Var(n) => {
                // what follows decides whether `$name` is unambiguous
                let next = match v.get(i + 1) {
                    Some(Tok::Lit(l)) => l.chars().next(),
                    _ => None,
                };
                let simple_ok = n.chars().all(is_name_char) && !n.is_empty() && !next.map_or(false, is_name_char);
                if simple_ok && !(noise && rng.chance(1, 2)) { s.push('$'); s.push_str(n); }
                else { s.push_str("${"); s.push_str(n); s.push('}'); }
            }
        }
    }
    s
}

fn gap(rng: &mut Rng, min: usize, noise: bool) -> String {
    let mut s = String::new();
    let n = min + if noise && rng.chance(1, 3) { rng.below(3) } else { 0 };
    for _ in 0..n { s.push(' '); }
    if noise && rng.chance(1, 8) {
        s.push_str("$\n");
        for _ in 0..rng.below(5) { s.push(' '); }
        // after a continuation the minimum separation is already there (newline ends nothing)
        if min > 0 && s.trim_end_matches(' ').ends_with("$\n") && !s.ends_with(' ') && rng.chance(1, 2) { s.push(' '); }
    }
    s
}

fn render_vars(rng: &mut Rng, vars: &[(String, Val)], noise: bool) -> String {
    let mut s = String::new();
    for (k, val) in vars {
        let ind = 1 + if noise { rng.below(4) } else { 1 };
        for _ in 0..ind { s.push(' '); }
        s.push_str(k);
        s.push_str(&gap(rng, if noise { 0 } else { 1 }, noise));
        s.push('=');
        s.push_str(&gap(rng, if noise { 0 } else { 1 }, noise));
        s.push_str(&render_val(rng, val, false, noise));
        s.push('\n');
    }
    s
}

pub fn render(rng: &mut Rng, m: &AManifest, noise: bool) -> Vec<(String, Vec<u8>)> {
    let mut out = vec![];
    for (name, stmts) in &m.files {
        let mut s = String::new();
        for st in stmts {
            if noise && rng.chance(1, 10) { s.push('\n'); }
            if noise && rng.chance(1, 15) { s.push_str(*rng.pick(&["# noise comment $x ${ | :\n", "# costs 5 US$\n", "# escaped $$\n", "#$\n", "#\n"])); }
            match st {
                AStmt::Blank => s.push('\n'),
                AStmt::Comment(c) => { s.push('#'); s.push_str(c); s.push('\n'); }
                AStmt::Bind(k, val) => {
                    s.push_str(k);
                    s.push_str(&gap(rng, if noise { 0 } else { 1 }, noise));
                    s.push('=');
                    s.push_str(&gap(rng, if noise { 0 } else { 1 }, noise));
                    s.push_str(&render_val(rng, val, false, noise));
                    s.push('\n');
                }
                AStmt::Rule(n, vars) => { s.push_str("rule"); s.push_str(&gap(rng, 1, noise)); s.push_str(n); s.push('\n'); s.push_str(&render_vars(rng, vars, noise)); }
                AStmt::Pool(n, d) => { s.push_str("pool"); s.push_str(&gap(rng, 1, noise)); s.push_str(n); s.push('\n'); if !d.is_empty() { s.push_str(&render_vars(rng, &[("depth".into(), vec![Tok::Lit(d.clone())])], noise)); } }
                AStmt::Default(ps) => { s.push_str("default"); for p in ps { s.push_str(&gap(rng, 1, noise)); s.push_str(&render_val(rng, p, true, noise)); } s.push_str(&gap(rng, 0, noise)); s.push('\n'); }
                AStmt::Include(idx, sub) => { s.push_str(if *sub { "subninja" } else { "include" }); s.push_str(&gap(rng, 1, noise)); s.push_str(&m.files[*idx].0); s.push('\n'); }
                AStmt::Build(b) => {
                    s.push_str("build");
                    for (i, o) in b.outs.iter().enumerate() {
                        if i == b.n_eo { s.push_str(&gap(rng, 0, noise)); s.push('|'); s.push_str(&gap(rng, 0, noise)); if !s.ends_with(' ') && false { s.push(' '); } }
                        else { s.push_str(&gap(rng, 1, noise)); }
                        if i == b.n_eo && !s.ends_with(' ') { /* '|' directly followed by the path is fine */ }
                        s.push_str(&render_val(rng, o, true, noise));
                    }
                    s.push_str(&gap(rng, 0, noise));
                    s.push(':');
                    s.push_str(&gap(rng, if noise { 0 } else { 1 }, noise));
                    s.push_str(&b.rule);
                    let seps = ["", "|", "||", "|@"];
                    for (k, sec) in b.ins.iter().enumerate() {
                        if sec.is_empty() { continue; }
                        if k > 0 { s.push_str(&gap(rng, if noise { 0 } else { 1 }, noise)); s.push_str(seps[k]); }
                        for (j, p) in sec.iter().enumerate() {
                            s.push_str(&gap(rng, if k > 0 && j == 0 && noise { 0 } else { 1 }, noise));
                            s.push_str(&render_val(rng, p, true, noise));
                        }
                    }
                    s.push_str(&gap(rng, 0, noise));
                    s.push('\n');
                    s.push_str(&render_vars(rng, &b.vars, noise));
                }
            }
        }
        out.push((name.clone(), s.into_bytes()));
    }
    out
}

fn gen_lit(rng: &mut Rng, pathy: bool) -> String {
    let pool: [&str; 14] = ["a", "b", "src/x.c", "o", "é", "日本", "w x", "c:d", "p$q", "./e", "d/../f", "g.h", "out-1_2", "-"];
    let mut s = pool[rng.below(pool.len())].to_string();
    if rng.chance(1, 3) { s.push_str(&format!("{}", rng.below(20))); }
    if !pathy && rng.chance(1, 4) { s.push_str(" -flag"); }
    s
}

fn gen_val(rng: &mut Rng, vars: &[String], pathy: bool) -> Val {
    let n = rng.range(1, 3);
    let mut v = vec![];
    for _ in 0..n {
        if !vars.is_empty() && rng.chance(1, 3) { v.push(Tok::Var(vars[rng.below(vars.len())].clone())); }
        else if rng.chance(1, 15) { v.push(Tok::Var("undefined_var".into())); }
        else { v.push(Tok::Lit(gen_lit(rng, pathy))); }
    }
    if v.iter().all(|t| matches!(t, Tok::Var(_))) && pathy { v.push(Tok::Lit(gen_lit(rng, true))); }
    v
}

pub fn gen_manifest(rng: &mut Rng, dup_outputs: bool) -> AManifest {
    let mut m = AManifest::default();
    let nsub = if rng.chance(1, 3) { rng.range(1, 2) } else { 0 };
    m.files.push(("build.ninja".into(), vec![]));
    for i in 0..nsub { m.files.push((format!("sub{}.ninja", i), vec![])); }
    let mut filevars: Vec<String> = vec![];
    let mut rules: Vec<String> = vec!["phony".into()];
    let mut outputs: Vec<String> = vec![];
    let mut counter = 0;
    let nstmt = rng.range(3, 10);
    let mut included = vec![false; nsub + 1];
    for _ in 0..nstmt {
        // which file does this statement go to
        let fidx = if nsub > 0 && rng.chance(1, 3) { rng.range(1, nsub) } else { 0 };
        let st = match rng.below(12) {
            0 | 1 => {
                let names = ["x", "y", "cflags", "builddir", "x.y", "v-1"];
                let k = names[rng.below(names.len())].to_string();
                let val = if rng.chance(1, 10) { vec![] } else { gen_val(rng, &filevars, false) };
                if !filevars.contains(&k) { filevars.push(k.clone()); }
                AStmt::Bind(k, val)
            }
            2 | 3 => {
                let name = format!("r{}{}", counter, ["", ".x", "-y"][rng.below(3)]); counter += 1;
                let mut vars = vec![];
                let mut refs = filevars.clone(); refs.extend(["in".into(), "out".into(), "in_newline".into(), "out_newline".into(), "bvar".into()]);
                // names of the rule's OWN attributes: a rule binding that mentions a sibling (`command = cc @$rspfile`,
                // `description = $command`) must not see the sibling's value (only build-block and file scope)
                if rng.chance(1, 3) { refs.extend(["depfile".into(), "rspfile".into(), "description".into(), "pool".into(), "command".into(), "rspfile_content".into()]); }
                vars.push(("command".to_string(), { let mut v = vec![Tok::Lit("cmd ".into())]; v.extend(gen_val(rng, &refs, false)); v }));
                if rng.chance(1, 3) { vars.push(("description".into(), if rng.chance(1, 6) { vec![] } else { gen_val(rng, &refs, false) })); }
                if rng.chance(1, 4) { vars.push(("depfile".into(), vec![Tok::Var("out".into()), Tok::Lit(".d".into())])); }
                if rng.chance(1, 4) { vars.push(("deps".into(), vec![Tok::Lit((*rng.pick(&["gcc", "msvc", "gcc", "msvc", "bogus"])).into())])); }
                if rng.chance(1, 5) { vars.push(("rspfile".into(), vec![Tok::Var("out".into()), Tok::Lit(".rsp".into())])); if !rng.chance(1, 8) { vars.push(("rspfile_content".into(), gen_val(rng, &refs, false))); } }
                if rng.chance(1, 5) { vars.push(("pool".into(), vec![Tok::Lit((*rng.pick(&["console", "p0", "p1"])).into())])); }
                if rng.chance(1, 8) { vars.push(("hide_success".into(), vec![Tok::Lit("1".into())])); }
                if rng.chance(1, 8) { vars.push(("restat".into(), vec![Tok::Lit("1".into())])); }
                if rng.chance(1, 10) { vars.push(("command".into(), gen_val(rng, &refs, false))); } // repeated key: last wins
                // an attribute that is EXACTLY one reference to a build-block variable (generated manifests:
                // `description = $DESC`): its value is expanded in file scope, siblings invisible
                if rng.chance(1, 4) { vars.push(("description".into(), vec![Tok::Var("bvar".into())])); }
                rules.push(name.clone());
                AStmt::Rule(name, vars)
            }
            4..=8 => {
                let mut b = ABuild::default();
                let no = rng.range(1, 3);
                for _ in 0..no {
                    let o = if dup_outputs && !outputs.is_empty() && rng.chance(1, 3) {
                        let base = outputs[rng.below(outputs.len())].clone();
                        match rng.below(6) { 0 => format!("./{}", base), 1 => format!("zz/../{}", base), 2 => format!("zz\\..\\{}", base), 3 => format!(".\\{}", base), _ => base }
                    } else { let o = format!("out{}", counter); counter += 1; o };
                    outputs.push(o.trim_start_matches("./").trim_start_matches("zz/../").trim_start_matches("zz\\..\\").trim_start_matches(".\\").to_string());
                    b.outs.push(vec![Tok::Lit(o)]);
                    if dup_outputs && rng.chance(1, 4) { let again = b.outs[b.outs.len() - 1].clone(); b.outs.push(again); if rng.chance(1, 2) { let again = b.outs[0].clone(); b.outs.push(again); } }
                }
                b.n_eo = rng.range(if b.outs.len() > 1 { 0 } else { 1 }, b.outs.len());
                b.rule = if rng.chance(1, 20) { "norule".into() } else { rules[rng.below(rules.len())].clone() };
                let mut bvars = filevars.clone(); bvars.push("bvar".into());
                for k in 0..4 {
                    let n = if rng.chance(1, 2) { 0 } else { rng.range(1, 2) };
                    for _ in 0..n {
                        let p = if !outputs.is_empty() && rng.chance(1, 3) { vec![Tok::Lit(outputs[rng.below(outputs.len())].clone())] } else { gen_val(rng, &bvars, true) };
                        b.ins[k].push(p);
                    }
                }
                if rng.chance(1, 2) { b.vars.push(("bvar".into(), if rng.chance(1, 6) { vec![] } else { gen_val(rng, &filevars, false) })); }
                if rng.chance(1, 10) && !filevars.is_empty() { let k = filevars[rng.below(filevars.len())].clone(); if k.chars().all(|c| c.is_ascii_alphanumeric()) { b.vars.push((k, vec![])); } }
                if rng.chance(1, 12) { b.vars.push((rng.pick(&["description", "pool", "depfile"]).to_string(), vec![])); }
                if rng.chance(1, 6) { b.vars.push(("command".into(), gen_val(rng, &["bvar".to_string(), "in".to_string(), "x".to_string()], false))); }
                if rng.chance(1, 8) { b.vars.push(("pool".into(), vec![Tok::Lit("p0".into())])); }
                if rng.chance(1, 12) { b.vars.push(("x".into(), vec![Tok::Lit("shadow".into())])); }
                // a build-block value that mentions a name ALSO bound by a sibling in the same block
                if rng.chance(1, 5) {
                    b.vars.push(("bvar".into(), vec![Tok::Lit("-".into()), Tok::Var("x".into()), Tok::Var("y".into())]));
                    b.vars.push((if rng.chance(1, 2) { "x" } else { "y" }.to_string(), vec![Tok::Lit("sib".into())]));
                }
                // build-block bindings named like the magic variables ($in/$out always win inside rule bindings),
                // and build-block values that mention $in/$out (expanded in FILE scope, not with the step's lists)
                if rng.chance(1, 10) { b.vars.push((rng.pick(&["in", "out", "in_newline", "out_newline"]).to_string(), vec![Tok::Lit("SHADOW".into())])); }
                if rng.chance(1, 10) { b.vars.push(("bvar".into(), vec![Tok::Lit("-c ".into()), Tok::Var("in".into()), Tok::Lit(" -o ".into()), Tok::Var("out".into())])); }
                AStmt::Build(b)
            }
            9 => if outputs.is_empty() { AStmt::Blank } else { AStmt::Default(vec![vec![Tok::Lit(outputs[rng.below(outputs.len())].clone())]]) },
            10 => AStmt::Pool(format!("p{}", rng.below(2)), match rng.below(6) { 0 => "".into(), 1 => "+3".into(), 2 => "x".into(), _ => format!("{}", rng.below(5)) }),
            _ => AStmt::Comment(" a comment with $ and ${".into()),
        };
        // a sub file must be included before its first statement is parsed
        if fidx > 0 && !included[fidx] {
            included[fidx] = true;
            let sub = rng.chance(1, 2);
            m.files[0].1.push(AStmt::Include(fidx, sub));
        }
        m.files[fidx].1.push(st);
        if fidx > 0 && rng.chance(1, 25) {
            // the same file read a second time
            let sub = rng.chance(1, 2);
            m.files[0].1.push(AStmt::Include(fidx, sub));
        }
        // statements after an include in the main file may refer to things defined in the sub
    }
    // scope flow across files: the main file binds `x` first, every nested file re-binds it from
    // its own value, and the main file uses it again afterwards (a subninja must not leak the
    // re-binding back; a later sibling starts from the parent's value again)
    if nsub > 0 && rng.chance(1, 2) {
        m.files[0].1.insert(0, AStmt::Bind("x".into(), vec![Tok::Lit("top".into())]));
        for i in 1..=nsub {
            m.files[i].1.insert(0, AStmt::Bind("x".into(), vec![Tok::Var("x".into()), Tok::Lit(format!("-s{}", i))]));
        }
        m.files[0].1.push(AStmt::Bind("late".into(), vec![Tok::Var("x".into()), Tok::Lit("!".into())]));
        let mut b = ABuild::default();
        b.outs.push(vec![Tok::Lit(format!("flow{}", counter))]);
        b.n_eo = 1;
        b.rule = "phony".into();
        b.ins[0].push(vec![Tok::Lit("in-".into()), Tok::Var("x".into())]);
        b.ins[0].push(vec![Tok::Var("late".into())]);
        m.files[0].1.push(AStmt::Build(b));
    }
    m
}

// ---------------------------------------------------------------- running the real loader
fn opt(s: &Option<String>) -> String {
    match s { None => "N".into(), Some(x) => format!("S{}", hex(x.as_bytes())) }
}

pub fn dump_loaded(st: &v::LoadState, warnings: usize) -> String {
    let g = &st.graph;
    let mut s = String::from("ok F");
    let nfiles = g.files.all_ids().count();
    // only manifest files are dumped (the log may intern more)
    let nf = st.manifest_files.index().min(nfiles);
    s.push_str(&format!(" {}", nf));
    for fid in g.files.all_ids().take(nf) {
        let f = g.file(fid);
        s.push_str(&format!(" {} {} {}", hex(f.name.as_bytes()), f.input.map(|b| b.index().to_string()).unwrap_or("-".into()), f.dependents.len()));
        for d in &f.dependents { s.push_str(&format!(" {}", d.index())); }
    }
    let nb = g.builds.next_id().index();
    s.push_str(&format!(" B {}", nb));
    for i in 0..nb {
        let b = &g.builds[v::BuildId::from(i)];
        s.push_str(&format!(" {} L{} {} {} {} {}", hex(std::os::unix::ffi::OsStrExt::as_bytes(b.location.filename.as_os_str())), b.location.line,
            opt(&b.cmdline), opt(&b.desc), opt(&b.depfile), if b.parse_showincludes { 1 } else { 0 }));
        match &b.rspfile { None => s.push_str(" N N"), Some(r) => s.push_str(&format!(" S{} S{}", hex(std::os::unix::ffi::OsStrExt::as_bytes(r.path.as_os_str())), hex(r.content.as_bytes()))) }
        s.push_str(&format!(" {} {} {}", opt(&b.pool), if b.hide_success { 1 } else { 0 }, if b.hide_progress { 1 } else { 0 }));
        s.push_str(&format!(" {} {} {} {}", b.ins.ids.len(), b.ins.explicit, b.ins.implicit, b.ins.order_only));
        for f in &b.ins.ids { s.push_str(&format!(" {}", f.index())); }
        s.push_str(&format!(" {} {}", b.outs.ids.len(), b.outs.explicit));
        for f in &b.outs.ids { s.push_str(&format!(" {}", f.index())); }
    }
    s.push_str(&format!(" D {}", st.default.len()));
    for d in &st.default { s.push_str(&format!(" {}", d.index())); }
    let pools: Vec<(String, usize)> = st.pools.iter().map(|(n, d)| (n.clone(), *d)).collect();
    s.push_str(&format!(" P {}", pools.len()));
    for (n, d) in pools { s.push_str(&format!(" {} {}", hex(n.as_bytes()), d)); }
    s.push_str(&format!(" W {}", warnings));
    s
}

/// Normalise a load error: parse errors -> `perr <file> <line> <col> <hexexcerpt> <hexmsg>`,
/// others -> `err <hexkind>`.
pub fn norm_load_err(msg: &str) -> String {
    let bytes = msg.as_bytes();
    if let Some(rest) = msg.strip_prefix("parse error: ") {
        // "<msg>\n<file>:<line>: <excerpt>\n<spaces>^\n"
        let lines: Vec<&[u8]> = rest.as_bytes().split(|&c| c == b'\n').collect();
        // the excerpt cannot contain '\n', the message normally neither
        if lines.len() >= 3 {
            let m = crate::m_depfile::norm_msg(&String::from_utf8_lossy(lines[0]));
            let m = match m.find(" \"") { Some(i) if m.starts_with("unexpected variable") => m[..i].to_string(), _ => m };
            let m = if m.starts_with("pool depth") { "pool depth".to_string() } else { m };
            let l1 = lines[1];
            // prefix "<file>:<line>: "
            let mut file = String::new(); let mut line = 0usize; let mut plen = 0usize;
            if let Some(p1) = l1.iter().position(|&c| c == b':') {
                if let Some(p2) = l1[p1 + 1..].iter().position(|&c| c == b':') {
                    file = String::from_utf8_lossy(&l1[..p1]).to_string();
                    line = String::from_utf8_lossy(&l1[p1 + 1..p1 + 1 + p2]).parse().unwrap_or(0);
                    plen = p1 + 1 + p2 + 2;
                }
            }
            let excerpt = if l1.len() >= plen { &l1[plen..] } else { &l1[0..0] };
            let caret = lines[2].len().saturating_sub(1);
            let col = caret as isize - plen as isize;
            return format!("perr {} {} {} {} {}", hex(file.as_bytes()), line, col, hex(excerpt), hex(m.as_bytes()));
        }
    }
    let _ = bytes;
    let kind = if msg.contains("is already an output at") {
        // "<loc>: \"<name>\" is already an output at <loc2>"
        let a = msg.find(": \"").unwrap_or(0);
        let b = msg.find("\" is already").unwrap_or(a);
        let loc1 = &msg[..a];
        let name = if b > a + 3 { &msg[a + 3..b] } else { "" };
        let loc2 = msg.rsplit(" at ").next().unwrap_or("");
        format!("dupout {} {} {}", plain_name(name), loc1, loc2)
    } else if msg.contains("unknown rule") { "unknown rule".into() }
    else if msg.contains("invalid deps attribute") { "invalid deps attribute".into() }
    else if msg.contains("rspfile and rspfile_content") { "rspfile and rspfile_content need to be both specified".into() }
    else if msg.contains("empty path") { "empty path".into() }
    else if msg.contains("nesting too deep") { "include nesting".into() }
    else if msg.starts_with("read ") { "read".into() }
    // opening the log failed for a reason of the operating system (builddir too long, not a directory, ...)
    else if msg.starts_with("load .n2_db: ") && msg.contains("(os error") { "dbopen-os-error".into() }
    else { msg.to_string() };
    format!("err {}", hex(kind.as_bytes()))
}

/// The quoted (`{:?}`) rendering of a lossily decoded name, reduced to what can be compared with
/// the bytes of the name: printable ASCII stays, every maximal run of escapes / non-ASCII
/// characters becomes one `?`.
pub fn plain_name(quoted: &str) -> String {
    let mut out = String::new();
    let mut in_run = false;
    let mut it = quoted.chars().peekable();
    while let Some(c) = it.next() {
        let plain = (' '..='~').contains(&c) && c != '"' && c != '\\';
        if plain { out.push(c); in_run = false; continue; }
        if c == '\\' {
            match it.next() {
                Some('u') => { while let Some(d) = it.next() { if d == '}' { break; } } }
                _ => {}
            }
        }
        if !in_run { out.push('?'); in_run = true; }
    }
    out
}

/// Redirect fd 1 to a file while `f` runs; returns what was written there.
pub fn capture_stdout<T>(f: impl FnOnce() -> T) -> (T, Vec<u8>) {
    let _ = std::io::stdout().flush();
    let base = std::env::var("N2V_TMP").unwrap_or_else(|_| "/verif/work/tmp".into());
    let _ = std::fs::create_dir_all(&base);
    let path = format!("{}/stdout-capture-{}", base, std::process::id());
    let file = std::fs::File::create(&path).unwrap();
    use std::os::fd::AsRawFd;
    let saved = unsafe { libc::dup(1) };
    unsafe { libc::dup2(file.as_raw_fd(), 1); }
    let r = f();
    let _ = std::io::stdout().flush();
    unsafe { libc::dup2(saved, 1); libc::close(saved); }
    let out = std::fs::read(&path).unwrap_or_default();
    let _ = std::fs::remove_file(&path);
    (r, out)
}

pub fn load_files(tp: &TempProject, files: &[(String, Vec<u8>)], main: &str) -> String {
    tp.reset();
    for (n, c) in files {
        write_file(std::path::Path::new(n), c, 1000);
    }
    let main = main.to_string();
    let (r, out) = capture_stdout(|| std::panic::catch_unwind(move || v::load_read(&main)));
    let warnings = String::from_utf8_lossy(&out).matches("is repeated in output list").count();
    match r {
        Ok(Ok(st)) => dump_loaded(&st, warnings),
        Ok(Err(e)) => norm_load_err(&e.to_string()),
        Err(p) => format!("panic {}", hex(panic_message(p).as_bytes())),
    }
}

pub fn files_tokens(files: &[(String, Vec<u8>)], main: &str) -> String {
    let mut s = format!("{} {}", hex(main.as_bytes()), files.len());
    for (n, c) in files { s.push_str(&format!(" {} {}", hex(n.as_bytes()), hex(c))); }
    s
}

pub fn run(ctx: &mut Ctx) {
    ctx.crash_safe = true;
    let tp = TempProject::new("load");
    if let Some(cases) = ctx.replay_cases() {
        for c in cases { replay_line(ctx, &tp, &c); }
        return;
    }
    for c in ctx.corpus_cases("load") { replay_line(ctx, &tp, &c); ctx.count("corpus"); }
    // 1. abstract manifests under two spellings
    let n = if ctx.thorough() { 40_000 } else { 5_000 };
    for i in 0..n {
        let dup = i % 4 == 3;
        let m = gen_manifest(&mut ctx.rng, dup);
        let plain = render(&mut ctx.rng, &m, false);
        let noisy = render(&mut ctx.rng, &m, true);
        let case = format!("loadpair {} | {}", files_tokens(&plain, "build.ninja"), files_tokens(&noisy, "build.ninja"));
        ctx.count(if dup { "manifests_with_dup_injection" } else { "manifests" });
        ctx.emit(&case, || format!("{} || {}", load_files(&tp, &plain, "build.ninja"), load_files(&tp, &noisy, "build.ninja")));
    }
    // 2. exhaustive short token strings
    let toks: [&[u8]; 22] = [b"build", b"rule", b"default", b"pool", b"include", b"x", b" ", b"\n", b":", b"|", b"||", b"|@", b"=", b"$", b"${", b"}", b"#", b"\t", b"\r", b"\0", "é".as_bytes(), "😀".as_bytes()];
    let maxlen = if ctx.thorough() { 4 } else { 3 };
    for len in 0..=maxlen {
        let total = toks.len().pow(len as u32);
        for mut k in 0..total {
            let mut s: Vec<u8> = vec![];
            for _ in 0..len { s.extend_from_slice(toks[k % toks.len()]); k /= toks.len(); }
            let files = vec![("build.ninja".to_string(), s)];
            ctx.count("token_strings");
            ctx.emit(&format!("load {}", files_tokens(&files, "build.ninja")), || load_files(&tp, &files, "build.ninja"));
        }
    }
    // 3. mutated valid manifests and special shapes
    let n = if ctx.thorough() { 200_000 } else { 6_000 };
    for _ in 0..n {
        let m = gen_manifest(&mut ctx.rng, false);
        let noisy = ctx.rng.chance(1, 2);
        let mut files = render(&mut ctx.rng, &m, noisy);
        let fi = ctx.rng.below(files.len());
        let text = &mut files[fi].1;
        let nm = ctx.rng.range(1, 3);
        for _ in 0..nm {
            if text.is_empty() { break; }
            let pos = ctx.rng.below(text.len());
            match ctx.rng.below(7) {
                0 => { text.remove(pos); }
                1 => { text.truncate(pos); }
                2 => { let t = toks[ctx.rng.below(toks.len())]; for (k, b) in t.iter().enumerate() { text.insert(pos + k, *b); } }
                3 => { text[pos] = *ctx.rng.pick(&[b'$', b'\n', b' ', b':', b'|', 0u8, 0xc3, b'}']); }
                4 => { let k = ctx.rng.range(30, 80); for _ in 0..k { text.insert(pos, "é".as_bytes()[1]); text.insert(pos, "é".as_bytes()[0]); } }
                5 => { let dup: Vec<u8> = text[pos..(pos + 20).min(text.len())].to_vec(); for (k, b) in dup.iter().enumerate() { text.insert(pos + k, *b); } }
                _ => { let k = ctx.rng.range(50, 70); let deep: String = (0..k).map(|i| format!("d{}/", i)).collect(); for (j, b) in deep.bytes().enumerate() { text.insert(pos + j, b); } }
            }
        }
        ctx.count("mutants");
        ctx.emit(&format!("load {}", files_tokens(&files, "build.ninja")), || load_files(&tp, &files, "build.ninja"));
    }
    // 4. include cycles / missing includes / -f variants
    for (files, main) in [
        (vec![("build.ninja".to_string(), b"include build.ninja\n".to_vec())], "build.ninja"),
        (vec![("build.ninja".to_string(), b"include a.ninja\n".to_vec()), ("a.ninja".to_string(), b"subninja build.ninja\n".to_vec())], "build.ninja"),
        (vec![("build.ninja".to_string(), b"include nosuch.ninja\n".to_vec())], "build.ninja"),
        (vec![("other.ninja".to_string(), b"build a: phony\n".to_vec())], "./x/../other.ninja"),
        (vec![("build.ninja".to_string(), b"build $x: phony\n".to_vec())], "build.ninja"),
        (vec![("build.ninja".to_string(), b"x = abc".to_vec())], "build.ninja"),
        // opening the log fails for a reason of the operating system
        (vec![("build.ninja".to_string(), format!("builddir = {}\nbuild a: phony\n", "d".repeat(300)).into_bytes())], "build.ninja"),
        (vec![("build.ninja".to_string(), b"builddir = build.ninja\nbuild a: phony\n".to_vec())], "build.ninja"),
        (vec![("build.ninja".to_string(), b"builddir = out/dir\nbuild a: phony\n".to_vec())], "build.ninja"),
    ] {
        ctx.count("special");
        ctx.emit(&format!("load {}", files_tokens(&files, main)), || load_files(&tp, &files, main));
    }
    // 6. parse errors on long lines whose bytes around the excerpt's cut positions (20 before the error column, 40 bytes on)
    // are not character boundaries - runs of continuation bytes, truncated sequences, multi-byte characters
    let fillers: [&[u8]; 7] = [b"a", b"\x80", b"\xbf", "é".as_bytes(), b"\x80\xbf\x90\xa0", b"\xe6\x97", b"\xf0\x9f\x98"];
    for fa in [0usize, 1, 2, 3, 13, 14, 15, 16, 17, 18, 19, 20, 21, 22, 23, 24, 36, 40, 44, 60] {
        for fb in [0usize, 14, 15, 16, 17, 18, 19, 20, 21, 22, 23, 24, 30, 50] {
            for fl in fillers {
                let fill = |n: usize| -> Vec<u8> { fl.iter().cycle().take(n).cloned().collect() };
                let mut m: Vec<u8> = b"build ".to_vec();
                m.extend(fill(fa)); m.extend_from_slice(b"$!"); m.extend(fill(fb)); m.push(b'\n');
                let files = vec![("build.ninja".to_string(), m)];
                ctx.count("long_line_errors");
                ctx.emit(&format!("load {}", files_tokens(&files, "build.ninja")), || load_files(&tp, &files, "build.ninja"));
            }
        }
    }
    // 5. strings that are awkward to quote in a diagnostic (finding F15), in every position the
    // loader quotes or stores one
    for tag in crate::m_diag::TAGS {
        if tag == "argv" { continue; }
        for a in crate::m_diag::AWKWARD {
            for (pre, post) in [("", ""), ("out", ""), ("", "x")] {
                let mut s = pre.as_bytes().to_vec(); s.extend_from_slice(a); s.extend_from_slice(post.as_bytes());
                let (m, _) = crate::m_diag::manifest_for(tag, &s);
                let files = vec![("build.ninja".to_string(), m)];
                ctx.count("awkward_strings");
                ctx.emit(&format!("load {}", files_tokens(&files, "build.ninja")), || load_files(&tp, &files, "build.ninja"));
            }
        }
    }
}

fn parse_files(toks: &[&str]) -> Option<(Vec<(String, Vec<u8>)>, String, usize)> {
    let main = String::from_utf8(unhex(toks.first()?)?).ok()?;
    let n: usize = toks.get(1)?.parse().ok()?;
    let mut files = vec![];
    for i in 0..n {
        let name = String::from_utf8(unhex(toks.get(2 + 2 * i)?)?).ok()?;
        let content = unhex(toks.get(3 + 2 * i)?)?;
        files.push((name, content));
    }
    Some((files, main, 2 + 2 * n))
}

fn replay_line(ctx: &mut Ctx, tp: &TempProject, line: &str) {
    let toks: Vec<&str> = line.split_whitespace().collect();
    match toks.first() {
        Some(&"load") => {
            if let Some((files, main, _)) = parse_files(&toks[1..]) {
                ctx.emit(line, || load_files(tp, &files, &main));
            }
        }
        Some(&"loadpair") => {
            if let Some((f1, m1, used)) = parse_files(&toks[1..]) {
                if toks.get(1 + used) == Some(&"|") {
                    if let Some((f2, m2, _)) = parse_files(&toks[2 + used..]) {
                        ctx.emit(line, || format!("{} || {}", load_files(tp, &f1, &m1), load_files(tp, &f2, &m2)));
                    }
                }
            }
        }
        _ => {}
    }
}
