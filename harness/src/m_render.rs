//! C20: the real render helpers (task_message, truncate, progress_bar) via the verif wrappers.
use crate::util::*;
use n2::verif::{BuildState, StateCounts};

fn run_taskmsg(msg: &str, secs: usize, cols: usize) -> String {
    let m = msg.to_string();
    match std::panic::catch_unwind(move || n2::verif::task_message(&m, secs, cols)) {
        Ok(t) => format!("ok {}", hex(t.as_bytes())),
        Err(e) => format!("panic {}", panic_message(e)),
    }
}
fn run_truncate(msg: &str, max: usize) -> String {
    let m = msg.to_string();
    match std::panic::catch_unwind(move || n2::verif::truncate(&m, max).to_string()) {
        Ok(t) => format!("ok {}", hex(t.as_bytes())),
        Err(e) => format!("panic {}", panic_message(e)),
    }
}
fn run_bar(c: [usize; 6], n: usize) -> String {
    match std::panic::catch_unwind(move || {
        let mut sc = StateCounts::default();
        let states = [BuildState::Want, BuildState::Ready, BuildState::Queued, BuildState::Running, BuildState::Done, BuildState::Failed];
        for (s, k) in states.iter().zip(c.iter()) { sc.add(*s, *k as isize); }
        n2::verif::progress_bar(&sc, n)
    }) {
        Ok(t) => format!("ok {}", hex(t.as_bytes())),
        Err(e) => format!("panic {}", panic_message(e)),
    }
}


/// One frame through the real FancyState (task_started, task_output, print_progress) with the
/// terminal replaced (width override + stdout sink).
fn run_frame(cols: Option<usize>, c: [usize; 6], tasks: &[(String, u64, Option<Vec<u8>>)]) -> String {
    let tasks = tasks.to_vec();
    match std::panic::catch_unwind(move || {
        use n2::verif as v;
        let mut sc = StateCounts::default();
        let states = [BuildState::Want, BuildState::Ready, BuildState::Queued, BuildState::Running, BuildState::Done, BuildState::Failed];
        for (s, k) in states.iter().zip(c.iter()) { sc.add(*s, *k as isize); }
        let builds: Vec<v::Build> = tasks.iter().map(|(msg, _, _)| {
            let mut b = v::Build::new(
                v::FileLoc { filename: std::rc::Rc::new(std::path::PathBuf::from("build.ninja")), line: 1 },
                v::BuildIns { ids: vec![], explicit: 0, implicit: 0, order_only: 0 },
                v::BuildOuts { ids: vec![], explicit: 0 },
            );
            b.cmdline = Some(msg.clone());
            b
        }).collect();
        let arg: Vec<(&v::Build, u64, Vec<Vec<u8>>)> = builds.iter().zip(tasks.iter())
            .map(|(b, (_, secs, line))| (b, *secs, match line { Some(l) => vec![b"earlier line".to_vec(), l.clone()], None => vec![] }))
            .collect();
        v::render_frame(&sc, &arg, cols)
    }) {
        Ok((out, _ages)) => format!("ok {}", hex(&out)),
        Err(e) => format!("panic {}", panic_message(e)),
    }
}

fn frame_case(cols: Option<usize>, c: [usize; 6], tasks: &[(String, u64, Option<Vec<u8>>)]) -> String {
    let mut s = format!("frame {} {} {} {} {} {} {} {}", match cols { Some(k) => k.to_string(), None => "-".into() },
        c[0], c[1], c[2], c[3], c[4], c[5], tasks.len());
    for (msg, secs, line) in tasks {
        s.push_str(&format!(" {} {} ", hex(msg.as_bytes()), secs));
        match line {
            Some(l) => { s.push_str(&hex(l)); s.push(' '); s.push_str(&hex(String::from_utf8_lossy(l).as_bytes())); }
            None => s.push_str("~ ~"),
        }
    }
    s
}

fn replay_line(ctx: &mut Ctx, line: &str) {
    let t: Vec<&str> = line.split_whitespace().collect();
    match t.as_slice() {
        ["taskmsg", h, s, c] => {
            let (Some(b), Ok(s), Ok(c)) = (unhex(h), s.parse::<usize>(), c.parse::<usize>()) else { return };
            let Ok(m) = String::from_utf8(b) else { return };
            ctx.emit(line, || run_taskmsg(&m, s, c));
        }
        ["truncate", h, k] => {
            let (Some(b), Ok(k)) = (unhex(h), k.parse::<usize>()) else { return };
            let Ok(m) = String::from_utf8(b) else { return };
            ctx.emit(line, || run_truncate(&m, k));
        }
        ["frame", cols, a, b, c, d, e, f, n, rest @ ..] => {
            let v: Vec<usize> = [a, b, c, d, e, f, n].iter().filter_map(|x| x.parse().ok()).collect();
            if v.len() != 7 || rest.len() != 4 * v[6] { return; }
            let cols: Option<usize> = cols.parse().ok();
            let mut tasks = Vec::new();
            for ch in rest.chunks(4) {
                let (Some(m), Ok(secs)) = (unhex(ch[0]), ch[1].parse::<u64>()) else { return };
                let Ok(m) = String::from_utf8(m) else { return };
                let line = if ch[2] == "~" { None } else { unhex(ch[2]) };
                tasks.push((m, secs, line));
            }
            ctx.emit(line, || run_frame(cols, [v[0], v[1], v[2], v[3], v[4], v[5]], &tasks));
        }
        ["bar", a, b, c, d, e, f, n] => {
            let v: Vec<usize> = [a, b, c, d, e, f, n].iter().filter_map(|x| x.parse().ok()).collect();
            if v.len() == 7 { ctx.emit(line, || run_bar([v[0], v[1], v[2], v[3], v[4], v[5]], v[6])); }
        }
        _ => {}
    }
}

pub fn run(ctx: &mut Ctx) {
    ctx.crash_safe = true;
    if let Some(cases) = ctx.replay_cases() {
        for c in cases { replay_line(ctx, &c); }
        return;
    }
    for c in ctx.corpus_cases("render") { replay_line(ctx, &c); ctx.count("corpus"); }
    let syms = ["a", "é", "日", "😀"];
    let maxlen = if ctx.thorough() { 5 } else { 3 };
    let mut strings: Vec<String> = vec![String::new()];
    let mut frontier = vec![String::new()];
    for _ in 0..maxlen {
        let mut next = Vec::new();
        for s in &frontier { for y in syms { next.push(format!("{s}{y}")); } }
        strings.extend(next.iter().cloned());
        frontier = next;
    }
    let secs_list = [0usize, 2, 3, 10, 12345, 1_000_000];
    let widths: Vec<usize> = if ctx.thorough() { (10..=300).collect() } else { (10..=40).chain([79, 80, 81, 120, 300]).collect() };
    for s in &strings {
        for &w in &widths {
            for &sc in &secs_list {
                ctx.count("taskmsg_exhaustive");
                ctx.emit(&format!("taskmsg {} {} {}", hex(s.as_bytes()), sc, w), || run_taskmsg(s, sc, w));
            }
        }
        for k in 0..=s.len() + 2 {
            ctx.count("truncate_exhaustive");
            ctx.emit(&format!("truncate {} {}", hex(s.as_bytes()), k), || run_truncate(s, k));
        }
    }
    // random long messages
    let n = if ctx.thorough() { 300_000 } else { 20_000 };
    for _ in 0..n {
        let len = ctx.rng.range(5, 120);
        let mut s = String::new();
        for _ in 0..len {
            let w = if ctx.rng.chance(2, 3) { 0 } else { ctx.rng.range(1, 3) };
            s.push_str(syms[w]);
        }
        let w = if ctx.rng.chance(1, 2) { ctx.rng.range(10, 60) } else { ctx.rng.range(10, 300) };
        let sc = *ctx.rng.pick(&secs_list);
        ctx.count("taskmsg_random");
        ctx.emit(&format!("taskmsg {} {} {}", hex(s.as_bytes()), sc, w), || run_taskmsg(&s, sc, w));
        let k = ctx.rng.range(0, s.len() + 1);
        ctx.count("truncate_random");
        ctx.emit(&format!("truncate {} {}", hex(s.as_bytes()), k), || run_truncate(&s, k));
    }
    // progress bars: all count vectors with entries in 0..=3 x sizes, then random larger ones
    let sizes: Vec<usize> = if ctx.thorough() { (1..=60).collect() } else { vec![1, 2, 3, 7, 10, 40] };
    let top = if ctx.thorough() { 4 } else { 3 };
    let mut c = [0usize; 6];
    loop {
        for &n in &sizes {
            ctx.count("bar_exhaustive");
            ctx.emit(&format!("bar {} {} {} {} {} {} {}", c[0], c[1], c[2], c[3], c[4], c[5], n), || run_bar(c, n));
        }
        let mut i = 0;
        loop {
            if i == 6 { break; }
            c[i] += 1;
            if c[i] < top { break; }
            c[i] = 0;
            i += 1;
        }
        if i == 6 { break; }
    }
    let n = if ctx.thorough() { 200_000 } else { 10_000 };
    for _ in 0..n {
        let mut c = [0usize; 6];
        for x in c.iter_mut() { *x = if ctx.rng.chance(1, 3) { 0 } else { { let big = ctx.rng.chance(1, 5); ctx.rng.below(if big { 5000 } else { 40 }) } }; }
        let n = ctx.rng.range(1, 80);
        ctx.count("bar_random");
        ctx.emit(&format!("bar {} {} {} {} {} {} {}", c[0], c[1], c[2], c[3], c[4], c[5], n), || run_bar(c, n));
    }
    // whole frames through the real FancyState: running tasks with messages, ages and last
    // output lines (valid UTF-8 of mixed widths, invalid and raw bytes) x widths x counts
    let max_age: u64 = [100_000u64, 1000, 100, 10, 3, 0].into_iter()
        .find(|a| std::time::Instant::now().checked_sub(std::time::Duration::from_secs(*a)).is_some()).unwrap_or(0);
    let n = if ctx.thorough() { 60_000 } else { 4_000 };
    for _ in 0..n {
        let cols = if ctx.rng.chance(1, 8) { None } else if ctx.rng.chance(1, 2) { Some(ctx.rng.range(10, 50)) } else { Some(ctx.rng.range(10, 300)) };
        let mut c = [0usize; 6];
        for x in c.iter_mut() { *x = if ctx.rng.chance(1, 3) { 0 } else { ctx.rng.below(60) }; }
        let nt = match ctx.rng.below(8) { 0 => 0, 1..=5 => ctx.rng.range(1, 4), 6 => ctx.rng.range(5, 8), _ => ctx.rng.range(9, 12) };
        let mut tasks = Vec::new();
        for _ in 0..nt {
            let mut msg = String::new();
            let mlen = if ctx.rng.chance(1, 3) { 200 } else { 30 };
            for _ in 0..ctx.rng.range(1, mlen) {
                let w = if ctx.rng.chance(2, 3) { 0 } else { ctx.rng.range(1, 3) };
                msg.push_str(syms[w]);
            }
            let secs = *ctx.rng.pick(&[0u64, 0, 2, 3, 10, 100, 1000, 100_000]);
            let secs = secs.min(max_age);
            let line = if ctx.rng.chance(1, 4) { None } else {
                let len = if ctx.rng.chance(1, 2) { ctx.rng.range(0, 30) } else { ctx.rng.range(30, 320) };
                let mut l: Vec<u8> = Vec::new();
                let kind = ctx.rng.below(4);
                while l.len() < len {
                    match kind {
                        0 => l.push(b'a' + ctx.rng.below(26) as u8),
                        1 => l.extend_from_slice(syms[ctx.rng.below(4)].as_bytes()),
                        2 => { if ctx.rng.chance(1, 6) { l.push(*ctx.rng.pick(&[0xffu8, 0x80, 0xc3, 0xe6, 0xf0, 0x9f])); } else { l.extend_from_slice(syms[ctx.rng.below(4)].as_bytes()); } }
                        _ => l.push(*ctx.rng.pick(&[0xffu8, 0xfe, 0x80, 0xbf, 0xc0, 0xe2, 0x41, 0x20])),
                    }
                }
                ctx.count(["frame_line_ascii", "frame_line_utf8", "frame_line_mixed", "frame_line_raw"][kind]);
                Some(l)
            };
            tasks.push((msg, secs, line));
        }
        ctx.count("frame");
        if nt > 8 { ctx.count("frame_more_than_8"); }
        let case = frame_case(cols, c, &tasks);
        ctx.emit(&case, || run_frame(cols, c, &tasks));
    }
}
