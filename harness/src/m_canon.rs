//! C13: real `canonicalize_path` on exhaustive short strings and random longer ones.
use crate::util::*;

fn run_one(s: &[u8]) -> String {
    // canonicalize_path takes &mut String; inputs here are valid UTF-8 by construction.
    let st = match String::from_utf8(s.to_vec()) {
        Ok(st) => st,
        Err(_) => return "skip-nonutf8".into(),
    };
    let r = std::panic::catch_unwind(move || {
        let mut st = st;
        n2::verif::canonicalize_path(&mut st);
        let mut again = st.clone();
        n2::verif::canonicalize_path(&mut again);
        (st, again)
    });
    match r {
        Ok((out, again)) => format!("ok {} {}", hex(out.as_bytes()), hex(again.as_bytes())),
        Err(e) => format!("panic {}", panic_message(e)),
    }
}

fn replay_line(ctx: &mut Ctx, line: &str) {
    let toks: Vec<&str> = line.split_whitespace().collect();
    if toks.len() == 2 && toks[0] == "canon" {
        if let Some(b) = unhex(toks[1]) {
            ctx.emit(line, || run_one(&b));
        }
    }
}

pub fn run(ctx: &mut Ctx) {
    ctx.crash_safe = false;
    if let Some(cases) = ctx.replay_cases() {
        ctx.crash_safe = true;
        for c in cases { replay_line(ctx, &c); }
        return;
    }
    for c in ctx.corpus_cases("canon") { replay_line(ctx, &c); ctx.count("corpus"); }
    let alpha: &[u8] = b"ab./\\";
    let maxlen = if ctx.thorough() { 10 } else { 7 };
    // empty string first (the assert)
    ctx.emit("canon -", || run_one(b""));
    for len in 1..=maxlen {
        let mut idx = vec![0usize; len];
        loop {
            let s: Vec<u8> = idx.iter().map(|&i| alpha[i]).collect();
            ctx.emit(&format!("canon {}", hex(&s)), || run_one(&s));
            ctx.count("exhaustive");
            // increment
            let mut k = len;
            loop {
                if k == 0 { break; }
                k -= 1;
                idx[k] += 1;
                if idx[k] < alpha.len() { break; }
                idx[k] = 0;
                if k == 0 { k = usize::MAX; break; }
            }
            if k == usize::MAX { break; }
        }
    }
    // random longer strings: components from a pool incl. UTF-8 names, "." and "..",
    // separators '/', '\\', doubled; up to CAP+2 real components.
    let n = if ctx.thorough() { 400_000 } else { 50_000 };
    let names: [&str; 10] = ["a", "bb", "é", "日本", "x.y", "..z", ".h", "...", "😀", "c-d_e"];
    for _ in 0..n {
        let ncomp = match ctx.rng.below(10) {
            0 => ctx.rng.range(55, 64),
            1..=3 => ctx.rng.range(8, 30),
            _ => ctx.rng.range(1, 7),
        };
        let mut s = String::new();
        if ctx.rng.chance(1, 4) {
            s.push(*ctx.rng.pick(&['/', '\\']));
        }
        let mut real = 0;
        for i in 0..ncomp {
            let deep = ncomp >= 55;
            match if deep { 3 + ctx.rng.below(40) } else { ctx.rng.below(8) } {
                0 => s.push('.'),
                1 | 2 => s.push_str(".."),
                _ => { let nm: &str = names[ctx.rng.below(names.len())]; s.push_str(nm); real += 1; }
            }
            let last = i + 1 == ncomp;
            if !last || ctx.rng.chance(1, 3) {
                s.push(*ctx.rng.pick(&['/', '/', '/', '\\']));
                if ctx.rng.chance(1, 8) { s.push('/'); }
            }
        }
        let key = if real > 60 { "random_over_cap" } else if real >= 55 { "random_near_cap" } else { "random" };
        ctx.count(key);
        let b = s.into_bytes();
        ctx.emit(&format!("canon {}", hex(&b)), || run_one(&b));
    }
    // walks across the component-stack capacity: climb to 57..63 components, then a random
    // sequence of names and ".." that crosses depth 60 in both directions (the inline stack's
    // spill boundary), sometimes unwinding all the way down
    let n = if ctx.thorough() { 40_000 } else { 4_000 };
    for _ in 0..n {
        let mut s = String::new();
        if ctx.rng.chance(1, 4) { s.push('/'); }
        let start = ctx.rng.range(57, 63);
        for _ in 0..start {
            s.push_str(names[ctx.rng.below(names.len())]);
            s.push('/');
        }
        let steps = ctx.rng.range(1, 24);
        let mut depth = start as isize;
        for _ in 0..steps {
            let up = if depth > 61 { ctx.rng.chance(2, 3) } else if depth < 59 { ctx.rng.chance(1, 3) } else { ctx.rng.chance(1, 2) };
            if up { s.push_str(".."); depth -= 1; } else { s.push_str(names[ctx.rng.below(names.len())]); depth += 1; }
            s.push(*ctx.rng.pick(&['/', '/', '\\']));
        }
        if ctx.rng.chance(1, 5) {
            for _ in 0..ctx.rng.range(1, 70) { s.push_str("../"); }
        }
        if ctx.rng.chance(1, 2) { s.push_str(names[ctx.rng.below(names.len())]); }
        ctx.count("cap_walk");
        let b = s.into_bytes();
        ctx.emit(&format!("canon {}", hex(&b)), || run_one(&b));
    }
}
