//! Scheduler cases (C01, C04, C05, C06, C18, C19): random graphs x options x scripts, run
//! through the REAL run::build / Work / Runner with the scripted executor; the transition
//! trace is the observation.
use crate::proj::*;
use crate::util::*;
use n2::verif as v;
use n2::verif::DenseIndex;
use std::collections::HashMap;
use std::sync::{Arc, Mutex};

#[derive(Clone, Default)]
pub struct PBuild {
    pub outs: Vec<String>,
    pub n_explicit_outs: usize,
    pub expl: Vec<String>,
    pub impl_: Vec<String>,
    pub oo: Vec<String>,
    pub val: Vec<String>,
    pub phony: bool,
    pub pool: Option<String>,
}

#[derive(Clone, Default)]
pub struct Proj {
    pub pools: Vec<(String, usize)>,
    pub builds: Vec<PBuild>,
    pub sources: Vec<String>,
    pub defaults: Vec<String>,
    pub has_generator: bool,
}

impl Proj {
    pub fn manifest(&self) -> String {
        let mut s = String::new();
        for (n, d) in &self.pools {
            s.push_str(&format!("pool {}\n  depth = {}\n", n, d));
        }
        s.push_str("rule r\n  command = run $out\n");
        for b in &self.builds {
            s.push_str("build");
            for (i, o) in b.outs.iter().enumerate() {
                if i == b.n_explicit_outs { s.push_str(" |"); }
                s.push(' '); s.push_str(o);
            }
            s.push_str(": ");
            s.push_str(if b.phony { "phony" } else { "r" });
            for x in &b.expl { s.push(' '); s.push_str(x); }
            if !b.impl_.is_empty() { s.push_str(" |"); for x in &b.impl_ { s.push(' '); s.push_str(x); } }
            if !b.oo.is_empty() { s.push_str(" ||"); for x in &b.oo { s.push(' '); s.push_str(x); } }
            if !b.val.is_empty() { s.push_str(" |@"); for x in &b.val { s.push(' '); s.push_str(x); } }
            s.push('\n');
            if let Some(p) = &b.pool {
                if !b.phony { s.push_str(&format!("  pool = {}\n", p)); }
            }
        }
        if !self.defaults.is_empty() {
            s.push_str("default");
            for d in &self.defaults { s.push(' '); s.push_str(d); }
            s.push('\n');
        }
        s
    }
}

/// Pool stress shape: many independent steps (each with its own source) in one shallow pool,
/// so that a second invocation has clean and dirty steps of the same pool side by side.
pub fn gen_pool_stress(rng: &mut Rng) -> Proj {
    let mut p = Proj::default();
    let depth = rng.range(1, 2);
    p.pools.push(("p0".into(), depth));
    let second_pool = rng.chance(1, 3);
    if second_pool { p.pools.push(("p1".into(), rng.range(1, 2))); }
    let nb = rng.range(4, 9);
    p.sources = (0..nb).map(|i| format!("s{}", i)).collect();
    for i in 0..nb {
        let mut b = PBuild::default();
        b.outs = vec![format!("o{}", i)];
        b.n_explicit_outs = 1;
        b.expl = vec![format!("s{}", i)];
        b.phony = rng.chance(1, 10);
        b.pool = Some(if second_pool && rng.chance(1, 3) { "p1".into() } else if rng.chance(1, 8) { "console".into() } else { "p0".into() });
        if i > 0 && rng.chance(1, 5) { b.oo.push(format!("o{}", rng.below(i))); }
        p.builds.push(b);
    }
    p
}

pub fn gen_proj(rng: &mut Rng, allow_cycles: bool) -> Proj {
    let mut p = Proj::default();
    let npools = rng.below(4);
    for i in 0..npools {
        p.pools.push((format!("p{}", i), rng.below(4)));
    }
    if rng.chance(1, 12) { p.pools.push(("console".into(), rng.range(0, 3))); }
    let nb = rng.range(2, 11);
    let nsrc = rng.range(1, 4);
    p.sources = (0..nsrc).map(|i| format!("s{}", i)).collect();
    let out_names: Vec<Vec<String>> = (0..nb)
        .map(|i| {
            let k = if rng.chance(1, 5) { 2 } else { 1 };
            (0..k).map(|j| if j == 0 { format!("o{}", i) } else { format!("d/o{}_{}", i, j) }).collect()
        })
        .collect();
    for i in 0..nb {
        let mut b = PBuild::default();
        b.outs = out_names[i].clone();
        b.n_explicit_outs = if b.outs.len() == 2 && rng.chance(1, 2) { 1 } else { b.outs.len() };
        b.phony = rng.chance(1, 7);
        let mut pick_in = |rng: &mut Rng, ordering: bool| -> String {
            let r = rng.below(100);
            if i > 0 && r < 50 {
                let j = rng.below(i);
                out_names[j][rng.below(out_names[j].len())].clone()
            } else if (allow_cycles || !ordering) && r < 65 {
                let j = rng.range(i, nb - 1);
                out_names[j][rng.below(out_names[j].len())].clone()
            } else {
                format!("s{}", rng.below(nsrc))
            }
        };
        let ne = match rng.below(6) { 0 => 0, 1..=3 => 1, _ => 2 };
        for _ in 0..ne { let x = pick_in(rng, true); b.expl.push(x); }
        if rng.chance(1, 3) { let x = pick_in(rng, true); b.impl_.push(x); }
        // one input repeated many times (long input lists cost want_file one level of recursion
        // per position in the model: this is the shape that exposed its old fuel bound)
        if rng.chance(1, 30) { let x = pick_in(rng, true); for _ in 0..rng.range(20, 70) { b.expl.push(x.clone()); } }
        if rng.chance(1, 3) { let x = pick_in(rng, true); b.oo.push(x); }
        if rng.chance(1, 4) { let x = pick_in(rng, false); b.val.push(x); if rng.chance(1, 4) { let y = pick_in(rng, false); b.val.push(y); } }
        b.pool = match rng.below(10) {
            0..=4 => None,
            5 => Some("console".into()),
            6 => if rng.chance(1, 6) { Some("nopool".into()) } else { None },
            _ => if npools > 0 { Some(format!("p{}", rng.below(npools))) } else { None },
        };
        p.builds.push(b);
    }
    if rng.chance(1, 4) {
        let k = rng.range(1, 2);
        for _ in 0..k {
            let j = rng.below(nb);
            p.defaults.push(out_names[j][0].clone());
        }
    }
    // sometimes the manifest is itself generated (by a step whose inputs may be generated too)
    if rng.chance(1, 4) {
        let mut b = PBuild::default();
        b.outs = vec!["build.ninja".into()];
        b.n_explicit_outs = 1;
        let k = rng.range(1, 2);
        for _ in 0..k {
            if rng.chance(1, 2) { b.expl.push(format!("s{}", rng.below(nsrc))); }
            else { let j = rng.below(nb); b.impl_.push(out_names[j][0].clone()); }
        }
        if rng.chance(1, 4) { b.oo.push(out_names[rng.below(nb)][0].clone()); }
        p.builds.push(b);
        p.has_generator = true;
    }
    p
}

pub fn norm_err(m: &str) -> String {
    if m.contains("unknown pool") { "unknown pool".into() }
    else if m.starts_with("dependency cycle") { m.to_string() }
    else if m.contains("missing") || m.contains("used generated file") || m.starts_with("stat ") { "check_build_dirty".into() }
    else if m.starts_with("unknown path requested: ") {
        let n = m["unknown path requested: ".len()..].trim_matches('"');
        format!("unknown path requested: {}", n)
    } else { m.to_string() }
}

pub fn fix_result(res: &str) -> String {
    if let Some(h) = res.strip_prefix("err ") {
        let m = String::from_utf8_lossy(&unhex(h).unwrap_or_default()).to_string();
        format!("err {}", hex(norm_err(&m).as_bytes()))
    } else { res.to_string() }
}

pub struct InvSpec {
    pub par: usize,
    pub k: Option<usize>,
    pub adopt: bool,
    pub targets: Vec<String>,
    pub fail_pct: usize,
    pub interrupt_pct: usize,
}

/// Header + graph dump for one invocation about to happen in the current directory.
pub fn case_line(kind: &str, spec: &InvSpec, st: &v::LoadState) -> String {
    let g = &st.graph;
    let manifest = g.files.lookup("build.ninja").map(|f| f.index()).unwrap_or(0);
    let mut s = format!(
        "{} par {} k {} adopt {} manifest {} targets {}",
        kind, spec.par,
        spec.k.map(|k| k.to_string()).unwrap_or("-".into()),
        if spec.adopt { 1 } else { 0 }, manifest, spec.targets.len()
    );
    for t in &spec.targets { s.push(' '); s.push_str(&hex(t.as_bytes())); }
    s.push_str(&format!(" defaults {}", st.default.len()));
    for d in &st.default { s.push_str(&format!(" {}", d.index())); }
    let pools: Vec<(String, usize)> = st.pools.iter().map(|(n, d)| (n.clone(), *d)).collect();
    s.push_str(&format!(" pools {}", pools.len()));
    for (n, d) in &pools { s.push_str(&format!(" {} {}", hex(n.as_bytes()), d)); }
    s.push(' ');
    s.push_str(&dump_graph(g));
    s
}

pub fn effects_of(st: &v::LoadState) -> HashMap<String, CmdEffect> {
    let g = &st.graph;
    let mut m = HashMap::new();
    let nb = g.builds.next_id().index();
    for i in 0..nb {
        let b = &g.builds[v::BuildId::from(i)];
        if let Some(cmd) = &b.cmdline {
            let outs: Vec<String> = b.outs().iter().map(|&f| g.file(f).name.clone()).collect();
            // a step that regenerates the manifest rewrites the same text (new mtime)
            let content = if outs.iter().any(|o| o == "build.ninja") { std::fs::read("build.ninja").unwrap_or_default() } else { cmd.as_bytes().to_vec() };
            m.insert(cmd.clone(), CmdEffect { outs, content, ..Default::default() });
        }
    }
    m
}

pub fn run(ctx: &mut Ctx) {
    ctx.crash_safe = true;
    if ctx.replay_cases().is_some() {
        // sched cases depend on a generated project directory; replay = regenerate by seed/index
        eprintln!("sched replay: re-run with the same VERIF_SEED; the case index is in the replay file");
        return;
    }
    let tp = TempProject::new("sched");
    let ncases = if ctx.thorough() { 60_000 } else { 6_000 };
    let clock = Arc::new(Mutex::new(1000i64));
    let mut produced = 0;
    while produced < ncases {
        tp.reset();
        let stress = ctx.rng.chance(1, 5);
        let allow_cycles = !stress && ctx.rng.chance(1, 6);
        let proj = if stress { ctx.count("pool_stress_projects"); gen_pool_stress(&mut ctx.rng) } else { gen_proj(&mut ctx.rng, allow_cycles) };
        let text = proj.manifest();
        { let mut c = clock.lock().unwrap(); *c += 1; write_file(std::path::Path::new("build.ninja"), text.as_bytes(), *c); }
        let missing_src = if ctx.rng.chance(1, 15) { Some(ctx.rng.below(proj.sources.len())) } else { None };
        for (i, s) in proj.sources.iter().enumerate() {
            if Some(i) == missing_src { continue; }
            let mut c = clock.lock().unwrap(); *c += 1;
            write_file(std::path::Path::new(s), b"src", *c);
        }
        let ninv = if stress { ctx.rng.range(2, 3) } else { ctx.rng.range(1, 3) };
        for inv in 0..ninv {
            if inv > 0 {
                // perturb: touch sources, delete/touch outputs
                for s in &proj.sources {
                    if ctx.rng.chance(1, 3) && std::path::Path::new(s).exists() {
                        let mut c = clock.lock().unwrap(); *c += 1; set_mtime(std::path::Path::new(s), *c);
                    }
                }
                for b in &proj.builds { for o in &b.outs {
                    if o != "build.ninja" && ctx.rng.chance(1, 6) { let _ = std::fs::remove_file(o); }
                }}
            }
            let st = match std::panic::catch_unwind(|| v::load_read("build.ninja")) {
                Ok(Ok(st)) => st,
                _ => { ctx.count("load_failed"); break; }
            };
            let mut targets = vec![];
            if ctx.rng.chance(1, 2) {
                let k = ctx.rng.range(1, 2);
                for _ in 0..k {
                    let b = &proj.builds[ctx.rng.below(proj.builds.len())];
                    let o = b.outs[ctx.rng.below(b.outs.len())].clone();
                    targets.push(match ctx.rng.below(8) { 0 => format!("./{}", o), 1 => format!("x/../{}", o), 2 => format!("nosuch{}", ctx.rng.below(3)), 3 => proj.sources[0].clone(), _ => o });
                }
            }
            if stress { targets.clear(); }
            let spec = InvSpec {
                par: if stress { ctx.rng.range(3, 4) } else { ctx.rng.range(1, 4) },
                k: match ctx.rng.below(4) { 0 | 1 => None, _ => Some(ctx.rng.range(1, 3)) },
                adopt: ctx.rng.chance(1, 25),
                targets,
                fail_pct: *ctx.rng.pick(&[0usize, 0, 15, 40]),
                interrupt_pct: *ctx.rng.pick(&[0usize, 0, 0, 4]),
            };
            let case = case_line("sched", &spec, &st);
            let effects = effects_of(&st);
            drop(st);
            let script = Script {
                rng: Rng(ctx.rng.next()), fail_pct: spec.fail_pct, interrupt_pct: spec.interrupt_pct, abort_pct: 0,
                effects, clock: clock.clone(), log: Arc::new(Mutex::new(vec![])), failing: None,
            };
            let options = v::Options { failures_left: spec.k, parallelism: spec.par, explain: false, adopt: spec.adopt };
            let targets = spec.targets.clone();
            let mut stats: Vec<&str> = vec![];
            ctx.emit(&case, || {
                let (res, evs) = invoke(options, None, targets, script);
                let (n, toks) = events_to_tokens(&evs, &["U ", "B ", "F ", "R"]);
                let res = fix_result(&res);
                format!("{} T {}{}", res, n, toks)
            });
            let an = take_anomalies();
            if !an.is_empty() || produced % 16 == 0 { ctx.emit_anomalies(&format!("sched {}", ctx.index - 1), an); }
            let _ = &mut stats;
            produced += 1;
            ctx.count("invocations");
            if allow_cycles { ctx.count("allow_cycles"); }
            if proj.has_generator { ctx.count("with_manifest_generator"); }
            if spec.k.is_some() { ctx.count("with_k"); }
            if spec.fail_pct > 0 { ctx.count("with_failures"); }
            if !proj.pools.is_empty() { ctx.count("with_pools"); }
        }
    }
}
