//! C16: what is logic is compared with the model (showIncludes filtering, last line, wait
//! status decoding, output accumulation); what is operating system is OBSERVED on the real
//! `run_command` (in-process, real /bin/sh) and on the real `n2` binary.
use crate::proj::*;
use crate::util::*;
use n2::verif as v;
use std::process::Command;

fn term_tok(t: &v::Termination) -> &'static str {
    match t { v::Termination::Success => "success", v::Termination::Interrupted => "interrupted", v::Termination::Failure => "failure" }
}

fn run_real(cmd: &str) -> (String, Vec<u8>, usize) {
    let mut out: Vec<u8> = vec![];
    let mut chunks = 0usize;
    let r = v::run_command(cmd, |b| { out.extend_from_slice(b); chunks += 1; });
    match r {
        Ok(t) => (term_tok(&t).to_string(), out, chunks),
        Err(e) => (format!("error:{}", e), out, chunks),
    }
}

fn fnv(bs: &[u8]) -> u64 { let mut h: u64 = 14695981039346656037; for b in bs { h = (h ^ (*b as u64)).wrapping_mul(1099511628211); } h }

fn showinc_line(s: &[u8]) -> String {
    let (incs, out) = v::extract_showincludes(s.to_vec());
    let mut l = format!("ok {}", incs.len());
    for i in incs { l.push(' '); l.push_str(&hex(i.as_bytes())); }
    l.push(' '); l.push_str(&hex(&out));
    l
}

pub fn run(ctx: &mut Ctx) {
    ctx.crash_safe = true;
    if ctx.replay_cases().is_some() { eprintln!("exec replay: re-run with the same VERIF_SEED"); return; }
    // 1. showIncludes / last line: exhaustive over a token alphabet
    let toks: [&[u8]; 6] = [b"a", b"\n", b"\r", b" ", b"Note: including file: ", b"Note: "];
    let maxlen = if ctx.thorough() { 6 } else { 5 };
    for len in 0..=maxlen {
        let total = toks.len().pow(len as u32);
        for mut k in 0..total {
            let mut s: Vec<u8> = vec![];
            for _ in 0..len { s.extend_from_slice(toks[k % toks.len()]); k /= toks.len(); }
            ctx.count("showinc_exhaustive");
            ctx.emit(&format!("showinc {}", hex(&s)), || showinc_line(&s));
            if len <= 4 {
                ctx.emit(&format!("lastline {}", hex(&s)), || format!("ok {}", hex(v::find_last_line(&s))));
            }
        }
    }
    // 1b. random compiler output: notes whose payload is any bytes (Latin-1 / invalid UTF-8 file
    // names, multi-byte names, blanks), CR LF and LF line ends, interleaved with ordinary lines
    let n = if ctx.thorough() { 60_000 } else { 3_000 };
    for _ in 0..n {
        let nlines = ctx.rng.range(1, 6);
        let mut s: Vec<u8> = vec![];
        for li in 0..nlines {
            let note = ctx.rng.chance(1, 2);
            if note {
                s.extend_from_slice(if ctx.rng.chance(1, 8) { b"Note: including file:" } else { b"Note: including file: " });
                for _ in 0..ctx.rng.below(3) { s.push(b' '); }
            }
            for _ in 0..ctx.rng.range(0, 8) {
                match ctx.rng.below(8) {
                    0 => s.push(0xe9), 1 => s.push(0xff), 2 => s.extend_from_slice("é".as_bytes()), 3 => s.extend_from_slice("日".as_bytes()),
                    4 => s.push(b' '), 5 => s.push(b'/'), _ => s.push(b'a' + ctx.rng.below(6) as u8),
                }
            }
            if li + 1 < nlines || ctx.rng.chance(2, 3) { if ctx.rng.chance(1, 2) { s.push(b'\r'); } s.push(b'\n'); }
        }
        ctx.count("showinc_random");
        ctx.emit(&format!("showinc {}", hex(&s)), || showinc_line(&s));
    }
    if std::env::var("N2V_EXEC_TEXT_ONLY").is_ok() { return; }
    let tp = TempProject::new("exec");
    // 2. exit codes and signals through the real run_command
    let codes: Vec<usize> = if ctx.thorough() { (0..256).collect() } else { vec![0, 1, 2, 3, 7, 42, 126, 127, 128, 130, 137, 255] };
    for c in codes {
        ctx.count("exit_codes");
        ctx.emit(&format!("status exit {}", c), || { let (t, out, _) = run_real(&format!("exit {}", c)); format!("{} {}", t, hex(&out)) });
    }
    for s in [1usize, 2, 3, 6, 9, 10, 12, 14, 15] {
        ctx.count("signals");
        ctx.emit(&format!("status sig {}", s), || { let (t, out, _) = run_real(&format!("kill -{} $$", s)); format!("{} {}", t, hex(&out)) });
    }
    // 3. output volume around pipe / buffer boundaries, stdout and stderr interleaved
    let sizes: Vec<usize> = if ctx.thorough() { vec![0, 1, 100, 4095, 4096, 4097, 8192, 65535, 65536, 65537, 200000, 1000000] } else { vec![0, 1, 4095, 4096, 4097, 65536, 65537, 200000] };
    for sz in sizes {
        for mode in ["out", "err", "both"] {
            ctx.count("output_sizes");
            let cmd = match mode {
                "out" => format!("head -c {} /dev/zero | tr '\\0' x", sz),
                "err" => format!("head -c {} /dev/zero | tr '\\0' x >&2", sz),
                _ => format!("head -c {} /dev/zero | tr '\\0' x; head -c {} /dev/zero | tr '\\0' y >&2", sz, sz),
            };
            ctx.emit(&format!("output {} {}", sz, mode), || {
                let (t, out, chunks) = run_real(&cmd);
                let xs = out.iter().filter(|b| **b == b'x').count();
                let ys = out.iter().filter(|b| **b == b'y').count();
                let _ = chunks;
                format!("{} {} {} {}", t, out.len(), xs, ys)
            });
        }
    }
    // 4. the command string goes to `/bin/sh -c` unchanged: same output as asking sh directly
    let cmds = [
        "echo hello", "echo \"a  b\" 'c  d' e\\ f", "echo $$ | grep -c '^[0-9]*$'", "echo a; echo b >&2; echo c",
        "x=1; echo $x$x", "echo `echo nested`", "printf '%s\\n' \"$0\"", "echo $#", "cd / && pwd", "true && echo yes || echo no",
        "echo 'single $notexpanded'", "cat < /dev/null; echo rc=$?", "echo é日本😀", "exec echo via-exec", "echo a > f.tmp; cat f.tmp; rm f.tmp",
    ];
    for c in cmds {
        ctx.count("command_strings");
        ctx.emit(&format!("shcmd {}", hex(c.as_bytes())), || {
            let (t, out, _) = run_real(c);
            let direct = Command::new("/bin/sh").arg("-c").arg(c).stdin(std::process::Stdio::null()).output();
            let (dout, dok) = match direct { Ok(o) => { let mut v = o.stdout.clone(); v.extend(o.stderr.clone()); (v, o.status.success()) } Err(_) => (vec![], false) };
            // stdout/stderr interleaving through one pipe vs two: compare as multisets of lines
            let mut a: Vec<&[u8]> = out.split(|b| *b == b'\n').collect(); a.sort();
            let mut b: Vec<&[u8]> = dout.split(|b| *b == b'\n').collect(); b.sort();
            format!("same={} okmatch={}", if a == b { 1 } else { 0 }, if (t == "success") == dok { 1 } else { 0 })
        });
    }
    // 5. environment of the command: stdin, descriptors, cwd
    ctx.emit("env stdin", || { let (_, out, _) = run_real("readlink /proc/self/fd/0"); format!("{}", hex(out.trim_ascii_end())) });
    ctx.emit("env cwd", || { let (_, out, _) = run_real("pwd"); let here = std::env::current_dir().unwrap(); format!("{}", if out.trim_ascii_end() == here.to_string_lossy().as_bytes() { "same" } else { "different" }) });
    ctx.emit("env fds", || {
        // keep a few descriptors of our own open (like n2's log and other commands' pipes)
        let _f1 = std::fs::File::create("held1").unwrap();
        let _f2 = std::fs::File::open("/dev/null").unwrap();
        let (_, out, _) = run_real("ls /proc/self/fd | tr '\\n' ' '");
        let fds: Vec<usize> = String::from_utf8_lossy(&out).split_whitespace().filter_map(|x| x.parse().ok()).collect();
        // 0,1,2 plus the directory handle ls itself opens (3)
        let leaked: Vec<usize> = fds.iter().cloned().filter(|f| *f > 3).collect();
        format!("leaked {}", leaked.len())
    });
    // 6. the real binary: printed once and contiguously under -j, rspfile, output dirs, exit status
    if let Ok(bin) = std::env::var("N2V_N2BIN") {
        let njobs = if ctx.thorough() { vec![1usize, 2, 4, 8, 16] } else { vec![1, 4, 16] };
        for j in njobs {
            for size in [0usize, 10, 5000, 70000] {
                ctx.count("binary_runs");
                ctx.emit(&format!("n2bin printed {} {}", j, size), || {
                    tp.reset();
                    let ntasks = 6;
                    let mut m = String::from("rule r\n  command = head -c $size /dev/zero | tr '\\0' $ch; echo; echo end-$ch >&2\n  description = task-$ch\n");
                    for i in 0..ntasks { m.push_str(&format!("build o{}: r\n  size = {}\n  ch = {}\n", i, size, (b'a' + i as u8) as char)); }
                    std::fs::write("build.ninja", m).unwrap();
                    let o = Command::new(&bin).arg("-j").arg(j.to_string()).output();
                    let Ok(o) = o else { return "spawn-failed".into() };
                    let text = o.stdout;
                    // each task: its block of `size` identical bytes appears exactly once, contiguous, followed by its end marker
                    let mut ok = o.status.code() == Some(1) || o.status.code() == Some(0);
                    let mut contiguous = true;
                    for i in 0..ntasks {
                        let ch = b'a' + i as u8;
                        let marker = format!("end-{}\n", ch as char);
                        let count = text.windows(marker.len()).filter(|w| *w == marker.as_bytes()).count();
                        if count != 1 { ok = false; }
                        let run_len = text.iter().filter(|b| **b == ch).count();
                        // the letter also occurs in "task-x", "end-x" and words of the summary; count the long run only
                        if size >= 10 {
                            let mut best = 0; let mut cur = 0;
                            for b in &text { if *b == ch { cur += 1; best = best.max(cur); } else { cur = 0; } }
                            if best != size { contiguous = false; }
                        }
                        let _ = run_len;
                    }
                    // the commands never create the outputs, so n2 reports them... as done anyway (exit 0)
                    format!("code={} once={} contiguous={}", o.status.code().unwrap_or(-1), if ok { 1 } else { 0 }, if contiguous { 1 } else { 0 })
                });
            }
        }
        ctx.emit("n2bin rspfile", || {
            tp.reset();
            std::fs::write("build.ninja", "rule r\n  command = cat $out.rsp > $out\n  rspfile = $out.rsp\n  rspfile_content = -a  $in \"q\" $$x\nbuild sub/dir/out: r in1 in2\n").unwrap();
            std::fs::write("in1", "").unwrap(); std::fs::write("in2", "").unwrap();
            let o = Command::new(&bin).output();
            let Ok(o) = o else { return "spawn-failed".into() };
            let got = std::fs::read("sub/dir/out").unwrap_or_default();
            format!("code={} content={}", o.status.code().unwrap_or(-1), hex(&got))
        });
        // the response file is rewritten with exactly the new content when it shrinks, grows or stays
        for (name, first, second) in [("shrink", "-a  $in \"quoted\" some more words here", "-b $in"), ("grow", "x", "-a $in and now much longer than before"), ("same", "-a $in", "-a $in"), ("empty", "-a $in something", "")] {
            ctx.count("rspfile_rewrites");
            ctx.emit(&format!("n2bin rsprewrite {} {}", name, hex(second.replace("$in", "in1 in2").as_bytes())), || {
                tp.reset();
                std::fs::write("in1", "").unwrap(); std::fs::write("in2", "").unwrap();
                let mut codes = vec![];
                for (k, content) in [first, second].iter().enumerate() {
                    std::fs::write("build.ninja", format!("rule r\n  command = cat $out.rsp > $out; echo {} >> log\n  rspfile = $out.rsp\n  rspfile_content = {}\nbuild out: r in1 in2\n", k, content)).unwrap();
                    let o = Command::new(&bin).output();
                    let Ok(o) = o else { return "spawn-failed".into() };
                    codes.push(o.status.code().unwrap_or(-1));
                }
                let got = std::fs::read("out").unwrap_or_default();
                let rsp = std::fs::read("out.rsp").unwrap_or_default();
                format!("codes={:?} content={} rsp={}", codes, hex(&got), hex(&rsp)).replace(' ', "").replace("content=", " content=").replace("rsp=", " rsp=")
            });
        }
        for (name, cmd, want_code) in [("fail", "exit 3", 1), ("ok", "true", 0), ("sigterm", "kill -TERM $$", 1)] {
            ctx.emit(&format!("n2bin exit {}", name), || {
                tp.reset();
                std::fs::write("build.ninja", format!("rule r\n  command = {}\nbuild out: r\n", cmd.replace('$', "$$"))).unwrap();
                let o = Command::new(&bin).output();
                let Ok(o) = o else { return "spawn-failed".into() };
                let _ = want_code;
                format!("code={}", o.status.code().unwrap_or(-1))
            });
        }
        // 6b. output whose LAST line is not newline-terminated (after zero or more complete lines),
        // around the 1 KiB line buffer of the standard output: every byte must be shown, also when
        // the command fails
        for tail in [1usize, 1023, 1024, 1025, 4096, 70000] {
            for (heads, fails) in [(0usize, false), (1, false), (3, true)] {
                ctx.count("unterminated_tail");
                ctx.emit(&format!("n2bin tail {} {} {}", tail, heads, if fails { 1 } else { 0 }), || {
                    tp.reset();
                    let mut cmd = String::new();
                    for i in 0..heads { cmd.push_str(&format!("echo line{}; ", i)); }
                    cmd.push_str(&format!("head -c {} /dev/zero | tr '\\0' x", tail));
                    if fails { cmd.push_str("; exit 3"); }
                    std::fs::write("build.ninja", format!("rule r\n  command = {}\n  description = t\nbuild out: r\n", cmd)).unwrap();
                    let o = Command::new(&bin).output();
                    let Ok(o) = o else { return "spawn-failed".into() };
                    let xs = o.stdout.iter().filter(|b| **b == b'x').count();
                    let lines = (0..heads).filter(|i| { let m = format!("line{}\n", i); o.stdout.windows(m.len()).any(|w| w == m.as_bytes()) }).count();
                    format!("code={} xs={} lines={}", o.status.code().unwrap_or(-1), xs, lines)
                });
            }
        }
        // 7. output directories: every (nested) parent directory of every output exists when the command starts
        let ncases = if ctx.thorough() { 400 } else { 80 };
        for _ in 0..ncases {
            let nouts = 1 + ctx.rng.below(4);
            let mut outs: Vec<String> = vec![];
            for _ in 0..nouts {
                let depth = ctx.rng.below(4);
                let mut comps: Vec<String> = vec![];
                for _ in 0..depth { comps.push(["da", "db", "dc"][ctx.rng.below(3)].to_string()); }
                comps.push(format!("f{}", outs.len()));
                let p = comps.join("/");
                outs.push(p);
            }
            ctx.count("outdir_cases");
            if outs.len() > 1 { ctx.count("outdir_multi"); }
            let case = format!("n2bin outdirs {}", outs.iter().map(|o| hex(o.as_bytes())).collect::<Vec<_>>().join(" "));
            ctx.emit(&case, || {
                tp.reset();
                let mut cands: Vec<String> = vec![];
                for o in &outs {
                    let comps: Vec<&str> = o.split('/').collect();
                    for i in 1..comps.len() { let d = comps[..i].join("/"); if !cands.contains(&d) { cands.push(d); } }
                }
                let m = format!("rule r\n  command = for d in $dirs; do test -d \"$$d\" && echo \"$$d\"; done > probe.log; touch $out\nbuild {}: r\n  dirs = {}\n", outs.join(" "), cands.join(" "));
                std::fs::write("build.ninja", m).unwrap();
                let o = Command::new(&bin).output();
                let Ok(o) = o else { return "spawn-failed".into() };
                let probe = std::fs::read_to_string("probe.log").unwrap_or_default();
                let mut have: Vec<String> = probe.lines().map(|l| hex(l.as_bytes())).collect();
                have.sort(); have.dedup();
                format!("code={} dirs={}", o.status.code().unwrap_or(-1), have.join(","))
            });
        }
        // 7b. chains of steps in one invocation where a command removes a directory tree after
        // writing (a "bundle the staging directory, then rm -rf it" step): a later step with an
        // output there needs the directory created AGAIN before it starts
        let ncases = if ctx.thorough() { 300 } else { 60 };
        for _ in 0..ncases {
            let nsteps = 2 + ctx.rng.below(3);
            let mut steps: Vec<(Vec<String>, Option<String>)> = vec![];
            let mut fno = 0;
            for _ in 0..nsteps {
                let nouts = 1 + ctx.rng.below(2);
                let mut outs = vec![];
                for _ in 0..nouts {
                    let depth = ctx.rng.below(3);
                    let mut comps: Vec<String> = vec![];
                    for _ in 0..depth { comps.push(["da", "db"][ctx.rng.below(2)].to_string()); }
                    comps.push(format!("f{}", fno)); fno += 1;
                    outs.push(comps.join("/"));
                }
                let rm = if ctx.rng.chance(1, 2) { Some(["da", "db", "da/da", "da/db", "db/da"][ctx.rng.below(5)].to_string()) } else { None };
                if rm.is_some() { ctx.count("outchain_rm"); }
                steps.push((outs, rm));
            }
            ctx.count("outchain_cases");
            let mut case = String::from("n2bin outchain");
            for (outs, rm) in &steps {
                case.push_str(&format!(" S {}", outs.len()));
                for o in outs { case.push(' '); case.push_str(&hex(o.as_bytes())); }
                case.push(' ');
                match rm { Some(d) => case.push_str(&hex(d.as_bytes())), None => case.push('~') }
            }
            ctx.emit(&case, || {
                tp.reset();
                let cands = ["da", "db", "da/da", "da/db", "db/da", "db/db"];
                let mut m = String::from("rule r\n  command = for d in $dirs; do test -d \"$$d\" && echo \"$$d\"; done > probe$idx.log; touch $out; $rm\n");
                for (i, (outs, rm)) in steps.iter().enumerate() {
                    let dep = if i > 0 { format!(" || {}", steps[i - 1].0[0]) } else { String::new() };
                    m.push_str(&format!("build {}: r{}\n  dirs = {}\n  idx = {}\n  rm = {}\n", outs.join(" "), dep, cands.join(" "), i,
                        match rm { Some(d) => format!("rm -rf {}", d), None => "true".to_string() }));
                }
                std::fs::write("build.ninja", m).unwrap();
                let o = Command::new(&bin).arg("-j").arg("4").output();
                let Ok(o) = o else { return "spawn-failed".into() };
                let mut sets = vec![];
                for i in 0..steps.len() {
                    let probe = std::fs::read_to_string(format!("probe{}.log", i)).unwrap_or_default();
                    let mut have: Vec<String> = probe.lines().map(|l| hex(l.as_bytes())).collect();
                    have.sort(); have.dedup();
                    sets.push(have.join(","));
                }
                format!("code={} dirs={}", o.status.code().unwrap_or(-1), sets.join(";"))
            });
        }
        ctx.emit("n2bin fds", || {
            tp.reset();
            // four commands at once, each listing its descriptors while the others run
            let mut m = String::from("rule r\n  command = sleep 0.2; ls /proc/self/fd | tr '\\n' ' ' > $out\n");
            for i in 0..4 { m.push_str(&format!("build f{}: r\n", i)); }
            std::fs::write("build.ninja", m).unwrap();
            let o = Command::new(&bin).arg("-j").arg("4").output();
            let Ok(o) = o else { return "spawn-failed".into() };
            let mut leaked = 0;
            for i in 0..4 {
                let t = std::fs::read_to_string(format!("f{}", i)).unwrap_or_default();
                leaked += t.split_whitespace().filter_map(|x| x.parse::<usize>().ok()).filter(|f| *f > 3).count();
            }
            format!("code={} leaked={}", o.status.code().unwrap_or(-1), leaked)
        });
    }
}
