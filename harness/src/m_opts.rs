//! The command-line options -j and -k on the REAL binary (C04, C05): `verif_build` constructs
//! `work::Options` directly and so bypasses `parse_args`; this mode goes through it.
//!
//! case line:  n2bin keepgoing <k or -> <failing steps> <good steps> <j>
//! impl line:  code=<exit code> started=<failing commands that ran> good=<good outputs present>
//! case line:  n2bin where <-C d given> <-f alt.ninja given> <-f before -C> <targets, comma separated, or ->
//! impl line:  code=<exit code> built=<outputs present> marker=<their contents> db=<logs present>
//! case line:  n2bin summary <copying steps> <sources changed before the second invocation> <failing steps added to it>
//! impl line:  codes=<two exit codes> first=<hex of the `n2: ` lines of invocation 1> second=<same, invocation 2> copied=<outputs equal to their source at the end>
//! case line:  n2bin jobs <j> <steps> <pool depth, `console` or ->
//! impl line:  code=<exit code> peak=<largest number of commands seen running at once> ran=<commands that ran>
use crate::proj::TempProject;
use crate::util::Ctx;
use std::process::Command;

fn count_prefix(prefix: &str) -> usize {
    std::fs::read_dir(".").map(|d| d.filter_map(|e| e.ok()).filter(|e| e.file_name().to_string_lossy().starts_with(prefix)).count()).unwrap_or(0)
}

fn keepgoing(bin: &str, k: &str, n: usize, g: usize, j: usize) -> String {
    let mut m = String::from("rule f\n  command = echo x > ran.$out; exit 1\nrule ok\n  command = touch $out\n");
    for i in 0..n { m.push_str(&format!("build f{}: f\n", i)); }
    for i in 0..g { m.push_str(&format!("build g{}: ok\n", i)); }
    std::fs::write("build.ninja", m).unwrap();
    let mut c = Command::new(bin);
    c.arg("-j").arg(j.to_string());
    if k != "-" { c.arg("-k").arg(k); }
    let Ok(o) = c.output() else { return "spawn-failed".into() };
    let good = (0..g).filter(|i| std::path::Path::new(&format!("g{}", i)).exists()).count();
    format!("code={} started={} good={}", o.status.code().unwrap_or(-1), count_prefix("ran."), good)
}

fn jobs(bin: &str, j: usize, n: usize, pool: &str) -> String {
    let mut m = String::new();
    if pool != "-" && pool != "console" { m.push_str(&format!("pool p\n  depth = {}\n", pool)); }
    m.push_str("rule r\n  command = mkdir run.$out && ls -d run.* 2>/dev/null | wc -l > peak.$out && sleep 0.03 && rmdir run.$out && touch $out\n");
    if pool == "console" { m.push_str("  pool = console\n"); } else if pool != "-" { m.push_str("  pool = p\n"); }
    for i in 0..n { m.push_str(&format!("build o{}: r\n", i)); }
    std::fs::write("build.ninja", m).unwrap();
    let Ok(o) = Command::new(bin).arg("-j").arg(j.to_string()).output() else { return "spawn-failed".into() };
    let mut peak = 0usize; let mut ran = 0usize;
    for i in 0..n {
        if let Ok(s) = std::fs::read_to_string(format!("peak.o{}", i)) { ran += 1; peak = peak.max(s.trim().parse().unwrap_or(0)); }
    }
    format!("code={} peak={} ran={}", o.status.code().unwrap_or(-1), peak, ran)
}

/// the summary line and exit status of run_impl (C19): `n` copying steps, a second invocation after
/// `m` of the sources changed, with `f` steps failing in it
fn summary(bin: &str, n: usize, m: usize, f: usize) -> String {
    let mut mf = String::from("rule cp\n  command = cp $in $out\nrule bad\n  command = exit 1\n");
    for i in 0..n { mf.push_str(&format!("build out{}: cp in{}\n", i, i)); std::fs::write(format!("in{}", i), "1").unwrap(); }
    std::fs::write("build.ninja", &mf).unwrap();
    let last = |o: &std::process::Output| -> String {
        let t = String::from_utf8_lossy(&o.stdout).to_string();
        let l: Vec<&str> = t.lines().filter(|l| l.starts_with("n2: ") && !l.starts_with("n2: error")).collect();
        if l.is_empty() { "-".into() } else { crate::util::hex(l.join("|").as_bytes()) }
    };
    let Ok(o1) = Command::new(bin).arg("-k").arg("100").output() else { return "spawn-failed".into() };
    // an explicit later mtime: the change must be visible whatever the file system's timestamp granularity
    for i in 0..m { crate::proj::write_file(std::path::Path::new(&format!("in{}", i)), b"22", 2_000_000_000 + i as i64); }
    for i in 0..f { mf.push_str(&format!("build bad{}: bad\n", i)); }
    std::fs::write("build.ninja", &mf).unwrap();
    let Ok(o2) = Command::new(bin).arg("-k").arg("100").output() else { return "spawn-failed".into() };
    let copied = (0..n).filter(|i| std::fs::read(format!("out{}", i)).ok() == std::fs::read(format!("in{}", i)).ok()).count();
    format!("codes={},{} first={} second={} copied={}", o1.status.code().unwrap_or(-1), o2.status.code().unwrap_or(-1), last(&o1), last(&o2), copied)
}

/// -C / -f / builddir / positional targets as parse_args reads them (C18)
fn whereis(bin: &str, c: bool, f: bool, f_first: bool, targets: &str) -> String {
    for (dir, tag) in [(".", "top"), ("d", "d")] {
        std::fs::create_dir_all(dir).unwrap();
        for (mf, mtag, bd) in [("build.ninja", "build", ""), ("alt.ninja", "alt", "builddir = bd\n")] {
            std::fs::write(format!("{}/{}", dir, mf), format!("{}rule r\n  command = echo {}-{} > $out\nbuild a: r\nbuild b: r\ndefault a\n", bd, tag, mtag)).unwrap();
        }
    }
    let mut cmd = Command::new(bin);
    let add_c = |cmd: &mut Command| { if c { cmd.arg("-C").arg("d"); } };
    let add_f = |cmd: &mut Command| { if f { cmd.arg("-f").arg("alt.ninja"); } };
    if f_first { add_f(&mut cmd); add_c(&mut cmd); } else { add_c(&mut cmd); add_f(&mut cmd); }
    if targets != "-" { for t in targets.split(',') { cmd.arg(t); } }
    let Ok(o) = cmd.output() else { return "spawn-failed".into() };
    let mut built = vec![]; let mut marks: Vec<String> = vec![];
    for p in ["a", "b", "d/a", "d/b"] {
        if let Ok(s) = std::fs::read_to_string(p) { built.push(p); let m = s.trim().to_string(); if !marks.contains(&m) { marks.push(m); } }
    }
    let dbs: Vec<&str> = [".n2_db", "bd/.n2_db", "d/.n2_db", "d/bd/.n2_db"].into_iter().filter(|p| std::path::Path::new(p).exists()).collect();
    let j = |v: &Vec<&str>| if v.is_empty() { "-".to_string() } else { v.join(",") };
    format!("code={} built={} marker={} db={}", o.status.code().unwrap_or(-1), j(&built), if marks.is_empty() { "-".to_string() } else { marks.join(",") }, j(&dbs))
}

pub fn run(ctx: &mut Ctx) {
    ctx.crash_safe = true;
    let Ok(bin) = std::env::var("N2V_N2BIN") else { return };
    let tp = TempProject::new("opts");
    if let Some(cases) = ctx.replay_cases() {
        for c in cases {
            let t: Vec<&str> = c.split(' ').collect();
            if t.len() == 6 && t[1] == "keepgoing" {
                let (n, g, j) = (t[3].parse().unwrap_or(0), t[4].parse().unwrap_or(0), t[5].parse().unwrap_or(1));
                ctx.emit(&c, || { tp.reset(); keepgoing(&bin, t[2], n, g, j) });
            } else if t.len() == 5 && t[1] == "summary" {
                let (n, m, f) = (t[2].parse().unwrap_or(0), t[3].parse().unwrap_or(0), t[4].parse().unwrap_or(0));
                ctx.emit(&c, || { tp.reset(); summary(&bin, n, m, f) });
            } else if t.len() == 6 && t[1] == "where" {
                ctx.emit(&c, || { tp.reset(); whereis(&bin, t[2] == "1", t[3] == "1", t[4] == "1", t[5]) });
            } else if t.len() == 5 && t[1] == "jobs" {
                let (j, n) = (t[2].parse().unwrap_or(1), t[3].parse().unwrap_or(0));
                ctx.emit(&c, || { tp.reset(); jobs(&bin, j, n, t[4]) });
            }
        }
        return;
    }
    let mut kg: Vec<(String, usize, usize, usize)> = vec![];
    for k in ["-", "1", "2", "3", "5"] { for (n, g) in [(1usize, 0usize), (3, 0), (4, 2), (0, 2)] { for j in [1usize, 3] { kg.push((k.to_string(), n, g, j)); } } }
    let mut jb: Vec<(usize, usize, String)> = vec![];
    for j in [1usize, 2, 3, 5] { jb.push((j, 8, "-".into())); }
    for (d, j) in [("1", 4usize), ("2", 4), ("3", 2), ("0", 3), ("console", 4)] { jb.push((j, 6, d.to_string())); }
    if ctx.thorough() {
        for _ in 0..60 { let k = ctx.rng.range(1, 7); kg.push((k.to_string(), ctx.rng.below(7) as usize, ctx.rng.below(4) as usize, ctx.rng.range(1, 6) as usize)); }
        for _ in 0..30 { let d = ctx.rng.below(5); jb.push((ctx.rng.range(1, 9) as usize, ctx.rng.range(2, 12) as usize, if ctx.rng.chance(1, 3) { "-".into() } else { d.to_string() })); }
    }
    for c in [false, true] { for f in [false, true] { for f_first in [false, true] {
        if f_first && !(c && f) { continue; }
        for targets in ["-", "a", "b", "a,b", "b,a", "nosuch", "b,nosuch", "nosuch,a", "./b", "a,a"] {
            ctx.count("opts_where");
            ctx.emit(&format!("n2bin where {} {} {} {}", c as u8, f as u8, f_first as u8, targets), || { tp.reset(); whereis(&bin, c, f, f_first, targets) });
        }
    } } }
    let mut sm: Vec<(usize, usize, usize)> = vec![(0, 0, 0), (1, 0, 0), (1, 1, 0), (2, 0, 0), (2, 1, 0), (2, 2, 0), (5, 3, 0), (12, 11, 0), (3, 0, 1), (3, 2, 1), (3, 3, 2), (0, 0, 1)];
    if ctx.thorough() { for _ in 0..40 { let n = ctx.rng.below(15); sm.push((n, ctx.rng.below(n + 1), if ctx.rng.chance(1, 3) { ctx.rng.range(1, 3) } else { 0 })); } }
    for (n, m, f) in sm {
        ctx.count("opts_summary");
        ctx.emit(&format!("n2bin summary {} {} {}", n, m, f), || { tp.reset(); summary(&bin, n, m, f) });
    }
    for (k, n, g, j) in kg {
        ctx.count("opts_keepgoing");
        ctx.emit(&format!("n2bin keepgoing {} {} {} {}", k, n, g, j), || { tp.reset(); keepgoing(&bin, &k, n, g, j) });
    }
    for (j, n, pool) in jb {
        ctx.count("opts_jobs");
        ctx.emit(&format!("n2bin jobs {} {} {}", j, n, pool), || { tp.reset(); jobs(&bin, j, n, &pool) });
    }
}
