#!/bin/bash
# quick tier of every check against a repository snapshot with a patch applied (used from `vp run --with-repo`
# to try behaviour-preserving changes: any alarm here is a false alarm)
patch=$(realpath "$1" 2>/dev/null || echo "$1")   # relative to where the caller stands, not to the repository snapshot
cd "$(dirname "$0")"
[ -f "$patch" ] || patch=$(realpath "$1")
[ -n "$VP_RUN_REPO" ] || { echo "needs VP_RUN_REPO"; exit 2; }
git -C "$VP_RUN_REPO" apply "$patch" || { echo "patch does not apply"; exit 2; }
export N2V_REPO=$VP_RUN_REPO; sed -i "s#path = \"/repo\"#path = \"$VP_RUN_REPO\"#" harness/Cargo.toml
[ -d .cache ] || ./setup.sh > setup.log 2>&1
for i in $(seq -w 1 20); do
  s=$(date +%s)
  out=$(timeout 7200 ./check C$i 2>&1); r=$?
  echo "$out" | grep -E "^(C$i |VIOLATION|KNOWN-FINDING)" | cut -c1-260
  echo "C$i exit=$r wall=$(( $(date +%s) - s ))s"
done
