#!/bin/bash
cd /verif
for i in $(seq -w 1 20); do
  out=$(VERIF_TIER=thorough timeout 14400 ./check C$i 2>&1); r=$?
  echo "$out" | grep -E "^(C$i |VIOLATION|KNOWN-FINDING)" | cut -c1-260
  [ $r -ne 0 ] && echo "C$i exit=$r"
done
