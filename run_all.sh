#!/bin/bash
# Run every property's check once (tier/seed from the environment); summary on stdout.
cd /verif
rc=0
for i in $(seq -w 1 20); do
  out=$(timeout 3600 ./check C$i 2>&1); r=$?
  echo "$out" | grep -E "^(C$i |VIOLATION|KNOWN-FINDING)" 
  [ $r -ne 0 ] && { rc=1; echo "C$i exit=$r"; }
done
exit $rc
