#!/usr/bin/env python3
"""Regenerates MANIFEST.json from checkconf.PROPS (run after adding/changing a property)."""
import json, os, subprocess
ROOT = os.path.dirname(os.path.abspath(__file__))
import sys; sys.path.insert(0, ROOT)
from checkconf import PROPS, HOOK_COMMITS
ids = [json.loads(l)["id"] for l in open(os.path.join(ROOT, "properties.jsonl"))]
checks = []
for pid in ids:
    if pid not in PROPS: continue
    c = PROPS[pid]
    checks.append({
        "property_id": pid,
        "quick_cmd": f"./check {pid} --tier quick",
        "thorough_cmd": f"./check {pid} --tier thorough",
        "evidence_file": f"evidence/{pid}.json",
        "replay_cmd_template": f"./check {pid} --replay {{path}}",
        "engine": "lean-model+harness",
        "level_claimed": {"category": c.get("level", "proof"), "text": c["claim"], "design_ref": f"DESIGN.md §7 {pid}"},
        "level_note": c.get("level_note", "Trusted: Lean 4.33 kernel (axioms propext/Classical.choice/Quot.sound only, audited per theorem on every run); the hand-written model's fidelity as far as the correspondence run sampled it; the Rust harness, the feature-gated hooks in /repo and the canonicalisation in ./check. " + " ".join(c.get("assumptions", [])[2:])),
        "technique": c.get("technique", "Lean 4 proof over an executable model + differential correspondence with the real code"),
    })
na = [{"property_id": pid, "reason": "check not built yet in this framework (work in progress, see DESIGN.md §10); not a judgement that the technique cannot apply"}
      for pid in ids if pid not in PROPS]
m = {
 "version": 1,
 "setup_cmd": "./setup.sh",
 "hooks": {
  "guard": "cargo feature `verif` (cfg(feature = \"verif\"))",
  "enable": "harness/Cargo.toml: n2 = { path = \"/repo\", default-features = false, features = [\"verif\"] }; built by ./check with `cargo build --offline`",
  "baseline_off_cmd": "cd /repo && cargo test --workspace --no-fail-fast --offline",
  "source_commits": HOOK_COMMITS,
  "add_only": True
 },
 "engines": [
  {"name": "lean-model+harness", "path": "lean/ harness/ check",
   "kind_free_text": "Lean 4 executable model of n2 with property theorems (lean/N2V/Props), compiled model driver, Rust harness linking the real n2 crate (feature verif); ./check builds proofs, audits axioms, runs the correspondence and the Lean monitors",
   "serves_properties": [c["property_id"] for c in checks]}
 ],
 "checks": checks,
 "not_applicable": na,
 "notes": "See DESIGN.md. Fix commits to /repo and their findings are in known_findings.json."
}
json.dump(m, open(os.path.join(ROOT, "MANIFEST.json"), "w"), indent=1)
print("checks:", [c["property_id"] for c in checks], "na:", len(na))
