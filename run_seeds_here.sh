#!/bin/bash
# regression of kept seeds inside a `vp run --with-repo` snapshot: for each seed id given, apply it to the repository
# snapshot, run the check of the property it breaks (quick tier), undo. A seed that is NOT reported is a regression.
cd "$(dirname "$0")"
[ -n "$VP_RUN_REPO" ] || { echo "needs VP_RUN_REPO"; exit 2; }
export N2V_REPO=$VP_RUN_REPO; sed -i "s#path = \"/repo\"#path = \"$VP_RUN_REPO\"#" harness/Cargo.toml
[ -d .cache ] || ./setup.sh > setup.log 2>&1
for id in "$@"; do
  d=seeded/$id
  prop=$(python3 -c "import json;print(json.load(open('$d/meta.json'))['breaks_property'])")
  if ! git -C "$VP_RUN_REPO" apply --check $PWD/$d/patch.diff 2>/dev/null; then echo "$id: patch does not apply"; continue; fi
  git -C "$VP_RUN_REPO" apply $PWD/$d/patch.diff
  out=$(timeout 3000 ./check $prop 2>&1); rc=$?
  git -C "$VP_RUN_REPO" checkout -- .
  echo "$id ($prop): rc=$rc $(echo "$out" | grep -E '^VIOLATION' | head -1 | cut -c1-90) | $(echo "$out" | grep -E "^$prop " | sed 's/.*theorems/theorems/' | cut -c1-160)"
done
