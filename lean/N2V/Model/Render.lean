/-
  Model of the pure render helpers of `progress_fancy.rs`: `truncate`, `task_message`,
  `progress_bar` (and `StateCounts::total`).  Strings are byte lists; `String::truncate`'s
  "not a char boundary" panic is an explicit outcome.
-/
import N2V.Model.Basic
namespace N2V.Render

/-- `str::is_char_boundary`. -/
def isCharBoundary (s : Bytes) (i : Nat) : Bool :=
  if i == 0 then true
  else match s[i]? with
    | none => i == s.length
    | some b => b < 128 || b ≥ 192      -- not a UTF-8 continuation byte

/-- The loop of `truncate`: `while !s.is_char_boundary(max) { max -= 1 }`. -/
def boundaryAtOrBelow (s : Bytes) : Nat → Nat
  | 0 => 0
  | m + 1 => if isCharBoundary s (m + 1) then m + 1 else boundaryAtOrBelow s m

/-- `fn truncate(s: &str, max: usize) -> &str`. -/
def truncate (s : Bytes) (max : Nat) : Bytes :=
  if max ≥ s.length then s else s.take (boundaryAtOrBelow s max)

/-- `String::truncate(new_len)`: no effect past the end, panics inside a character. -/
def stringTruncate (s : Bytes) (n : Nat) : Res Bytes :=
  if n > s.length then .ok s
  else if isCharBoundary s n then .ok (s.take n)
  else .panic "assertion failed: self.is_char_boundary(new_len)"

def digits (n : Nat) : Bytes := (toString n).toUTF8.toList

def timeNote (seconds : Nat) : Bytes :=
  if seconds > 2 then [32, 40] ++ digits seconds ++ [115, 41] else []   -- " (Ns)"

def ellipsis : Bytes := [46, 46, 46]

/-- The time note actually shown: dropped when the terminal is too narrow for it. -/
def noteFor (seconds maxCols : Nat) : Bytes :=
  if (timeNote seconds).length + 3 > maxCols then [] else timeNote seconds

def taskMessageWith (message note : Bytes) (maxCols : Nat) : Res Bytes :=
  if message.length + note.length ≥ maxCols then
    let keep := (truncate message (maxCols - (note.length + 3))).length   -- saturating_sub
    match stringTruncate message keep with
    | .ok out => .ok (out ++ ellipsis ++ note)
    | r => r
  else .ok (message ++ note)

/-- `task_message` (after the repair of finding F9). -/
def taskMessage (message : Bytes) (seconds maxCols : Nat) : Res Bytes :=
  taskMessageWith message (noteFor seconds maxCols) maxCols

/-- Counts in the order of `StateCounts`: want, ready, queued, running, done, failed. -/
structure Counts where
  want : Nat
  ready : Nat
  queued : Nat
  running : Nat
  done : Nat
  failed : Nat
  deriving Repr, DecidableEq

def Counts.total (c : Counts) : Nat := c.want + c.ready + c.queued + c.running + c.done + c.failed

/-- One segment of `progress_bar`'s loop: returns the new `(sum, bar)`. -/
def barStep (barSize total : Nat) (acc : Nat × Bytes) (seg : Nat × UInt8) : Nat × Bytes :=
  let sum := acc.1 + seg.1
  let t0 := sum * barSize / total
  let target := if seg.1 > 0 && t0 == acc.2.length && t0 < barSize then t0 + 1 else t0
  (sum, acc.2 ++ List.replicate (target - acc.2.length) seg.2)

def progressBar (c : Counts) (barSize : Nat) : Bytes :=
  let total := c.total
  if total == 0 then List.replicate barSize 32
  else
    ([(c.done + c.failed, (61 : UInt8)), (c.queued + c.running + c.ready, 45), (c.want, 32)].foldl
      (barStep barSize total) (0, [])).2

/-! ### One frame of the fancy display (`FancyState::print_progress`) -/

/-- A running task as `FancyState` tracks it.  `lastLine` is what `task_output` stored:
    `String::from_utf8_lossy` of the last output line (std's decoder is a parameter of the
    model: the correspondence run supplies its result for the raw bytes). -/
structure FrameTask where
  message : Bytes
  secs : Nat
  lastLine : Option Bytes
  deriving Repr

/-- The rows `print_progress` writes for one task: its message, then its last output line
    indented by two blanks and cut to `max_cols - 2` bytes at a character boundary. -/
def taskRows (t : FrameTask) (cols : Nat) : Res (List Bytes) :=
  match taskMessage t.message t.secs cols with
  | .ok m =>
    match t.lastLine with
    | none => .ok [m]
    | some l =>
      if cols < 2 then .overflow      -- `max_cols - 2` (usize)
      else .ok [m, [32, 32] ++ truncate l (cols - 2)]
  | .err e => .err e
  | .panic p => .panic p
  | .oob => .oob
  | .overflow => .overflow
  | .fuel => .fuel

def allTaskRows : List FrameTask → Nat → Res (List Bytes)
  | [], _ => .ok []
  | t :: ts, cols =>
    match taskRows t cols with
    | .ok rs =>
      match allTaskRows ts cols with
      | .ok rest => .ok (rs ++ rest)
      | r => r
    | r => r

def str (s : String) : Bytes := s.toUTF8.toList

/-- The first row: bar, finished/total, failures, running tasks / startable steps. -/
def frameHeader (c : Counts) (nTasks : Nat) : Bytes :=
  str "[" ++ progressBar c 40 ++ str "] " ++ digits (c.done + c.failed) ++ str "/" ++ digits c.total ++ str " done, " ++
  (if c.failed > 0 then digits c.failed ++ str " failed, " else []) ++
  digits nTasks ++ str "/" ++ digits (c.queued + c.running + c.ready) ++ str " running"

/-- `print_progress`: header, at most 8 tasks, "...and N more", cursor-up by the number of rows. -/
def frame (c : Counts) (tasks : List FrameTask) (colsOpt : Option Nat) : Res Bytes :=
  let cols := colsOpt.getD 80
  match allTaskRows (tasks.take 8) cols with
  | .ok rows =>
    let more : List Bytes := if tasks.length > 8 then [str "...and " ++ digits (tasks.length - 8) ++ str " more"] else []
    let lines := frameHeader c tasks.length :: rows ++ more
    .ok (lines.flatMap (· ++ [10]) ++ [27, 91] ++ digits lines.length ++ [65])
  | .err e => .err e
  | .panic p => .panic p
  | .oob => .oob
  | .overflow => .overflow
  | .fuel => .fuel

end N2V.Render
