/-
  Model of `parse.rs`: the .ninja parser over the scanner model.  Every loop carries fuel
  (`Props/C12` proves buffer size + 1 always suffices).  `read_vardef` is the version after the
  repair of finding F1.
-/
import N2V.Model.Scanner
import N2V.Model.Eval
namespace N2V.Parse
open N2V N2V.Scanner N2V.Eval

/-- Parser computations: a scanner in, a value and the advanced scanner (or a parse error /
    abnormal outcome) out. -/
abbrev PM (α : Type) := Scanner → PRes α

@[inline] def PM.pure {α} (a : α) : PM α := fun s => .ok a s
@[inline] def PM.bind {α β} (m : PM α) (f : α → PM β) : PM β := fun s =>
  match m s with
  | .ok a s' => f a s'
  | .perr msg o => .perr msg o
  | .bad r => .bad r
instance : Monad PM where
  pure := PM.pure
  bind := PM.bind

def liftRes {α} (f : Scanner → Res (α × Scanner)) : PM α := fun s =>
  match f s with
  | .ok (a, s') => .ok a s'
  | r => .ofRes r

def pRead : PM UInt8 := liftRes Scanner.read
def pPeek : PM UInt8 := fun s => match s.peek with | .ok c => .ok c s | r => .ofRes r
def pBack : PM Unit := fun s => match s.back with | .ok s' => .ok () s' | r => .ofRes r
def pNext : PM Unit := fun s => match s.next with | .ok s' => .ok () s' | r => .ofRes r
def pExpect (c : UInt8) : PM Unit := fun s => s.expect c
def pOfs : PM Nat := fun s => .ok s.ofs s
def pLine : PM Nat := fun s => .ok s.line s
def pSize : PM Nat := fun s => .ok s.buf.size s
def pSlice (a b : Nat) : PM Bytes := fun s => match s.slice a b with | .ok x => .ok x s | r => .ofRes r
def pError {α} (msg : String) : PM α := fun s => parseError s msg
def pFuel {α} : PM α := fun _ => .bad .fuel
def pScannerSkipSpaces : PM Unit := fun s =>
  match Scanner.skipSpaces (s.buf.size + 1) s with
  | .ok s' => .ok () s'
  | r => .ofRes r

def DOLLAR : UInt8 := 36
def COLON : UInt8 := 58
def PIPE : UInt8 := 124
def AT : UInt8 := 64
def EQ : UInt8 := 61
def HASH : UInt8 := 35
def TAB : UInt8 := 9
def LBRACE : UInt8 := 123
def RBRACE : UInt8 := 125

def isIdentChar (c : UInt8) (allowDot : Bool) : Bool :=
  (97 ≤ c && c ≤ 122) || (65 ≤ c && c ≤ 90) || (48 ≤ c && c ≤ 57) || c == 95 || c == 45 || (allowDot && c == 46)

/-- `while matches!(self.scanner.read(), ident chars) {}` -/
def identLoop (allowDot : Bool) : Nat → PM Unit
  | 0 => pFuel
  | fuel + 1 => do
    let c ← pRead
    if isIdentChar c allowDot then identLoop allowDot fuel else pure ()

def readIdentGen (allowDot : Bool) (errMsg : String) : PM Bytes := do
  let start ← pOfs
  let n ← pSize
  identLoop allowDot (n + 1)
  pBack
  let stop ← pOfs
  if stop == start then pError errMsg else pSlice start stop

def readIdent : PM Bytes := readIdentGen true "failed to scan ident"
def readSimpleVarname : PM Bytes := readIdentGen false "failed to scan variable name"

/-- Parser's `skip_spaces`: spaces and `$`-newline. -/
def skipSpacesLoop : Nat → PM Unit
  | 0 => pFuel
  | fuel + 1 => do
    let c ← pRead
    if c == SP then skipSpacesLoop fuel
    else if c == DOLLAR then do
      let p ← pPeek
      if p != NL then pBack
      else do
        -- `self.scanner.skip('\n')`
        let _ ← pRead
        skipSpacesLoop fuel
    else pBack

def skipSpaces : PM Unit := do let n ← pSize; skipSpacesLoop (n + 1)

/-- The `${...}` loop of `read_escape`. -/
def braceLoop : Nat → PM Unit
  | 0 => pFuel
  | fuel + 1 => do
    let c ← pRead
    if c == NUL then pError "unexpected EOF"
    else if c == RBRACE then pure ()
    else braceLoop fuel

def readEscape : PM Part := do
  let c ← pRead
  if c == NL then do
    pScannerSkipSpaces
    pure (.lit [])
  else if c == SP || c == DOLLAR || c == COLON then pure (.lit [c])
  else if c == LBRACE then do
    let start ← pOfs
    let n ← pSize
    braceLoop (n + 1)
    let stop ← pOfs
    let name ← pSlice start (stop - 1)
    pure (.var name)
  else do
    pBack
    let v ← readSimpleVarname
    pure (.var v)

/-- The main loop of `read_eval`: `ofs` is the start of the pending literal, `acc` the parts so
    far.  Returns the parts and the end offset of the last literal. -/
def evalLoop (stopAtSep : Bool) : Nat → Nat → List Part → PM (List Part × Nat × Nat)
  | 0, _, _ => pFuel
  | fuel + 1, ofs, acc => do
    let c ← pRead
    if c == NUL then pError "unexpected EOF"
    else if c == NL || (stopAtSep && (c == SP || c == COLON || c == PIPE)) then do
      pBack
      let e ← pOfs
      pure (acc, ofs, e)
    else if c == DOLLAR then do
      let cur ← pOfs
      let stop := cur - 1
      let acc1 ← (if stop > ofs then do let l ← pSlice ofs stop; pure (acc ++ [Part.lit l]) else pure acc)
      let esc ← readEscape
      let ofs' ← pOfs
      evalLoop stopAtSep fuel ofs' (acc1 ++ [esc])
    else evalLoop stopAtSep fuel ofs acc

def readEval (stopAtSep : Bool) : PM EvalStr := do
  let ofs ← pOfs
  let n ← pSize
  let (acc, ofs', e) ← evalLoop stopAtSep (n + 1) ofs []
  let acc' ← (if e > ofs' then do let l ← pSlice ofs' e; pure (acc ++ [Part.lit l]) else pure acc)
  if acc'.isEmpty then pError "Expected a string" else pure acc'

/-- `read_vardef` (after the repair of F1: the error of `read_eval` is returned first). -/
def readVardef : PM EvalStr := do
  skipSpaces
  pExpect EQ
  skipSpaces
  let p ← pPeek
  if p == NL then do
    pExpect NL
    pure []
  else do
    let r ← readEval false
    pExpect NL
    pure r

/-- Debug rendering of a name in `unexpected variable {:?}` (plain for the identifier
    alphabet, which is all `read_ident` returns). -/
def quoted (b : Bytes) : String := "\"" ++ stringOfBytes b ++ "\""

def scopedVarsLoop (valid : Bytes → Bool) : Nat → EvalMap → PM EvalMap
  | 0, _ => pFuel
  | fuel + 1, vars => do
    let p ← pPeek
    if p != SP then pure vars
    else do
      pScannerSkipSpaces
      let name ← readIdent
      if !valid name then pError ("unexpected variable " ++ quoted name)
      else do
        skipSpaces
        let val ← readVardef
        scopedVarsLoop valid fuel (Eval.insert vars name val)

def readScopedVars (valid : Bytes → Bool) : PM EvalMap := do
  let n ← pSize
  scopedVarsLoop valid (n + 1) []

def ruleVarNames : List String :=
  ["command", "depfile", "dyndep", "description", "deps", "generator", "pool", "restat", "rspfile",
   "rspfile_content", "msvc_deps_prefix", "hide_success", "hide_progress"]

def isRuleVar (n : Bytes) : Bool := ruleVarNames.any (fun s => bytesOfString s == n)

structure PBuild where
  rule : Bytes
  line : Nat
  outs : List EvalStr
  explicitOuts : Nat
  ins : List EvalStr
  explicitIns : Nat
  implicitIns : Nat
  orderOnlyIns : Nat
  validationIns : Nat
  vars : EvalMap
  deriving Repr

inductive Stmt where
  | rule (name : Bytes) (vars : EvalMap)
  | build (b : PBuild)
  | default (ps : List EvalStr)
  | include (p : EvalStr)
  | subninja (p : EvalStr)
  | pool (name : Bytes) (depth : Nat)
  deriving Repr

def readRule : PM Stmt := do
  let name ← readIdent
  pExpect NL
  let vars ← readScopedVars isRuleVar
  pure (.rule name vars)

/-- `str::parse::<usize>`: optional `+`, at least one digit, only digits, fits 64 bits. -/
def parseUsize (b : Bytes) : Option Nat :=
  let digits := match b with | 43 :: r => r | _ => b
  if digits.isEmpty || !digits.all (fun c => 48 ≤ c && c ≤ 57) then none
  else
    let v := digits.foldl (fun acc c => acc * 10 + (c.toNat - 48)) 0
    if v < 2 ^ 64 then some v else none

def readPool : PM Stmt := do
  let name ← readIdent
  pExpect NL
  let vars ← readScopedVars (fun n => n == bytesOfString "depth")
  match vars with
  | [] => pure (.pool name 0)
  | (_, val) :: _ =>
    match parseUsize (Eval.evaluate [] val) with
    | some d => pure (.pool name d)
    | none => pError "pool depth"

def pathsLoop : Nat → List EvalStr → PM (List EvalStr)
  | 0, _ => pFuel
  | fuel + 1, acc => do
    let p ← pPeek
    if p == COLON || p == PIPE || p == NL then pure acc
    else do
      let e ← readEval true
      skipSpaces
      pathsLoop fuel (acc ++ [e])

/-- `read_unevaluated_paths_to`. -/
def readPathsTo (acc : List EvalStr) : PM (List EvalStr) := do
  skipSpaces
  let n ← pSize
  pathsLoop (n + 1) acc

/-- `| implicit outs` -/
def optImplicitOuts (outs : List EvalStr) : PM (List EvalStr) := do
  let p ← pPeek
  if p == PIPE then do pNext; readPathsTo outs else pure outs

/-- `| implicit ins` (a `|` followed by `|` or `@` belongs to the next section). -/
def optImplicit (ins : List EvalStr) : PM (List EvalStr) := do
  let p ← pPeek
  if p == PIPE then do
    pNext
    let q ← pPeek
    if q == PIPE || q == AT then do pBack; pure ins
    else readPathsTo ins
  else pure ins

/-- `|| order-only ins` (a `|` followed by `@` belongs to the next section). -/
def optOrderOnly (ins : List EvalStr) : PM (List EvalStr) := do
  let p ← pPeek
  if p == PIPE then do
    pNext
    let q ← pPeek
    if q == AT then do pBack; pure ins
    else do pExpect PIPE; readPathsTo ins
  else pure ins

/-- `|@ validation ins` -/
def optValidation (ins : List EvalStr) : PM (List EvalStr) := do
  let p ← pPeek
  if p == PIPE then do
    pNext
    pExpect AT
    readPathsTo ins
  else pure ins

def readBuild : PM Stmt := do
  let line ← pLine
  let outs0 ← readPathsTo []
  let outs ← optImplicitOuts outs0
  pExpect COLON
  skipSpaces
  let rule ← readIdent
  let ins0 ← readPathsTo []
  let ins1 ← optImplicit ins0
  let ins2 ← optOrderOnly ins1
  let ins3 ← optValidation ins2
  pExpect NL
  let vars ← readScopedVars (fun _ => true)
  let explicitIns := ins0.length
  let implicitIns := ins1.length - explicitIns
  let orderOnlyIns := ins2.length - implicitIns - explicitIns
  let validationIns := ins3.length - orderOnlyIns - implicitIns - explicitIns
  pure (.build { rule, line, outs, explicitOuts := outs0.length, ins := ins3, explicitIns, implicitIns,
                 orderOnlyIns, validationIns, vars })

def readDefault : PM Stmt := do
  let ps ← readPathsTo []
  if ps.isEmpty then pError "expected path"
  else do
    pExpect NL
    pure (.default ps)

def skipCommentLoop : Nat → PM Unit
  | 0 => pFuel
  | fuel + 1 => do
    let c ← pRead
    if c == NUL then pBack
    else if c == NL then pure ()
    else skipCommentLoop fuel

def skipComment : PM Unit := do let n ← pSize; skipCommentLoop (n + 1)

/-- What `Parser::read` found. -/
inductive Item where
  | eof
  | stmt (s : Stmt)
  | binding (name : Bytes) (val : EvalStr)     -- evaluated and stored by the caller
  deriving Repr

/-- One round of `Parser::read`'s loop that produces something (blank lines and comments are
    consumed inside). -/
def readItem : Nat → PM Item
  | 0 => pFuel
  | fuel + 1 => do
    let p ← pPeek
    if p == NUL then pure .eof
    else if p == NL then do pNext; readItem fuel
    else if p == HASH then do skipComment; readItem fuel
    else if p == SP || p == TAB then pError "unexpected whitespace"
    else do
      let ident ← readIdent
      skipSpaces
      if ident == bytesOfString "rule" then do let s ← readRule; pure (.stmt s)
      else if ident == bytesOfString "build" then do let s ← readBuild; pure (.stmt s)
      else if ident == bytesOfString "default" then do let s ← readDefault; pure (.stmt s)
      else if ident == bytesOfString "include" then do let e ← readEval false; pure (.stmt (.include e))
      else if ident == bytesOfString "subninja" then do let e ← readEval false; pure (.stmt (.subninja e))
      else if ident == bytesOfString "pool" then do let s ← readPool; pure (.stmt s)
      else do
        let v ← readVardef
        pure (.binding ident v)

end N2V.Parse
