/-
  Histories: edits and invocations over a world (tree + log), and the monitors of C02, C03,
  C09 and C17 evaluated on the implementation's observations.
-/
import N2V.Model.Work
import N2V.Monitors
namespace N2V.World
open N2V N2V.Work N2V.Load

inductive Op where
  | write (name : Bytes) (mtime : Nat) (content : Bytes)
  | delete (name : Bytes)
  | invoke (a : InvArgs)
  deriving Repr

def applyEdit (w : World) : Op → World
  | .write n m c => { w with fs := w.fs.put n ⟨m, c⟩ }
  | .delete n => { w with fs := w.fs.del n }
  | .invoke _ => w

def emptyWorld : World := { fs := [], clock := 5000, log := [] }

/-- Sort the tree by name (as the harness's dump does). -/
def insertSorted (x : Bytes × FileInfo) : List (Bytes × FileInfo) → List (Bytes × FileInfo)
  | [] => [x]
  | y :: ys => if compare x.1 y.1 == .lt then x :: y :: ys else y :: insertSorted x ys

def sortFs (fs : FsM) : FsM := fs.foldr insertSorted []

/-! ### Clean build (what a from-scratch build of the current tree produces) -/

/-- Run every non-phony build of `todo` once, in dependency order (a build runs when none of
    the producers of its inputs is still to do).  `none`: some command would fail. -/
def topoRun (sg : Sched.Graph) : Nat → Env → List Nat → Option Env
  | 0, e, todo => if todo.isEmpty then some e else none
  | fuel + 1, e, todo =>
    if todo.isEmpty then some e else
    let ready := todo.filter (fun b =>
      (Mon.allProducers sg b).all (fun p => p == b || !todo.contains p))
    if ready.isEmpty then none else
    let step (acc : Option Env) (b : Nat) : Option Env :=
      match acc with
      | none => none
      | some e =>
        match buildOf e.g b with
        | none => some e
        | some bm =>
          if bm.cmdline.isNone then some e
          else if hasToken e bm (bytesOfString "!fail") || hasToken e bm (bytesOfString "!int") then none
          else some (runCommand e b)
    match ready.foldl step (some e) with
    | none => none
    | some e' => topoRun sg fuel e' (todo.filter (fun b => !ready.contains b))

/-- Contents of the outputs of the requested closure after a from-scratch build of the tree
    `w.fs` minus every generated file. -/
def cleanOutputs (w : World) (a : InvArgs) : Option (List (Bytes × Bytes)) :=
  match loadEnv { w with log := [] } a.manifestName with
  | .error _ => none
  | .ok (l, e0) =>
    let sg := schedGraph e0.g
    let ra := argsOf l a
    match Mon.wantedFiles sg ra with
    | none => none
    | some files =>
      let builds := Mon.wantedBuilds sg ra files
      -- the manifest's own producer chain is not part of "the closure of the requested targets"
      let generated := (List.range sg.nFiles).filter (fun f => f != 0 && (sg.producer f).isSome)
      let fs0 := generated.foldl (fun (fs : FsM) f => fs.del (sg.fileName f)) e0.fs
      match topoRun sg (sg.nBuilds + 1) { e0 with fs := fs0 } builds with
      | none => none
      | some e1 =>
        some ((builds.filter (fun b => !(sg.build b).phony && !(sg.build b).outs.contains 0)).flatMap (fun b =>
          (sg.build b).outs.map (fun o =>
            (sg.fileName o, ((e1.fs.get (sg.fileName o)).map (·.content)).getD []))))

/-- Does every file the closure's steps name exist (the side condition of C03's idempotence)? -/
def allDeclaredPresent (w : World) (a : InvArgs) : Bool :=
  match loadEnv w a.manifestName with
  | .error _ => false
  | .ok (l, e0) =>
    let sg := schedGraph e0.g
    let ra := argsOf l a
    match Mon.wantedFiles sg ra with
    | none => false
    | some files =>
      (Mon.wantedBuilds sg ra files).all (fun b =>
        match buildOf e0.g b with
        | none => true
        | some bm =>
          (bm.ins.take (bm.explicit + bm.implicit) ++ discOf e0 b ++ bm.outs).all (fun f =>
            (e0.fs.get (fileName e0.g f)).isSome)
          -- ... and every dependency the command reports (a missing one keeps the step dirty: C09)
          && (!readsDeps bm || bm.cmdline.isNone || (reportedDeps e0 bm).all (fun d =>
                match Canon.canon d with
                | .ok c => (e0.fs.get c).isSome
                | _ => false)))

/-! ### The log: implementation bytes vs abstract records -/

/-- Build records of a parsed log with ids resolved to names. -/
def namedRecords (recs : List Db.Rec) : List (List Bytes × List Bytes × Nat) :=
  (recs.foldl (fun (acc : List Bytes × List (List Bytes × List Bytes × Nat)) r =>
    match r with
    | .path n => (acc.1 ++ [n], acc.2)
    | .build outs deps hash =>
      match Db.namesOf acc.1 outs, Db.namesOf acc.1 deps with
      | .ok os, .ok ds => (acc.1, acc.2 ++ [(os, ds, hash)])
      | _, _ => acc) ([], [])).2

/-- The implementation's log is the abstract one: same records by name, and two stored hashes
    are equal exactly when the manifests they stand for are equal. -/
def logAgrees (implLog : Bytes) (model : List Rec) : Bool :=
  match Db.parse implLog with
  | .ok recs n =>
    let named := namedRecords recs
    n == implLog.length && named.length == model.length &&
    (List.zip named model).all (fun p => p.1.1 == p.2.outs && p.1.2.1 == p.2.deps) &&
    (List.range named.length).all (fun i => (List.range named.length).all (fun j =>
      match named[i]?, named[j]?, model[i]?, model[j]? with
      | some a, some b, some x, some y => (a.2.2 == b.2.2) == (decide (x.hash = y.hash))
      | _, _, _, _ => true))
  | .empty => model.isEmpty
  | _ => false

end N2V.World
