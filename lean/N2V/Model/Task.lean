/-
  Model of the logic part of command execution: `task.rs::{extract_showincludes,
  find_last_line}` (the first after the repair of finding F10), the accumulation of output
  chunks in `run_task`, the decoding of the wait status in `process_posix.rs::run_command`, and
  what `DumbConsoleProgress` prints.  Process spawning, descriptor inheritance, pipes and signal
  delivery are observed (black box), not modelled.
-/
import N2V.Model.Basic
namespace N2V.Task

def NL : UInt8 := 10
def CR : UInt8 := 13

/-- Split at `\n` like `slice::split`. -/
def splitNL : Bytes → Bytes → List Bytes
  | [], cur => [cur]
  | c :: r, cur => if c == NL then cur :: splitNL r [] else splitNL r (cur ++ [c])

def notePrefix : Bytes := "Note: including file: ".toUTF8.toList

def stripPrefix (p l : Bytes) : Option Bytes := if p.isPrefixOf l then some (l.drop p.length) else none

/-- One `/showIncludes` payload: leading blanks dropped (all of them if nothing else follows:
    `position(..).unwrap_or(0)` then keeps the blanks), trailing `\r` dropped. -/
def notePayload (inc : Bytes) : Bytes :=
  let start := match inc.findIdx? (· != 32) with | some i => i | none => 0
  let stop := if inc.getLast? == some CR then inc.length - 1 else inc.length
  (inc.take stop).drop start

/-- `extract_showincludes`: include notes out, everything else re-joined with `\n`. -/
def extractLines : List Bytes → Bool → List Bytes → Bytes → List Bytes × Bytes
  | [], _, incs, out => (incs, out)
  | l :: rest, first, incs, out =>
    match stripPrefix notePrefix l with
    | some inc => extractLines rest first (incs ++ [notePayload inc]) out
    | none => extractLines rest false incs (if first then out ++ l else out ++ [NL] ++ l)

def extractShowIncludes (output : Bytes) : List Bytes × Bytes :=
  extractLines (splitNL output []) true [] []

def isNl (c : UInt8) : Bool := c == CR || c == NL

/-- `find_last_line`: the last line of text, ignoring trailing newlines. -/
def findLastLine (buf : Bytes) : Bytes :=
  let rev := buf.reverse
  let trimmed := rev.dropWhile isNl           -- buf[..end] reversed
  (trimmed.takeWhile (fun c => !isNl c)).reverse

/-- What `run_task` accumulates from the reads of the pipe. -/
def accumulate (chunks : List Bytes) : Bytes := chunks.flatten

inductive Term where
  | success | interrupted | failure
  deriving DecidableEq, Repr

def SIGINT : Nat := 2

/-- `ExitStatus::from_raw(status)` + the `if status.success() .. else if let Some(sig)` cascade. -/
def decodeStatus (w : Nat) : Term :=
  let low := w % 128
  if low == 0 then
    -- exited normally with code (w >> 8) & 0xff
    if (w / 256) % 256 == 0 then .success else .failure
  else if low == 127 then .failure            -- stopped/continued: not a signal termination
  else if low == SIGINT then .interrupted
  else .failure

def exitStatus (code : Nat) : Nat := (code % 256) * 256
def signalStatus (sig : Nat) (core : Bool) : Nat := sig + (if core then 128 else 0)

/-! ### DumbConsoleProgress -/

inductive PEv where
  | started (id : Nat) (msg : Bytes)
  | finished (id : Nat) (msg : Bytes) (t : Term) (output : Bytes) (hideSuccess : Bool)
  deriving Repr

/-- Bytes `DumbConsoleProgress` writes for a sequence of callbacks (`last` = `last_started`). -/
def dumbPrint : List PEv → Option Nat → Bytes
  | [], _ => []
  | .started id msg :: rest, _ => msg ++ [NL] ++ dumbPrint rest (some id)
  | .finished id msg t output hide :: rest, last =>
    let header : Bytes :=
      match t with
      | .success => if output.isEmpty || last == some id then [] else msg ++ [NL]
      | .interrupted => "interrupted: ".toUTF8.toList ++ msg ++ [NL]
      | .failure => "failed: ".toUTF8.toList ++ msg ++ [NL]
    let hideOutput := output.isEmpty || (t == .success && hide)
    header ++ (if hideOutput then [] else output) ++ dumbPrint rest last

/-! ### `Work::create_parent_dirs` -/

def SLASH : UInt8 := 47

/-- Split at `/`. -/
def splitSlash : Bytes → Bytes → List Bytes
  | [], cur => [cur]
  | c :: r, cur => if c == SLASH then cur :: splitSlash r [] else splitSlash r (cur ++ [c])

def joinSlash : List Bytes → Bytes
  | [] => []
  | [c] => c
  | c :: cs => c ++ [SLASH] ++ joinSlash cs

/-- `Path::parent` of a canonical relative path: everything before the last `/`
    (`Some("")` for a bare file name; `create_dir_all("")` does nothing). -/
def parentOf (p : Bytes) : Bytes := joinSlash (splitSlash p []).dropLast

/-- The directories `create_parent_dirs` hands to `create_dir_all`, in order: the parent of each
    output, a parent equal to one already handled being skipped. -/
def createParentDirs : List Bytes → List Bytes → List Bytes
  | [], done => done
  | o :: os, done =>
    let parent := parentOf o
    if done.contains parent then createParentDirs os done else createParentDirs os (done ++ [parent])

/-- What `create_dir_all d` makes exist: `d` and every ancestor (`a`, `a/b`, `a/b/c`). -/
def dirAndAncestors (d : Bytes) : List Bytes :=
  if d.isEmpty then [] else
  let comps := splitSlash d []
  (List.range comps.length).map (fun i => joinSlash (comps.take (i + 1)))

/-- Directories that exist when the command starts (in a tree that had none). -/
def dirsBeforeCommand (outs : List Bytes) : List Bytes :=
  (createParentDirs outs []).flatMap dirAndAncestors

/-- A chain of steps run one after the other in one invocation (each waits for the previous one):
    before each command its output directories are created (again, if a previous command removed
    them); a command may end by removing a directory tree (`rm -rf d`).  Returns, per step, the
    directories that exist when its command starts (in a tree that had none). -/
def chainDirs : List (List Bytes × Option Bytes) → List Bytes → List (List Bytes)
  | [], _ => []
  | (outs, rm) :: rest, existing =>
    let atStart := (existing ++ dirsBeforeCommand outs).eraseDups
    let after := match rm with
      | none => atStart
      | some d => atStart.filter (fun x => !(x == d || (d ++ [47]).isPrefixOf x))
    atStart :: chainDirs rest after

end N2V.Task
