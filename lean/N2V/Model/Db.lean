/-
  Model of `db.rs`: the append-only build log.

    file    = "n2db" ++ u32le(VERSION) ++ record*
    record  = u16le(len) ++ name[len]                       (path record, len < 0x8000)
            | u16le(0x8000 | nouts) ++ u24le(id)*nouts
              ++ u16le(ndeps) ++ u24le(id)*ndeps ++ u64le(hash)   (build record)

  Ids are positions of path records.  The reader (after the repair of finding F5) stops at
  the first record that is cut short and reports how many bytes were intact, so the writer
  can drop the torn tail before appending.
-/
import N2V.Model.Basic
namespace N2V.Db

/-- Little-endian encoding in `w` bytes (the value is truncated like `as u16` / `[..3]`). -/
def encLE : Nat → Nat → Bytes
  | 0, _ => []
  | w + 1, n => UInt8.ofNat (n % 256) :: encLE w (n / 256)

def decLE : Bytes → Nat
  | [] => 0
  | b :: r => b.toNat + 256 * decLE r

inductive Rec where
  | path (name : Bytes)
  | build (outs deps : List Nat) (hash : Nat)
  deriving DecidableEq, Repr

def VERSION : Nat := 1
def signature : Bytes := [110, 50, 100, 98] ++ encLE 4 VERSION     -- "n2db", version

def encIds (l : List Nat) : Bytes := l.flatMap (encLE 3)

def encode : Rec → Bytes
  | .path name => encLE 2 name.length ++ name
  | .build outs deps hash =>
    encLE 2 (outs.length + 0x8000) ++ encIds outs ++ encLE 2 deps.length ++ encIds deps ++ encLE 8 hash

def encodeLog (rs : List Rec) : Bytes := signature ++ rs.flatMap encode

/-- What the writer can represent: the field widths of the format. -/
def Rec.fits : Rec → Prop
  | .path name => name.length < 0x8000
  | .build outs deps hash =>
    outs.length < 0x8000 ∧ deps.length < 0x10000 ∧ hash < 2 ^ 64 ∧
    (∀ i ∈ outs, i < 2 ^ 24) ∧ (∀ i ∈ deps, i < 2 ^ 24)

def decIds : Nat → Bytes → List Nat
  | 0, _ => []
  | n + 1, bs => decLE (bs.take 3) :: decIds n (bs.drop 3)

/-- Read one record from the front; `none` = the input ends inside it (`UnexpectedEof`). -/
def decodeRec (bs : Bytes) : Option (Rec × Bytes) :=
  match bs with
  | b0 :: b1 :: r1 =>
    let h := decLE [b0, b1]
    if h < 0x8000 then
      if r1.length < h then none else some (.path (r1.take h), r1.drop h)
    else
      let n := h - 0x8000
      if r1.length < 3 * n + 2 then none else
      let r2 := r1.drop (3 * n)
      let m := decLE (r2.take 2)
      let r3 := r2.drop 2
      if r3.length < 3 * m + 8 then none else
      some (.build (decIds n r1) (decIds m r3) (decLE ((r3.drop (3 * m)).take 8)), r3.drop (3 * m + 8))
  | _ => none

/-- Records read until the input ends or a record is cut short; also the number of bytes the
    intact records occupy. -/
def decodeAll : Nat → Bytes → List Rec × Nat
  | 0, _ => ([], 0)
  | fuel + 1, bs =>
    match decodeRec bs with
    | none => ([], 0)
    | some (r, rest) =>
      let (rs, n) := decodeAll fuel rest
      (r :: rs, (bs.length - rest.length) + n)

inductive Parsed where
  | ok (recs : List Rec) (validLen : Nat)
  | empty                                   -- the signature itself is cut short: treated as a new log
  | badSignature
  | badVersion (got : Nat)
  deriving DecidableEq, Repr

/-- `read_signature` + `read_file`. -/
def parse (bs : Bytes) : Parsed :=
  if bs.length < 8 then
    -- only a complete wrong signature is an error
    if bs.length ≥ 4 ∧ bs.take 4 ≠ signature.take 4 then .badSignature else .empty
  else if bs.take 4 ≠ signature.take 4 then .badSignature
  else if decLE ((bs.drop 4).take 4) ≠ VERSION then .badVersion (decLE ((bs.drop 4).take 4))
  else
    let (rs, n) := decodeAll (bs.length + 1) (bs.drop 8)
    .ok rs (8 + n)

/-! ### Loading records into the graph (`read_path`, `read_build`) -/

/-- One loaded build record, ids resolved to names. -/
structure Loaded where
  outs : List Bytes
  deps : List Bytes
  hash : Nat
  deriving DecidableEq, Repr

/-- The step a record belongs to: the one step that currently produces ALL of the record's
    outputs (after the repair of finding F6), else none. -/
def attrib (producer : Bytes → Option Nat) : List Bytes → Option Nat → Bool → Option Nat
  | [], unique, _ => unique
  | o :: os, unique, obsolete =>
    if obsolete then attrib producer os unique true
    else
      match producer o with
      | none => attrib producer os none true
      | some b =>
        match unique with
        | none => attrib producer os (some b) false
        | some u => if u = b then attrib producer os (some u) false
                    else attrib producer os none true

def attributeRec (producer : Bytes → Option Nat) (outs : List Bytes) : Option Nat :=
  attrib producer outs none false

structure LoadState where
  names : List Bytes                         -- db id -> name (IdMap)
  recs : List (Nat × Loaded)                 -- build index -> its latest record, most recent first
  deriving Repr

def nameOf (names : List Bytes) (i : Nat) : Res Bytes :=
  match names[i]? with
  | some n => .ok n
  | none => .panic "index out of bounds"     -- `self.ids.fileids[id]`

def namesOf (names : List Bytes) : List Nat → Res (List Bytes)
  | [] => .ok []
  | i :: is =>
    match nameOf names i, namesOf names is with
    | .ok n, .ok ns => .ok (n :: ns)
    | .ok _, r => r
    | r, _ => r.map (fun _ => [])

def loadRec (producer : Bytes → Option Nat) (st : LoadState) : Rec → Res LoadState
  | .path name => .ok { st with names := st.names ++ [name] }
  | .build outs deps hash =>
    match namesOf st.names outs, namesOf st.names deps with
    | .ok os, .ok ds =>
      match attributeRec producer os with
      | some b => .ok { st with recs := (b, ⟨os, ds, hash⟩) :: st.recs }
      | none => .ok st
    | .ok _, r => r.map (fun _ => st)
    | r, _ => r.map (fun _ => st)

def loadAll (producer : Bytes → Option Nat) : LoadState → List Rec → Res LoadState
  | st, [] => .ok st
  | st, r :: rs =>
    match loadRec producer st r with
    | .ok st' => loadAll producer st' rs
    | e => e

/-- The record in force for build `b`: the latest one attributed to it. -/
def latest (st : LoadState) (b : Nat) : Option Loaded :=
  (st.recs.find? (fun p => p.1 == b)).map (·.2)

/-! ### Writing (`Writer::write_build` with `ensure_id`) -/

/-- Path records for the names not yet known, in order, and the ids of all `names`. -/
def ensureIds : List Bytes → List Bytes → List Rec × List Bytes × List Nat
  | known, [] => ([], known, [])
  | known, n :: ns =>
    match known.idxOf? n with
    | some i =>
      let (rs, k, ids) := ensureIds known ns
      (rs, k, i :: ids)
    | none =>
      let (rs, k, ids) := ensureIds (known ++ [n]) ns
      (.path n :: rs, k, known.length :: ids)

/-- `write_build`: nothing is written when a count does not fit its field (repair of F7). -/
def writeBuild (known : List Bytes) (outs deps : List Bytes) (hash : Nat) : List Rec × List Bytes :=
  if outs.length ≥ 0x8000 ∨ deps.length ≥ 0x10000 then ([], known) else
  let (r1, k1, oids) := ensureIds known outs
  let (r2, k2, dids) := ensureIds k1 deps
  (r1 ++ r2 ++ [.build oids dids hash], k2)

end N2V.Db
