/-
  Model of `graph.rs` (`Graph::add_build`, `BuildOuts::remove_duplicates`, `GraphFiles`) and
  `load.rs` (`Loader::{path, add_build, parse_with_parser}`, `$in/$out`, rules, pools,
  defaults, include/subninja, builddir), after the repairs of findings F3 (empty path) and F14
  (include nesting).
-/
import N2V.Model.Parse
import N2V.Model.Canon
namespace N2V.Load
open N2V N2V.Scanner N2V.Eval N2V.Parse

structure FileM where
  name : Bytes
  input : Option Nat
  dependents : List Nat
  deriving Repr, DecidableEq

structure Loc where
  file : Bytes
  line : Nat
  deriving Repr, DecidableEq

structure BuildM where
  loc : Loc
  desc : Option Bytes
  cmdline : Option Bytes
  depfile : Option Bytes
  showIncludes : Bool
  rspfile : Option (Bytes × Bytes)
  pool : Option Bytes
  ins : List Nat
  explicit : Nat
  implicit : Nat
  orderOnly : Nat
  outs : List Nat
  explicitOuts : Nat
  hideSuccess : Bool
  hideProgress : Bool
  deriving Repr, DecidableEq

structure GraphM where
  files : List FileM := []
  builds : List BuildM := []
  deriving Repr

/-- `GraphFiles::id_from_canonical`. -/
def idFromCanonical (g : GraphM) (name : Bytes) : GraphM × Nat :=
  match g.files.findIdx? (fun f => f.name == name) with
  | some i => (g, i)
  | none => ({ g with files := g.files ++ [⟨name, none, []⟩] }, g.files.length)

def modFile (files : List FileM) (i : Nat) (f : FileM → FileM) : List FileM :=
  match files[i]? with
  | some x => files.set i (f x)
  | none => files

/-- `BuildOuts::remove_duplicates`, including its quirk: `explicit` is decremented while it is
    also the bound the index is compared against. -/
def removeDups : List Nat → Nat → List Nat → Nat → List Nat → List Nat × Nat
  | [], _, _, e, acc => (acc, e)
  | x :: rest, i, seen, e, acc =>
    if seen.contains x then removeDups rest (i + 1) (seen ++ [x]) (if i < e then e - 1 else e) acc
    else removeDups rest (i + 1) (seen ++ [x]) e (acc ++ [x])

inductive LoadErr where
  | parse (file : Bytes) (msg : String) (ofs : Nat) (view : Res ErrView)
  | dupOutput (name : Bytes) (here there : Loc)
  | other (kind : String)
  deriving Repr

/-- The output loop of `Graph::add_build`. -/
def claimOuts (newId : Nat) (loc : Loc) (builds : List BuildM) :
    List Nat → List FileM → Nat → Except LoadErr (List FileM × Nat)
  | [], files, dup => .ok (files, dup)
  | o :: rest, files, dup =>
    match files[o]? with
    | none => .error (.other "internal: bad file id")
    | some f =>
      match f.input with
      | some prev =>
        if prev = newId then claimOuts newId loc builds rest files (dup + 1)
        else .error (.dupOutput f.name loc ((builds[prev]?.map (·.loc)).getD ⟨[], 0⟩))
      | none => claimOuts newId loc builds rest (modFile files o (fun f => { f with input := some newId })) dup

/-- `Graph::add_build`.  Returns the graph and how many "repeated in output list" warnings
    were printed (one per repeated occurrence). -/
def addBuild (g : GraphM) (b : BuildM) : Except LoadErr (GraphM × Nat) :=
  let newId := g.builds.length
  let files1 := b.ins.foldl (fun fs i => modFile fs i (fun f => { f with dependents := f.dependents ++ [newId] })) g.files
  match claimOuts newId b.loc g.builds b.outs files1 0 with
  | .error e => .error e
  | .ok (files2, dup) =>
    let b' := if dup > 0 then
        let (ids, e) := removeDups b.outs 0 [] b.explicitOuts []
        { b with outs := ids, explicitOuts := e }
      else b
    .ok ({ files := files2, builds := g.builds ++ [b'] }, dup)

structure Loader where
  graph : GraphM := {}
  defaults : List Nat := []
  rules : List (Bytes × EvalMap) := [(bytesOfString "phony", [])]
  pools : List (Bytes × Nat) := []
  builddir : Option Bytes := none
  warnings : Nat := 0
  deriving Repr

/-- `Loader::path`: empty is an error, else canonicalise and intern. -/
def path (l : Loader) (p : Bytes) : Except LoadErr (Loader × Nat) :=
  if p.isEmpty then .error (.other "empty path") else
  match Canon.canon p with
  | .ok c =>
    let (g, i) := idFromCanonical l.graph c
    .ok ({ l with graph := g }, i)
  | .panic m => .error (.other ("panic: " ++ m))
  | _ => .error (.other "internal: canon")

def evalPaths (l : Loader) (envs : List Env) : List EvalStr → Except LoadErr (Loader × List Nat)
  | [] => .ok (l, [])
  | p :: ps =>
    match path l (evaluate envs p) with
    | .error e => .error e
    | .ok (l1, i) =>
      match evalPaths l1 envs ps with
      | .error e => .error e
      | .ok (l2, is) => .ok (l2, i :: is)

def joinNames (g : GraphM) (ids : List Nat) (sep : UInt8) : Bytes :=
  match ids.map (fun i => (g.files[i]?.map (·.name)).getD []) with
  | [] => []
  | n :: ns => ns.foldl (fun acc x => acc ++ [sep] ++ x) n

/-- `BuildImplicitVars`. -/
def implicitEnv (g : GraphM) (ins : List Nat) (explicit : Nat) (outs : List Nat) (explicitOuts : Nat) : Env :=
  fun v =>
    if v == bytesOfString "in" then some [.lit (joinNames g (ins.take explicit) 32)]
    else if v == bytesOfString "in_newline" then some [.lit (joinNames g (ins.take explicit) 10)]
    else if v == bytesOfString "out" then some [.lit (joinNames g (outs.take explicitOuts) 32)]
    else if v == bytesOfString "out_newline" then some [.lit (joinNames g (outs.take explicitOuts) 10)]
    else none

/-- The `lookup` closure of `Loader::add_build`: a key bound in the build block is expanded in
    file scope only; otherwise the rule's binding is expanded against `$in/$out`, then the build
    block, then file scope. -/
def attr (bvars rule : EvalMap) (imp env : Env) (key : Bytes) : Option Bytes :=
  match Eval.lookup bvars key with
  | some v => some (evaluate [env] v)
  | none => (Eval.lookup rule key).map (evaluate [imp, envOfEval bvars, env])

/-- `Loader::add_build`. -/
def loaderAddBuild (l : Loader) (file : Bytes) (vars : StrMap) (b : PBuild) : Except LoadErr Loader :=
  let env := envOfStr vars
  let benv := envOfEval b.vars
  match evalPaths l [benv, env] b.ins with
  | .error e => .error e
  | .ok (l1, ins) =>
    match evalPaths l1 [benv, env] b.outs with
    | .error e => .error e
    | .ok (l2, outs) =>
      match Eval.lookup l2.rules b.rule with
      | none => .error (.other "unknown rule")
      | some rule =>
        let imp := implicitEnv l2.graph ins b.explicitIns outs b.explicitOuts
        let look (key : String) : Option Bytes := attr b.vars rule imp env (bytesOfString key)
        let deps := look "deps"
        if deps.isSome && deps != some (bytesOfString "gcc") && deps != some (bytesOfString "msvc") then
          .error (.other "invalid deps attribute")
        else
          let rsp := match look "rspfile", look "rspfile_content" with
            | none, none => Except.ok none
            | some p, some c => .ok (some (p, c))
            | _, _ => .error (LoadErr.other "rspfile and rspfile_content need to be both specified")
          match rsp with
          | .error e => .error e
          | .ok rspfile =>
            let bm : BuildM :=
              { loc := ⟨file, b.line⟩, desc := look "description", cmdline := look "command",
                depfile := look "depfile", showIncludes := deps == some (bytesOfString "msvc"),
                rspfile := rspfile, pool := look "pool",
                ins := ins, explicit := b.explicitIns, implicit := b.implicitIns, orderOnly := b.orderOnlyIns,
                outs := outs, explicitOuts := b.explicitOuts,
                hideSuccess := (look "hide_success").isSome, hideProgress := (look "hide_progress").isSome }
            match addBuild l2.graph bm with
            | .error e => .error e
            | .ok (g, warned) => .ok { l2 with graph := g, warnings := l2.warnings + warned }

abbrev Fs := Bytes → Option Bytes

def MAX_INCLUDE_DEPTH : Nat := 100

/-- The scope the including file continues with after `include f`: n2 keeps its own scope
    (`inclExtends = false`, finding F12); Ninja — and the property — continue with the scope
    the included file ended with. -/
def afterInclude (inclExtends : Bool) (parent child : StrMap) : StrMap :=
  if inclExtends then child else parent

/-- The statement loop of `parse_with_parser`.  `sub` loads an included file (one nesting level
    deeper) and returns the bindings the included file ended with; `depth` is the current
    nesting.  `inclExtends = false` is n2 (an `include` gets a COPY of the scope, exactly like
    `subninja`: finding F12); `true` is the Ninja semantics the property describes, kept as an
    executable specification to recognise that finding. -/
def stmtLoop (inclExtends : Bool) (fs : Fs) (file : Bytes) (depth : Nat)
    (sub : Loader → Bytes → Bytes → StrMap → Nat → Except LoadErr (Loader × StrMap)) :
    Nat → Loader → Scanner → StrMap → Except LoadErr (Loader × StrMap)
  | 0, _, _, _ => .error (.other "internal: fuel")
  | fuel + 1, l, sc, vars =>
    match readItem (sc.buf.size + 1) sc with
    | .perr msg ofs => .error (.parse file msg ofs (formatParseError sc.buf ofs))
    | .bad r => .error (.other (match r with
        | .panic m => "panic: " ++ m | .oob => "oob" | .overflow => "overflow" | .fuel => "fuel" | _ => "bad"))
    | .ok item sc' =>
      match item with
      | .eof => .ok ({ l with builddir := Eval.lookup vars (bytesOfString "builddir") }, vars)
      | .binding name val =>
        stmtLoop inclExtends fs file depth sub fuel l sc' (Eval.insert vars name (evaluate [envOfStr vars] val))
      | .stmt (.include p) =>
        match path l (evaluate [envOfStr vars] p) with
        | .error e => .error e
        | .ok (l1, id) =>
          let name := (l1.graph.files[id]?.map (·.name)).getD []
          match fs name with
          | none => .error (.other "read")
          | some content =>
            if depth ≥ MAX_INCLUDE_DEPTH then .error (.other "include nesting")
            else
              match sub l1 name content vars (depth + 1) with
              | .error e => .error e
              | .ok (l2, vars') => stmtLoop inclExtends fs file depth sub fuel l2 sc' (afterInclude inclExtends vars vars')
      | .stmt (.subninja p) =>
        match path l (evaluate [envOfStr vars] p) with
        | .error e => .error e
        | .ok (l1, id) =>
          let name := (l1.graph.files[id]?.map (·.name)).getD []
          match fs name with
          | none => .error (.other "read")
          | some content =>
            if depth ≥ MAX_INCLUDE_DEPTH then .error (.other "include nesting")
            else
              match sub l1 name content vars (depth + 1) with
              | .error e => .error e
              | .ok (l2, _) => stmtLoop inclExtends fs file depth sub fuel l2 sc' vars
      | .stmt (.default ps) =>
        match evalPaths l [envOfStr vars] ps with
        | .error e => .error e
        | .ok (l1, ids) => stmtLoop inclExtends fs file depth sub fuel { l1 with defaults := l1.defaults ++ ids } sc' vars
      | .stmt (.rule name rvars) =>
        stmtLoop inclExtends fs file depth sub fuel { l with rules := Eval.insert l.rules name rvars } sc' vars
      | .stmt (.build b) =>
        match loaderAddBuild l file vars b with
        | .error e => .error e
        | .ok l1 => stmtLoop inclExtends fs file depth sub fuel l1 sc' vars
      | .stmt (.pool name d) =>
        stmtLoop inclExtends fs file depth sub fuel { l with pools := Eval.insert l.pools name d } sc' vars

/-- `parse_with_parser` for one file, nesting bounded structurally. -/
def parseFile (inclExtends : Bool) (fs : Fs) : Nat → Loader → Bytes → Bytes → StrMap → Nat → Except LoadErr (Loader × StrMap)
  | 0, _, _, _, _, _ => .error (.other "include nesting")
  | d + 1, l, file, content, vars, depth =>
    let buf := (content ++ [NUL]).toArray
    match Scanner.new buf with
    | .ok sc => stmtLoop inclExtends fs file depth (parseFile inclExtends fs d) (buf.size + 1) l sc vars
    | _ => .error (.other "internal: scanner")

/-- `load::read` up to (not including) opening the log. -/
def loadWith (inclExtends : Bool) (fs : Fs) (main : Bytes) : Except LoadErr Loader :=
  if main.isEmpty then .error (.other "empty path") else
  match Canon.canon main with
  | .ok c =>
    let (g, id) := idFromCanonical {} c
    let l : Loader := { graph := g }
    let name := (g.files[id]?.map (·.name)).getD []
    match fs name with
    | none => .error (.other "read")
    | some content => (parseFile inclExtends fs (MAX_INCLUDE_DEPTH + 2) l name content [] 0).map (·.1)
  | _ => .error (.other "panic: canon")

def load (fs : Fs) (main : Bytes) : Except LoadErr Loader := loadWith false fs main

end N2V.Load
