/-
  Model of the dirtiness machinery of `work.rs` (`check_build_dirty` and friends,
  `record_finished`, the `FileState` cache), of `hash.rs` (the manifest that is hashed) and of a
  whole invocation over a file system and a log (`load::read` + `run::build` + the scheduler).

  The 64-bit SipHash of the source is replaced by the structured manifest itself (injective by
  construction): collisions and the byte serialisation of std's `Hash` impls are assumptions.
  Commands are executed by an abstract semantics `sem` (below), the same one the harness's
  scripted executor implements.
-/
import N2V.Model.Load
import N2V.Model.Run
import N2V.Model.Db
namespace N2V.Work
open N2V N2V.Load

structure FileInfo where
  mtime : Nat
  content : Bytes
  deriving DecidableEq, Repr

/-- The project tree: regular files by (relative, canonical) name. -/
abbrev FsM := List (Bytes × FileInfo)

def FsM.get (fs : FsM) (n : Bytes) : Option FileInfo := (fs.find? (fun p => p.1 == n)).map (·.2)
def FsM.del (fs : FsM) (n : Bytes) : FsM := fs.filter (fun p => p.1 != n)
def FsM.put (fs : FsM) (n : Bytes) (i : FileInfo) : FsM := (FsM.del fs n) ++ [(n, i)]

/-- What `hash_build` feeds to the hasher. -/
structure Manifest where
  ins : List (Bytes × Nat)
  disc : List (Bytes × Nat)
  cmd : Bytes
  rsp : Option (Bytes × Bytes)
  outs : List (Bytes × Nat)
  deriving DecidableEq, Repr

/-- One build record of the log, abstractly: output names, dependency names, the manifest whose
    hash was stored. -/
structure Rec where
  outs : List Bytes
  deps : List Bytes
  hash : Manifest
  deriving DecidableEq, Repr

/-- `MTime`: `none` = Missing. -/
abbrev MTime := Option Nat

structure Env where
  g : GraphM                          -- grows when discovered deps name new files
  disc : List (Nat × List Nat)        -- Build::discovered_ins
  hashes : List (Nat × Manifest)      -- last_hashes (loaded from the log; not updated by this Work)
  cache : List (Nat × MTime)          -- FileState: only files stat()ed so far
  fs : FsM
  clock : Nat
  log : List Rec
  deriving Repr

def assocGet {β} (m : List (Nat × β)) (k : Nat) : Option β := (m.find? (fun p => p.1 == k)).map (·.2)
def assocPut {β} (m : List (Nat × β)) (k : Nat) (v : β) : List (Nat × β) := (k, v) :: m.filter (fun p => p.1 != k)

def fileName (g : GraphM) (f : Nat) : Bytes := (g.files[f]?.map (·.name)).getD []
def fileInput (g : GraphM) (f : Nat) : Option Nat := (g.files[f]?).bind (·.input)
def buildOf (g : GraphM) (b : Nat) : Option BuildM := g.builds[b]?

def _root_.N2V.Load.BuildM.dirtying (b : BuildM) : List Nat := b.ins.take (b.explicit + b.implicit)
def _root_.N2V.Load.BuildM.explicitIns (b : BuildM) : List Nat := b.ins.take b.explicit

/-- `FileState::stat`: stat the path and remember the answer. -/
def statFile (e : Env) (f : Nat) : MTime × Env :=
  let m := (e.fs.get (fileName e.g f)).map (·.mtime)
  (m, { e with cache := assocPut e.cache f m })

inductive CheckErr where
  | usedGenerated (f : Nat)        -- "used generated file .., but has no dependency path to it"
  | inputMissing (f : Nat)         -- "input .. missing"
  deriving Repr

/-- `ensure_input_files`: first missing file among `ids` (stat()ing those not seen yet). -/
def ensureInputs : Env → List Nat → Except CheckErr (Option Nat × Env)
  | e, [] => .ok (none, e)
  | e, f :: fs =>
    match assocGet e.cache f with
    | some m => if m.isNone then .ok (some f, e) else ensureInputs e fs
    | none =>
      if (fileInput e.g f).isSome then .error (.usedGenerated f)
      else
        let (m, e') := statFile e f
        if m.isNone then .ok (some f, e') else ensureInputs e' fs

/-- `stat_all_outputs`: stat every output unconditionally; first missing one. -/
def statAllOutputs (e : Env) (outs : List Nat) : Option Nat × Env :=
  outs.foldl (fun (acc : Option Nat × Env) o =>
    let (m, e') := statFile acc.2 o
    (if m.isNone && acc.1.isNone then some o else acc.1, e')) (none, e)

def discOf (e : Env) (b : Nat) : List Nat := (assocGet e.disc b).getD []

/-- `hash_build`'s input, from the cache (every file was just stat()ed and is present). -/
def manifestOf (e : Env) (bm : BuildM) (b : Nat) : Manifest :=
  let stamp (f : Nat) : Bytes × Nat := (fileName e.g f, ((assocGet e.cache f).getD none).getD 0)
  { ins := bm.dirtying.map stamp, disc := (discOf e b).map stamp, cmd := bm.cmdline.getD [],
    rsp := bm.rspfile, outs := bm.outs.map stamp }

/-- `check_build_files_missing`: the state after the stat()s and `none` = error ("input ..
    missing" for a source, "used generated file ..") / `some m` = some dirtying input,
    discovered dependency or output is missing. -/
def filesMissing (e : Env) (bm : BuildM) (b : Nat) : Env × Option Bool :=
  match ensureInputs e bm.dirtying with
  | .error _ => (e, none)
  | .ok (some missing, e1) => (e1, if (fileInput e1.g missing).isNone then none else some true)
  | .ok (none, e1) =>
    match ensureInputs e1 (discOf e1 b) with
    | .error _ => (e1, none)
    | .ok (some _, e2) => (e2, some true)
    | .ok (none, e2) => ((statAllOutputs e2 bm.outs).2, some (statAllOutputs e2 bm.outs).1.isSome)

/-- `check_build_dirty`: `none` = it returned an error. -/
def checkDirty (e : Env) (b : Nat) : Option Bool × Env :=
  match buildOf e.g b with
  | none => (none, e)
  | some bm =>
    if bm.cmdline.isNone then
      -- phony: only the outputs are stat()ed; never dirty
      (some false, (statAllOutputs e bm.outs).2)
    else
      match (filesMissing e bm b).2 with
      | none => (none, (filesMissing e bm b).1)
      | some true => (some true, (filesMissing e bm b).1)
      | some false =>
        match assocGet (filesMissing e bm b).1.hashes b with
        | none => (some true, (filesMissing e bm b).1)
        | some prev => (some (decide (prev ≠ manifestOf (filesMissing e bm b).1 bm b)), (filesMissing e bm b).1)

/-- Intern a canonical name (`GraphFiles::id_from_canonical`). -/
def intern (e : Env) (name : Bytes) : Env × Nat :=
  ({ e with g := (idFromCanonical e.g name).1 }, (idFromCanonical e.g name).2)

/-- The discovered-dependency list `record_finished` keeps: canonicalised, first occurrence of
    each, minus what is already a dirtying input. -/
def keepDeps (e : Env) (dirtying : List Nat) : List Bytes → List Nat → Env × List Nat
  | [], acc => (e, acc)
  | n :: ns, acc =>
    if n.isEmpty then keepDeps e dirtying ns acc else
    match Canon.canon n with
    | .ok c =>
      if acc.contains (intern e c).2 || dirtying.contains (intern e c).2 then keepDeps (intern e c).1 dirtying ns acc
      else keepDeps (intern e c).1 dirtying ns (acc ++ [(intern e c).2])
    | _ => keepDeps e dirtying ns acc

/-- The first half of `record_finished`: the new discovered-dependency list is installed (it
    REPLACES the old one) and every dirtying input, discovered dependency and output is
    stat()ed again.  Returns (some input missing?, first missing output, state). -/
def restat (e : Env) (bm : BuildM) (b : Nat) (deps : Option (List Bytes)) : Bool × Option Nat × Env :=
  let kd := keepDeps e bm.dirtying (deps.getD []) []
  let e2 : Env := { kd.1 with disc := assocPut kd.1.disc b kd.2 }
  let st := (bm.dirtying ++ kd.2).foldl (fun (acc : Bool × Env) f =>
    let (m, e') := statFile acc.2 f
    (acc.1 || m.isNone, e')) (false, e2)
  let so := statAllOutputs st.2 bm.outs
  (st.1, so.1, so.2)

/-- `record_finished`: a record (with the manifest of the re-stat()ed state) is appended only
    when no file is missing. -/
def recordFinished (e : Env) (b : Nat) (deps : Option (List Bytes)) : Env :=
  match buildOf e.g b with
  | none => e
  | some bm =>
    let r := restat e bm b deps
    if r.1 || r.2.1.isSome then r.2.2
    else
      { r.2.2 with log := r.2.2.log ++
          [⟨bm.outs.map (fileName r.2.2.g), (discOf r.2.2 b).map (fileName r.2.2.g), manifestOf r.2.2 bm b⟩] }

/-! ### What commands do (the semantics shared with the harness's scripted executor) -/

def fnvStep (h : UInt64) (b : UInt8) : UInt64 := (h ^^^ b.toUInt64) * 1099511628211
def fnv (bs : Bytes) : UInt64 := bs.foldl fnvStep 14695981039346656037

def hex16 (h : UInt64) : Bytes :=
  (List.range 16).map (fun i =>
    let d := ((h >>> (UInt64.ofNat (60 - 4 * i))) &&& 15).toNat
    UInt8.ofNat (if d < 10 then 48 + d else 87 + d))

/-- Blank-separated tokens of a file's content. -/
def tokens (c : Bytes) : List Bytes :=
  (c.foldr (fun b (acc : List Bytes) =>
    if b == 32 || b == 10 then [] :: acc
    else match acc with
      | cur :: rest => (b :: cur) :: rest
      | [] => [[b]]) [[]]).filter (fun t => !t.isEmpty)

/-- Dependencies a command reports: the `#name` tokens in the contents of its explicit inputs. -/
def reportedDeps (e : Env) (bm : BuildM) : List Bytes :=
  bm.explicitIns.flatMap (fun f =>
    match e.fs.get (fileName e.g f) with
    | some i => (tokens i.content).filterMap (fun t => match t with | 35 :: r => if r.isEmpty then none else some r | _ => none)
    | none => [])

def hasToken (e : Env) (bm : BuildM) (tok : Bytes) : Bool :=
  bm.explicitIns.any (fun f =>
    match e.fs.get (fileName e.g f) with
    | some i => (tokens i.content).contains tok
    | none => false)

def readsDeps (bm : BuildM) : Bool := bm.depfile.isSome || bm.showIncludes

/-- The content a successful command writes to each output: a digest of its command line, the
    output's name, and the contents of every declared dirtying input and every dependency it
    reports (missing files count as such). -/
def outContent (e : Env) (bm : BuildM) (out : Bytes) : Bytes :=
  let readName (n : Bytes) : Bytes := match e.fs.get n with | some i => 1 :: i.content | none => [2]
  let deps := if readsDeps bm then reportedDeps e bm else []
  let sep : Bytes := [0]
  let part1 : Bytes := (bm.cmdline.getD []) ++ sep ++ out
  let part2 : Bytes := bm.dirtying.flatMap (fun f => (0 : UInt8) :: readName (fileName e.g f))
  let part3 : Bytes := deps.flatMap (fun d => (0 : UInt8) :: 3 :: readName (match Canon.canon d with | .ok c => c | _ => d))
  let body : Bytes := part1 ++ part2 ++ part3
  hex16 (fnv body)

/-- Is this the manifest-generator command (`gen ...`: copies its first explicit input)? -/
def isGen (bm : BuildM) : Bool := (bm.cmdline.getD []).take 4 == [103, 101, 110, 32]

/-- Is this a command that also rewrites one of its inputs (`rw ...`)? -/
def isRw (bm : BuildM) : Bool := (bm.cmdline.getD []).take 3 == [114, 119, 32]

/-- Is this a `split ...` command: its i-th output depends on its i-th dirtying input only, and an
    output whose content would not change is left alone (modification time included) - the behaviour
    of `cmake -E copy_if_different`, of generators that compare before writing, of `cp -p`. -/
def isSplit (bm : BuildM) : Bool := (bm.cmdline.getD []).take 6 == [115, 112, 108, 105, 116, 32]

/-- What a `split` command writes to its `i`-th output. -/
def splitContent (e : Env) (bm : BuildM) (i : Nat) (out : Bytes) : Bytes :=
  let readName (n : Bytes) : Bytes := match e.fs.get n with | some i => 1 :: i.content | none => [2]
  let rel : List Nat := match bm.dirtying[i]? with | some f => [f] | none => bm.dirtying
  let sep : Bytes := [0]
  let part1 : Bytes := (bm.cmdline.getD []) ++ sep ++ out
  let part2 : Bytes := rel.flatMap (fun f => (0 : UInt8) :: readName (fileName e.g f))
  hex16 (fnv (part1 ++ part2))

def runSplit (e : Env) (bm : BuildM) : Env :=
  let clock := e.clock + 1
  let fs := bm.outs.zipIdx.foldl (fun (fs : FsM) (oi : Nat × Nat) =>
    let name := fileName e.g oi.1
    let content := splitContent e bm oi.2 name
    if (e.fs.get name).map (·.content) == some content then fs else fs.put name ⟨clock, content⟩) e.fs
  { e with fs := fs, clock := clock }

/-- Effects of a successful command on the tree (outputs get the next clock value). -/
def runCommand (e : Env) (b : Nat) : Env :=
  match buildOf e.g b with
  | none => e
  | some bm =>
    if isSplit bm then runSplit e bm else
    let clock := e.clock + 1
    let fs := bm.outs.foldl (fun (fs : FsM) o =>
      let name := fileName e.g o
      let content :=
        if isGen bm then
          match bm.explicitIns.head? with
          | some f => ((e.fs.get (fileName e.g f)).map (·.content)).getD []
          | none => []
        else outContent e bm name
      fs.put name ⟨clock, content⟩) e.fs
    -- `rw ...` commands also rewrite their last dirtying input in place (like a CMake
    -- regeneration step touching CMakeCache.txt), after having read it
    let fs := if isRw bm then
        match bm.dirtying.getLast? with
        | some f => fs.put (fileName e.g f) ⟨clock, outContent e bm (fileName e.g f)⟩
        | none => fs
      else fs
    { e with fs := fs, clock := clock }

/-- A command succeeded: its effects, then `record_finished` with what it reported. -/
def onSuccess (e : Env) (b : Nat) : Env :=
  match buildOf e.g b with
  | none => e
  | some bm =>
    let deps := if readsDeps bm then some (reportedDeps e bm) else none
    recordFinished (runCommand e b) b deps

def onAdopt (e : Env) (b : Nat) : Env := recordFinished e b none

/-! ### Loading: manifest + log -> the state of a `Work` -/

/-- Attach the log's records to the current graph (by output names, latest wins). -/
def applyLog (e : Env) : List Rec → Env
  | [] => e
  | r :: rs =>
    let producer (n : Bytes) : Option Nat :=
      (e.g.files.find? (fun f => f.name == n)).bind (·.input)
    match Db.attributeRec producer r.outs with
    | some b =>
      -- deps are interned (the log's path records name them)
      let (e1, ids) := r.deps.foldl (fun (acc : Env × List Nat) n =>
        let (e', i) := intern acc.1 n
        (e', acc.2 ++ [i])) (e, [])
      applyLog { e1 with disc := assocPut e1.disc b ids, hashes := assocPut e1.hashes b r.hash } rs
    | none => applyLog e rs

def schedGraph (g : GraphM) : Sched.Graph :=
  let fa := g.files.toArray
  let ba := g.builds.toArray
  { nBuilds := ba.size, nFiles := fa.size,
    build := fun i => match ba[i]? with
      | some b => { ordering := b.ins.take (b.explicit + b.implicit + b.orderOnly),
                    validation := b.ins.drop (b.explicit + b.implicit + b.orderOnly),
                    outs := b.outs, phony := b.cmdline.isNone, pool := b.pool.getD [] }
      | none => default,
    producer := fun f => (fa[f]?).bind (·.input),
    dependents := fun f => match fa[f]? with | some x => x.dependents | none => [],
    fileName := fun f => match fa[f]? with | some x => x.name | none => [] }

structure World where
  fs : FsM
  clock : Nat
  log : List Rec
  deriving Repr

structure InvArgs where
  par : Nat
  k : Option Nat
  adopt : Bool
  targets : List Bytes
  manifestName : Bytes
  deriving Repr

inductive InvResult where
  | done (n : Nat)
  | failed
  | err (kind : String)
  | panic (m : String)
  | other (s : String)
  deriving DecidableEq, Repr

def loadErrKind : LoadErr → String
  | .parse .. => "parse"
  | .dupOutput .. => "dupout"
  | .other k => k

def ofOutcome : Run.Outcome → InvResult
  | .done n => .done n
  | .failed => .failed
  | .err m => .err m
  | .panic m => .panic m
  | .reload _ => .other "reload"
  | .bug => .panic "BUG: no work to do and runner not running"
  | .stuck => .other "stuck"
  | .fuel => .other "fuel"

/-- `load::read`: manifest and log into a fresh environment. -/
def loadEnv (w : World) (manifestName : Bytes) : Except LoadErr (Loader × Env) :=
  let fsView : Load.Fs := fun n => (w.fs.get n).map (·.content)
  match Load.load fsView manifestName with
  | .error e => .error e
  | .ok l =>
    let e0 : Env := { g := l.graph, disc := [], hashes := [], cache := [], fs := w.fs, clock := w.clock, log := w.log }
    .ok (l, applyLog e0 w.log)

def argsOf (l : Loader) (a : InvArgs) : Run.Args :=
  { par := a.par, failuresLeft := a.k, adopt := a.adopt, manifest := 0, targets := a.targets,
    defaults := l.defaults, pools := l.pools, manifestFiles := some l.graph.files.length }

def choices (adopt : Bool) (perms : List (List Nat)) (fin : List (Nat × Sched.Term)) : Sched.Choices Env :=
  { check := checkDirty, onSuccess := onSuccess, onAdopt := onAdopt, adopt := adopt, perms := perms, finishes := fin }

/-- One whole invocation.  `obs1`/`obs2` carry the environment's scheduling choices (HashSet
    iteration orders, completion order) for the manifest phase / the part after a reload. -/
def invoke (w : World) (a : InvArgs)
    (obs1 obs2 : List (List Nat) × List (Nat × Sched.Term)) : World × InvResult × List Sched.Ev :=
  match loadEnv w a.manifestName with
  | .error e => (w, .err (loadErrKind e), [Sched.Ev.load])
  | .ok (l, e0) =>
    let sg := schedGraph e0.g
    let (s1, e1, out1) := Run.build sg (argsOf l a) (choices a.adopt obs1.1 obs1.2) e0
    match out1 with
    | .reload n =>
      let w1 : World := { fs := e1.fs, clock := e1.clock, log := e1.log }
      match loadEnv w1 a.manifestName with
      | .error e => (w1, .err (loadErrKind e), s1.trace.reverse ++ [Sched.Ev.load])
      | .ok (l2, e2) =>
        let sg2 := schedGraph e2.g
        let (s2, e3, out2) := Run.buildReloaded sg2 (argsOf l2 a) (choices a.adopt obs2.1 obs2.2) e2 n
        ({ fs := e3.fs, clock := e3.clock, log := e3.log }, ofOutcome out2, s1.trace.reverse ++ s2.trace.reverse)
    | o => ({ fs := e1.fs, clock := e1.clock, log := e1.log }, ofOutcome o, s1.trace.reverse)

end N2V.Work
