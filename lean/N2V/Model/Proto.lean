/-
  Token-level decoding of the harness's case lines (graph dumps, traces) and encoding of the
  model's answers.  Not part of the verified model: glue for the correspondence check.
-/
import N2V.Model.Run
namespace N2V.Proto
open N2V N2V.Sched

abbrev P := StateT (List String) Option

def tok : P String := fun s => match s with | [] => none | t :: r => some (t, r)
def peekTok : P (Option String) := fun s => some (s.head?, s)
def nat : P Nat := do let t ← tok; match t.toNat? with | some n => pure n | none => failure
def int : P Int := do let t ← tok; match t.toInt? with | some n => pure n | none => failure
def bytes : P Bytes := do let t ← tok; match bytesOfHex t with | some b => pure b | none => failure
def kw (k : String) : P Unit := do let t ← tok; if t == k then pure () else failure
def optNat : P (Option Nat) := do let t ← tok; if t == "-" then pure none else match t.toNat? with | some n => pure (some n) | none => failure

def many {α} (p : P α) : Nat → P (List α)
  | 0 => pure []
  | n + 1 => do let a ← p; let r ← many p n; pure (a :: r)

def counted {α} (p : P α) : P (List α) := do let n ← nat; many p n

def stOfCode : Nat → St
  | 0 => .unknown | 1 => .want | 2 => .ready | 3 => .queued | 4 => .running | 5 => .done | _ => .failed

structure FileD where
  name : Bytes
  producer : Option Nat
  dependents : List Nat

def fileD : P FileD := do
  let n ← bytes; let p ← optNat; let d ← counted nat
  pure ⟨n, p, d⟩

def buildD : P Build := do
  let ph ← nat; let pool ← bytes
  let ord ← counted nat; let val ← counted nat; let outs ← counted nat
  pure { ordering := ord, validation := val, outs := outs, phony := ph == 1, pool := pool }

def graphD : P Graph := do
  kw "files"; let fs ← counted fileD
  kw "builds"; let bs ← counted buildD
  let fa := fs.toArray
  let ba := bs.toArray
  pure { nBuilds := ba.size, nFiles := fa.size,
         build := fun i => ba.getD i default,
         producer := fun f => (fa[f]?).bind (·.producer),
         dependents := fun f => match fa[f]? with | some x => x.dependents | none => [],
         fileName := fun f => match fa[f]? with | some x => x.name | none => [] }

def argsD : P Run.Args := do
  kw "par"; let par ← nat
  kw "k"; let k ← optNat
  kw "adopt"; let ad ← nat
  kw "manifest"; let m ← nat
  kw "targets"; let ts ← counted bytes
  kw "defaults"; let ds ← counted nat
  kw "pools"; let ps ← counted (do let n ← bytes; let d ← nat; pure (n, d))
  pure { par := par, failuresLeft := k, adopt := ad == 1, manifest := m, targets := ts, defaults := ds, pools := ps }

def termD : P Term := do
  let t ← tok
  match t with
  | "s" => pure .success | "f" => pure .failure | "i" => pure .interrupted | _ => failure

def evD : P Ev := do
  let t ← tok
  match t with
  | "S" => do
    let id ← nat; let p ← nat; let n ← nat; let cs ← many int 6; let pend ← int
    pure (.set id (stOfCode p) (stOfCode n) cs pend)
  | "U" => do let cs ← many int 6; pure (.update cs)
  | "B" => do let id ← nat; pure (.start id)
  | "F" => do let id ← nat; let t ← termD; pure (.finish id t)
  | "R" => pure .load
  | _ => failure

def showTerm : Term → String | .success => "s" | .failure => "f" | .interrupted => "i"

def showEv : Ev → String
  | .set id p n cs pend => s!"S {id} {p.code} {n.code} " ++ " ".intercalate (cs.map toString) ++ s!" {pend}"
  | .update cs => "U " ++ " ".intercalate (cs.map toString)
  | .start id => s!"B {id}"
  | .finish id t => s!"F {id} {showTerm t}"
  | .load => "R"

def showTrace (tr : List Ev) : String :=
  s!"T {tr.length}" ++ String.join (tr.map (fun e => " " ++ showEv e))

def showOutcome : Run.Outcome → String
  | .done n => s!"ok {n}"
  | .failed => "fail"
  | .err m => "err " ++ hexOfBytes (bytesOfString m)
  | .panic m => "panic " ++ hexOfBytes (bytesOfString m)
  | .reload n => s!"reload {n}"
  | .bug => "panic " ++ hexOfBytes (bytesOfString "BUG: no work to do and runner not running")
  | .stuck => "stuck" | .fuel => "fuel"

/-- The environment's choices, read off an observed trace. -/
def permsOf : List Ev → List (List Nat)
  | [] => []
  | .set _ _ .done _ _ :: rest =>
    let promoted := rest.takeWhile (fun e => match e with | .set _ .want .ready _ _ => true | _ => false)
    (promoted.filterMap (fun e => match e with | .set x _ _ _ _ => some x | _ => none))
      :: permsOf (rest.drop promoted.length)
  | _ :: rest => permsOf rest
termination_by l => l.length
decreasing_by all_goals simp_wf <;> omega

def choicesOf (adopt : Bool) (tr : List Ev) : Choices Unit :=
  { check := fun _ id =>
      ((tr.findSome? (fun e => match e with
        | .set i .ready n _ _ => if i = id then some n else none
        | _ => none)).map (fun n => n == .queued), ())
    onSuccess := fun _ _ => ()
    onAdopt := fun _ _ => ()
    adopt := adopt
    perms := permsOf tr
    finishes := tr.filterMap (fun e => match e with | .finish id t => some (id, t) | _ => none) }

/-- Split an observed trace into the segments of its `Work`s (each starts with `.load`). -/
def segments (tr : List Ev) : List (List Ev) :=
  let r := tr.foldr (fun e (acc : List Ev × List (List Ev)) =>
    if e == .load then ([], (e :: acc.1) :: acc.2) else (e :: acc.1, acc.2)) ([], [])
  if r.1.isEmpty then r.2 else r.1 :: r.2

structure ImplObs where
  result : String
  trace : List Ev

def implD : P ImplObs := do
  let r ← tok
  let res ← match r with
    | "ok" => do let n ← tok; pure ("ok " ++ n)
    | "fail" => pure "fail"
    | "err" => do let m ← tok; pure ("err " ++ m)
    | "panic" => do let m ← tok; pure ("panic " ++ m)
    | "abort" => do let _ ← tok; pure "abort"
    | _ => failure
  kw "T"; let evs ← counted evD
  pure ⟨res, evs⟩

end N2V.Proto
