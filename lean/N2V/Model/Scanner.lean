/-
  Model of `scanner.rs::Scanner` (the `crlf` feature is off): a byte buffer that ends in a
  NUL, an offset and a line counter.  `get_unchecked` at `ofs ≥ len` is undefined behaviour
  in the source; here it is the explicit outcome `oob`.
-/
import N2V.Model.Basic
namespace N2V

structure Scanner where
  buf : Array UInt8
  ofs : Nat
  line : Nat
  deriving Repr

namespace Scanner

def NL : UInt8 := 10
def CR : UInt8 := 13
def SP : UInt8 := 32
def NUL : UInt8 := 0

/-- `Scanner::new`: panics unless the buffer ends in NUL. -/
def new (buf : Array UInt8) : Res Scanner :=
  if buf.back? == some NUL then .ok ⟨buf, 0, 1⟩ else .panic "Scanner requires nul-terminated buf"

def get (s : Scanner) : Res UInt8 :=
  match s.buf[s.ofs]? with
  | some c => .ok c
  | none => .oob

def peek (s : Scanner) : Res UInt8 := s.get

/-- `read`: the "scanned past end" panic sits after the unchecked read, so it can only fire
    when that read was already out of bounds. -/
def read (s : Scanner) : Res (UInt8 × Scanner) :=
  match s.get with
  | .ok c => .ok (c, { s with ofs := s.ofs + 1, line := if c == NL then s.line + 1 else s.line })
  | _ => .oob

def next (s : Scanner) : Res Scanner :=
  match s.read with
  | .ok (_, s') => .ok s'
  | _ => .oob

/-- `back`: note that stepping back onto a `\n` preceded by `\r` retreats two bytes even
    without the `crlf` feature (scanner.rs l.63-66). -/
def back (s : Scanner) : Res Scanner :=
  if s.ofs == 0 then .panic "back at start" else
  let s1 := { s with ofs := s.ofs - 1 }
  match s1.get with
  | .ok c =>
    if c == NL then
      let s2 := if s1.ofs > 0 && s1.buf[s1.ofs - 1]? == some CR then { s1 with ofs := s1.ofs - 1 } else s1
      if s2.line == 0 then .overflow else .ok { s2 with line := s2.line - 1 }
    else .ok s1
  | _ => .oob

def skip (s : Scanner) (ch : UInt8) : Res (Bool × Scanner) :=
  match s.read with
  | .ok (c, s') =>
    if c != ch then
      match s'.back with
      | .ok s'' => .ok (false, s'')
      | .panic m => .panic m | .overflow => .overflow | _ => .oob
    else .ok (true, s')
  | _ => .oob

/-- `skip_spaces`: `while self.skip(' ') {}`. -/
def skipSpaces : Nat → Scanner → Res Scanner
  | 0, _ => .fuel
  | fuel + 1, s =>
    match s.skip SP with
    | .ok (true, s') => skipSpaces fuel s'
    | .ok (false, s') => .ok s'
    | .panic m => .panic m | .overflow => .overflow | .fuel => .fuel | _ => .oob

/-- Result of a parsing function: a value and the advanced scanner, or a parse error
    `(message, offset)`, or an abnormal outcome. -/
inductive PRes (α : Type) where
  | ok (a : α) (s : Scanner)
  | perr (msg : String) (ofs : Nat)
  | bad (r : Res Unit)          -- panic / oob / overflow / fuel
  deriving Repr

def PRes.ofRes {α β} (r : Res α) : PRes β :=
  match r with
  | .ok _ => .bad (.panic "ofRes on ok")
  | .err m => .bad (.err m)
  | .panic m => .bad (.panic m)
  | .oob => .bad .oob
  | .overflow => .bad .overflow
  | .fuel => .bad .fuel

def parseError {α} (s : Scanner) (msg : String) : PRes α := .perr msg s.ofs

/-- Display of the expected character in `expect`'s message, as Rust's `{:?}` prints the ones
    n2 uses. -/
def showCh (c : UInt8) : String :=
  if c == NL then "'\\n'" else if c == NUL then "'\\0'" else "'" ++ String.singleton (Char.ofNat c.toNat) ++ "'"

/-- `expect(ch)`: on mismatch steps back and reports at that offset.  The message keeps only
    the expected character (the harness drops the `, got ..` part of the real message). -/
def expect (s : Scanner) (ch : UInt8) : PRes Unit :=
  match s.read with
  | .ok (c, s') =>
    if c != ch then
      match s'.back with
      | .ok s'' => parseError s'' ("expected " ++ showCh ch)
      | r => .ofRes r
    else .ok () s'
  | r => .ofRes r

/-- `slice(start, end)` is `get_unchecked(start..end)`: undefined unless `start ≤ end ≤ len`. -/
def slice (s : Scanner) (start stop : Nat) : Res Bytes :=
  if start ≤ stop ∧ stop ≤ s.buf.size then .ok (s.buf.extract start stop).toList else .oob

end Scanner
end N2V
