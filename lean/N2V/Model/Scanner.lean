/-
  Model of `scanner.rs::Scanner` (the `crlf` feature is off): a byte buffer that ends in a
  NUL, an offset and a line counter.  `get_unchecked` at `ofs ≥ len` is undefined behaviour
  in the source; here it is the explicit outcome `oob`.
-/
import N2V.Model.Basic
namespace N2V

structure Scanner where
  buf : Array UInt8
  ofs : Nat
  line : Nat
  deriving Repr

namespace Scanner

def NL : UInt8 := 10
def CR : UInt8 := 13
def SP : UInt8 := 32
def NUL : UInt8 := 0

/-- `Scanner::new`: panics unless the buffer ends in NUL. -/
def new (buf : Array UInt8) : Res Scanner :=
  if buf.back? == some NUL then .ok ⟨buf, 0, 1⟩ else .panic "Scanner requires nul-terminated buf"

def get (s : Scanner) : Res UInt8 :=
  match s.buf[s.ofs]? with
  | some c => .ok c
  | none => .oob

def peek (s : Scanner) : Res UInt8 := s.get

/-- `read`: the "scanned past end" panic sits after the unchecked read, so it can only fire
    when that read was already out of bounds. -/
def read (s : Scanner) : Res (UInt8 × Scanner) :=
  match s.get with
  | .ok c => .ok (c, { s with ofs := s.ofs + 1, line := if c == NL then s.line + 1 else s.line })
  | _ => .oob

def next (s : Scanner) : Res Scanner :=
  match s.read with
  | .ok (_, s') => .ok s'
  | _ => .oob

/-- `back`: note that stepping back onto a `\n` preceded by `\r` retreats two bytes even
    without the `crlf` feature (scanner.rs l.63-66). -/
def back (s : Scanner) : Res Scanner :=
  if s.ofs == 0 then .panic "back at start" else
  let s1 := { s with ofs := s.ofs - 1 }
  match s1.get with
  | .ok c =>
    if c == NL then
      let s2 := if s1.ofs > 0 && s1.buf[s1.ofs - 1]? == some CR then { s1 with ofs := s1.ofs - 1 } else s1
      if s2.line == 0 then .overflow else .ok { s2 with line := s2.line - 1 }
    else .ok s1
  | _ => .oob

def skip (s : Scanner) (ch : UInt8) : Res (Bool × Scanner) :=
  match s.read with
  | .ok (c, s') =>
    if c != ch then
      match s'.back with
      | .ok s'' => .ok (false, s'')
      | .panic m => .panic m | .overflow => .overflow | _ => .oob
    else .ok (true, s')
  | _ => .oob

/-- `skip_spaces`: `while self.skip(' ') {}`. -/
def skipSpaces : Nat → Scanner → Res Scanner
  | 0, _ => .fuel
  | fuel + 1, s =>
    match s.skip SP with
    | .ok (true, s') => skipSpaces fuel s'
    | .ok (false, s') => .ok s'
    | .panic m => .panic m | .overflow => .overflow | .fuel => .fuel | _ => .oob

/-- Result of a parsing function: a value and the advanced scanner, or a parse error
    `(message, offset)`, or an abnormal outcome. -/
inductive PRes (α : Type) where
  | ok (a : α) (s : Scanner)
  | perr (msg : String) (ofs : Nat)
  | bad (r : Res Unit)          -- panic / oob / overflow / fuel
  deriving Repr

def PRes.ofRes {α β} (r : Res α) : PRes β :=
  match r with
  | .ok _ => .bad (.panic "ofRes on ok")
  | .err m => .bad (.err m)
  | .panic m => .bad (.panic m)
  | .oob => .bad .oob
  | .overflow => .bad .overflow
  | .fuel => .bad .fuel

def parseError {α} (s : Scanner) (msg : String) : PRes α := .perr msg s.ofs

/-- Display of the expected character in `expect`'s message, as Rust's `{:?}` prints the ones
    n2 uses. -/
def showCh (c : UInt8) : String :=
  if c == NL then "'\\n'" else if c == NUL then "'\\0'" else "'" ++ String.singleton (Char.ofNat c.toNat) ++ "'"

/-- `expect(ch)`: on mismatch steps back and reports at that offset.  The message keeps only
    the expected character (the harness drops the `, got ..` part of the real message). -/
def expect (s : Scanner) (ch : UInt8) : PRes Unit :=
  match s.read with
  | .ok (c, s') =>
    if c != ch then
      match s'.back with
      | .ok s'' => parseError s'' ("expected " ++ showCh ch)
      | r => .ofRes r
    else .ok () s'
  | r => .ofRes r

/-- `slice(start, end)` is `get_unchecked(start..end)`: undefined unless `start ≤ end ≤ len`. -/
def slice (s : Scanner) (start stop : Nat) : Res Bytes :=
  if start ≤ stop ∧ stop ≤ s.buf.size then .ok (s.buf.extract start stop).toList else .oob

end Scanner
end N2V

namespace N2V.Scanner

/-- `str::is_char_boundary` on raw bytes. -/
def isCharBoundary (s : Bytes) (i : Nat) : Bool :=
  if i == 0 then true
  else match s[i]? with
    | none => i == s.length
    | some b => b < 128 || b ≥ 192

def boundaryAtOrBelow (s : Bytes) : Nat → Nat
  | 0 => 0
  | m + 1 => if isCharBoundary s (m + 1) then m + 1 else boundaryAtOrBelow s m

/-- Split at `\n` like `buf.split(|&c| c == b'\n')`. -/
def splitLines : Bytes → Bytes → List Bytes
  | [], cur => [cur]
  | c :: r, cur => if c == NL then cur :: splitLines r [] else splitLines r (cur ++ [c])

/-- What `format_parse_error` shows: 1-based line, the excerpt (with `...` where it was
    trimmed) and the caret column relative to the excerpt. -/
structure ErrView where
  line : Nat
  excerpt : Bytes
  col : Nat
  deriving DecidableEq, Repr

def dots : Bytes := [46, 46, 46]

/-- `if context.len() > 40 { &context[0..40] + "..." }` with the cut moved down to a character
    boundary (repair of F2). -/
def cutTail (ctx : Bytes) : Bytes :=
  if ctx.length > 40 then ctx.take (boundaryAtOrBelow ctx 40) ++ dots else ctx

/-- Excerpt and caret column for an error at column `col0` of `line`: when the column is past 40
    the beginning is trimmed (again at a character boundary) and replaced by `...`. -/
def excerptOf (line : Bytes) (col0 : Nat) : Bytes × Nat :=
  if col0 > 40 then
    let start := boundaryAtOrBelow line (col0 - 20)
    (dots ++ cutTail (line.drop start), 3 + (col0 - start))
  else (cutTail line, col0)

/-- The body of the `for (line_number, line) in lines.enumerate()` loop. -/
def formatLines (errOfs : Nat) : List Bytes → Nat → Nat → Res ErrView
  | [], _, _ => .panic "invalid offset when formatting error"
  | line :: rest, lineNo, ofs =>
    if ofs + line.length ≥ errOfs then
      let e := excerptOf line (errOfs - ofs)
      .ok ⟨lineNo + 1, e.1, e.2⟩
    else formatLines errOfs rest (lineNo + 1) (ofs + line.length + 1)

def formatParseError (buf : Array UInt8) (errOfs : Nat) : Res ErrView :=
  formatLines errOfs (splitLines buf.toList []) 0 0

end N2V.Scanner
