/-
  Model of `eval.rs`: strings with variable references and their expansion against a list of
  environments.  "It will look up its variables in the earliest Env that has them, and then
  those lookups will be recursively expanded starting from the env after the one that had the
  first successful lookup."
-/
import N2V.Model.Basic
namespace N2V.Eval

inductive Part where
  | lit (b : Bytes)
  | var (name : Bytes)
  deriving DecidableEq, Repr, Inhabited

abbrev EvalStr := List Part

/-- An environment: variable name to (unexpanded) value. -/
abbrev Env := Bytes → Option EvalStr

/-- First environment that knows `name`, with the environments AFTER it. -/
def findEnv : List Env → Bytes → Option (EvalStr × List Env)
  | [], _ => none
  | e :: rest, name =>
    match e name with
    | some v => some (v, rest)
    | none => findEnv rest name

/-- `evaluate_inner`, with the recursion depth bounded by the number of environments (each
    nested expansion continues with a strictly shorter list). -/
def evalFuel : Nat → List Env → EvalStr → Bytes
  | 0, _, parts => parts.flatMap (fun p => match p with | .lit b => b | .var _ => [])
  | fuel + 1, envs, parts =>
    parts.flatMap (fun p =>
      match p with
      | .lit b => b
      | .var n =>
        match findEnv envs n with
        | none => []
        | some (v, rest) => evalFuel fuel rest v)

/-- `EvalString::evaluate`. -/
def evaluate (envs : List Env) (s : EvalStr) : Bytes := evalFuel envs.length envs s

/-- A map from names to already expanded strings (`Vars`, `SmallMap<&str, String>`). -/
abbrev StrMap := List (Bytes × Bytes)
/-- A map from names to unexpanded strings (`SmallMap<K, EvalString>`). -/
abbrev EvalMap := List (Bytes × EvalStr)

def lookup {β} (m : List (Bytes × β)) (k : Bytes) : Option β :=
  (m.find? (fun p => p.1 == k)).map (·.2)

/-- `SmallMap::insert` / `HashMap::insert`: replace an existing key in place, else append. -/
def insert {β} : List (Bytes × β) → Bytes → β → List (Bytes × β)
  | [], k, v => [(k, v)]
  | (k', v') :: rest, k, v => if k' = k then (k, v) :: rest else (k', v') :: insert rest k v

def envOfStr (m : StrMap) : Env := fun n => (lookup m n).map (fun v => [.lit v])
def envOfEval (m : EvalMap) : Env := fun n => lookup m n

end N2V.Eval
