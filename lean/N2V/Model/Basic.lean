/-
  Common definitions of the executable model. Import-free (core Lean only), so that the
  driver executable links without Mathlib.
-/
namespace N2V

abbrev Bytes := List UInt8

/-- Every way the Rust code can leave the normal path is an explicit constructor. -/
inductive Res (α : Type) where
  | ok (a : α)
  | err (msg : String)        -- an `Err(..)`/diagnostic returned by the code
  | panic (site : String)     -- an explicit `panic!`/`assert!`/`unwrap` failing
  | oob                       -- a read or write outside a buffer
  | overflow                  -- integer wrap / truncation
  | fuel                      -- model ran out of fuel (must be proved unreachable)
  deriving Repr, DecidableEq, Inhabited

namespace Res
def isOk {α} : Res α → Bool | ok _ => true | _ => false
def isBad {α} : Res α → Bool | ok _ => false | err _ => false | _ => true
def map {α β} (f : α → β) : Res α → Res β
  | ok a => ok (f a) | err m => err m | panic s => panic s | oob => oob | overflow => overflow | fuel => fuel
def bind {α β} (r : Res α) (f : α → Res β) : Res β :=
  match r with
  | ok a => f a | err m => err m | panic s => panic s | oob => oob | overflow => overflow | fuel => fuel
instance : Monad Res where
  pure := ok
  bind := bind
end Res

/-! ### hex / text helpers for the line protocol -/

def hexDigit (n : Nat) : Char :=
  if n < 10 then Char.ofNat (48 + n) else Char.ofNat (87 + n)

def hexOfBytes (b : Bytes) : String :=
  if b.isEmpty then "-" else
  String.ofList (b.foldr (fun x acc => hexDigit (x.toNat / 16) :: hexDigit (x.toNat % 16) :: acc) [])

def hexVal (c : Char) : Option Nat :=
  if '0' ≤ c ∧ c ≤ '9' then some (c.toNat - 48)
  else if 'a' ≤ c ∧ c ≤ 'f' then some (c.toNat - 87)
  else if 'A' ≤ c ∧ c ≤ 'F' then some (c.toNat - 55)
  else none

def bytesOfHexChars : List Char → Option Bytes
  | [] => some []
  | [_] => none
  | a :: b :: r => do
    let x ← hexVal a
    let y ← hexVal b
    let rest ← bytesOfHexChars r
    pure (UInt8.ofNat (x * 16 + y) :: rest)

def bytesOfHex (s : String) : Option Bytes :=
  if s == "-" then some [] else bytesOfHexChars s.toList

def bytesOfString (s : String) : Bytes := s.toUTF8.toList

/-- Lossy rendering for messages (Latin-1 style, like `*byte as char`). -/
def stringOfBytes (b : Bytes) : String := String.ofList (b.map (fun x => Char.ofNat x.toNat))

end N2V
