/-
  The decidable "settled" predicate with its closedness check (the form the reflection theorem
  `World.settledC_sound` in Lemmas/WorldReflect is about).
-/
import N2V.Model.World
namespace N2V.World
open N2V N2V.Work N2V.Load N2V.Sched N2V.Run

/-- `acc` contains the producers of `roots` and is closed under producers of ordering and
    validation inputs. -/
def closedUnder (g : Graph) (roots : List Nat) (acc : List Nat) : Bool :=
  roots.all (fun f => match g.producer f with | some p => acc.contains p | none => true) &&
  acc.all (fun b => ((g.build b).ordering ++ (g.build b).validation).all (fun f =>
    match g.producer f with | some p => acc.contains p | none => true))

/-- The closure `settled` computed really is closed (always true in practice; checked rather
    than proved so that no fuel argument is needed). -/
def closureOK (w : World) (a : InvArgs) : Bool :=
  match loadEnv w a.manifestName with
  | .error _ => false
  | .ok (l, e0) =>
    match Mon.wantedFiles (schedGraph e0.g) (argsOf l a) with
    | none => false
    | some files =>
      closedUnder (schedGraph e0.g) ((argsOf l a).manifest :: files)
        (Mon.wantedBuilds (schedGraph e0.g) (argsOf l a) files)

def settledC (w : World) (a : InvArgs) : Bool := settled w a && closureOK w a

end N2V.World
