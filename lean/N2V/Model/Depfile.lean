/-
  Model of `depfile.rs` (skip_spaces, read_path, parse) and of `task.rs::read_depfile`'s
  flattening.  Loops carry a fuel argument; `Props/C15` proves `size + 1` is always enough.
-/
import N2V.Model.Scanner
namespace N2V.Depfile
open N2V N2V.Scanner

def BSL : UInt8 := 92
def COLON : UInt8 := 58

/-- depfile.rs `skip_spaces`: spaces and backslash-newline. -/
def skipSpaces : Nat → Scanner → PRes Unit
  | 0, _ => .bad .fuel
  | fuel + 1, s =>
    match s.read with
    | .ok (c, s1) =>
      if c == SP then skipSpaces fuel s1
      else if c == BSL then
        match s1.read with
        | .ok (c2, s2) =>
          if c2 == NL then skipSpaces fuel s2
          else parseError s2 "invalid backslash escape"
        | r => .ofRes r
      else
        match s1.back with
        | .ok s2 => .ok () s2
        | r => .ofRes r
    | r => .ofRes r

/-- The loop of `read_path` after `skip_spaces`. -/
def readPathLoop : Nat → Scanner → PRes Unit
  | 0, _ => .bad .fuel
  | fuel + 1, s =>
    match s.read with
    | .ok (c, s1) =>
      if c == NUL || c == SP || c == NL then
        match s1.back with
        | .ok s2 => .ok () s2
        | r => .ofRes r
      else if c == BSL then
        match s1.peek with
        | .ok c2 =>
          if c2 == NL then
            match s1.back with
            | .ok s2 => .ok () s2
            | r => .ofRes r
          else readPathLoop fuel s1
        | r => .ofRes r
      else readPathLoop fuel s1
    | r => .ofRes r

def readPath (fuel : Nat) (s : Scanner) : PRes (Option Bytes) :=
  match skipSpaces fuel s with
  | .ok () s1 =>
    let start := s1.ofs
    match readPathLoop fuel s1 with
    | .ok () s2 =>
      if s2.ofs == start then .ok none s2 else
        match s2.slice start s2.ofs with
        | .ok p => .ok (some p) s2
        | r => .ofRes r
    | .perr m o => .perr m o
    | .bad r => .bad r
  | .perr m o => .perr m o
  | .bad r => .bad r

/-- `while matches!(scanner.peek(), ' ' | '\n') { scanner.next(); }` -/
def skipBlank : Nat → Scanner → PRes Unit
  | 0, _ => .bad .fuel
  | fuel + 1, s =>
    match s.peek with
    | .ok c =>
      if c == SP || c == NL then
        match s.next with
        | .ok s1 => skipBlank fuel s1
        | r => .ofRes r
      else .ok () s
    | r => .ofRes r

/-- `while let Some(p) = read_path(scanner)? { deps.push(p) }` -/
def readDeps : Nat → Nat → Scanner → List Bytes → PRes (List Bytes)
  | 0, _, _, _ => .bad .fuel
  | fuel + 1, pf, s, acc =>
    match readPath pf s with
    | .ok (some p) s1 => readDeps fuel pf s1 (acc ++ [p])
    | .ok none s1 => .ok acc s1
    | .perr m o => .perr m o
    | .bad r => .bad r

abbrev Entries := List (Bytes × List Bytes)

/-- Recording one `target: deps` entry.  After the repair of finding F11 a repeated target
    extends the entry it already has (before: `SmallMap::insert` replaced it). -/
def addEntry : Entries → Bytes → List Bytes → Entries
  | [], t, d => [(t, d)]
  | (k, v) :: rest, t, d => if k = t then (k, v ++ d) :: rest else (k, v) :: addEntry rest t d

def stripColon (t : Bytes) : Option Bytes :=
  if t.getLast? == some COLON then some t.dropLast else none

/-- The main loop of `parse`. -/
def parseLoop : Nat → Nat → Scanner → Entries → PRes Entries
  | 0, _, _, _ => .bad .fuel
  | fuel + 1, pf, s, acc =>
    match skipBlank pf s with
    | .ok () s1 =>
      match readPath pf s1 with
      | .ok none s2 => .ok acc s2
      | .ok (some target) s2 =>
        match Scanner.skipSpaces pf s2 with
        | .ok s3 =>
          let cont (target : Bytes) (s4 : Scanner) : PRes Entries :=
            match readDeps pf pf s4 [] with
            | .ok deps s5 => parseLoop fuel pf s5 (addEntry acc target deps)
            | .perr m o => .perr m o
            | .bad r => .bad r
          match stripColon target with
          | some t => cont t s3
          | none =>
            match s3.expect COLON with
            | .ok () s4 => cont target s4
            | .perr m o => .perr m o
            | .bad r => .bad r
        | r => .ofRes r
      | .perr m o => .perr m o
      | .bad r => .bad r
    | .perr m o => .perr m o
    | .bad r => .bad r

/-- `depfile::parse` on file contents `text` (the NUL is appended as `read_file_with_nul`
    does). -/
def parse (text : Bytes) : PRes Entries :=
  let buf := (text ++ [NUL]).toArray
  let fuel := buf.size + 1
  match Scanner.new buf with
  | .ok s =>
    match parseLoop fuel fuel s [] with
    | .ok es s1 =>
      match s1.expect NUL with
      | .ok () s2 => .ok es s2
      | .perr m o => .perr m o
      | .bad r => .bad r
    | r => r
  | r => .ofRes r

/-- `task.rs::read_depfile`: all prerequisite lists, concatenated in map order. -/
def flatten (es : Entries) : List Bytes := es.flatMap (·.2)

end N2V.Depfile
