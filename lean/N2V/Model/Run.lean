/-
  Model of `run.rs::build` at the scheduler level: the manifest-regeneration phase, target
  resolution (`Work::lookup` = canonicalise, then look the name up), the choice between
  command-line targets / `default` statements / every file, and the second `Work::run`.
  Loading and dirtiness are inputs here (see Model/Work for those).
-/
import N2V.Model.Sched
import N2V.Model.Canon
namespace N2V.Run
open N2V N2V.Sched

structure Args where
  par : Nat
  failuresLeft : Option Nat
  adopt : Bool
  manifest : Nat                 -- FileId of the manifest (always known: load::read interns it first)
  targets : List Bytes           -- names given on the command line
  defaults : List Nat            -- FileIds of `default` statements, in order
  pools : List (Bytes × Nat)     -- declared pools
  manifestFiles : Option Nat := none   -- `State::manifest_files`: ids below it are named by the manifest,
                                       -- later ones are known from the build log only (none: no such ids)

inductive Outcome where
  | done (tasks : Nat)           -- Ok(Some(n))
  | failed                       -- Ok(None)
  | err (msg : String)
  | panic (msg : String)
  | reload (tasks : Nat)         -- phase 1 ran commands: the manifest is re-read (handled by the caller)
  | bug | stuck | fuel
  deriving DecidableEq, Repr

/-- `Work::lookup`. -/
def lookup (g : Graph) (name : Bytes) : Res (Option Nat) :=
  match Canon.canon name with
  | .ok c => .ok ((List.range g.nFiles).find? (fun f => g.fileName f == c))
  | .panic m => .panic m
  | _ => .panic "canon"

/-- `Work::lookup` as `run::build` uses it (after the repair of finding F13): a name that only
    the build log knows is not part of this build. -/
def lookupM (g : Graph) (a : Args) (name : Bytes) : Res (Option Nat) :=
  match lookup g name with
  | .ok (some t) =>
    match a.manifestFiles with
    | some k => if t < k then .ok (some t) else .ok none
    | none => .ok (some t)
  | r => r

def wantAll (g : Graph) : S → List Nat → WR Unit
  | s, [] => .ok () s
  | s, f :: fs =>
    match want g s f with
    | .ok _ s' => wantAll g s' fs
    | r => r

/-- Resolve the command-line names, in order; an unknown name is an error unless `adopt`. -/
def wantTargets (g : Graph) (a : Args) : S → List Bytes → WR Unit
  | s, [] => .ok () s
  | s, n :: ns =>
    match lookupM g a n with
    | .ok none =>
      if a.adopt then wantTargets g a s ns
      else .err ("unknown path requested: " ++ stringOfBytes n) s
    | .ok (some t) =>
      if t = a.manifest then wantTargets g a s ns
      else
        match want g s t with
        | .ok _ s' => wantTargets g a s' ns
        | r => r
    | .panic m => .bad m
    | _ => .bad "lookup"

def ofRun (r : RunResult) : Outcome :=
  match r with
  | .ok _ => .failed | .err m => .err m | .bug => .bug | .panic m => .panic m | .stuck => .stuck | .fuel => .fuel


/-- A fresh `Work` (`BuildStates::new`, `Runner::new`) right after `load::read`. -/
def fresh (a : Args) : S := { init a.pools a.failuresLeft with trace := [Ev.load] }

/-- Target resolution + second `Work::run` (what follows the manifest phase in `run::build`). -/
def phase2 {E : Type} (g : Graph) (a : Args) (c : Choices E) (s2 : S) (e : E) (perms : List (List Nat)) (fin : List (Nat × Term))
    (tasksBefore : Nat) : S × E × Outcome :=
  let wanted : WR Unit :=
    if !a.targets.isEmpty then wantTargets g a s2 a.targets
    else if !a.defaults.isEmpty then wantAll g s2 a.defaults
    else wantAll g s2 ((List.range g.nFiles).filter (· ≠ a.manifest))
  match wanted with
  | .ok _ s3 =>
    let r2 := runLoop g a.par c (runFuel g) s3 e perms fin
    match r2.result with
    | .ok true => (r2.s, r2.e, .done (tasksBefore + r2.s.tasksRun))
    | r => (r2.s, r2.e, ofRun r)
  | .err m s3 => (s3, e, .err m)
  | .bad m => (s2, e, .panic m)

/-- `run::build` up to a possible reload.  Returns the scheduler state (with its trace) and
    `.reload n` when the manifest phase ran `n > 0` commands. -/
def build {E : Type} (g : Graph) (a : Args) (c : Choices E) (e : E) : S × E × Outcome :=
  let s0 := fresh a
  -- phase 1: bring the manifest up to date
  match want g s0 a.manifest with
  | .ok _ s1 =>
    let r1 := runLoop g a.par c (runFuel g) s1 e c.perms c.finishes
    match r1.result with
    | .ok true =>
      if r1.s.tasksRun ≠ 0 then (r1.s, r1.e, .reload r1.s.tasksRun)
      else phase2 g a c r1.s r1.e r1.perms r1.finishes 0
    | r => (r1.s, r1.e, ofRun r)
  | .err m s1 => (s1, e, .err m)
  | .bad m => (s0, e, .panic m)

/-- The part of `run::build` after the manifest was regenerated: a fresh `Work` on the reloaded
    graph; the manifest itself is not wanted again. -/
def buildReloaded {E : Type} (g : Graph) (a : Args) (c : Choices E) (e : E) (tasksBefore : Nat) : S × E × Outcome :=
  let s0 := fresh a
  phase2 g a c s0 e c.perms c.finishes tasksBefore

end N2V.Run
