/-
  Model of `run.rs::build` at the scheduler level: the manifest-regeneration phase, target
  resolution (`Work::lookup` = canonicalise, then look the name up), the choice between
  command-line targets / `default` statements / every file, and the second `Work::run`.
  Loading and dirtiness are inputs here (see Model/Work for those).
-/
import N2V.Model.Sched
import N2V.Model.Canon
namespace N2V.Run
open N2V N2V.Sched

structure Args where
  par : Nat
  failuresLeft : Option Nat
  adopt : Bool
  manifest : Nat                 -- FileId of the manifest (always known: load::read interns it first)
  targets : List Bytes           -- names given on the command line
  defaults : List Nat            -- FileIds of `default` statements, in order
  pools : List (Bytes × Nat)     -- declared pools

inductive Outcome where
  | done (tasks : Nat)           -- Ok(Some(n))
  | failed                       -- Ok(None)
  | err (msg : String)
  | panic (msg : String)
  | reload (tasks : Nat)         -- phase 1 ran commands: the manifest is re-read (handled by the caller)
  | bug | stuck | fuel
  deriving DecidableEq, Repr

/-- `Work::lookup`. -/
def lookup (g : Graph) (name : Bytes) : Res (Option Nat) :=
  match Canon.canon name with
  | .ok c => .ok ((List.range g.nFiles).find? (fun f => g.fileName f == c))
  | .panic m => .panic m
  | _ => .panic "canon"

def wantAll (g : Graph) : S → List Nat → Res S
  | s, [] => .ok s
  | s, f :: fs =>
    match want g s f with
    | .ok s' => wantAll g s' fs
    | r => r

/-- Resolve the command-line names, in order; an unknown name is an error unless `adopt`. -/
def wantTargets (g : Graph) (a : Args) : S → List Bytes → Res S
  | s, [] => .ok s
  | s, n :: ns =>
    match lookup g n with
    | .ok none =>
      if a.adopt then wantTargets g a s ns
      else .err ("unknown path requested: " ++ stringOfBytes n)
    | .ok (some t) =>
      if t = a.manifest then wantTargets g a s ns
      else
        match want g s t with
        | .ok s' => wantTargets g a s' ns
        | r => r
    | .panic m => .panic m
    | _ => .panic "lookup"

def ofRun (r : RunResult) : Outcome :=
  match r with
  | .ok _ => .failed | .err m => .err m | .bug => .bug | .panic m => .panic m | .stuck => .stuck | .fuel => .fuel

def ofRes {α} (r : Res α) : Outcome :=
  match r with
  | .ok _ => .panic "ofRes" | .err m => .err m | .panic m => .panic m | _ => .panic "internal"

/-- `run::build` for one loaded graph.  Returns the final scheduler state (with its trace). -/
def build (g : Graph) (a : Args) (c : Choices) : S × Outcome :=
  let s0 := init a.pools a.failuresLeft
  -- phase 1: bring the manifest up to date
  match want g s0 a.manifest with
  | .ok s1 =>
    let r1 := runLoop g a.par c (runFuel g) s1 c.perms c.finishes
    match r1.result with
    | .ok true =>
      if r1.s.tasksRun ≠ 0 then (r1.s, .reload r1.s.tasksRun)
      else
        -- phase 2 on the same Work
        let s2 := r1.s
        let wanted : Res S :=
          if !a.targets.isEmpty then wantTargets g a s2 a.targets
          else if !a.defaults.isEmpty then wantAll g s2 a.defaults
          else wantAll g s2 ((List.range g.nFiles).filter (· ≠ a.manifest))
        match wanted with
        | .ok s3 =>
          let r2 := runLoop g a.par c (runFuel g) s3 r1.perms r1.finishes
          match r2.result with
          | .ok true => (r2.s, .done r2.s.tasksRun)
          | r => (r2.s, ofRun r)
        | r => (s2, ofRes r)
    | r => (r1.s, ofRun r)
  | r => (s0, ofRes r)

end N2V.Run
