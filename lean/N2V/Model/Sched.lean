/-
  Model of the scheduler: `work.rs` (`BuildStates::{set, want_build, want_file, enqueue,
  pop_queued, pop_ready}`, `Work::{run, recheck_ready, ready_dependents}`) and the counters of
  `task.rs::Runner`.

  Everything the outside world decides is a parameter (`Choices`): whether a ready build is
  dirty, in which order `ready_dependents`' HashSet is iterated, which running command
  finishes next and how.  Theorems quantify over all of them.

  `usize` counters are `Int` here; the theorems of C19/C04 show they never go negative, so the
  machine arithmetic (`as isize`/`as usize`, `-= 1`) coincides with this.
-/
import N2V.Model.Basic
namespace N2V.Sched

inductive St where
  | unknown | want | ready | queued | running | done | failed
  deriving DecidableEq, Repr, Inhabited

def St.code : St → Nat
  | .unknown => 0 | .want => 1 | .ready => 2 | .queued => 3 | .running => 4 | .done => 5 | .failed => 6

structure Build where
  ordering : List Nat      -- explicit ++ implicit ++ order-only inputs (file ids)
  validation : List Nat    -- |@ inputs
  outs : List Nat
  phony : Bool             -- cmdline.is_none()
  pool : Bytes             -- "" = default pool
  deriving Repr, Inhabited

structure Graph where
  nBuilds : Nat
  nFiles : Nat
  build : Nat → Build
  producer : Nat → Option Nat     -- File::input
  dependents : Nat → List Nat     -- File::dependents
  fileName : Nat → Bytes

structure Pool where
  name : Bytes
  queued : List Nat
  running : Int
  depth : Nat
  deriving Repr

inductive Term where
  | success | failure | interrupted
  deriving DecidableEq, Repr

/-- Observable events, in the vocabulary the harness records from the real code. -/
inductive Ev where
  | set (id : Nat) (prev new : St) (counts : List Int) (pending : Int)
  | update (counts : List Int)
  | start (id : Nat)
  | finish (id : Nat) (t : Term)
  | load                                   -- the manifest (and log) are (re)loaded: a new `Work`
  deriving DecidableEq, Repr

/-- `StateCounts` (indexing it with `Unknown` panics in the source; `set` never does). -/
structure Counts where
  want : Int := 0
  ready : Int := 0
  queued : Int := 0
  running : Int := 0
  done : Int := 0
  failed : Int := 0
  deriving DecidableEq, Repr

def Counts.get (c : Counts) : St → Int
  | .unknown => 0 | .want => c.want | .ready => c.ready | .queued => c.queued
  | .running => c.running | .done => c.done | .failed => c.failed

def Counts.add (c : Counts) (s : St) (d : Int) : Counts :=
  match s with
  | .unknown => c
  | .want => { c with want := c.want + d }
  | .ready => { c with ready := c.ready + d }
  | .queued => { c with queued := c.queued + d }
  | .running => { c with running := c.running + d }
  | .done => { c with done := c.done + d }
  | .failed => { c with failed := c.failed + d }

structure S where
  st : Nat → St
  counts : Counts
  pending : Int
  ready : List Nat
  pools : List Pool
  trace : List Ev          -- ghost: newest first
  -- Runner
  running : Int
  -- Work::run locals / Work fields
  tasksFailed : Nat
  tasksRun : Nat
  failuresLeft : Option Nat

def upd {α} (f : Nat → α) (i : Nat) (v : α) : Nat → α := fun j => if j = i then v else f j
def countsList (c : Counts) : List Int :=
  [c.want, c.ready, c.queued, c.running, c.done, c.failed]

/-- `BuildStates::new`: the default pool, `console` (depth 1), then the declared ones;
    `SmallMap::insert` replaces an existing name in place. -/
def insertPool : List Pool → Bytes → Nat → List Pool
  | [], n, d => [⟨n, [], 0, d⟩]
  | p :: ps, n, d => if p.name = n then ⟨n, [], 0, d⟩ :: ps else p :: insertPool ps n d

def initPools (declared : List (Bytes × Nat)) : List Pool :=
  declared.foldl (fun ps d => insertPool ps d.1 d.2)
    [⟨[], [], 0, 0⟩, ⟨[99, 111, 110, 115, 111, 108, 101], [], 0, 1⟩]

def init (declared : List (Bytes × Nat)) (failuresLeft : Option Nat) : S :=
  { st := fun _ => .unknown, counts := {}, pending := 0, ready := [],
    pools := initPools declared, trace := [], running := 0, tasksFailed := 0, tasksRun := 0,
    failuresLeft := failuresLeft }

def modPool (ps : List Pool) (name : Bytes) (f : Pool → Pool) : Option (List Pool) :=
  match ps with
  | [] => none
  | p :: rest =>
    if p.name = name then some (f p :: rest)
    else (modPool rest name f).map (p :: ·)

def decRunning (p : Pool) : Pool := { p with running := p.running - 1 }
def incRunning (p : Pool) : Pool := { p with running := p.running + 1 }

/-- `BuildStates::set`: leave `prev` (pending / pool slot / UI count), enter `new` (ready queue /
    pool slot / pending / UI count).  `Counts.add .unknown` is the identity, which is how the
    source's `if prev == Unknown {..} else {..}` reads for the UI counts. -/
def set (g : Graph) (s : S) (id : Nat) (new : St) : Res S :=
  let b := g.build id
  let prev := s.st id
  match (if prev = .running then modPool s.pools b.pool decRunning else some s.pools) with
  | none => .panic "called `Option::unwrap()` on a `None` value"
  | some ps1 =>
    match (if new = .running then modPool ps1 b.pool incRunning else some ps1) with
    | none => .panic "called `Option::unwrap()` on a `None` value"
    | some ps2 =>
      let counts' := if b.phony then s.counts else (s.counts.add prev (-1)).add new 1
      let pending' := s.pending + (if prev = .unknown then 1 else 0)
                        - (if new = .done ∨ new = .failed then 1 else 0)
      .ok { s with
            st := upd s.st id new, counts := counts', pending := pending',
            ready := if new = .ready then s.ready ++ [id] else s.ready,
            pools := ps2,
            trace := Ev.set id prev new (countsList counts') pending' :: s.trace }

def cycleMessage (g : Graph) (stack : List Nat) (id : Nat) : String :=
  let names := (stack ++ [id]).map (fun f => stringOfBytes (g.fileName f))
  "dependency cycle: " ++ " -> ".intercalate names

/-- Result of the want phase: a value and the state, or the error `anyhow::bail!` raised with
    the state reached by then (the marking already done stays), or an abnormal outcome. -/
inductive WR (α : Type) where
  | ok (a : α) (s : S)
  | err (m : String) (s : S)
  | bad (m : String)

/- `want_file` / `want_build`, with the recursion made explicit by fuel.  `stack` is oldest
   first, as the `Vec` in the source.  `wantIns` is the loop over `ordering_ins()`, `wantVals`
   the loop over `validation_ins()` (each with a fresh stack). -/
mutual
def wantFile (g : Graph) : Nat → S → List Nat → Nat → WR Bool
  | 0, _, _, _ => .bad "fuel"
  | fuel + 1, s, stack, f =>
    match stack.idxOf? f with
    | some i => .err (cycleMessage g (stack.drop i) f) s
    | none =>
      match g.producer f with
      | none => .ok true s
      | some bid =>
        match wantBuild g fuel s (stack ++ [f]) bid with
        | .ok state s' => .ok (state == .done) s'
        | .err m s' => .err m s'
        | .bad m => .bad m

def wantBuild (g : Graph) : Nat → S → List Nat → Nat → WR St
  | 0, _, _, _ => .bad "fuel"
  | fuel + 1, s, stack, id =>
    if s.st id ≠ .unknown then .ok (s.st id) s
    else
      match wantIns g fuel s stack (g.build id).ordering true with
      | .ok ready s1 =>
        let state := if ready then St.ready else St.want
        match set g s1 id state with
        | .ok s2 =>
          match wantVals g fuel s2 (g.build id).validation with
          | .ok _ s3 => .ok state s3
          | .err m s3 => .err m s3
          | .bad m => .bad m
        | .panic m => .bad m
        | _ => .bad "set"
      | .err m s1 => .err m s1
      | .bad m => .bad m

def wantIns (g : Graph) : Nat → S → List Nat → List Nat → Bool → WR Bool
  | 0, _, _, _, _ => .bad "fuel"
  | _ + 1, s, _, [], ready => .ok ready s
  | fuel + 1, s, stack, f :: fs, ready =>
    match wantFile g fuel s stack f with
    | .ok r s' => wantIns g fuel s' stack fs (ready && r)
    | .err m s' => .err m s'
    | .bad m => .bad m

def wantVals (g : Graph) : Nat → S → List Nat → WR Unit
  | 0, _, _ => .bad "fuel"
  | _ + 1, s, [] => .ok () s
  | fuel + 1, s, f :: fs =>
    match wantFile g fuel s [] f with
    | .ok _ s' => wantVals g fuel s' fs
    | .err m s' => .err m s'
    | .bad m => .bad m
end

/-- The longest input list (ordering or validation) of any build. -/
def maxIns (g : Graph) : Nat :=
  (List.range g.nBuilds).foldl (fun m b => max m (max (g.build b).ordering.length (g.build b).validation.length)) 0

/-- Fuel that always suffices for the want phase (proved in Lemmas/SchedWantTerm, exposed in
    Props/C06): each nested `want_file`/`want_build` pair costs 3 levels plus the position in the
    input list being walked, and nesting is bounded by (#Unknown builds + 1) x (#files + 1) (the
    cycle stack holds no file twice; crossing a validation edge happens after a build left Unknown). -/
def wantFuel (g : Graph) : Nat := (maxIns g + 3) * ((g.nBuilds + 1) * (g.nFiles + 1)) + 2

/-- `Work::want_file`. -/
def want (g : Graph) (s : S) (f : Nat) : WR Unit :=
  match wantFile g (wantFuel g) s [] f with
  | .ok _ s' => .ok () s'
  | .err m s' => .err m s'
  | .bad m => .bad m

/-- `recheck_ready`. -/
def recheckReady (g : Graph) (s : S) (id : Nat) : Bool :=
  (g.build id).ordering.all (fun f =>
    match g.producer f with
    | none => true
    | some p => s.st p == .done)

def dedup : List Nat → List Nat
  | [] => []
  | x :: xs => if xs.contains x then dedup xs else x :: dedup xs

/-- The builds `ready_dependents` promotes: dependents of the outputs that are `Want` and
    pass `recheck_ready` (a set; `dedup` keeps one copy). -/
def promotable (g : Graph) (s : S) (id : Nat) : List Nat :=
  dedup (((g.build id).outs.flatMap g.dependents).filter
    (fun d => s.st d == .want && recheckReady g s d))

/-- Order `cands` as the observed HashSet iteration (`perm`) did; candidates the observation
    does not mention go last (then the traces differ and the check reports it). -/
def orderBy (perm cands : List Nat) : List Nat :=
  (dedup (perm.filter cands.contains)) ++ cands.filter (fun c => !perm.contains c)

def promote (g : Graph) : S → List Nat → Res S
  | s, [] => .ok s
  | s, d :: ds =>
    match set g s d .ready with
    | .ok s' => promote g s' ds
    | r => r

/-- `ready_dependents`. -/
def readyDependents (g : Graph) (s : S) (id : Nat) (perm : List Nat) : Res S :=
  match set g s id .done with
  | .ok s1 => promote g s1 (orderBy perm (promotable g s1 id))
  | r => r

/-- `enqueue`: the state is set before the pool lookup can fail. -/
def enqueue (g : Graph) (s : S) (id : Nat) : Res S :=
  match set g s id .queued with
  | .ok s1 =>
    match modPool s1.pools (g.build id).pool (fun p => { p with queued := p.queued ++ [id] }) with
    | some pools => .ok { s1 with pools := pools }
    | none => .err "unknown pool"
  | r => r

/-- `pop_queued`: first pool (in map order) with room and a queued build. -/
def popQueued : List Pool → Option (Nat × List Pool)
  | [] => none
  | p :: ps =>
    if p.depth = 0 ∨ p.running < p.depth then
      match p.queued with
      | id :: q => some (id, { p with queued := q } :: ps)
      | [] => (popQueued ps).map (fun r => (r.1, p :: r.2))
    else (popQueued ps).map (fun r => (r.1, p :: r.2))

/-- What the environment decides during one `Work::run`.  `E` is whatever the dirtiness check
    and the recording of finished commands depend on and change (file system, stat cache, the
    log: Model/Work); the scheduler only threads it. -/
structure Choices (E : Type) where
  check : E → Nat → Option Bool × E  -- check_build_dirty(id): some dirty? / none = it returned Err
  onSuccess : E → Nat → E            -- a command succeeded: its effects + record_finished
  onAdopt : E → Nat → E              -- `-t restat`: record_finished without running
  adopt : Bool
  perms : List (List Nat)            -- one per ready_dependents call, in order
  finishes : List (Nat × Term)       -- one per Runner::wait, in order

inductive RunResult where
  | ok (success : Bool)
  | err (msg : String)
  | bug                              -- panic!("BUG: no work to do and runner not running")
  | panic (msg : String)
  | stuck                            -- the choices ran out / named a build that is not running
  | fuel
  deriving DecidableEq, Repr

structure RunOut (E : Type) where
  s : S
  e : E
  result : RunResult
  perms : List (List Nat)
  finishes : List (Nat × Term)

def resToRun (s0 : S) (r : Res S) : Sum S (S × RunResult) :=
  match r with
  | .ok s => .inl s
  | .err m => .inr (s0, .err m)
  | .panic m => .inr (s0, .panic m)
  | _ => .inr (s0, .panic "internal")

/-- `enqueue`, keeping the state reached when the pool lookup fails. -/
def enqueueRun (g : Graph) (s : S) (id : Nat) : Sum S (S × RunResult) :=
  match set g s id .queued with
  | .ok s1 =>
    match modPool s1.pools (g.build id).pool (fun p => { p with queued := p.queued ++ [id] }) with
    | some pools => .inl { s1 with pools := pools }
    | none => .inr (s1, .err "unknown pool")
  | r => resToRun s r

/-- `while runner.can_start_more() { pop_queued ... start }`; returns whether it progressed. -/
def startLoop (g : Graph) (par : Nat) : Nat → S → Bool → Sum (S × Bool) (S × RunResult)
  | 0, s, _ => .inr (s, .fuel)
  | fuel + 1, s, progressed =>
    if s.running < par then
      match popQueued s.pools with
      | none => .inl (s, progressed)
      | some (id, pools) =>
        match resToRun s (set g { s with pools := pools } id .running) with
        | .inl s1 =>
          let s2 := { s1 with running := s1.running + 1, trace := Ev.start id :: s1.trace }
          startLoop g par fuel s2 true
        | .inr r => .inr r
    else .inl (s, progressed)

/-- `while let Some(id) = pop_ready() { ... }`. -/
def readyLoop {E : Type} (g : Graph) (c : Choices E) : Nat → S → E → List (List Nat) → Bool →
    Sum (S × E × List (List Nat) × Bool) (S × E × RunResult)
  | 0, s, e, _, _ => .inr (s, e, .fuel)
  | fuel + 1, s, e, perms, progressed =>
    match s.ready with
    | [] => .inl (s, e, perms, progressed)
    | id :: rest =>
      let s0 := { s with ready := rest }
      match c.check e id with
      | (none, e1) => .inr (s0, e1, .err "check_build_dirty")
      | (some dirty, e1) =>
        if !dirty then
          match resToRun s0 (readyDependents g s0 id (perms.headD [])) with
          | .inl s1 => readyLoop g c fuel s1 e1 perms.tail true
          | .inr (se, r) => .inr (se, e1, r)
        else if c.adopt then
          match resToRun s0 (readyDependents g s0 id (perms.headD [])) with
          | .inl s1 => readyLoop g c fuel s1 (c.onAdopt e1 id) perms.tail true
          | .inr (se, r) => .inr (se, e1, r)
        else
          match enqueueRun g s0 id with
          | .inl s1 => readyLoop g c fuel s1 e1 perms true
          | .inr (se, r) => .inr (se, e1, r)

/-- `Work::run`. -/
def runLoop {E : Type} (g : Graph) (par : Nat) (c : Choices E) : Nat → S → E → List (List Nat) → List (Nat × Term) → RunOut E
  | 0, s, e, perms, fin => ⟨s, e, .fuel, perms, fin⟩
  | fuel + 1, s, e, perms, fin =>
    if s.pending ≤ 0 then
      ⟨s, e, .ok (s.tasksFailed == 0), perms, fin⟩
    else
      let s := { s with trace := Ev.update (countsList s.counts) :: s.trace }
      match startLoop g par (g.nBuilds + 1) s false with
      | .inr (se, r) => ⟨se, e, r, perms, fin⟩
      | .inl (s1, p1) =>
        match readyLoop g c (g.nBuilds + 1) s1 e perms false with
        | .inr (se, e2, r) => ⟨se, e2, r, perms, fin⟩
        | .inl (s2, e2, perms2, p2) =>
          if p1 || p2 then runLoop g par c fuel s2 e2 perms2 fin
          else if s2.running ≤ 0 then
            if s2.tasksFailed > 0 then ⟨s2, e2, .ok false, perms2, fin⟩
            else ⟨s2, e2, .bug, perms2, fin⟩
          else
            match fin with
            | [] => ⟨s2, e2, .stuck, perms2, fin⟩
            | (id, t) :: fin' =>
              if s2.st id ≠ .running then ⟨s2, e2, .stuck, perms2, fin⟩ else
              let s3 := { s2 with running := s2.running - 1, trace := Ev.finish id t :: s2.trace }
              match t with
              | .failure =>
                match s3.failuresLeft with
                | some n =>
                  -- `*failures_left -= 1` (usize): underflows for -k 0
                  if n = 0 then ⟨s3, e2, .panic "attempt to subtract with overflow", perms2, fin'⟩
                  else if n - 1 = 0 then ⟨{ s3 with failuresLeft := some 0 }, e2, .ok false, perms2, fin'⟩
                  else
                    match resToRun s3 (set g { s3 with failuresLeft := some (n - 1), tasksFailed := s3.tasksFailed + 1 } id .failed) with
                    | .inl s4 => runLoop g par c fuel s4 e2 perms2 fin'
                    | .inr (se, r) => ⟨se, e2, r, perms2, fin'⟩
                | none =>
                  match resToRun s3 (set g { s3 with tasksFailed := s3.tasksFailed + 1 } id .failed) with
                  | .inl s4 => runLoop g par c fuel s4 e2 perms2 fin'
                  | .inr (se, r) => ⟨se, e2, r, perms2, fin'⟩
              | .interrupted => ⟨s3, e2, .ok false, perms2, fin'⟩
              | .success =>
                let e3 := c.onSuccess e2 id
                match resToRun s3 (readyDependents g { s3 with tasksRun := s3.tasksRun + 1 } id (perms2.headD [])) with
                | .inl s4 => runLoop g par c fuel s4 e3 perms2.tail fin'
                | .inr (se, r) => ⟨se, e3, r, perms2, fin'⟩

/-- Loop iterations that always suffice (proved in Props/C06): every iteration that continues
    moves some build forward in Want < Ready < Queued < Running < Done/Failed. -/
def runFuel (g : Graph) : Nat := 6 * (g.nBuilds + 1) + 2

def run {E : Type} (g : Graph) (par : Nat) (c : Choices E) (s : S) (e : E) : RunOut E :=
  runLoop g par c (runFuel g) s e c.perms c.finishes

end N2V.Sched
