/-
  Model of `canon.rs::canonicalize_path` (lines 44-137).

  The Rust code works in place on the byte buffer with two cursors `dst ≤ src`.  Because
  every write happens at an index `< src` (theorem `C13.bounds`), the bytes at `≥ src` are
  still the original ones when they are read, so the in-place algorithm equals this
  out-of-place one: `rest` is `data[src..]`, `out` is `data[..dst]`, `st` is the component
  stack (a list of `dst` values, most recent first), its first 60 entries are on the machine stack, deeper ones spill to the heap.

  `inComp = true` models the inner "copy one path component, including trailing '/'" step,
  one byte at a time; `inComp = false` is the head of the `while` loop.
-/
import N2V.Model.Basic
namespace N2V.Canon

def isSep (c : UInt8) : Bool := c == 47 || c == 92   -- '/' | '\\'
def dot : UInt8 := 46

/-- After the loop: `if dst == 0 { data[0] = '.'; dst = 1 }`, then `set_len(dst)`. -/
def finish (out : Bytes) : Bytes := if out.isEmpty then [dot] else out

/-- The `..` case: pop the stack and rewind `dst`, or, on an empty stack, emit `..` and the
    separator that followed it (if any). -/
def dotdot (out : Bytes) (st : List Nat) (sep : Option UInt8) : Bytes × List Nat :=
  match st with
  | ofs :: st' => (out.take ofs, st')
  | [] => (out ++ [dot, dot] ++ sep.toList, [])

/-- What the head of the `while` loop decides by peeking at `data[src..src+3]`. -/
inductive Act where
  | skip (rest' : Bytes)                      -- a separator, or "./": nothing is emitted
  | stop                                      -- trailing ".": `break`
  | up (sep : Option UInt8) (rest' : Bytes)   -- a ".." component (followed by `sep` or by the end)
  | comp                                      -- an ordinary component starts here
  deriving DecidableEq, Repr

def classify (c : UInt8) (r : Bytes) : Act :=
  if isSep c then .skip r
  else if c == dot then
    match r with
    | [] => .stop
    | n :: r2 =>
      if isSep n then .skip r2
      else if n == dot then
        match r2 with
        | [] => .up none []
        | m :: r3 => if isSep m then .up (some m) r3 else .comp
      else .comp
  else .comp

theorem classify_skip_len {c r r'} (h : classify c r = .skip r') : r'.length ≤ r.length := by
  unfold classify at h
  split at h
  · cases h; exact Nat.le_refl _
  · split at h
    · split at h
      · cases h
      · split at h
        · cases h; simp
        · split at h
          · split at h
            · cases h
            · split at h <;> cases h
          · cases h
    · cases h

theorem classify_up_len {c r sep r'} (h : classify c r = .up sep r') : r'.length ≤ r.length := by
  unfold classify at h
  split at h
  · cases h
  · split at h
    · split at h
      · cases h
      · split at h
        · cases h
        · split at h
          · split at h
            · cases h; simp
            · split at h
              · cases h; simp; omega
              · cases h
          · cases h
    · cases h

def go (rest : Bytes) (inComp : Bool) (out : Bytes) (st : List Nat) : Res Bytes :=
  match rest with
  | [] => .ok (finish out)
  | c :: r =>
    if inComp then go r (!isSep c) (out ++ [c]) st
    else
      match h : classify c r with
      | .skip r' => go r' false out st
      | .stop => .ok (finish out)
      | .up sep r' =>
        let p := dotdot out st sep
        go r' false p.1 p.2
      | .comp =>
        -- `components.push(dst)` (beyond 60 entries the stack spills to the heap: repair of
        -- finding F4), then copy the component
        go r true (out ++ [c]) (out.length :: st)
termination_by rest.length
decreasing_by
  · simp
  · have := classify_skip_len h; simp; omega
  · have := classify_up_len h; simp; omega
  · simp

/-- `canonicalize_path`.  `assert!(!path.is_empty())` is the first line. -/
def canon (s : Bytes) : Res Bytes :=
  match s with
  | [] => .panic "assertion failed: !path.is_empty()"
  | c :: r => if isSep c then go r false [c] [] else go s false [] []

/-- Number of path components (maximal runs of non-separator bytes). -/
def numComps : Bytes → Bool → Nat
  | [], _ => 0
  | c :: r, inComp =>
    if isSep c then numComps r false
    else if inComp then numComps r true else numComps r true + 1

end N2V.Canon

/-! ### Component-level specification ("what location does a spelling denote") -/
namespace N2V.Canon

/-- What a spelling denotes: the root separator if any, the leading `..` that could not be
    resolved (each with the separator byte that followed it), and the remaining components in
    order, each with its trailing separator byte (`none` only for a last component without
    one: a trailing separator is significant). -/
structure Denot where
  root : Option UInt8
  ups : List (Option UInt8)
  names : List (Bytes × Option UInt8)
  deriving DecidableEq, Repr

/-- Split into components: maximal runs of non-separator bytes, each with the first separator
    byte after it; further separators are dropped. -/
def toksAux : Bytes → Bytes → List (Bytes × Option UInt8)
  | [], cur => if cur.isEmpty then [] else [(cur, none)]
  | c :: r, cur =>
    if isSep c then
      if cur.isEmpty then toksAux r [] else (cur, some c) :: toksAux r []
    else toksAux r (cur ++ [c])

def toks (s : Bytes) : List (Bytes × Option UInt8) := toksAux s []

def dropLast {α} (l : List α) : List α := l.take (l.length - 1)

/-- Resolve one component against what has been resolved so far. -/
def resolve1 (d : Denot) (t : Bytes × Option UInt8) : Denot :=
  if t.1 = [dot] then d
  else if t.1 = [dot, dot] then
    if d.names.isEmpty then { d with ups := d.ups ++ [t.2] }
    else { d with names := dropLast d.names }
  else { d with names := d.names ++ [t] }

def denote (s : Bytes) : Denot :=
  match s with
  | [] => ⟨none, [], []⟩
  | c :: r =>
    if isSep c then (toks r).foldl resolve1 ⟨some c, [], []⟩
    else (toks s).foldl resolve1 ⟨none, [], []⟩

def render (d : Denot) : Bytes :=
  let body := d.root.toList
    ++ d.ups.flatMap (fun sep => [dot, dot] ++ sep.toList)
    ++ d.names.flatMap (fun t => t.1 ++ t.2.toList)
  if body.isEmpty then [dot] else body

/-- Monitor for C13, evaluated on an observed input/output pair `(s, t)` and the observed
    result `tt` of canonicalising `t` again. -/
structure Mon where
  lenOk : Bool      -- never lengthens
  idem : Bool       -- idempotent
  normal : Bool     -- output is its own normal form: no `.`, empty or `name/..` components
  sameLoc : Bool    -- denotes the same location as the input

def monitor (s t tt : Bytes) : Mon :=
  { lenOk := t.length ≤ s.length
    idem := tt == t
    normal := render (denote t) == t
    sameLoc := denote t == denote s }

end N2V.Canon
