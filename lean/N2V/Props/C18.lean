/-
  C18 — Exactly the requested closure is considered.
-/
import N2V.Lemmas.SchedClosure
import N2V.Lemmas.SchedComplete
import N2V.Lemmas.SchedExamples
import N2V.Model.Run
namespace N2V.C18
open N2V N2V.Sched

/-- Target lookup goes through canonicalisation: two spellings with the same canonical form
    resolve to the same file (or are both unknown). -/
theorem lookup_spelling (g : Graph) (n n' : Bytes) (h : Canon.canon n = Canon.canon n') :
    Run.lookup g n = Run.lookup g n' := by
  unfold Run.lookup; rw [h]

/-- A command-line name that is not a file of the loaded manifest is rejected (outside
    `-t restat` mode) and nothing after it is looked at. -/
theorem unknown_rejected (g : Graph) (a : Run.Args) (s : S) (n : Bytes) (ns : List Bytes)
    (hl : Run.lookup g n = .ok none) (had : a.adopt = false) :
    Run.wantTargets g a s (n :: ns) = .err ("unknown path requested: " ++ stringOfBytes n) s := by
  unfold Run.wantTargets; simp [Run.lookupM, hl, had]

/-- ... and so is a name that only the build log knows (an output of a step that was removed
    from the manifest, a header seen in a depfile): file ids at or beyond `manifest_files` do not
    resolve (finding F13, repaired). -/
theorem log_only_name_rejected (g : Graph) (a : Run.Args) (s : S) (n : Bytes) (ns : List Bytes) (t k : Nat)
    (hl : Run.lookup g n = .ok (some t)) (hk : a.manifestFiles = some k) (hge : k ≤ t) (had : a.adopt = false) :
    Run.wantTargets g a s (n :: ns) = .err ("unknown path requested: " ++ stringOfBytes n) s := by
  have hnot : ¬ t < k := by omega
  unfold Run.wantTargets; simp [Run.lookupM, hl, hk, hnot, had]

/-- The manifest itself, named as a target, is not wanted a second time. -/
theorem manifest_target_skipped (g : Graph) (a : Run.Args) (s : S) (n : Bytes) (ns : List Bytes)
    (hl : Run.lookupM g a n = .ok (some a.manifest)) :
    Run.wantTargets g a s (n :: ns) = Run.wantTargets g a s ns := by
  conv => lhs; unfold Run.wantTargets
  simp [hl]

/-- Only builds that were Unknown can be drawn into the wanted set, and only as Want/Ready:
    requesting more targets never disturbs builds that are queued, running or finished. -/
theorem want_only_adds (g : Graph) (s s' : S) (f : Nat) (h : want g s f = .ok () s') (b : Nat) (x : St)
    (hx : late x) : (s'.st b = x ↔ s.st b = x) :=
  (want_lateEq' g s s' f h).1 b x hx

/-! ### Whole invocations -/

/-- **No step outside the requested closure is ever considered, let alone run**: in any
    `run::build` — any graph, arguments, environment behaviour, outcome — a build leaves
    `Unknown` only if a requested file needs it: the manifest, a command-line name that resolves,
    else a `default` target, else any file (`Run.Requested`), through explicit, implicit,
    order-only or validation inputs (`Needs`).  (`Work::run` itself never draws anything in:
    `runLoop_keeps`.) -/
theorem only_requested_closure {E : Type} {g : Graph} (gok : GraphOK g) (a : Run.Args) (c : Choices E) (e : E)
    (b : Nat) (hb : (Run.build g a c e).1.st b ≠ .unknown) :
    ∃ f, Run.Requested g a f ∧ Needs g f b :=
  Run.build_only_requested gok a c e b hb

/-- In particular a command is started only for such a build (a `start` event is preceded by the
    build's `set .. Running`, so its state is not `Unknown`). -/
theorem started_only_if_requested {E : Type} {g : Graph} (gok : GraphOK g) (a : Run.Args) (c : Choices E) (e : E)
    (b : Nat) (hs : stOf (Run.build g a c e).1.trace b ≠ .unknown) :
    ∃ f, Run.Requested g a f ∧ Needs g f b := by
  apply Run.build_only_requested gok a c e b
  rw [← (Run.build_tinv gok a c e).st]; exact hs

/-- What one `want_file` may mark. -/
theorem want_marks_only_needed (g : Graph) (s s' : S) (f : Nat) (h : want g s f = .ok () s') (b : Nat)
    (hb : s'.st b ≠ .unknown) : s.st b ≠ .unknown ∨ Needs g f b := by
  have := want_touch g s f
  rw [h] at this
  exact this b hb

/-- Non-vacuity: in the example, the step producing `c` needs the step producing `b`. -/
example : Needs Ex.g0 2 0 :=
  .step (b := 1) (f' := 1) (.direct (show Ex.g0.producer 2 = some 1 by decide)) (by decide)
    (.direct (show Ex.g0.producer 1 = some 0 by decide))

/-- **... and everything in the requested closure IS considered**: when `run::build` reports
    success, every build that a requested file — the manifest; the command-line names that
    resolve, else the `default`s, else every file — needs through explicit, implicit, order-only
    or validation inputs has left `Unknown` (and, by `C06.success_means_all_up_to_date`, is Done).
    Together with `only_requested_closure`: exactly the requested closure.  Proof: the want phase
    keeps "every marked build that is not inside its own loop over validation inputs has the
    producers of all its inputs marked" (`Sched.complete_all`, a joint induction over
    `want_file` / `want_build` / the two input loops, re-entrant visits included), and neither
    `Work::run` nor later `want_file` calls un-mark anything (`runLoop_mono`). -/
theorem requested_closure_is_marked {E : Type} {g : Graph} (gok : GraphOK g) (a : Run.Args) (c : Choices E) (e : E)
    (n : Nat) (h : (Run.build g a c e).2.2 = .done n) (b : Nat) (hW : Run.Wanted g a b) :
    (Run.build g a c e).1.st b ≠ .unknown :=
  Run.build_complete gok a c e n h b hW

end N2V.C18
