/-
  C18 — Exactly the requested closure is considered.
-/
import N2V.Lemmas.SchedWant
import N2V.Model.Run
namespace N2V.C18
open N2V N2V.Sched

/-- Target lookup goes through canonicalisation: two spellings with the same canonical form
    resolve to the same file (or are both unknown). -/
theorem lookup_spelling (g : Graph) (n n' : Bytes) (h : Canon.canon n = Canon.canon n') :
    Run.lookup g n = Run.lookup g n' := by
  unfold Run.lookup; rw [h]

/-- A command-line name that is not a file of the loaded manifest is rejected (outside
    `-t restat` mode) and nothing after it is looked at. -/
theorem unknown_rejected (g : Graph) (a : Run.Args) (s : S) (n : Bytes) (ns : List Bytes)
    (hl : Run.lookup g n = .ok none) (had : a.adopt = false) :
    Run.wantTargets g a s (n :: ns) = .err ("unknown path requested: " ++ stringOfBytes n) s := by
  unfold Run.wantTargets; simp [hl, had]

/-- The manifest itself, named as a target, is not wanted a second time. -/
theorem manifest_target_skipped (g : Graph) (a : Run.Args) (s : S) (n : Bytes) (ns : List Bytes)
    (hl : Run.lookup g n = .ok (some a.manifest)) :
    Run.wantTargets g a s (n :: ns) = Run.wantTargets g a s ns := by
  conv => lhs; unfold Run.wantTargets
  simp [hl]

/-- Only builds that were Unknown can be drawn into the wanted set, and only as Want/Ready:
    requesting more targets never disturbs builds that are queued, running or finished. -/
theorem want_only_adds (g : Graph) (s s' : S) (f : Nat) (h : want g s f = .ok () s') (b : Nat) (x : St)
    (hx : late x) : (s'.st b = x ↔ s.st b = x) :=
  (want_lateEq' g s s' f h).1 b x hx

end N2V.C18
