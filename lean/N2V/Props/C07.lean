/-
  C07 — The build log survives a crash at any point.
  (Reader after the repair of finding F5: stop at the first record cut short, report the intact
  length, truncate to it before appending.)
-/
import N2V.Lemmas.Db
namespace N2V.C07
open N2V N2V.Db

/-- A record written completely is read back exactly, whatever follows it. -/
theorem record_roundtrip (r : Rec) (rest : Bytes) (hf : r.fits) :
    decodeRec (encode r ++ rest) = some (r, rest) := decodeRec_encode r rest hf

/-- A record of which only `k < len` bytes reached the file is not read at all (it cannot be
    mistaken for a shorter record). -/
theorem torn_record_ignored (r : Rec) (hf : r.fits) (k : Nat) (hk : k < (encode r).length) :
    decodeRec ((encode r).take k) = none := decodeRec_torn r hf k hk

/-- **Every byte prefix of every log.**  If the file is a sequence of complete records followed
    by the first `k` bytes of one more record (the write during which the process died), the next
    invocation loads exactly the complete records and knows where the intact part ends. -/
theorem every_prefix (rs : List Rec) (hfit : ∀ r ∈ rs, r.fits) (r : Rec) (hf : r.fits) (k : Nat)
    (hk : k < (encode r).length) :
    parse (encodeLog rs ++ (encode r).take k) = .ok rs (encodeLog rs).length :=
  parse_log_torn rs hfit _ (decodeRec_torn r hf k hk)

/-- The same with no torn tail. -/
theorem complete (rs : List Rec) (hfit : ∀ r ∈ rs, r.fits) :
    parse (encodeLog rs) = .ok rs (encodeLog rs).length := by
  have := parse_log_torn rs hfit [] (by rfl)
  simpa using this

/-- A crash while the 8-byte signature itself was being written leaves a file that is treated
    as a new, empty log (not as corrupt). -/
theorem torn_signature (k : Fin 8) : parse (signature.take k.val) = .empty := by
  revert k; decide

/-- Reopen and append: after the torn tail is dropped (truncate to the reported length) and new
    records are appended, every later invocation loads the surviving records followed by the new
    ones — the log stays loadable for ever. -/
theorem reopen_append (rs new : List Rec) (hfit : ∀ r ∈ rs, r.fits) (hnew : ∀ r ∈ new, r.fits)
    (r : Rec) (hf : r.fits) (k : Nat) (hk : k < (encode r).length) :
    let file := encodeLog rs ++ (encode r).take k
    ∀ n, parse file = .ok rs n →
      parse (file.take n ++ new.flatMap encode) = .ok (rs ++ new) (file.take n ++ new.flatMap encode).length := by
  intro file n hp
  have h1 := every_prefix rs hfit r hf k hk
  rw [h1] at hp
  cases hp
  have ht : file.take (encodeLog rs).length = encodeLog rs := List.take_left' rfl
  rw [ht]
  have : encodeLog rs ++ new.flatMap encode = encodeLog (rs ++ new) := by
    simp [encodeLog, List.flatMap_append]
  rw [this]
  exact complete (rs ++ new) (fun x hx => by
    rcases List.mem_append.mp hx with h | h
    · exact hfit x h
    · exact hnew x h)

/-! ### Every history of invocations and crashes -/

/-- One invocation as the log file sees it: the records whose append completed, then possibly the
    record during whose append the process died (with the number of bytes that reached the file);
    `sigCut`: if the signature had to be (re)written and the process died after `k < 8` bytes of
    it (nothing else is written then). -/
structure Inv1 where
  new : List Rec
  torn : Option (Rec × Nat)
  sigCut : Option Nat

def tornBytes : Option (Rec × Nat) → Bytes
  | none => []
  | some (r, k) => (encode r).take k

def Inv1.WF (i : Inv1) : Prop :=
  (∀ r ∈ i.new, r.fits) ∧ (∀ r k, i.torn = some (r, k) → r.fits ∧ k < (encode r).length) ∧
  (∀ k, i.sigCut = some k → k < 8)

/-- `db::open` + the appends of one invocation: read the file, keep its intact prefix (write a
    fresh signature if there is none), append.  `none`: the file is refused (foreign signature or
    version). -/
def runInv (file : Bytes) (i : Inv1) : Option Bytes :=
  match parse file with
  | .ok _ n => some (file.take n ++ i.new.flatMap encode ++ tornBytes i.torn)
  | .empty =>
    match i.sigCut with
    | some k => some (signature.take k)
    | none => some (signature ++ i.new.flatMap encode ++ tornBytes i.torn)
  | _ => none

def runInvs : Bytes → List Inv1 → Option Bytes
  | file, [] => some file
  | file, i :: is => match runInv file i with
    | some f' => runInvs f' is
    | none => none

/-- The records whose append completed, over a history (an invocation that died inside the
    signature appended nothing). -/
def completed : Bytes → List Inv1 → List Rec
  | _, [] => []
  | file, i :: is =>
    match parse file, i.sigCut with
    | .empty, some k => completed (signature.take k) is
    | .empty, none => i.new ++ completed (signature ++ i.new.flatMap encode ++ tornBytes i.torn) is
    | .ok _ n, _ => i.new ++ completed (file.take n ++ i.new.flatMap encode ++ tornBytes i.torn) is
    | _, _ => []

/-- The shapes a log file can have: complete records followed by a strict prefix of one more
    record, or (nothing completed yet) a strict prefix of the signature. -/
def LogShape (file : Bytes) (rs : List Rec) : Prop :=
  ((∀ r ∈ rs, r.fits) ∧ ∃ t, file = encodeLog rs ++ tornBytes t ∧ ∀ r k, t = some (r, k) → r.fits ∧ k < (encode r).length) ∨
  (rs = [] ∧ ∃ k, k < 8 ∧ file = signature.take k)

theorem shape_parse (file : Bytes) (rs : List Rec) (h : LogShape file rs) :
    parse file = .ok rs (encodeLog rs).length ∨ (rs = [] ∧ parse file = .empty) := by
  rcases h with ⟨hfit, t, hf, ht⟩ | ⟨hrs, k, hk, hf⟩
  · left
    rw [hf]
    cases t with
    | none => simpa [tornBytes] using complete rs hfit
    | some p =>
      obtain ⟨r, k⟩ := p
      obtain ⟨h1, h2⟩ := ht r k rfl
      exact every_prefix rs hfit r h1 k h2
  · right
    rw [hf]
    exact ⟨hrs, torn_signature ⟨k, hk⟩⟩

/-- One invocation keeps the shape and adds exactly the records it completed. -/
theorem runInv_shape (file : Bytes) (rs : List Rec) (h : LogShape file rs) (i : Inv1) (hw : i.WF) :
    ∃ file', runInv file i = some file' ∧
      ((∃ k, parse file = .empty ∧ i.sigCut = some k ∧ LogShape file' rs) ∨
       ((parse file ≠ .empty ∨ i.sigCut = none) ∧ LogShape file' (rs ++ i.new))) := by
  obtain ⟨hnew, htorn, hsig⟩ := hw
  have happ : ∀ (base : List Rec), (∀ r ∈ base, r.fits) →
      LogShape (encodeLog base ++ i.new.flatMap encode ++ tornBytes i.torn) (base ++ i.new) := by
    intro base hb
    left
    refine ⟨fun r hr => by rcases List.mem_append.mp hr with h | h; exact hb r h; exact hnew r h, i.torn, ?_, htorn⟩
    simp [encodeLog, List.flatMap_append, List.append_assoc]
  rcases shape_parse file rs h with hp | ⟨hrs, hp⟩
  · -- an intact (possibly torn-tailed) log: truncate to the complete records, append
    have hfit : ∀ r ∈ rs, r.fits := by
      rcases h with ⟨hfit, _⟩ | ⟨hrs, k, hk, hf⟩
      · exact hfit
      · intro r hr; rw [hrs] at hr; cases hr
    have htake : file.take (encodeLog rs).length = encodeLog rs := by
      rcases h with ⟨_, t, hf, _⟩ | ⟨hrs, k, hk, hf⟩
      · rw [hf]; exact List.take_left' rfl
      · -- impossible: a strict prefix of the signature does not parse as a log
        rw [hf, torn_signature ⟨k, hk⟩] at hp; cases hp
    refine ⟨encodeLog rs ++ i.new.flatMap encode ++ tornBytes i.torn, ?_, Or.inr ⟨Or.inl (by rw [hp]; simp), happ rs hfit⟩⟩
    unfold runInv; rw [hp]; simp only [htake]
  · subst hrs
    cases hs : i.sigCut with
    | some k =>
      refine ⟨signature.take k, by unfold runInv; rw [hp, hs], Or.inl ⟨k, hp, rfl, Or.inr ⟨rfl, k, hsig k hs, rfl⟩⟩⟩
    | none =>
      refine ⟨signature ++ i.new.flatMap encode ++ tornBytes i.torn, by unfold runInv; rw [hp, hs],
        Or.inr ⟨Or.inr rfl, ?_⟩⟩
      have := happ [] (fun r hr => by cases hr)
      simpa [encodeLog] using this

/-- **The log survives every history of invocations and crashes.**  Starting from no file, after
    ANY sequence of invocations — each appending any records that fit the format, each possibly
    dying after any number of bytes of a record (or of the signature) — the file is never refused,
    has the shape "complete records + strict prefix of one more" and the next start-up loads
    exactly the records whose append completed, in order (`completed`), nothing else. -/
theorem survives_every_history (is : List Inv1) (hw : ∀ i ∈ is, i.WF) :
    ∀ (file : Bytes) (rs : List Rec), LogShape file rs →
    ∃ file', runInvs file is = some file' ∧ LogShape file' (rs ++ completed file is) ∧
      (parse file' = .ok (rs ++ completed file is) (encodeLog (rs ++ completed file is)).length ∨
       (rs ++ completed file is = [] ∧ parse file' = .empty)) := by
  induction is with
  | nil =>
    intro file rs h
    refine ⟨file, rfl, by simpa [completed] using h, ?_⟩
    simpa [completed] using shape_parse file rs h
  | cons i is ih =>
    intro file rs h
    obtain ⟨f1, hr1, hcase⟩ := runInv_shape file rs h i (hw i (by simp))
    have hwis : ∀ x ∈ is, x.WF := fun x hx => hw x (by simp [hx])
    rcases hcase with ⟨k, hp, hs, hsh⟩ | ⟨hne, hsh⟩
    · obtain ⟨f2, hr2, hs2, hp2⟩ := ih hwis f1 rs hsh
      have hf1 : f1 = signature.take k := by
        unfold runInv at hr1; rw [hp, hs] at hr1; exact (Option.some.inj hr1).symm
      have hc : completed file (i :: is) = completed f1 is := by
        simp only [completed, hp, hs, hf1]
      refine ⟨f2, by simp only [runInvs, hr1]; exact hr2, by rw [hc]; exact hs2, by rw [hc]; exact hp2⟩
    · obtain ⟨f2, hr2, hs2, hp2⟩ := ih hwis f1 (rs ++ i.new) hsh
      have hc : rs ++ completed file (i :: is) = (rs ++ i.new) ++ completed f1 is := by
        rcases shape_parse file rs h with hp | ⟨hrs, hp⟩
        · have hf1 : f1 = file.take (encodeLog rs).length ++ i.new.flatMap encode ++ tornBytes i.torn := by
            unfold runInv at hr1; rw [hp] at hr1; exact (Option.some.inj hr1).symm
          simp only [completed, hp, hf1, List.append_assoc]
        · rcases hne with hne | hne
          · exact absurd hp hne
          · have hf1 : f1 = signature ++ i.new.flatMap encode ++ tornBytes i.torn := by
              unfold runInv at hr1; rw [hp, hne] at hr1; exact (Option.some.inj hr1).symm
            simp only [completed, hp, hne, hf1, List.append_assoc]
      refine ⟨f2, by simp only [runInvs, hr1]; exact hr2, by rw [hc]; exact hs2, by rw [hc]; exact hp2⟩

/-- From no file at all. -/
theorem survives_from_scratch (is : List Inv1) (hw : ∀ i ∈ is, i.WF) :
    ∃ file', runInvs [] is = some file' ∧
      (parse file' = .ok (completed [] is) (encodeLog (completed [] is)).length ∨
       (completed [] is = [] ∧ parse file' = .empty)) := by
  obtain ⟨f, h1, _, h3⟩ := survives_every_history is hw [] [] (Or.inr ⟨rfl, 0, by decide, rfl⟩)
  exact ⟨f, h1, by simpa using h3⟩

/-- Non-vacuity: a concrete two-record log cut in the middle of its build record. -/
example : parse (encodeLog [.path [97], .build [0] [] 7] |>.take 14) = .ok [.path [97]] 11 := by decide

end N2V.C07
