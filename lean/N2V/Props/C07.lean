/-
  C07 — The build log survives a crash at any point.
  (Reader after the repair of finding F5: stop at the first record cut short, report the intact
  length, truncate to it before appending.)
-/
import N2V.Lemmas.Db
namespace N2V.C07
open N2V N2V.Db

/-- A record written completely is read back exactly, whatever follows it. -/
theorem record_roundtrip (r : Rec) (rest : Bytes) (hf : r.fits) :
    decodeRec (encode r ++ rest) = some (r, rest) := decodeRec_encode r rest hf

/-- A record of which only `k < len` bytes reached the file is not read at all (it cannot be
    mistaken for a shorter record). -/
theorem torn_record_ignored (r : Rec) (hf : r.fits) (k : Nat) (hk : k < (encode r).length) :
    decodeRec ((encode r).take k) = none := decodeRec_torn r hf k hk

/-- **Every byte prefix of every log.**  If the file is a sequence of complete records followed
    by the first `k` bytes of one more record (the write during which the process died), the next
    invocation loads exactly the complete records and knows where the intact part ends. -/
theorem every_prefix (rs : List Rec) (hfit : ∀ r ∈ rs, r.fits) (r : Rec) (hf : r.fits) (k : Nat)
    (hk : k < (encode r).length) :
    parse (encodeLog rs ++ (encode r).take k) = .ok rs (encodeLog rs).length :=
  parse_log_torn rs hfit _ (decodeRec_torn r hf k hk)

/-- The same with no torn tail. -/
theorem complete (rs : List Rec) (hfit : ∀ r ∈ rs, r.fits) :
    parse (encodeLog rs) = .ok rs (encodeLog rs).length := by
  have := parse_log_torn rs hfit [] (by rfl)
  simpa using this

/-- A crash while the 8-byte signature itself was being written leaves a file that is treated
    as a new, empty log (not as corrupt). -/
theorem torn_signature (k : Fin 8) : parse (signature.take k.val) = .empty := by
  revert k; decide

/-- Reopen and append: after the torn tail is dropped (truncate to the reported length) and new
    records are appended, every later invocation loads the surviving records followed by the new
    ones — the log stays loadable for ever. -/
theorem reopen_append (rs new : List Rec) (hfit : ∀ r ∈ rs, r.fits) (hnew : ∀ r ∈ new, r.fits)
    (r : Rec) (hf : r.fits) (k : Nat) (hk : k < (encode r).length) :
    let file := encodeLog rs ++ (encode r).take k
    ∀ n, parse file = .ok rs n →
      parse (file.take n ++ new.flatMap encode) = .ok (rs ++ new) (file.take n ++ new.flatMap encode).length := by
  intro file n hp
  have h1 := every_prefix rs hfit r hf k hk
  rw [h1] at hp
  cases hp
  have ht : file.take (encodeLog rs).length = encodeLog rs := List.take_left' rfl
  rw [ht]
  have : encodeLog rs ++ new.flatMap encode = encodeLog (rs ++ new) := by
    simp [encodeLog, List.flatMap_append]
  rw [this]
  exact complete (rs ++ new) (fun x hx => by
    rcases List.mem_append.mp hx with h | h
    · exact hfit x h
    · exact hnew x h)

/-- Non-vacuity: a concrete two-record log cut in the middle of its build record. -/
example : parse (encodeLog [.path [97], .build [0] [] 7] |>.take 14) = .ok [.path [97]] 11 := by decide

end N2V.C07
