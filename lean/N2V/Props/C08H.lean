/-
  C08 at the level of histories: which record of an arbitrary log a step of the CURRENT manifest
  gets at start-up.
-/
import N2V.Props.C09
namespace N2V.C08
open N2V N2V.Work N2V.Load

/-- `lastRec` picks the LAST record attributed to the step. -/
theorem lastRec_spec (g : GraphM) (b : Nat) (rs : List Rec) : ∀ (acc : Option Rec) (r : Rec),
    lastRec g b rs acc = some r →
    (∃ pre post, rs = pre ++ r :: post ∧ Db.attributeRec (producerByName g) r.outs = some b ∧
        ∀ r' ∈ post, Db.attributeRec (producerByName g) r'.outs ≠ some b) ∨
    (acc = some r ∧ ∀ r' ∈ rs, Db.attributeRec (producerByName g) r'.outs ≠ some b) := by
  induction rs with
  | nil => intro acc r h; right; exact ⟨h, fun _ h => by cases h⟩
  | cons r0 rs ih =>
    intro acc r h
    unfold lastRec at h
    by_cases hatt : Db.attributeRec (producerByName g) r0.outs = some b
    · rw [if_pos hatt] at h
      rcases ih (some r0) r h with ⟨pre, post, h1, h2, h3⟩ | ⟨h1, h2⟩
      · left; exact ⟨r0 :: pre, post, by rw [h1]; rfl, h2, h3⟩
      · left
        have : r0 = r := Option.some.inj h1
        subst this
        exact ⟨[], rs, rfl, hatt, h2⟩
    · rw [if_neg hatt] at h
      rcases ih acc r h with ⟨pre, post, h1, h2, h3⟩ | ⟨h1, h2⟩
      · left; exact ⟨r0 :: pre, post, by rw [h1]; rfl, h2, h3⟩
      · right
        refine ⟨h1, ?_⟩
        intro r' hr'
        rcases List.mem_cons.mp hr' with rfl | hr'
        · exact hatt
        · exact h2 r' hr'

/-- **Records follow steps by output name, across any manifest edits.**  Whatever manifests and
    invocations wrote the log: at start-up a step `b` of the CURRENT manifest is given the
    dependency list and signature of the record `r` that is the LAST one in the log all of whose
    outputs (at least one) are produced by `b` in the current manifest - no matter what index the
    step had, which other steps existed, or in which order things were written.  A later record
    with an output that `b` does not produce now (moved to another step, dropped from the manifest)
    does not count, and neither does it shadow `r`. -/
theorem record_follows_its_outputs (w : World) (m : Bytes) (l : Loader) (e : Env)
    (h : loadEnv w m = .ok (l, e)) (b : Nat) (r : Rec) (hr : lastRec l.graph b w.log none = some r) :
    (∃ pre post, w.log = pre ++ r :: post ∧
      (r.outs ≠ [] ∧ ∀ o ∈ r.outs, producerByName l.graph o = some b) ∧
      ∀ r' ∈ post, ¬ (r'.outs ≠ [] ∧ ∀ o ∈ r'.outs, producerByName l.graph o = some b)) ∧
    (discOf e b).map (fileName e.g) = r.deps ∧ assocGet e.hashes b = some r.hash := by
  obtain ⟨h1, h2, _, _⟩ := C09.remembered_by_every_later_invocation w m l e h b r hr
  refine ⟨?_, h1, h2⟩
  rcases lastRec_spec l.graph b w.log none r hr with ⟨pre, post, e1, e2, e3⟩ | ⟨e1, _⟩
  · refine ⟨pre, post, e1, attribution _ _ _ e2, ?_⟩
    intro r' hr' ⟨hne, hall⟩
    exact e3 r' hr' (attribution_complete _ _ _ (by simpa using hne) hall)
  · cases e1

end N2V.C08
