/-
  C03 — Unchanged steps are not re-run; a repeated build does nothing.
-/
import N2V.Model.World
import N2V.Lemmas.Work
import N2V.Lemmas.WorldClean
import N2V.Lemmas.WorldSettled
import N2V.Lemmas.WorldReflect
import N2V.Lemmas.WorldSettledD
import N2V.Lemmas.WorkSkip
import N2V.Lemmas.SchedDone2
namespace N2V.C03
open N2V N2V.Work N2V.Load

/-- **Re-run only for a reason**: a non-phony step is judged dirty only if a file it names is
    missing, or it has no completion record, or the recorded manifest differs from the
    current one. -/
theorem rerun_only_if (e e' : Env) (b : Nat) (bm : BuildM) (hb : buildOf e.g b = some bm)
    (hcmd : bm.cmdline.isNone = false) (h : checkDirty e b = (some true, e')) :
    (filesMissing e bm b).2 = some true ∨
    ((filesMissing e bm b).2 = some false ∧
      (assocGet e'.hashes b = none ∨ ∃ prev, assocGet e'.hashes b = some prev ∧ prev ≠ manifestOf e' bm b)) := by
  unfold checkDirty at h
  rw [hb] at h
  simp only [hcmd, Bool.false_eq_true, if_false] at h
  cases hm : (filesMissing e bm b).2 with
  | none => rw [hm] at h; cases h
  | some m =>
    rw [hm] at h
    cases m with
    | true => exact Or.inl rfl
    | false =>
      simp only at h
      right
      refine ⟨rfl, ?_⟩
      cases hp : assocGet (filesMissing e bm b).1.hashes b with
      | none => rw [hp] at h; cases h; exact Or.inl hp
      | some prev =>
        rw [hp] at h
        simp only [Prod.mk.injEq, Option.some.injEq, decide_eq_true_eq] at h
        obtain ⟨h1, h2⟩ := h
        subst h2
        exact Or.inr ⟨prev, hp, h1⟩

/-- Completeness of the rule: with every file present, a record on file and an equal manifest,
    the step is clean. -/
theorem clean_when_unchanged (e : Env) (b : Nat) (bm : BuildM) (prev : Manifest)
    (hb : buildOf e.g b = some bm) (hcmd : bm.cmdline.isNone = false)
    (hm : (filesMissing e bm b).2 = some false)
    (hp : assocGet (filesMissing e bm b).1.hashes b = some prev)
    (heq : prev = manifestOf (filesMissing e bm b).1 bm b) :
    (checkDirty e b).1 = some false := by
  unfold checkDirty
  rw [hb]
  simp only [hcmd, Bool.false_eq_true, if_false, hm, hp]
  simp [heq]

/-- Phony steps never run anything. -/
theorem phony_never_dirty (e : Env) (b : Nat) (bm : BuildM) (hb : buildOf e.g b = some bm)
    (hcmd : bm.cmdline = none) : (checkDirty e b).1 = some false := by
  unfold checkDirty; rw [hb]; simp [hcmd]

/-- **Order-only and validation inputs do not enter the manifest**: two statements that differ
    only in those sections (same dirtying inputs, outputs, command, rspfile) have equal
    manifests in every state, so editing or rebuilding such inputs never dirties the step. -/
theorem manifest_ignores_order_only (e : Env) (b : Nat) (bm bm' : BuildM)
    (h1 : bm.dirtying = bm'.dirtying) (h2 : bm.outs = bm'.outs) (h3 : bm.cmdline = bm'.cmdline)
    (h4 : bm.rspfile = bm'.rspfile) : manifestOf e bm b = manifestOf e bm' b := by
  unfold manifestOf; rw [h1, h2, h3, h4]

/-- An upstream re-run that leaves a file's timestamp unchanged leaves every manifest that
    mentions the file unchanged: the manifest depends on the stat cache only through the mtimes
    of the files it names. -/
theorem manifest_depends_on_mtimes_only (e e2 : Env) (b : Nat) (bm : BuildM)
    (hg : e2.g = e.g) (hd : e2.disc = e.disc)
    (hc : ∀ f, f ∈ bm.dirtying ++ discOf e b ++ bm.outs → assocGet e2.cache f = assocGet e.cache f) :
    manifestOf e2 bm b = manifestOf e bm b := by
  unfold manifestOf discOf
  rw [hg, hd]
  simp only [Manifest.mk.injEq, and_true, true_and]
  refine ⟨?_, ?_, ?_⟩
  · apply List.map_congr_left; intro f hf; rw [hc f (by simp [hf])]
  · apply List.map_congr_left; intro f hf; rw [hc f (by simp [discOf, hf])]
  · apply List.map_congr_left; intro f hf; rw [hc f (by simp [hf])]

/-- `-t restat`: a dirty step is recorded as it is, without running: `onAdopt` is exactly
    `record_finished` with no reported dependencies, and the tree is not touched. -/
theorem restat_touches_no_file (e : Env) (b : Nat) : (onAdopt e b).fs = e.fs := by
  unfold onAdopt recordFinished
  split
  · rfl
  · rename_i bm hb
    have key : (restat e bm b none).2.2.fs = e.fs := by
      unfold restat
      simp only
      have k := keepDeps_frame bm.dirtying ((none : Option (List Bytes)).getD []) e []
      rw [(statAllOutputs_same _ bm.outs).fs, (statFold_same _ _).fs]
      exact k.2.1
    simp only []
    split
    · exact key
    · exact key

/-! ### The repeated build (whole invocations) -/

/-- **A repeated build does nothing.**  For every manifest, tree, log, argument vector
    (targets, `-j`, `-k`, `-t restat`) and every scheduling behaviour of the environment
    (completion order, hash-set iteration order): if the manifest loads and every non-phony step
    the invocation may consider — the closure of the manifest, the named targets / defaults / all
    files — is up to date (`Work.UpToDate`: every dirtying input, discovered dependency and output
    exists and the step's latest attributed record equals the manifest of the files as they are
    now) then the invocation leaves tree, clock and log exactly as they were, starts and finishes
    no command, does not reload, and a successful result reports 0 tasks (`n2: no work to do`).
    The state an invocation leaves after a success is checked to be of this kind by the monitor
    `settledAfterSuccess` on every implementation history (the same `UpToDate` definition,
    evaluated on the real tree and log). -/
theorem repeated_build_does_nothing (w : World) (a : InvArgs)
    (obs1 obs2 : List (List Nat) × List (Nat × Sched.Term)) (l : Loader) (e0 : Env)
    (hl : loadEnv w a.manifestName = .ok (l, e0))
    (hu : AllUpToDate e0 (Run.Wanted (schedGraph e0.g) (argsOf l a))) :
    (invoke w a obs1 obs2).1 = w ∧
    commandEvents (invoke w a obs1 obs2).2.2 = [] ∧
    (∀ n, (invoke w a obs1 obs2).2.1 = .done n → n = 0) :=
  invoke_upToDate w a obs1 obs2 l e0 hl hu

/-- The same at the level of `run::build`, for any environment whose stat cache is truthful. -/
theorem up_to_date_build_runs_nothing (e0 : Env) (a : Run.Args) (adopt : Bool) (perms : List (List Nat))
    (fin : List (Nat × Sched.Term))
    (gok : Sched.GraphOK (schedGraph e0.g)) (dok : Sched.DepsOK (schedGraph e0.g)) (hc : Coh e0)
    (hu : AllUpToDate e0 (Run.Wanted (schedGraph e0.g) a)) :
    let r := Run.build (schedGraph e0.g) a (choices adopt perms fin) e0
    Sched.sf r.1.trace = [Sched.Ev.load] ∧ r.1.tasksRun = 0 ∧ Grew e0 r.2.1 ∧
    (∀ n, r.2.2 = .done n → n = 0) ∧ (∀ n, r.2.2 ≠ .reload n) :=
  build_upToDate e0 a adopt perms fin gok dok hc hu

/-- **After a successful build, the same build again does nothing** — the round trip, proved for
    projects without discovered dependencies (no `depfile`/`deps`, no command that rewrites an
    input, no dependency lists in the log) (no hypothesis about cycles: a successful want phase excludes them, `C06.cycle_among_requested_steps_is_diagnosed`).  If an invocation
    succeeds (without reloading the manifest), the files the steps it wanted name exist
    afterwards, and the manifest still loads to the same graph, then the next
    invocation with the same arguments changes nothing, starts no command and reports 0 tasks —
    whatever the completion orders and hash-set iteration orders in either invocation.
    Composition of `Work.build_done_js` (at the end of a successful `run::build` every Done step is
    settled: the signature the next start-up attaches to it is the manifest of the files as they
    are; invariant `Work.JS` carried through the scheduler by `Sched.runLoop_done`) with
    `repeated_build_does_nothing`. -/
theorem build_after_successful_build_does_nothing (w : World) (a : InvArgs) (perms : List (List Nat))
    (fin : List (Nat × Sched.Term)) (l : Loader) (e0 : Env) (hl : loadEnv w a.manifestName = .ok (l, e0))
    (plain : Plain e0.g) (hlog : ∀ r ∈ w.log, r.deps = [])
    (hpar : 0 < a.par) (n : Nat)
    (hdone : (Run.build (schedGraph e0.g) (argsOf l a) (choices a.adopt perms fin) e0).2.2 = .done n)
    (hpresent : ∀ b bm, Run.Wanted (schedGraph e0.g) (argsOf l a) b → buildOf e0.g b = some bm → bm.cmdline.isNone = false →
      AllPresent (Run.build (schedGraph e0.g) (argsOf l a) (choices a.adopt perms fin) e0).2.1 bm)
    (w' : World)
    (hw' : w' = { fs := (Run.build (schedGraph e0.g) (argsOf l a) (choices a.adopt perms fin) e0).2.1.fs,
                  clock := (Run.build (schedGraph e0.g) (argsOf l a) (choices a.adopt perms fin) e0).2.1.clock,
                  log := (Run.build (schedGraph e0.g) (argsOf l a) (choices a.adopt perms fin) e0).2.1.log })
    (e0' : Env) (hl' : loadEnv w' a.manifestName = .ok (l, e0'))
    (o1 o2 : List (List Nat) × List (Nat × Sched.Term)) :
    (invoke w' a o1 o2).1 = w' ∧ commandEvents (invoke w' a o1 o2).2.2 = [] ∧
    (∀ k, (invoke w' a o1 o2).2.1 = .done k → k = 0) :=
  second_build_does_nothing w a perms fin l e0 hl plain hlog hpar n hdone hpresent w' hw' e0' hl' o1 o2

/-- Non-vacuity: a two-file project (`build out: cc in`) whose record matches the tree satisfies
    the hypothesis. -/
def exBuild : BuildM :=
  { loc := ⟨[], 1⟩, desc := none, cmdline := some [99, 99], depfile := none, showIncludes := false,
    rspfile := none, pool := none, ins := [1], explicit := 1, implicit := 0, orderOnly := 0, outs := [2],
    explicitOuts := 1, hideSuccess := false, hideProgress := false }

def exEnv : Env :=
  { g := { files := [⟨[109], none, []⟩, ⟨[105], none, [0]⟩, ⟨[111], some 0, []⟩], builds := [exBuild] },
    disc := [], hashes := [(0, { ins := [([105], 7)], disc := [], cmd := [99, 99], rsp := none, outs := [([111], 9)] })],
    cache := [], fs := [([105], ⟨7, []⟩), ([111], ⟨9, []⟩)], clock := 10, log := [] }

example : AllUpToDate exEnv (fun _ => True) := by
  refine ⟨?_, ?_⟩
  · intro b bm _ hb _
    cases b with
    | zero =>
      simp [buildOf, exEnv] at hb
      subst hb
      refine ⟨?_, by decide⟩
      intro f hf
      simp [BuildM.dirtying, discOf, assocGet, exEnv, exBuild] at hf
      rcases hf with rfl | rfl <;> decide
    | succ n => simp [buildOf, exEnv] at hb
  · intro b bm _ hb _ f hf
    simp [discOf, assocGet, exEnv] at hf

/-- ... and its graph is of the kind the round-trip theorem covers. -/
example : Plain exEnv.g := by
  refine ⟨?_, ?_, ?_⟩ <;> intro b bm hb <;> (cases b with
    | zero => simp [buildOf, exEnv] at hb; subst hb; decide
    | succ n => simp [buildOf, exEnv] at hb)

/-- **The round trip with discovered dependencies** (depfile / `deps = msvc` steps included).  For a
    loaded project in which no command rewrites an input and every step has an output, WHATEVER the log held before (records with dependency lists, records
    of other manifests): if an invocation succeeds without reloading the manifest, the
    dependencies its finished steps remember at the end are source files (`GoodD`: none is produced
    by a step - n2 itself refuses generated ones that lack a dependency path), the files the wanted
    steps name (remembered dependencies included) exist afterwards and the manifest still loads to
    the same graph, then the next invocation with the same arguments changes nothing, starts no
    command and reports 0 tasks - whatever the completion orders and hash-set iteration orders in
    either invocation.  Invariant `Work.JD` (Lemmas/WorkSettledD): the graph only gains uniquely
    named source files; every Done step whose files exist has, as the latest record the log
    attributes to it, one whose signature is the manifest of the tree as it is and whose dependency
    list names the step's current discovered dependencies - carried through `Work::run` by
    `Sched.runLoop_done`; the next start-up re-attaches exactly that (`applyLog_spec`). -/
theorem build_after_successful_build_does_nothing_with_depfiles (w : World) (a : InvArgs) (perms : List (List Nat))
    (fin : List (Nat × Sched.Term)) (l : Loader) (e0 : Env) (hl : loadEnv w a.manifestName = .ok (l, e0))
    (plain : PlainD e0.g) (hpar : 0 < a.par) (n : Nat)
    (hdone : (Run.build (schedGraph e0.g) (argsOf l a) (choices a.adopt perms fin) e0).2.2 = .done n)
    (hsrc : GoodD (Run.build (schedGraph e0.g) (argsOf l a) (choices a.adopt perms fin) e0).1
              (Run.build (schedGraph e0.g) (argsOf l a) (choices a.adopt perms fin) e0).2.1)
    (hpresent : ∀ b bm, Run.Wanted (schedGraph e0.g) (argsOf l a) b → buildOf e0.g b = some bm → bm.cmdline.isNone = false →
      AllPresentD (Run.build (schedGraph e0.g) (argsOf l a) (choices a.adopt perms fin) e0).2.1 bm b)
    (w' : World)
    (hw' : w' = { fs := (Run.build (schedGraph e0.g) (argsOf l a) (choices a.adopt perms fin) e0).2.1.fs,
                  clock := (Run.build (schedGraph e0.g) (argsOf l a) (choices a.adopt perms fin) e0).2.1.clock,
                  log := (Run.build (schedGraph e0.g) (argsOf l a) (choices a.adopt perms fin) e0).2.1.log })
    (e0' : Env) (hl' : loadEnv w' a.manifestName = .ok (l, e0'))
    (o1 o2 : List (List Nat) × List (Nat × Sched.Term)) :
    (invoke w' a o1 o2).1 = w' ∧ commandEvents (invoke w' a o1 o2).2.2 = [] ∧
    (∀ k, (invoke w' a o1 o2).2.1 = .done k → k = 0) :=
  second_build_does_nothing_deps w a perms fin l e0 hl plain hpar n hdone hsrc hpresent w' hw' e0' hl' o1 o2

/-- The example project is of the kind this covers too. -/
example : PlainD exEnv.g := by
  refine ⟨?_, ?_⟩ <;> intro b bm hb <;> (cases b with
    | zero => simp [buildOf, exEnv] at hb; subst hb; decide
    | succ n => simp [buildOf, exEnv] at hb)

/-- **What a failed build completed is not redone.**  Let an invocation end in success OR in an
    ordinary failure (a command failed, the `-k` budget ran out, an interruption; no reload; no
    input-rewriting commands; remembered dependencies of finished steps are source files), and let
    the manifest load to the same graph from the world it left.  Then every non-phony step that was
    `Done` when it stopped and whose named files exist is `UpToDate` in the freshly loaded
    environment of the next invocation (all its files exist, and the signature attached from the
    log is the manifest of the tree as it is), with only source files among its remembered
    dependencies - so `check_build_dirty` finds it clean (`checkDirty_upToDate`) and it is skipped,
    unless something it names is changed before its turn. -/
theorem completed_steps_are_up_to_date_next_time (w : World) (m : Bytes) (l : Loader) (e0 : Env)
    (hl : loadEnv w m = .ok (l, e0)) (plain : PlainD e0.g)
    (a : Run.Args) (adopt : Bool) (perms : List (List Nat)) (fin : List (Nat × Sched.Term))
    (h : (∃ n, (Run.build (schedGraph e0.g) a (choices adopt perms fin) e0).2.2 = .done n) ∨
         (Run.build (schedGraph e0.g) a (choices adopt perms fin) e0).2.2 = .failed)
    (hsrc : GoodD (Run.build (schedGraph e0.g) a (choices adopt perms fin) e0).1
              (Run.build (schedGraph e0.g) a (choices adopt perms fin) e0).2.1)
    (w' : World)
    (hw' : w' = { fs := (Run.build (schedGraph e0.g) a (choices adopt perms fin) e0).2.1.fs,
                  clock := (Run.build (schedGraph e0.g) a (choices adopt perms fin) e0).2.1.clock,
                  log := (Run.build (schedGraph e0.g) a (choices adopt perms fin) e0).2.1.log })
    (e0' : Env) (hl' : loadEnv w' m = .ok (l, e0'))
    (b : Nat) (bm : BuildM) (hb : buildOf e0.g b = some bm)
    (hdoneb : (Run.build (schedGraph e0.g) a (choices adopt perms fin) e0).1.st b = .done)
    (hnp : bm.cmdline.isNone = false)
    (hall : AllPresentD (Run.build (schedGraph e0.g) a (choices adopt perms fin) e0).2.1 bm b) :
    buildOf e0'.g b = some bm ∧ UpToDate e0' b bm ∧ ∀ f ∈ discOf e0' b, fileInput e0'.g f = none := by
  obtain ⟨inv0, gok, _⟩ := loadEnv_graph_ok w m l e0 hl
  obtain ⟨hc0, _, _, _⟩ := loadEnv_frame w m l e0 hl
  obtain ⟨_, l0⟩ := loadEnv_loaded0 w m l e0 hl
  have j := Run.build_done_or_failed gok a _ (JG e0) (jd_spec e0 inv0 l0 plain adopt perms fin) e0
    (jg_initial e0 a inv0 l0 hc0) h hsrc
  exact next_startup_upToDate w m l e0 hl _ _ j hsrc w' hw' e0' hl' b bm hb hdoneb hnp hall

/-- The same for an invocation that regenerated and reloaded its manifest, for the steps of the
    part after the reload (the fresh `Work` on the reloaded graph, `Run.buildReloaded`): `e2` is the
    environment `load::read` returned for the world the manifest phase left. -/
theorem completed_steps_are_up_to_date_next_time_reloaded (w1 : World) (m : Bytes) (l2 : Loader) (e2 : Env)
    (hl : loadEnv w1 m = .ok (l2, e2)) (plain : PlainD e2.g)
    (a : Run.Args) (adopt : Bool) (perms : List (List Nat)) (fin : List (Nat × Sched.Term)) (n0 : Nat)
    (h : (∃ n, (Run.buildReloaded (schedGraph e2.g) a (choices adopt perms fin) e2 n0).2.2 = .done n) ∨
         (Run.buildReloaded (schedGraph e2.g) a (choices adopt perms fin) e2 n0).2.2 = .failed)
    (hsrc : GoodD (Run.buildReloaded (schedGraph e2.g) a (choices adopt perms fin) e2 n0).1
              (Run.buildReloaded (schedGraph e2.g) a (choices adopt perms fin) e2 n0).2.1)
    (w' : World)
    (hw' : w' = { fs := (Run.buildReloaded (schedGraph e2.g) a (choices adopt perms fin) e2 n0).2.1.fs,
                  clock := (Run.buildReloaded (schedGraph e2.g) a (choices adopt perms fin) e2 n0).2.1.clock,
                  log := (Run.buildReloaded (schedGraph e2.g) a (choices adopt perms fin) e2 n0).2.1.log })
    (e0' : Env) (hl' : loadEnv w' m = .ok (l2, e0'))
    (b : Nat) (bm : BuildM) (hb : buildOf e2.g b = some bm)
    (hdoneb : (Run.buildReloaded (schedGraph e2.g) a (choices adopt perms fin) e2 n0).1.st b = .done)
    (hnp : bm.cmdline.isNone = false)
    (hall : AllPresentD (Run.buildReloaded (schedGraph e2.g) a (choices adopt perms fin) e2 n0).2.1 bm b) :
    buildOf e0'.g b = some bm ∧ UpToDate e0' b bm ∧ ∀ f ∈ discOf e0' b, fileInput e0'.g f = none := by
  obtain ⟨inv0, gok, _⟩ := loadEnv_graph_ok w1 m l2 e2 hl
  obtain ⟨hc0, _, _, _⟩ := loadEnv_frame w1 m l2 e2 hl
  obtain ⟨_, l0⟩ := loadEnv_loaded0 w1 m l2 e2 hl
  have j := Run.buildReloaded_done_or_failed gok a _ (JG e2) (jd_spec e2 inv0 l0 plain adopt perms fin) e2
    (jg_initial e2 a inv0 l0 hc0) n0 h hsrc
  exact next_startup_upToDate w1 m l2 e2 hl _ _ j hsrc w' hw' e0' hl' b bm hb hdoneb hnp hall

/-- **A step whose own files were left alone is not re-run** (restat behaviour).  If a step is up
    to date and then other commands run - rewriting THEIR outputs, or leaving an output untouched
    because its content would not change (`cp -p`, `copy_if_different`; the `split` commands of the
    model) - then, as long as the modification times of the files this step names are what they
    were, it is still up to date, and `check_build_dirty` finds it clean (truthful cache, generated
    inputs stat()ed): being downstream of a step that RAN is not a reason to run. -/
theorem untouched_step_is_not_rerun (e e' : Env) (b : Nat) (bm : BuildM) (hb : buildOf e'.g b = some bm)
    (hg : e'.g = e.g) (hd : discOf e' b = discOf e b) (hh : assocGet e'.hashes b = assocGet e.hashes b)
    (hm : ∀ f ∈ bm.dirtying ++ discOf e b ++ bm.outs, mtimeOf e' f = mtimeOf e f) (u : UpToDate e b bm)
    (hc : Coh e') (hgen : ∀ f ∈ bm.dirtying ++ discOf e' b, (fileInput e'.g f).isSome = true → Cached e' f) :
    (checkDirty e' b).1 = some false :=
  (checkDirty_upToDate e' b bm hb hc (upToDate_frame e e' b bm hg hd hh hm u) hgen).1

/-- **The monitor's verdict is the theorem's hypothesis.**  `World.settledC` is the decidable
    predicate the driver evaluates on the world the real n2 left behind (monitor
    settledAfterSuccess): every non-phony step in the requested closure has its files, its latest
    record is the manifest of the tree as it is, its generated discovered dependencies come from
    ordering ancestors - plus a check that the computed closure is closed.  When it says `true`,
    the hypothesis of `repeated_build_does_nothing` holds (reflection, `settledC_sound`), hence
    every further invocation with these arguments changes nothing and runs nothing. -/
theorem settled_world_is_left_alone (w : Work.World) (a : Work.InvArgs) (h : World.settledC w a = true)
    (obs1 obs2 : List (List Nat) × List (Nat × Sched.Term)) :
    (Work.invoke w a obs1 obs2).1 = w ∧ Work.commandEvents (Work.invoke w a obs1 obs2).2.2 = [] :=
  World.settled_world_is_left_alone w a h obs1 obs2

end N2V.C03
