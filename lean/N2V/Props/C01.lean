/-
  C01 — A command starts only after everything it depends on has finished.
-/
import N2V.Lemmas.SchedWant
namespace N2V.C01
open N2V N2V.Sched

/-- The gate: `recheck_ready` lets a build through only if the producer of every explicit,
    implicit and order-only input is Done. -/
theorem gate_sound (g : Graph) (s : S) (id : Nat) (h : recheckReady g s id = true) :
    ∀ f ∈ (g.build id).ordering, ∀ p, g.producer f = some p → s.st p = .done :=
  recheckReady_sound g s id h

/-- Everything `ready_dependents` promotes has passed that gate. -/
theorem promoted_are_gated (g : Graph) (s : S) (id d : Nat) (perm : List Nat)
    (h : d ∈ orderBy perm (promotable g s id)) :
    s.st d = .want ∧ ∀ f ∈ (g.build d).ordering, ∀ p, g.producer f = some p → s.st p = .done := by
  have hm : d ∈ promotable g s id := by
    unfold orderBy at h
    simp at h
    rcases h with h | h
    · have key : ∀ (l : List Nat) x, x ∈ dedup l → x ∈ l := by
        intro l
        induction l with
        | nil => intro x hx; simp [dedup] at hx
        | cons a l ih =>
          intro x hx
          unfold dedup at hx
          split at hx
          · exact List.mem_cons_of_mem _ (ih x hx)
          · simp at hx; rcases hx with rfl | hx
            · simp
            · exact List.mem_cons_of_mem _ (ih x hx)
      have := key _ _ h
      simp at this
      exact this.2
    · exact h.1
  unfold promotable at hm
  have key : ∀ (l : List Nat) x, x ∈ dedup l → x ∈ l := by
    intro l
    induction l with
    | nil => intro x hx; simp [dedup] at hx
    | cons a l ih =>
      intro x hx
      unfold dedup at hx
      split at hx
      · exact List.mem_cons_of_mem _ (ih x hx)
      · simp at hx; rcases hx with rfl | hx
        · simp
        · exact List.mem_cons_of_mem _ (ih x hx)
  have := key _ _ hm
  simp at this
  exact ⟨this.2.1, recheckReady_sound g s d this.2.2⟩

/-- Invariant step: if every build past the gate (Ready/Queued/Running/Done/Failed) has all
    its ordering producers Done, the same holds after any transition that (i) does not leave
    Done and (ii) moves a build past the gate only when its own producers are Done. -/
theorem gating_step {g : Graph} {par : Nat} {s s' : S} {bid : Nat} {new : St}
    (inv : Inv g par s) (h : set g s bid new = .ok s')
    (hprev : s.st bid ≠ .done)
    (hready : s.st bid = .ready → bid ∉ s.ready)
    (hqueued : s.st bid = .queued → ∀ p ∈ s.pools, bid ∉ p.queued)
    (hord : gated new → ∀ f ∈ (g.build bid).ordering, ∀ p, g.producer f = some p → s.st p = .done) :
    ∀ b, gated (s'.st b) → ∀ f ∈ (g.build b).ordering, ∀ p, g.producer f = some p → s'.st p = .done :=
  (set_frame inv.toInvCore h hprev hready hqueued hord).2.2.2.2

/-- Readiness is a function of the ordering inputs only: validation edges and discovered
    dependencies (which are not part of `ordering`) impose no ordering. -/
theorem validation_imposes_no_order (g g' : Graph) (s : S) (id : Nat)
    (hord : (g.build id).ordering = (g'.build id).ordering) (hprod : g.producer = g'.producer) :
    recheckReady g s id = recheckReady g' s id := by
  unfold recheckReady; rw [hord, hprod]

/-- Collecting the wanted set (also for the second phase of an invocation) never resets a
    running or finished build, so nothing that ran can be queued again within one `Work`. -/
theorem want_never_restarts (g : Graph) (s s' : S) (f : Nat) (h : want g s f = .ok () s') (b : Nat) :
    (s'.st b = .running ↔ s.st b = .running) ∧ (s'.st b = .done ↔ s.st b = .done) ∧
    (s'.st b = .failed ↔ s.st b = .failed) ∧ (s'.st b = .queued ↔ s.st b = .queued) :=
  let e := (want_lateEq' g s s' f h).1
  ⟨e b _ (Or.inr (Or.inl rfl)), e b _ (Or.inr (Or.inr (Or.inl rfl))),
   e b _ (Or.inr (Or.inr (Or.inr rfl))), e b _ (Or.inl rfl)⟩

end N2V.C01
