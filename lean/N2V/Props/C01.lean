/-
  C01 — A command starts only after everything it depends on has finished.
-/
import N2V.Lemmas.SchedExamples
namespace N2V.C01
open N2V N2V.Sched

/-- The gate: `recheck_ready` lets a build through only if the producer of every explicit,
    implicit and order-only input is Done. -/
theorem gate_sound (g : Graph) (s : S) (id : Nat) (h : recheckReady g s id = true) :
    ∀ f ∈ (g.build id).ordering, ∀ p, g.producer f = some p → s.st p = .done :=
  recheckReady_sound g s id h

/-- Everything `ready_dependents` promotes has passed that gate. -/
theorem promoted_are_gated (g : Graph) (s : S) (id d : Nat) (perm : List Nat)
    (h : d ∈ orderBy perm (promotable g s id)) :
    s.st d = .want ∧ ∀ f ∈ (g.build d).ordering, ∀ p, g.producer f = some p → s.st p = .done := by
  have hm : d ∈ promotable g s id := by
    unfold orderBy at h
    simp at h
    rcases h with h | h
    · have key : ∀ (l : List Nat) x, x ∈ dedup l → x ∈ l := by
        intro l
        induction l with
        | nil => intro x hx; simp [dedup] at hx
        | cons a l ih =>
          intro x hx
          unfold dedup at hx
          split at hx
          · exact List.mem_cons_of_mem _ (ih x hx)
          · simp at hx; rcases hx with rfl | hx
            · simp
            · exact List.mem_cons_of_mem _ (ih x hx)
      have := key _ _ h
      simp at this
      exact this.2
    · exact h.1
  unfold promotable at hm
  have key : ∀ (l : List Nat) x, x ∈ dedup l → x ∈ l := by
    intro l
    induction l with
    | nil => intro x hx; simp [dedup] at hx
    | cons a l ih =>
      intro x hx
      unfold dedup at hx
      split at hx
      · exact List.mem_cons_of_mem _ (ih x hx)
      · simp at hx; rcases hx with rfl | hx
        · simp
        · exact List.mem_cons_of_mem _ (ih x hx)
  have := key _ _ hm
  simp at this
  exact ⟨this.2.1, recheckReady_sound g s d this.2.2⟩

/-- Invariant step: if every build past the gate (Ready/Queued/Running/Done/Failed) has all
    its ordering producers Done, the same holds after any transition that (i) does not leave
    Done and (ii) moves a build past the gate only when its own producers are Done. -/
theorem gating_step {g : Graph} {par : Nat} {s s' : S} {bid : Nat} {new : St}
    (inv : Inv g par s) (h : set g s bid new = .ok s')
    (hprev : s.st bid ≠ .done)
    (hready : s.st bid = .ready → bid ∉ s.ready)
    (hqueued : s.st bid = .queued → ∀ p ∈ s.pools, bid ∉ p.queued)
    (hord : gated new → ∀ f ∈ (g.build bid).ordering, ∀ p, g.producer f = some p → s.st p = .done) :
    ∀ b, gated (s'.st b) → ∀ f ∈ (g.build b).ordering, ∀ p, g.producer f = some p → s'.st p = .done :=
  (set_frame inv.toInvCore h hprev hready hqueued hord).2.2.2.2

/-- Readiness is a function of the ordering inputs only: validation edges and discovered
    dependencies (which are not part of `ordering`) impose no ordering. -/
theorem validation_imposes_no_order (g g' : Graph) (s : S) (id : Nat)
    (hord : (g.build id).ordering = (g'.build id).ordering) (hprod : g.producer = g'.producer) :
    recheckReady g s id = recheckReady g' s id := by
  unfold recheckReady; rw [hord, hprod]

/-- Collecting the wanted set (also for the second phase of an invocation) never resets a
    running or finished build, so nothing that ran can be queued again within one `Work`. -/
theorem want_never_restarts (g : Graph) (s s' : S) (f : Nat) (h : want g s f = .ok () s') (b : Nat) :
    (s'.st b = .running ↔ s.st b = .running) ∧ (s'.st b = .done ↔ s.st b = .done) ∧
    (s'.st b = .failed ↔ s.st b = .failed) ∧ (s'.st b = .queued ↔ s.st b = .queued) :=
  let e := (want_lateEq' g s s' f h).1
  ⟨e b _ (Or.inr (Or.inl rfl)), e b _ (Or.inr (Or.inr (Or.inl rfl))),
   e b _ (Or.inr (Or.inr (Or.inr rfl))), e b _ (Or.inl rfl)⟩

/-! ### Whole invocations, at trace level

`Run.build_tinv`: every trace the model of `run::build` can produce satisfies `okTrace`
(TraceSpec.lean), for every graph, argument vector, environment behaviour and outcome.  The
statements below follow from `okTrace` alone (Lemmas/TraceFacts), so they also hold of every trace
recorded from the real n2 on which the `traceSpec` monitor evaluates to true. -/

/-- **C01 for every invocation**: whenever a command starts — at any point of any `run::build`,
    whatever happens afterwards — every step that transitively produces one of its explicit,
    implicit or order-only inputs is `Done` (ran successfully in this invocation or was judged up
    to date), and the step was not started before in this `Work`. -/
theorem starts_after_deps_and_once {E : Type} {g : Graph} (gok : GraphOK g) (a : Run.Args) (c : Choices E)
    (e : E) (b : Nat) (tr' : List Ev) (hs : (.start b :: tr') <:+ (Run.build g a c e).1.trace) :
    (∀ p, Anc g b p → stOf tr' p = .done) ∧ startedSince tr' b = false := by
  have ok := okTrace_suffix (Run.build_tinv gok a c e).ok hs
  exact ⟨fun p hp => (start_after_all_deps ok hp).1, start_once ok⟩

/-- The same for the part of an invocation that follows a manifest reload. -/
theorem starts_after_deps_and_once_reloaded {E : Type} {g : Graph} (gok : GraphOK g) (a : Run.Args)
    (c : Choices E) (e : E) (n0 b : Nat) (tr' : List Ev)
    (hs : (.start b :: tr') <:+ (Run.buildReloaded g a c e n0).1.trace) :
    (∀ p, Anc g b p → stOf tr' p = .done) ∧ startedSince tr' b = false := by
  have ok := okTrace_suffix (Run.buildReloaded_tinv gok a c e n0).ok hs
  exact ⟨fun p hp => (start_after_all_deps ok hp).1, start_once ok⟩

/-- Validation inputs are not ancestors: `Anc` is built from `ordering` only, and the trace
    specification never looks at `validation`. -/
theorem anc_ignores_validation (g g' : Graph) (h : ∀ b, (g.build b).ordering = (g'.build b).ordering)
    (hp : g.producer = g'.producer) {b p : Nat} (ha : Anc g b p) : Anc g' b p := by
  induction ha with
  | direct hf hpr => exact .direct (by rw [← h]; exact hf) (by rw [← hp]; exact hpr)
  | step _ _ ih1 ih2 => exact .step ih1 ih2

/-- Non-vacuity: in the run of `build b: r; build c: r b` the second command does start, and `b`'s
    step is an ancestor of `c`'s. -/
example : startedSince (Run.build Ex.g0 Ex.a0 Ex.c0 ()).1.trace 1 = true := by decide
example : Anc Ex.g0 1 0 := .direct (f := 1) (by decide) (by decide)

end N2V.C01
