/-
  C15 — Depfiles are read as the compiler wrote them.
  Property theorems about `N2V.Depfile` (model of depfile.rs and task.rs::read_depfile).
-/
import N2V.Model.Depfile
import N2V.Lemmas.DepfileTotal
import N2V.Lemmas.DepfileSpec
namespace N2V.C15
open N2V N2V.Depfile

/-- Recording an entry never loses or invents a prerequisite (any targets, repeated or not). -/
theorem mem_flatten_addEntry (es : Entries) (t : Bytes) (d : List Bytes) (x : Bytes) :
    x ∈ flatten (addEntry es t d) ↔ x ∈ flatten es ∨ x ∈ d := by
  induction es with
  | nil => simp [addEntry, flatten]
  | cons e es ih =>
    obtain ⟨k, v⟩ := e
    unfold addEntry
    split
    · simp [flatten]; grind
    · simp [flatten] at ih ⊢; rw [ih]; grind

theorem length_flatten_addEntry (es : Entries) (t : Bytes) (d : List Bytes) :
    (flatten (addEntry es t d)).length = (flatten es).length + d.length := by
  induction es with
  | nil => simp [addEntry, flatten]
  | cons e es ih =>
    obtain ⟨k, v⟩ := e
    unfold addEntry
    split
    · simp [flatten]; omega
    · simp [flatten] at ih ⊢; rw [ih]; omega

/-- A target seen for the first time goes to the end, with its prerequisites in order. -/
theorem flatten_addEntry_fresh (es : Entries) (t : Bytes) (d : List Bytes)
    (h : t ∉ es.map (·.1)) : flatten (addEntry es t d) = flatten es ++ d := by
  induction es with
  | nil => simp [addEntry, flatten]
  | cons e es ih =>
    obtain ⟨k, v⟩ := e
    simp at h
    unfold addEntry
    have hk : ¬ k = t := fun hk => h.1 hk.symm
    simp [hk, flatten] at ih ⊢
    exact ih h.2

theorem keys_addEntry_fresh (es : Entries) (t : Bytes) (d : List Bytes)
    (h : t ∉ es.map (·.1)) : (addEntry es t d).map (·.1) = es.map (·.1) ++ [t] := by
  induction es with
  | nil => simp [addEntry]
  | cons e es ih =>
    obtain ⟨k, v⟩ := e
    simp at h
    unfold addEntry
    have hk : ¬ k = t := fun hk => h.1 hk.symm
    simp [hk] at ih ⊢
    exact ih h.2

/-- The entries recorded for a whole depfile, in the order `parse` meets them. -/
def record (l : Entries) : Entries := l.foldl (fun acc e => addEntry acc e.1 e.2) []

theorem flatten_foldl_distinct (l acc : Entries)
    (hd : ((acc ++ l).map (·.1)).Nodup) :
    flatten (l.foldl (fun acc e => addEntry acc e.1 e.2) acc) = flatten acc ++ flatten l := by
  induction l generalizing acc with
  | nil => simp [flatten]
  | cons e l ih =>
    obtain ⟨t, d⟩ := e
    simp only [List.foldl_cons]
    have hfresh : t ∉ acc.map (·.1) := by
      simp [List.nodup_append] at hd
      intro hm
      simp at hm
      obtain ⟨b, hb⟩ := hm
      exact (hd.2.2 _ _ hb).1 rfl
    rw [ih]
    · rw [flatten_addEntry_fresh _ _ _ hfresh]; simp [flatten]
    · rw [List.map_append, keys_addEntry_fresh _ _ _ hfresh]
      simpa using hd

/-- `flatten`: for pairwise distinct targets the discovered dependencies are exactly the
    listed prerequisites of all targets, in order. -/
theorem flatten_distinct (l : Entries) (hd : (l.map (·.1)).Nodup) :
    flatten (record l) = l.flatMap (·.2) := by
  have := flatten_foldl_distinct l [] (by simpa using hd)
  simpa [record, flatten] using this

/-- `flatten`, any targets (repeated ones included — finding F11, repaired): every listed
    prerequisite is discovered, nothing else is, and none is dropped. -/
theorem flatten_complete (l : Entries) (x : Bytes) :
    x ∈ flatten (record l) ↔ x ∈ l.flatMap (·.2) := by
  have key : ∀ acc : Entries, x ∈ flatten (l.foldl (fun acc e => addEntry acc e.1 e.2) acc)
      ↔ x ∈ flatten acc ∨ x ∈ l.flatMap (·.2) := by
    induction l with
    | nil => intro acc; simp
    | cons e l ih =>
      intro acc
      simp only [List.foldl_cons]
      rw [ih, mem_flatten_addEntry]
      simp; grind
  simpa [record, flatten] using key []

theorem flatten_count (l : Entries) :
    (flatten (record l)).length = (l.flatMap (·.2)).length := by
  have key : ∀ acc : Entries, (flatten (l.foldl (fun acc e => addEntry acc e.1 e.2) acc)).length
      = (flatten acc).length + (l.flatMap (·.2)).length := by
    induction l with
    | nil => intro acc; simp
    | cons e l ih =>
      intro acc
      simp only [List.foldl_cons]
      rw [ih, length_flatten_addEntry]
      simp; omega
  simpa [record, flatten] using key []

/-- Non-vacuity / regression for F11: `a: x` then `a: y` yields both. -/
example : flatten (record [([97], [[120]]), ([97], [[121]])]) = [[120], [121]] := by decide


/-- **Every depfile is either read or rejected with a diagnostic** (byte level, all inputs): the
    model of `depfile::parse` — scanner with its NUL sentinel, `back` including its `\r\n` quirk,
    line counter, every loop — returns entries or a parse error whose offset lies inside the NUL-terminated buffer, for EVERY byte
    string; the outcomes "read outside the buffer", "stepped back before the start", "line counter
    wrapped" and "out of fuel" (= a loop that does not advance) are unreachable
    (Lemmas/Scanner: `read_ok`, `back_ok`; Lemmas/DepfileTotal). -/
theorem depfile_parse_total (text : Bytes) : match Depfile.parse text with
    | .ok _ _ => True
    | .perr _ o => o ≤ text.length + 1
    | .bad _ => False := Depfile.parse_total text


/-- **Depfiles are read as the compiler wrote them** (byte level).  For every list of entries
    `target: prerequisite ...` — any number of targets; targets and prerequisites any non-empty
    runs of path bytes (everything except NUL, space, newline, backslash, CR: colons inside
    Windows-style paths included); any number of spaces before the colon; before each
    prerequisite and after the last one any gap of spaces and backslash-newline continuations;
    any blank space (spaces, blank lines) before, between and after entries — `depfile::parse`
    returns exactly the listed targets with exactly the listed prerequisites, in order.  With
    `flatten_distinct` / `flatten_complete` above: the discovered dependencies are exactly the
    listed prerequisites of all targets.  (A last line without final newline is the next theorem;
    CR LF line ends are covered by the correspondence run only.) -/
theorem parse_reads_what_was_written (es : List FEntry) (hwf : ∀ e ∈ es, EntryWF e) (eb : Bytes)
    (heb : blankOk eb) :
    ∃ s, parse (bodyBytes es eb) = .ok (record (entriesOf es)) s :=
  parse_spec es hwf eb heb

/-- ... and the same when the file ends right after the last entry, without a final newline
    (`out: a b` + EOF): that entry is read like the others. -/
theorem parse_reads_last_line_without_newline (es : List FEntry) (hwf : ∀ e ∈ es, EntryWF e) (last : FEntry)
    (hl : EntryWF last) :
    ∃ s, parse (bodyBytes es (last.blank ++ entryCore last)) = .ok (record (entriesOf (es ++ [last]))) s := by
  obtain ⟨s, h⟩ := parse_spec_no_final_newline es hwf last hl
  refine ⟨s, ?_⟩
  rw [h]
  simp [record, entriesOf, List.foldl_append]

/-- Non-vacuity: `a.o: a.c \\\n  b.h\n\nc: d\n` as an instance of the format. -/
example : bodyBytes
    [⟨[], [97, 46, 111], 0, [([.sp], [97, 46, 99]), ([.sp, .cont, .sp, .sp], [98, 46, 104])], []⟩,
     ⟨[10], [99], 1, [([.sp], [100])], [.sp]⟩] []
    = [97,46,111,58,32,97,46,99,32,92,10,32,32,98,46,104,10,10,99,32,58,32,100,32,10] := by decide

end N2V.C15
