/-
  C11 — Variables are expanded with Ninja's scoping rules.
-/
import N2V.Model.Load
import N2V.Lemmas.FileSpec
namespace N2V.C11
open N2V N2V.Eval N2V.Load

/-- Expansion is a homomorphism over concatenation of parts. -/
theorem evalFuel_append (fuel : Nat) (envs : List Env) (a b : EvalStr) :
    evalFuel fuel envs (a ++ b) = evalFuel fuel envs a ++ evalFuel fuel envs b := by
  cases fuel <;> simp [evalFuel, List.flatMap_append]

theorem evaluate_append (envs : List Env) (a b : EvalStr) :
    evaluate envs (a ++ b) = evaluate envs a ++ evaluate envs b := evalFuel_append _ _ _ _

theorem evaluate_lit (envs : List Env) (b : Bytes) : evaluate envs [.lit b] = b := by
  unfold evaluate; cases envs.length <;> simp [evalFuel]

theorem findEnv_length (envs : List Env) (n : Bytes) (v : EvalStr) (rest : List Env)
    (h : findEnv envs n = some (v, rest)) : rest.length < envs.length := by
  induction envs with
  | nil => simp [findEnv] at h
  | cons e es ih =>
    unfold findEnv at h
    split at h
    · cases h; simp
    · have := ih h; simp; omega

theorem evalFuel_nil (k : Nat) (t : EvalStr) : evalFuel k [] t = evalFuel 0 [] t := by
  cases k with
  | zero => rfl
  | succ k =>
    simp only [evalFuel]
    induction t with
    | nil => rfl
    | cons p ps ih =>
      simp only [List.flatMap_cons, ih]
      cases p <;> simp [findEnv]

theorem evalFuel_indep (j : Nat) : ∀ (k : Nat) (es : List Env) (t : EvalStr),
    es.length ≤ j → es.length ≤ k → evalFuel j es t = evalFuel k es t := by
  induction j with
  | zero =>
    intro k es t h _
    have he : es = [] := List.eq_nil_of_length_eq_zero (by omega)
    subst he
    exact (evalFuel_nil k t).symm
  | succ j ih =>
    intro k es t h1 h2
    cases k with
    | zero =>
      have he : es = [] := List.eq_nil_of_length_eq_zero (by omega)
      subst he
      exact evalFuel_nil _ t
    | succ k =>
      simp only [evalFuel]
      congr 1; funext p
      cases p with
      | lit b => rfl
      | var n =>
        simp only
        cases hf : findEnv es n with
        | none => rfl
        | some vr =>
          obtain ⟨v, rest⟩ := vr
          simp only
          have := findEnv_length es n v rest hf
          exact ih k rest v (by omega) (by omega)

/-- More fuel than environments changes nothing: expansion cannot recurse deeper than the number
    of scopes, so it always terminates (a variable referring to itself sees only outer scopes). -/
theorem evalFuel_enough (envs : List Env) (s : EvalStr) (k : Nat) (hk : envs.length ≤ k) :
    evalFuel k envs s = evalFuel envs.length envs s :=
  evalFuel_indep k envs.length envs s hk (Nat.le_refl _)

/-- **First scope wins, and the value found there is expanded in the scopes AFTER it only.** -/
theorem first_env_wins (e : Env) (rest : List Env) (n : Bytes) (v : EvalStr) (h : e n = some v) :
    evaluate (e :: rest) [.var n] = evaluate rest v := by
  unfold evaluate
  simp [evalFuel, findEnv, h]

theorem skip_env (e : Env) (rest : List Env) (n : Bytes) (h : e n = none) :
    evaluate (e :: rest) [.var n] = evaluate rest [.var n] := by
  unfold evaluate
  cases hr : rest.length with
  | zero =>
    have he : rest = [] := List.eq_nil_of_length_eq_zero hr
    subst he
    simp [evalFuel, findEnv, h]
  | succ m =>
    simp only [List.length_cons, hr, evalFuel, List.flatMap_cons, List.flatMap_nil, List.append_nil]
    simp only [findEnv, h]
    cases hf : findEnv rest n with
    | none => rfl
    | some vr =>
      obtain ⟨v, r2⟩ := vr
      simp only
      have := findEnv_length rest n v r2 hf
      exact evalFuel_indep (m + 1) m r2 v (by omega) (by omega)

/-- **Undefined variables expand to the empty string.** -/
theorem undefined_empty (envs : List Env) (n : Bytes) (h : findEnv envs n = none) :
    evaluate envs [.var n] = [] := by
  unfold evaluate
  cases envs.length <;> simp [evalFuel, h]

/-- **A step attribute bound in the build block is expanded in file scope as of that statement**
    — it sees neither `$in/$out` nor sibling build bindings. -/
theorem build_binding_in_file_scope (bvars rule : EvalMap) (imp env : Env) (key : Bytes) (v : EvalStr)
    (h : Eval.lookup bvars key = some v) : attr bvars rule imp env key = some (evaluate [env] v) := by
  unfold attr; rw [h]

/-- **Otherwise the rule's binding is expanded with `$in/$out`, then the build block, then file
    scope.** -/
theorem rule_binding_scopes (bvars rule : EvalMap) (imp env : Env) (key : Bytes) (v : EvalStr)
    (hb : Eval.lookup bvars key = none) (hr : Eval.lookup rule key = some v) :
    attr bvars rule imp env key = some (evaluate [imp, envOfEval bvars, env] v) := by
  unfold attr; rw [hb, hr]; rfl

theorem attr_absent (bvars rule : EvalMap) (imp env : Env) (key : Bytes)
    (hb : Eval.lookup bvars key = none) (hr : Eval.lookup rule key = none) :
    attr bvars rule imp env key = none := by
  unfold attr; rw [hb, hr]; rfl

/-- `SmallMap::insert`: the latest binding of a name is the one looked up. -/
theorem lookup_insert_same {β} (m : List (Bytes × β)) (k : Bytes) (v : β) :
    Eval.lookup (Eval.insert m k v) k = some v := by
  induction m with
  | nil => simp [Eval.insert, Eval.lookup]
  | cons p rest ih =>
    obtain ⟨k', v'⟩ := p
    unfold Eval.insert
    split
    · simp [Eval.lookup]
    · rename_i hne
      simp only [Eval.lookup, List.find?_cons]
      have : ((k' == k) = false) := by simp [hne]
      simp only [this]
      simpa [Eval.lookup] using ih

theorem lookup_insert_other {β} (m : List (Bytes × β)) (k k2 : Bytes) (v : β) (h : k2 ≠ k) :
    Eval.lookup (Eval.insert m k v) k2 = Eval.lookup m k2 := by
  induction m with
  | nil =>
    have : ((k == k2) = false) := by simp; exact fun e => h e.symm
    simp [Eval.insert, Eval.lookup, List.find?_cons, this]
  | cons p rest ih =>
    obtain ⟨k', v'⟩ := p
    unfold Eval.insert
    split
    · rename_i he; subst he
      simp only [Eval.lookup, List.find?_cons]
      have : ((k' == k2) = false) := by simp; exact fun e => h e.symm
      simp [this]
    · simp only [Eval.lookup, List.find?_cons]
      split
      · rfl
      · simpa [Eval.lookup] using ih

/-- **Top-down**: a later redefinition of `k` does not change what an earlier statement saw for
    any other name, and what it saw for `k` was the value in force at that statement (bindings
    are evaluated when defined — `stmtLoop` threads the scope forward only). -/
theorem later_binding_local (vars : StrMap) (k k2 : Bytes) (v : Bytes) (h : k2 ≠ k) :
    envOfStr (Eval.insert vars k v) k2 = envOfStr vars k2 := by
  unfold envOfStr; rw [lookup_insert_other _ _ _ _ h]

/-- Finding F12, stated: in n2 an `include`d file gets a copy of the scope like `subninja`; the
    bindings it makes are NOT visible to the rest of the including file (`load` is
    `loadWith false`).  The property asks for the opposite; `loadWith true` is that
    specification, and the check reports every input on which the two differ — e.g. the corpus
    witness `include i` / `build $x: phony` with `x = out` in `i` — as the known finding. -/
theorem include_is_copy_in_n2 (parent child : StrMap) : afterInclude false parent child = parent := rfl

theorem include_extends_in_spec (parent child : StrMap) : afterInclude true parent child = child := rfl

/-- **Top-down, at file level.**  For a manifest read as a sequence of statements
    (`C10.manifest_read_as_written`): what the first statements do - the scope their bindings
    build, the steps their `build` statements add, each with its variables evaluated in the scope as
    of its own line - is a function of those statements alone; whatever is written after them
    (a re-binding of the same name included) only continues from that state. -/
theorem top_down_at_file_level (ie : Bool) (fs : Fs) (depth : Nat)
    (sub : Loader → Bytes → Bytes → StrMap → Nat → Except LoadErr (Loader × StrMap))
    (file : Bytes) (a b : List Parse.Item) (l : Loader) (vars : StrMap) :
    applyItems ie fs depth sub file (a ++ b) l vars =
      match runItems ie fs depth sub file a l vars with
      | .error e => .error e
      | .ok (l', vars') => applyItems ie fs depth sub file b l' vars' :=
  applyItems_append ie fs depth sub file a b l vars

/-- A top-level binding is evaluated once, in the scope of the lines before it. -/
theorem binding_evaluated_where_written (ie : Bool) (fs : Fs) (depth : Nat)
    (sub : Loader → Bytes → Bytes → StrMap → Nat → Except LoadErr (Loader × StrMap))
    (file : Bytes) (name : Bytes) (val : EvalStr) (rest : List Parse.Item) (l : Loader) (vars : StrMap) :
    runItems ie fs depth sub file (.binding name val :: rest) l vars =
      runItems ie fs depth sub file rest l (Eval.insert vars name (evaluate [envOfStr vars] val)) := rfl

/-- **`subninja` has a private scope**: whatever the sub-file binds, the including file goes on
    with the scope it had (the sub-file starts from a copy: `sub` receives `vars`). -/
theorem subninja_scope_is_private (ie : Bool) (fs : Fs) (depth : Nat)
    (sub : Loader → Bytes → Bytes → StrMap → Nat → Except LoadErr (Loader × StrMap))
    (file : Bytes) (l l' : Loader) (vars vars' : StrMap) (p : EvalStr)
    (h : applyItem ie fs depth sub file l vars (.stmt (.subninja p)) = .ok (l', vars')) : vars' = vars := by
  simp only [applyItem] at h
  split at h
  · cases h
  · split at h
    · cases h
    · split at h
      · cases h
      · split at h
        · cases h
        · injection h with h; injection h with _ h2; exact h2.symm

/-- **`include` in n2 (finding F12, open)**: the including file also goes on with its OWN scope -
    bindings made by the included file are lost; under Ninja's rule (`ie = true`, the executable
    specification the C11 monitor compares with) it goes on with the scope the included file ended
    with. -/
theorem include_scope (ie : Bool) (fs : Fs) (depth : Nat)
    (sub : Loader → Bytes → Bytes → StrMap → Nat → Except LoadErr (Loader × StrMap))
    (file : Bytes) (l l' : Loader) (vars vars' : StrMap) (p : EvalStr)
    (h : applyItem ie fs depth sub file l vars (.stmt (.include p)) = .ok (l', vars')) :
    ∃ l1 name content child, sub l1 name content vars (depth + 1) = .ok (l', child) ∧
      vars' = afterInclude ie vars child := by
  simp only [applyItem] at h
  split at h
  · cases h
  · rename_i l1 id _
    split at h
    · cases h
    · rename_i content _
      split at h
      · cases h
      · split at h
        · cases h
        · rename_i l2 child hs
          injection h with h; injection h with h1 h2
          subst h1
          exact ⟨l1, _, content, child, hs, h2.symm⟩

end N2V.C11
