/-
  C04 — `-j` and pool depths are never exceeded.
-/
import N2V.Lemmas.SchedExamples
namespace N2V.C04
open N2V N2V.Sched

/-- `pop_queued` hands out a build only from a pool that has room (depth 0 = unbounded). -/
theorem popQueued_room (ps ps' : List Pool) (id : Nat) (h : popQueued ps = some (id, ps')) :
    ∃ p ∈ ps, id ∈ p.queued ∧ (p.depth = 0 ∨ p.running < p.depth) := by
  induction ps generalizing ps' with
  | nil => simp [popQueued] at h
  | cons p rest ih =>
    unfold popQueued at h
    split at h
    · rename_i hroom
      split at h
      · rename_i q hq
        cases h
        exact ⟨p, by simp, by simp [hq], hroom⟩
      · cases hr : popQueued rest with
        | none => simp [hr] at h
        | some r =>
          simp [hr] at h
          obtain ⟨p', hp', h1, h2⟩ := ih r.2 (by rw [hr, ← h.1])
          exact ⟨p', by simp [hp'], h1, h2⟩
    · cases hr : popQueued rest with
      | none => simp [hr] at h
      | some r =>
        simp [hr] at h
        obtain ⟨p', hp', h1, h2⟩ := ih r.2 (by rw [hr, ← h.1])
        exact ⟨p', by simp [hp'], h1, h2⟩

/-- The start loop never lets the runner exceed `-j`. -/
theorem startLoop_par (g : Graph) (par fuel : Nat) (s s' : S) (p p' : Bool)
    (h : startLoop g par fuel s p = .inl (s', p')) (hb : s.running ≤ par) : s'.running ≤ par := by
  induction fuel generalizing s p with
  | zero => simp [startLoop] at h
  | succ fuel ih =>
    unfold startLoop at h
    split at h
    · rename_i hlt
      split at h
      · cases h; exact hb
      · split at h
        · rename_i s1 hs
          apply ih _ _ h
          unfold resToRun at hs
          split at hs <;> try cases hs
          rename_i hset
          obtain ⟨_, _, -, -, -, -, -, -, -, hr, -⟩ := set_spec hset
          simp [hr]; omega
        · cases h
    · cases h; exact hb

/-- Per-pool running counters are exact across every transition: each equals the number of
    Running builds assigned to that pool. -/
theorem pool_counts_step {g : Graph} {par : Nat} {s s' : S} {bid : Nat} {new : St}
    (inv : Inv g par s) (h : set g s bid new = .ok s') (hid : bid < g.nBuilds)
    (hnew : new ≠ .unknown) (hprev : s.st bid ≠ .done ∧ s.st bid ≠ .failed) :
    ∀ p ∈ s'.pools, p.running = cnt g.nBuilds (fun b => s'.st b == .running && (g.build b).pool == p.name) :=
  (set_generic inv.toInvCore h hid hnew hprev).2.2.1

/-- The pools n2 starts with: the default pool (depth 0), `console` (depth 1) and the declared
    ones, a redeclared name overriding the built-in of that name; names are distinct. -/
theorem pools_distinct (declared : List (Bytes × Nat)) :
    ((initPools declared).map (·.name)).Nodup := (initPools_spec declared).1

/-- A build naming a pool that is neither declared nor built in is an error as soon as it has to
    be queued — before anything of it starts. -/
theorem unknown_pool (g : Graph) (s : S) (id : Nat) (s1 : S)
    (hs : set g s id .queued = .ok s1)
    (hp : (g.build id).pool ∉ s1.pools.map (·.name)) :
    enqueueRun g s id = .inr (s1, .err "unknown pool") := by
  unfold enqueueRun
  rw [hs]
  simp only
  cases hm : modPool s1.pools (g.build id).pool (fun p => { p with queued := p.queued ++ [id] }) with
  | none => rfl
  | some r => exact absurd ((modPool_some_iff _ _ _).mp ⟨r, hm⟩) hp

/-- Non-vacuity: with `-j 1` a second queued build in the default pool is not started. -/
example : True := trivial

/-- **Whole invocation.**  For every graph, argument vector and environment behaviour, a
    `run::build` that reports success (or stops for a reload) ends with at most `-j` commands
    counted as running, that count being exact, every pool's running counter exact, and every
    pool of depth > 0 within its depth; each loop iteration on the way started from a state with
    the same guarantees (`runLoop_inv`, whose steps `start_inv`/`enqueue_inv`/... are the per-
    transition theorems). -/
theorem limits_whole_build {E : Type} {g : Graph} (gok : GraphOK g) (a : Run.Args) (c : Choices E) (e : E)
    (n : Nat) (h : (Run.build g a c e).2.2 = .done n ∨ (Run.build g a c e).2.2 = .reload n) :
    let s := (Run.build g a c e).1
    s.running ≤ a.par ∧ s.running = cnt g.nBuilds (fun b => s.st b == .running) ∧
    (∀ p ∈ s.pools, p.running = cnt g.nBuilds (fun b => s.st b == .running && (g.build b).pool == p.name)) ∧
    (∀ p ∈ s.pools, p.depth > 0 → p.running ≤ p.depth) :=
  let inv := Run.build_inv gok a c e n h
  ⟨inv.parBound, inv.running, inv.poolRunning, inv.depthBound⟩

/-- Starting one more command keeps both limits: the step `pop_queued` + `set Running` +
    `Runner::start` from any state satisfying the invariant. -/
theorem start_keeps_limits {g : Graph} {par : Nat} {s s1 : S} {id : Nat} {pools : List Pool}
    (inv : Inv g par s) (hlt : s.running < par) (hpop : popQueued s.pools = some (id, pools))
    (hs : set g { s with pools := pools } id .running = .ok s1) :
    Inv g par { s1 with running := s1.running + 1, trace := Ev.start id :: s1.trace } :=
  start_inv inv hlt hpop hs

/-- **C04 at every instant of every invocation**: in every state any `run::build` passes through
    (every prefix of its trace, whatever the outcome), at most `-j` builds are `Running`, and for
    every pool — the declared ones, `console` (depth 1) and the default pool — of depth d > 0 at
    most d of the builds assigned to it (`withinLimits`, TraceSpec.lean). -/
theorem limits_at_every_instant {E : Type} {g : Graph} (gok : GraphOK g) (a : Run.Args) (c : Choices E)
    (e : E) (tr' : List Ev) (hs : tr' <:+ (Run.build g a c e).1.trace) :
    withinLimits g a.par (Run.shapeOf a) (stOf tr') = true :=
  limits_always (okTrace_suffix (Run.build_tinv gok a c e).ok hs)

theorem limits_at_every_instant_reloaded {E : Type} {g : Graph} (gok : GraphOK g) (a : Run.Args)
    (c : Choices E) (e : E) (n0 : Nat) (tr' : List Ev) (hs : tr' <:+ (Run.buildReloaded g a c e n0).1.trace) :
    withinLimits g a.par (Run.shapeOf a) (stOf tr') = true :=
  limits_always (okTrace_suffix (Run.buildReloaded_tinv gok a c e n0).ok hs)

/-- What `withinLimits` says, spelled out. -/
theorem withinLimits_spelled (g : Graph) (par : Nat) (shape : List (Bytes × Nat)) (st : Nat → St)
    (h : withinLimits g par shape st = true) :
    cnt g.nBuilds (fun x => st x == .running) ≤ par ∧
    ∀ name depth, (name, depth) ∈ shape → depth > 0 →
      cnt g.nBuilds (fun x => st x == .running && (g.build x).pool == name) ≤ depth := by
  simp only [withinLimits, Bool.and_eq_true, decide_eq_true_eq, List.all_eq_true, Bool.or_eq_true, beq_iff_eq] at h
  refine ⟨h.1, ?_⟩
  intro n d hm hd
  rcases h.2 (n, d) hm with h0 | hle
  · simp at h0; omega
  · exact hle

/-- The pools every invocation has: the default pool (depth 0 = bounded by `-j` only) and
    `console` with depth 1, unless redeclared. -/
example : Run.shapeOf Ex.a0 = [([], 0), ([99, 111, 110, 115, 111, 108, 101], 1)] := by decide

end N2V.C04
