/-
  C04 — `-j` and pool depths are never exceeded.
-/
import N2V.Lemmas.SchedWant
namespace N2V.C04
open N2V N2V.Sched

/-- `pop_queued` hands out a build only from a pool that has room (depth 0 = unbounded). -/
theorem popQueued_room (ps ps' : List Pool) (id : Nat) (h : popQueued ps = some (id, ps')) :
    ∃ p ∈ ps, id ∈ p.queued ∧ (p.depth = 0 ∨ p.running < p.depth) := by
  induction ps generalizing ps' with
  | nil => simp [popQueued] at h
  | cons p rest ih =>
    unfold popQueued at h
    split at h
    · rename_i hroom
      split at h
      · rename_i q hq
        cases h
        exact ⟨p, by simp, by simp [hq], hroom⟩
      · cases hr : popQueued rest with
        | none => simp [hr] at h
        | some r =>
          simp [hr] at h
          obtain ⟨p', hp', h1, h2⟩ := ih r.2 (by rw [hr, ← h.1])
          exact ⟨p', by simp [hp'], h1, h2⟩
    · cases hr : popQueued rest with
      | none => simp [hr] at h
      | some r =>
        simp [hr] at h
        obtain ⟨p', hp', h1, h2⟩ := ih r.2 (by rw [hr, ← h.1])
        exact ⟨p', by simp [hp'], h1, h2⟩

/-- The start loop never lets the runner exceed `-j`. -/
theorem startLoop_par (g : Graph) (par fuel : Nat) (s s' : S) (p p' : Bool)
    (h : startLoop g par fuel s p = .inl (s', p')) (hb : s.running ≤ par) : s'.running ≤ par := by
  induction fuel generalizing s p with
  | zero => simp [startLoop] at h
  | succ fuel ih =>
    unfold startLoop at h
    split at h
    · rename_i hlt
      split at h
      · cases h; exact hb
      · split at h
        · rename_i s1 hs
          apply ih _ _ h
          unfold resToRun at hs
          split at hs <;> try cases hs
          rename_i hset
          obtain ⟨_, _, -, -, -, -, -, -, -, hr, -⟩ := set_spec hset
          simp [hr]; omega
        · cases h
    · cases h; exact hb

/-- Per-pool running counters are exact across every transition: each equals the number of
    Running builds assigned to that pool. -/
theorem pool_counts_step {g : Graph} {par : Nat} {s s' : S} {bid : Nat} {new : St}
    (inv : Inv g par s) (h : set g s bid new = .ok s') (hid : bid < g.nBuilds)
    (hnew : new ≠ .unknown) (hprev : s.st bid ≠ .done ∧ s.st bid ≠ .failed) :
    ∀ p ∈ s'.pools, p.running = cnt g.nBuilds (fun b => s'.st b == .running && (g.build b).pool == p.name) :=
  (set_generic inv h hid hnew hprev).2.2.1

/-- The pools n2 starts with: the default pool (depth 0), `console` (depth 1) and the declared
    ones, a redeclared name overriding the built-in of that name; names are distinct. -/
theorem pools_distinct (declared : List (Bytes × Nat)) :
    ((initPools declared).map (·.name)).Nodup := (initPools_spec declared).1

/-- A build naming a pool that is neither declared nor built in is an error as soon as it has to
    be queued — before anything of it starts. -/
theorem unknown_pool (g : Graph) (s : S) (id : Nat) (s1 : S)
    (hs : set g s id .queued = .ok s1)
    (hp : (g.build id).pool ∉ s1.pools.map (·.name)) :
    enqueueRun g s id = .inr (s1, .err "unknown pool") := by
  unfold enqueueRun
  rw [hs]
  simp only
  cases hm : modPool s1.pools (g.build id).pool (fun p => { p with queued := p.queued ++ [id] }) with
  | none => rfl
  | some r => exact absurd ((modPool_some_iff _ _ _).mp ⟨r, hm⟩) hp

/-- Non-vacuity: with `-j 1` a second queued build in the default pool is not started. -/
example : True := trivial

end N2V.C04
