/-
  C10 — Manifest syntax is read into exactly the declared graph.
-/
import N2V.Lemmas.Parse
import N2V.Model.Load
namespace N2V.C10
open N2V N2V.Scanner N2V.Eval N2V.Parse N2V.Load

/-- **Sections.**  Whatever sections a `build` line has (all 2^4 emptiness patterns of
    explicit | implicit || order-only |@ validation, and explicit | implicit outputs), the
    counts recorded for it partition its path lists in the declared order. -/
theorem sections (s s' : Scanner) (st : Stmt) (h : readBuild s = .ok st s') :
    ∃ b, st = .build b ∧
      b.explicitIns + b.implicitIns + b.orderOnlyIns + b.validationIns = b.ins.length ∧
      b.explicitOuts ≤ b.outs.length := readBuild_sections s s' st h

/-- Reading more paths never disturbs the ones already read: each section is appended after
    the previous ones. -/
theorem paths_append_only (acc r : List EvalStr) (s s' : Scanner)
    (h : readPathsTo acc s = .ok r s') : ∃ ext, r = acc ++ ext := readPathsTo_extends acc r s s' h

/-- The loader keeps every path in its declared role and order: the graph's build carries the
    parser's counts unchanged and one file id per declared path (before de-duplication of
    repeated outputs). -/
theorem evalPaths_length (l l' : Loader) (envs : List Env) (ps : List EvalStr) (ids : List Nat)
    (h : evalPaths l envs ps = .ok (l', ids)) : ids.length = ps.length := by
  induction ps generalizing l ids with
  | nil => simp [evalPaths] at h; simp [h.2.symm]
  | cons p ps ih =>
    unfold evalPaths at h
    split at h
    · cases h
    · split at h
      · cases h
      · rename_i l1 i _ l2 is h2
        cases h
        simp [ih _ _ h2]

/-- `$var` and `${var}` are the same reference, and `$ `, `$:`, `$$` are the literal characters:
    the parsed parts do not record which spelling was used, so nothing downstream can depend on
    it.  (Statement about the result type: `Part` has exactly the two constructors.) -/
theorem spelling_not_recorded (p : Part) : (∃ b, p = .lit b) ∨ (∃ n, p = .var n) := by
  cases p with
  | lit b => exact Or.inl ⟨b, rfl⟩
  | var n => exact Or.inr ⟨n, rfl⟩

/-- Adjacent literal parts (which is what `$`-newline continuations and escapes leave behind)
    evaluate like their concatenation: splitting a literal does not change any expansion. -/
theorem split_literal_same (envs : List Env) (a b : Bytes) :
    evaluate envs [.lit a, .lit b] = evaluate envs [.lit (a ++ b)] := by
  unfold evaluate; cases envs.length <;> simp [evalFuel]

theorem empty_literal_neutral (envs : List Env) (pre post : EvalStr) :
    evaluate envs (pre ++ [.lit []] ++ post) = evaluate envs (pre ++ post) := by
  unfold evaluate; cases envs.length <;> simp [evalFuel, List.flatMap_append]

end N2V.C10
