/-
  C10 — Manifest syntax is read into exactly the declared graph.
-/
import N2V.Lemmas.Parse
import N2V.Lemmas.EvalSpec
import N2V.Lemmas.StmtSpec
import N2V.Lemmas.FileSpec
import N2V.Model.Load
namespace N2V.C10
open N2V N2V.Scanner N2V.Eval N2V.Parse N2V.Load

/-- **Sections.**  Whatever sections a `build` line has (all 2^4 emptiness patterns of
    explicit | implicit || order-only |@ validation, and explicit | implicit outputs), the
    counts recorded for it partition its path lists in the declared order. -/
theorem sections (s s' : Scanner) (st : Stmt) (h : readBuild s = .ok st s') :
    ∃ b, st = .build b ∧
      b.explicitIns + b.implicitIns + b.orderOnlyIns + b.validationIns = b.ins.length ∧
      b.explicitOuts ≤ b.outs.length := readBuild_sections s s' st h

/-- Reading more paths never disturbs the ones already read: each section is appended after
    the previous ones. -/
theorem paths_append_only (acc r : List EvalStr) (s s' : Scanner)
    (h : readPathsTo acc s = .ok r s') : ∃ ext, r = acc ++ ext := readPathsTo_extends acc r s s' h

/-- The loader keeps every path in its declared role and order: the graph's build carries the
    parser's counts unchanged and one file id per declared path (before de-duplication of
    repeated outputs). -/
theorem evalPaths_length (l l' : Loader) (envs : List Env) (ps : List EvalStr) (ids : List Nat)
    (h : evalPaths l envs ps = .ok (l', ids)) : ids.length = ps.length := by
  induction ps generalizing l ids with
  | nil => simp [evalPaths] at h; simp [h.2.symm]
  | cons p ps ih =>
    unfold evalPaths at h
    split at h
    · cases h
    · split at h
      · cases h
      · rename_i l1 i _ l2 is h2
        cases h
        simp [ih _ _ h2]

/-- `$var` and `${var}` are the same reference, and `$ `, `$:`, `$$` are the literal characters:
    the parsed parts do not record which spelling was used, so nothing downstream can depend on
    it.  (Statement about the result type: `Part` has exactly the two constructors.) -/
theorem spelling_not_recorded (p : Part) : (∃ b, p = .lit b) ∨ (∃ n, p = .var n) := by
  cases p with
  | lit b => exact Or.inl ⟨b, rfl⟩
  | var n => exact Or.inr ⟨n, rfl⟩

/-- Adjacent literal parts (which is what `$`-newline continuations and escapes leave behind)
    evaluate like their concatenation: splitting a literal does not change any expansion. -/
theorem split_literal_same (envs : List Env) (a b : Bytes) :
    evaluate envs [.lit a, .lit b] = evaluate envs [.lit (a ++ b)] := by
  unfold evaluate; cases envs.length <;> simp [evalFuel]

theorem empty_literal_neutral (envs : List Env) (pre post : EvalStr) :
    evaluate envs (pre ++ [.lit []] ++ post) = evaluate envs (pre ++ post) := by
  unfold evaluate; cases envs.length <;> simp [evalFuel, List.flatMap_append]

/-! ### `read_eval` at byte level (Lemmas/EvalSpec) -/

/-- **Values are read as written**: for text made of literal runs, `$var` / `${var}` references,
    the escapes `$ ` `$$` `$:` and `$`-newline continuations followed by any indentation — up to
    the newline, or the space / `:` / `|` that ends a path on a `build` line — `read_eval`
    returns exactly the corresponding parts (`textParts`) and stops at the terminator. -/
theorem values_read_as_written (buf : Array UInt8) (sep : Bool) (segs : List Seg) (last : Bytes) (t : UInt8)
    (r : Bytes) (hwf : SegsWF sep segs (last ++ t :: r)) (hlast : ∀ c ∈ last, plain sep c) (ht : stops sep t)
    (hne : textParts segs last ≠ []) (s : Scanner) (g : Depfile.G buf s)
    (hr : Rest buf s.ofs (segsBytes segs ++ last ++ t :: r)) :
    ∃ s', readEval sep s = .ok (textParts segs last) s' ∧ Depfile.G buf s' ∧ Rest buf s'.ofs (t :: r) :=
  readEval_spec buf sep segs last t r hwf hlast ht hne s g hr

/-- **`$var` versus `${var}`** (and which terminator or following text): two texts whose segments
    agree up to the spelling of their references are read as the same value. -/
theorem var_spelling_independent (buf buf' : Array UInt8) (sep : Bool) (segs segs' : List Seg) (last : Bytes)
    (t t' : UInt8) (r r' : Bytes)
    (hsame : segs.map (fun sg => (sg.1, escPart sg.2)) = segs'.map (fun sg => (sg.1, escPart sg.2)))
    (hwf : SegsWF sep segs (last ++ t :: r)) (hwf' : SegsWF sep segs' (last ++ t' :: r'))
    (hlast : ∀ c ∈ last, plain sep c) (ht : stops sep t) (ht' : stops sep t')
    (hne : textParts segs last ≠ []) (s s' : Scanner) (g : Depfile.G buf s) (g' : Depfile.G buf' s')
    (hr : Rest buf s.ofs (segsBytes segs ++ last ++ t :: r))
    (hr' : Rest buf' s'.ofs (segsBytes segs' ++ last ++ t' :: r')) :
    ∃ v s1 s1', readEval sep s = .ok v s1 ∧ readEval sep s' = .ok v s1' :=
  readEval_brace_independent buf buf' sep segs segs' last t t' r r' hsame hwf hwf' hlast ht ht' hne s s' g g' hr hr'

/-- The two spellings of a reference denote the same part. -/
theorem brace_spelling_same_part (n : Bytes) : escPart (.simple n) = escPart (.braced n) := rfl

/-- **Placement of line continuations**: a `$`-newline (with any indentation after it) inside a
    literal leaves `lit a, lit [], lit b`, which evaluates like the unbroken literal. -/
theorem continuation_placement (envs : List Env) (pre post : EvalStr) (a b : Bytes) (k : Nat) :
    evaluate envs (pre ++ [.lit a, escPart (.cont k), .lit b] ++ post) = evaluate envs (pre ++ [.lit (a ++ b)] ++ post) := by
  unfold evaluate escPart
  cases envs.length <;> simp [evalFuel, List.flatMap_append]

/-- Non-vacuity: `-o $out ${in}$ x` + newline, as segments. -/
example : segsBytes [([45, 111, 32], .simple [111, 117, 116]), ([32], .braced [105, 110]), ([], .ch 32)] ++ [120] ++ [10]
    = [45, 111, 32, 36, 111, 117, 116, 32, 36, 123, 105, 110, 125, 36, 32, 120, 10] := by decide
example : textParts [([45, 111, 32], .simple [111, 117, 116]), ([32], .braced [105, 110]), ([], .ch 32)] [120]
    = [.lit [45, 111, 32], .var [111, 117, 116], .lit [32], .var [105, 110], .lit [32], .lit [120]] := by decide

/-- **Every path in its declared role and order** (byte level).  A `build` statement written as
    explicit outputs, optional `| implicit outputs`, `:`, the rule name, explicit inputs, optional
    `| implicit`, `|| order-only`, `|@ validation` inputs and indented bindings — with any spacing
    (spaces and `$`-newline continuations) between the tokens — is read by `Parser::read` into exactly
    those lists, in that order, with the section counts equal to the section lengths, the bindings in
    written order (a repeated name overwrites), and the scanner left at the next statement. -/
theorem build_statement_read_as_written (buf : Array UInt8) (gs : List PGap) (hgs : gs ≠ []) (b : BuildText)
    (after : Bytes) (hwf : BuildWF b after) (hge : GapEnd (b.bytes after)) (fuel : Nat) (s : Scanner)
    (g : Depfile.G buf s) (hr : Rest buf s.ofs (kwBuild ++ (pgapBytes gs ++ b.bytes after))) :
    ∃ s' ln, readItem (fuel + 1) s = .ok (.stmt (.build
        { rule := b.rule, line := ln, outs := b.outsV, explicitOuts := (sectionValues b.eouts).length,
          ins := b.insV, explicitIns := (sectionValues b.eins).length, implicitIns := (optVals b.iins).length,
          orderOnlyIns := (optVals b.oins).length, validationIns := (optVals b.vins).length,
          vars := b.varsV })) s' ∧ Depfile.G buf s' ∧ Rest buf s'.ofs after :=
  readItem_build buf gs hgs b after hwf hge fuel s g hr

/-- The other statements are read as written too: top-level bindings, `rule` blocks, `default`,
    `include` / `subninja`; blank lines and comments before a statement are skipped. -/
theorem binding_read_as_written (buf : Array UInt8) (name : Bytes) (hne : name ≠ [])
    (hid : ∀ c ∈ name, isIdentChar c true = true)
    (hkw : name ∉ [kwRule, kwBuild, kwDefault, kwInclude, kwSubninja, kwPool])
    (v : ValueText) (r : Bytes) (hwf : ValueWF v r) (fuel : Nat) (s : Scanner) (g : Depfile.G buf s)
    (hr : Rest buf s.ofs (name ++ (valueBytes v ++ r))) :
    ∃ s', readItem (fuel + 1) s = .ok (.binding name (valueOf v)) s' ∧ Depfile.G buf s' ∧ Rest buf s'.ofs r :=
  readItem_binding buf name hne hid hkw v r hwf fuel s g hr

theorem rule_read_as_written (buf : Array UInt8) (gs : List PGap) (hgs : gs ≠ []) (name : Bytes) (hne : name ≠ [])
    (hid : ∀ c ∈ name, isIdentChar c true = true) (bs : List BindingText) (after : Bytes) (c0 : UInt8) (r0 : Bytes)
    (hafter : after = c0 :: r0) (hc0 : c0 ≠ SP) (hwf : BindingsWF isRuleVar bs after)
    (fuel : Nat) (s : Scanner) (g : Depfile.G buf s)
    (hr : Rest buf s.ofs (kwRule ++ (pgapBytes gs ++ (name ++ NL :: (bindingsBytes bs ++ after))))) :
    ∃ s', readItem (fuel + 1) s =
        .ok (.stmt (.rule name (bs.foldl (fun m b => Eval.insert m b.name (valueOf b.rhs)) []))) s' ∧
      Depfile.G buf s' ∧ Rest buf s'.ofs after :=
  readItem_rule buf gs hgs name hne hid bs after c0 r0 hafter hc0 hwf fuel s g hr

/-- A `pool` block: name and the depth its `depth` binding evaluates to (0 without one). -/
theorem pool_read_as_written (buf : Array UInt8) (gs : List PGap) (hgs : gs ≠ []) (name : Bytes) (hne : name ≠ [])
    (hid : ∀ c ∈ name, isIdentChar c true = true) (bs : List BindingText) (after : Bytes) (c0 : UInt8) (r0 : Bytes)
    (hafter : after = c0 :: r0) (hc0 : c0 ≠ SP) (hwf : BindingsWF (fun n => n == bytesOfString "depth") bs after)
    (d : Nat) (hd : poolDepth (bs.foldl (fun m b => Eval.insert m b.name (valueOf b.rhs)) []) = some d)
    (fuel : Nat) (s : Scanner) (g : Depfile.G buf s)
    (hr : Rest buf s.ofs (kwPool ++ (pgapBytes gs ++ (name ++ NL :: (bindingsBytes bs ++ after))))) :
    ∃ s', readItem (fuel + 1) s = .ok (.stmt (.pool name d)) s' ∧ Depfile.G buf s' ∧ Rest buf s'.ofs after :=
  readItem_pool buf gs hgs name hne hid bs after c0 r0 hafter hc0 hwf d hd fuel s g hr

theorem default_read_as_written (buf : Array UInt8) (gs : List PGap) (hgs : gs ≠ []) (ps : List (PathText × List PGap))
    (hps : ps ≠ []) (after : Bytes) (hwf : PathsWF ps (NL :: after)) (hge : GapEnd (pathsBytes ps ++ NL :: after))
    (fuel : Nat) (s : Scanner) (g : Depfile.G buf s)
    (hr : Rest buf s.ofs (kwDefault ++ (pgapBytes gs ++ (pathsBytes ps ++ NL :: after)))) :
    ∃ s', readItem (fuel + 1) s = .ok (.stmt (.default (ps.map (fun pg => pathValue pg.1)))) s' ∧
      Depfile.G buf s' ∧ Rest buf s'.ofs after :=
  readItem_default buf gs hgs ps hps after hwf hge fuel s g hr

theorem include_read_as_written (buf : Array UInt8) (sub : Bool) (gs : List PGap) (hgs : gs ≠ []) (t : PathText)
    (r : Bytes) (hwf : SegsWF false t.1 (t.2 ++ NL :: r)) (hlast : ∀ c ∈ t.2, plain false c) (hne : pathValue t ≠ [])
    (hge : GapEnd (pathBytes t ++ NL :: r)) (fuel : Nat) (s : Scanner) (g : Depfile.G buf s)
    (hr : Rest buf s.ofs ((if sub then kwSubninja else kwInclude) ++ (pgapBytes gs ++ (pathBytes t ++ NL :: r)))) :
    ∃ s', readItem (fuel + 1) s =
        .ok (.stmt (if sub then .subninja (pathValue t) else .include (pathValue t))) s' ∧
      Depfile.G buf s' ∧ Rest buf s'.ofs (NL :: r) :=
  readItem_include buf sub gs hgs t r hwf hlast hne hge fuel s g hr

theorem blank_and_comment_lines_skipped (buf : Array UInt8) (body x : Bytes)
    (hb : ∀ c ∈ body, c ≠ NUL ∧ c ≠ NL ∧ c ≠ CR) (fuel : Nat) (s : Scanner) (g : Depfile.G buf s) :
    (Rest buf s.ofs (NL :: x) → ∃ s1, Depfile.G buf s1 ∧ Rest buf s1.ofs x ∧ readItem (fuel + 1) s = readItem fuel s1) ∧
    (Rest buf s.ofs (HASH :: (body ++ NL :: x)) →
      ∃ s1, Depfile.G buf s1 ∧ Rest buf s1.ofs x ∧ readItem (fuel + 1) s = readItem fuel s1) :=
  ⟨fun hr => readItem_blank buf x fuel s g hr, fun hr => readItem_comment buf body x hb fuel s g hr⟩

/-- Non-vacuity: ` o: cc a | b || c` / `  x = 1` meets the well-formedness hypothesis. -/
example : BuildWF exBuild [NL] := exBuild_wf

/-! ### File level -/

/-- **The manifest file is read into exactly the declared statements, in order** (byte level, whole
    file).  If the text of the main manifest is a sequence of written
    statements - top-level bindings, `rule` and `pool` blocks, `build` statements with all their
    sections, `default`, `include` / `subninja` lines - each preceded by any number of blank lines and `#` comments, followed by
    trailing blank lines / comments (`Load.FileWF`: every statement meets the well-formedness its
    byte-level theorem asks for, in front of the text that follows it), then `load::read` returns
    exactly the fold of the statements' effects over the loader (`Load.applyItems`): rules and
    pools registered under their names, bindings evaluated top-down in the scope as of that line,
    every `build` statement added by `Graph::add_build` with its paths in the declared roles and
    order, `default` targets resolved, an `include` / `subninja` line handing the named file's content (read through
    `fs`) to the parser for nested files (`Load.parseFile`, to which `nested_file_read_as_written` applies again) -
    starting from the loader that knows only the manifest's own
    name.  (`lns`: the line numbers the `build` statements record; errors of `add_build` / of path
    evaluation propagate as in the loop.) -/
theorem manifest_read_as_written (inclExtends : Bool) (fs : Load.Fs) (main c content : Bytes)
    (hne : main.isEmpty = false) (hc : Canon.canon main = .ok c) (hfs : fs c = some content)
    (segs : List Load.FSeg) (tailNoise : List Load.Noise) (htn : ∀ n ∈ tailNoise, n.WF)
    (hwf : Load.FileWF segs (Load.noiseBytes tailNoise [NUL]))
    (htext : content ++ [NUL] = Load.fileBytes segs (Load.noiseBytes tailNoise [NUL])) :
    ∃ lns : List Nat, lns.length = segs.length ∧
      Load.loadWith inclExtends fs main =
        (Load.applyItems inclExtends fs 0 (Load.parseFile inclExtends fs (Load.MAX_INCLUDE_DEPTH + 1)) c
          (List.zipWith (fun (sg : Load.FSeg) ln => sg.2.item ln) segs lns)
          { graph := { files := [⟨c, none, []⟩] } } []).map (·.1) :=
  Load.load_as_written inclExtends fs main c content hne hc hfs segs tailNoise htn hwf htext

/-- The same for a nested file (what an `include` / `subninja` line hands over), at any depth and
    from any loader state and scope: so the file-level theorem applies to every file of a manifest
    tree in turn. -/
theorem nested_file_read_as_written (inclExtends : Bool) (fs : Load.Fs) (d : Nat) (l : Loader) (file content : Bytes)
    (vars : StrMap) (depth : Nat) (segs : List Load.FSeg) (tailNoise : List Load.Noise) (htn : ∀ n ∈ tailNoise, n.WF)
    (hwf : Load.FileWF segs (Load.noiseBytes tailNoise [NUL]))
    (htext : content ++ [NUL] = Load.fileBytes segs (Load.noiseBytes tailNoise [NUL])) :
    ∃ lns : List Nat, lns.length = segs.length ∧
      Load.parseFile inclExtends fs (d + 1) l file content vars depth =
        Load.applyItems inclExtends fs depth (Load.parseFile inclExtends fs d) file
          (List.zipWith (fun (sg : Load.FSeg) ln => sg.2.item ln) segs lns) l vars :=
  Load.parseFile_as_written inclExtends fs d l file content vars depth segs tailNoise htn hwf htext

end N2V.C10
