/-
  C19 — Progress counts match reality.
  `Inv` (Lemmas/SchedInv) states, among others: for every state x, `counts x` = number of
  non-phony builds in state x; `pending` = number of builds in Want/Ready/Queued/Running.
-/
import N2V.Lemmas.SchedExamples
namespace N2V.C19
open N2V N2V.Sched

/-- Initially all counts are exact (everything Unknown, all counters zero). -/
theorem counts_init (g : Graph) (par : Nat) (declared : List (Bytes × Nat)) (k : Option Nat) (x : St)
    (hx : x ≠ .unknown) :
    (init declared k).counts.get x
      = cnt g.nBuilds (fun b => (init declared k).st b == x && !(g.build b).phony) :=
  (init_inv g par declared k).counts x hx

/-- Every state transition (`BuildStates::set` is the only place a build changes state) keeps
    every UI count and the pending total exact: each non-phony build is counted in exactly the
    state it is in, phony builds in none.  (No transition leaves Done/Failed or returns to
    Unknown: those are the side conditions, established by C01/C05's stability theorems.) -/
theorem counts_step {g : Graph} {par : Nat} {s s' : S} {bid : Nat} {new : St}
    (inv : Inv g par s) (h : set g s bid new = .ok s') (hid : bid < g.nBuilds)
    (hnew : new ≠ .unknown) (hprev : s.st bid ≠ .done ∧ s.st bid ≠ .failed) :
    (∀ x, x ≠ .unknown → s'.counts.get x = cnt g.nBuilds (fun b => s'.st b == x && !(g.build b).phony)) ∧
    s'.pending = cnt g.nBuilds (fun b => active (s'.st b)) :=
  let r := set_generic inv.toInvCore h hid hnew hprev
  ⟨r.2.2.2.1, r.2.2.2.2⟩

/-- Hence the `isize`/`usize` casts of `StateCounts::add` never wrap: every count lies in
    `[0, #builds]`. -/
theorem counts_bounded {g : Graph} {par : Nat} {s : S} (inv : Inv g par s) (x : St) (hx : x ≠ .unknown) :
    0 ≤ s.counts.get x ∧ s.counts.get x ≤ g.nBuilds := by
  rw [inv.counts x hx]
  have := cnt_le g.nBuilds (fun b => s.st b == x && !(g.build b).phony)
  omega

theorem pending_bounded {g : Graph} {par : Nat} {s : S} (inv : Inv g par s) :
    0 ≤ s.pending ∧ s.pending ≤ g.nBuilds := by
  rw [inv.pending]
  have := cnt_le g.nBuilds (fun b => active (s.st b))
  omega

/-- The want phase changes no running/finished count (it only assigns Want/Ready) and does not
    touch `tasks_run`, the number the final `ran N tasks` line reports. -/
theorem want_keeps_finished (g : Graph) (s s' : S) (f : Nat) (h : want g s f = .ok () s') :
    s'.tasksRun = s.tasksRun ∧ ∀ b, (s'.st b = .done ↔ s.st b = .done) :=
  let e := want_lateEq' g s s' f h
  ⟨e.2.2.2, fun b => e.1 b .done (Or.inr (Or.inr (Or.inl rfl)))⟩

/-- **Whole invocation.**  For every graph (producers being builds of the graph), every
    argument vector and every behaviour of the environment (dirty answers, promotion orders,
    finish order and outcomes), whenever `run::build` reports success or stops to re-read a
    regenerated manifest, every UI count is exact and in `[0, #builds]`, `pending` is exact, and
    the runner's count equals the number of Running builds.  (The want phase with its re-entrant
    second visits, and every iteration of `Work::run`, preserve the whole invariant:
    `want_inv_all`, `runLoop_inv`.) -/
theorem counts_whole_build {E : Type} {g : Graph} (gok : GraphOK g) (a : Run.Args) (c : Choices E) (e : E)
    (n : Nat) (h : (Run.build g a c e).2.2 = .done n ∨ (Run.build g a c e).2.2 = .reload n) :
    let s := (Run.build g a c e).1
    (∀ x, x ≠ .unknown → s.counts.get x = cnt g.nBuilds (fun b => s.st b == x && !(g.build b).phony)) ∧
    s.pending = cnt g.nBuilds (fun b => active (s.st b)) ∧
    s.running = cnt g.nBuilds (fun b => s.st b == .running) :=
  let inv := Run.build_inv gok a c e n h
  ⟨inv.counts, inv.pending, inv.running⟩

/-- The same after a reload (fresh `Work` on the new graph). -/
theorem counts_whole_build_reloaded {E : Type} {g : Graph} (gok : GraphOK g) (a : Run.Args) (c : Choices E)
    (e : E) (n0 n : Nat) (h : (Run.buildReloaded g a c e n0).2.2 = .done n) :
    let s := (Run.buildReloaded g a c e n0).1
    (∀ x, x ≠ .unknown → s.counts.get x = cnt g.nBuilds (fun b => s.st b == x && !(g.build b).phony)) ∧
    s.pending = cnt g.nBuilds (fun b => active (s.st b)) :=
  let inv := Run.buildReloaded_inv gok a c e n0 n h
  ⟨inv.counts, inv.pending⟩

/-- Every iteration of `Work::run` starts in a state satisfying the invariant and, when the loop
    reports success, ends in one. -/
theorem counts_every_iteration {E : Type} {g : Graph} {par : Nat} (c : Choices E) (fuel : Nat) (s : S) (e : E)
    (perms : List (List Nat)) (fin : List (Nat × Term)) (inv : Inv g par s)
    (h : (runLoop g par c fuel s e perms fin).result = .ok true) :
    Inv g par (runLoop g par c fuel s e perms fin).s := runLoop_inv c fuel s e perms fin inv h

/-- **C19 at every update of every invocation**: every progress update any `run::build` emits —
    whatever the outcome — shows, for each state, exactly the number of non-phony builds in that
    state at that moment; and so does every single transition, together with the pending total. -/
theorem counts_exact_at_every_update {E : Type} {g : Graph} (gok : GraphOK g) (a : Run.Args) (c : Choices E)
    (e : E) (cs : List Int) (tr' : List Ev) (hs : (.update cs :: tr') <:+ (Run.build g a c e).1.trace) :
    cs = exactCounts g (stOf tr') :=
  counts_at_every_update (Run.build_tinv gok a c e).ok hs

theorem counts_exact_at_every_transition {E : Type} {g : Graph} (gok : GraphOK g) (a : Run.Args)
    (c : Choices E) (e : E) (id : Nat) (prev new : St) (cs : List Int) (pend : Int) (tr' : List Ev)
    (hs : (.set id prev new cs pend :: tr') <:+ (Run.build g a c e).1.trace) :
    cs = exactCounts g (stOf (.set id prev new cs pend :: tr')) ∧
    pend = (cnt g.nBuilds (fun b => active (stOf (.set id prev new cs pend :: tr') b)) : Int) :=
  counts_at_every_set (Run.build_tinv gok a c e).ok hs

theorem counts_exact_at_every_update_reloaded {E : Type} {g : Graph} (gok : GraphOK g) (a : Run.Args)
    (c : Choices E) (e : E) (n0 : Nat) (cs : List Int) (tr' : List Ev)
    (hs : (.update cs :: tr') <:+ (Run.buildReloaded g a c e n0).1.trace) :
    cs = exactCounts g (stOf tr') :=
  counts_at_every_update (Run.buildReloaded_tinv gok a c e n0).ok hs

/-- **Finished counts never decrease**: a build that is `Done` (`Failed`) at some point of an
    invocation still is at every later point of the same `Work`. -/
theorem finished_never_decrease {E : Type} {g : Graph} (gok : GraphOK g) (a : Run.Args) (c : Choices E)
    (e : E) (tr1 tr2 : List Ev) (hs : (tr2 ++ tr1) <:+ (Run.build g a c e).1.trace) (hl : Ev.load ∉ tr2)
    (b : Nat) (x : St) (hx : x = .done ∨ x = .failed) (hb : stOf tr1 b = x) : stOf (tr2 ++ tr1) b = x :=
  finished_monotone (okTrace_suffix (Run.build_tinv gok a c e).ok hs) hl b x hx hb

/-- Non-vacuity: the example run emits updates, the last one showing two finished builds. -/
example : (Run.build Ex.g0 Ex.a0 Ex.c0 ()).1.trace.any (fun ev => ev == .update [0, 0, 0, 0, 2, 0]) = false ∧
    (Run.build Ex.g0 Ex.a0 Ex.c0 ()).1.trace.any (fun ev => ev == .update [0, 0, 0, 1, 1, 0]) = true := by decide

/-! ### The final summary -/

/-- **`ran N tasks`**: when `run::build` reports success with `N` tasks, `N` is exactly the number
    of commands that finished successfully in this `Work`, no command failed and none was
    interrupted; `no work to do` (N = 0) is printed exactly when no command succeeded. -/
theorem ran_n_tasks {E : Type} {g : Graph} (gok : GraphOK g) (a : Run.Args) (hk : a.failuresLeft ≠ some 0)
    (c : Choices E) (e : E) (n : Nat) (h : (Run.build g a c e).2.2 = .done n) :
    n = succs (sf (Run.build g a c e).1.trace) ∧ fails (sf (Run.build g a c e).1.trace) = 0 ∧
    intr (sf (Run.build g a c e).1.trace) = false :=
  (Run.build_acct gok a hk c e).2.1 n h

theorem ran_n_tasks_reloaded {E : Type} {g : Graph} (gok : GraphOK g) (a : Run.Args)
    (hk : a.failuresLeft ≠ some 0) (c : Choices E) (e : E) (n0 n : Nat)
    (h : (Run.buildReloaded g a c e n0).2.2 = .done n) :
    n = n0 + succs (sf (Run.buildReloaded g a c e n0).1.trace) :=
  ((Run.buildReloaded_acct gok a hk c e n0).2 n h).1

/-- A reload happens exactly after a manifest phase in which `n > 0` commands succeeded. -/
theorem reload_after_commands {E : Type} {g : Graph} (gok : GraphOK g) (a : Run.Args)
    (hk : a.failuresLeft ≠ some 0) (c : Choices E) (e : E) (n : Nat)
    (h : (Run.build g a c e).2.2 = .reload n) :
    n = succs (sf (Run.build g a c e).1.trace) ∧ n ≠ 0 :=
  (Run.build_acct gok a hk c e).2.2 n h

example : succs (sf (Run.build Ex.g0 Ex.a0 Ex.c0 ()).1.trace) = 2 := by decide
example : budgetTrace Ex.a0.failuresLeft (Run.build Ex.g0 Ex.a0 Ex.c1 ()).1.trace = true := by decide

end N2V.C19
