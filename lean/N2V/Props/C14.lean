/-
  C14 — Each file has at most one producing step.
-/
import N2V.Model.Load
import N2V.Lemmas.LoadInv
namespace N2V.C14
open N2V N2V.Load

theorem modFile_input_other (files : List FileM) (o i : Nat) (f : FileM → FileM) (h : i ≠ o) :
    (modFile files o f)[i]? = files[i]? := by
  unfold modFile
  split
  · rw [List.getElem?_set_ne (Ne.symm h)]
  · rfl

theorem modFile_length (files : List FileM) (o : Nat) (f : FileM → FileM) :
    (modFile files o f).length = files.length := by
  unfold modFile; split <;> simp

/-- If any output of the new statement is already produced by ANOTHER build, `add_build`'s
    output loop fails (it can only fail, never silently take the file over).  Claiming only
    writes `newId`, so the offending entry is still there when the loop reaches it. -/
theorem claimOuts_rejects (newId : Nat) (loc : Loc) (builds : List BuildM) (outs : List Nat)
    (files : List FileM) (dup : Nat) (o prev : Nat) (f : FileM)
    (ho : o ∈ outs) (hf : files[o]? = some f) (hin : f.input = some prev) (hne : prev ≠ newId) :
    ∃ e, claimOuts newId loc builds outs files dup = .error e := by
  induction outs generalizing files dup f with
  | nil => simp at ho
  | cons x rest ih =>
    unfold claimOuts
    cases hx : files[x]? with
    | none => exact ⟨_, rfl⟩
    | some fx =>
      simp only
      cases hi : fx.input with
      | some p =>
        simp only
        by_cases hp : p = newId
        · simp only [hp, if_true]
          simp at ho
          rcases ho with rfl | ho
          · rw [hx] at hf; cases hf; rw [hi] at hin; cases hin; exact absurd hp hne
          · exact ih files _ f ho hf hin
        · simp only [hp, if_false]; exact ⟨_, rfl⟩
      | none =>
        simp only
        simp at ho
        rcases ho with rfl | ho
        · rw [hx] at hf; cases hf; rw [hi] at hin; cases hin
        · have hxo : o ≠ x := by
            intro e; subst e; rw [hx] at hf; cases hf; rw [hi] at hin; cases hin
          apply ih _ _ f ho
          · rw [modFile_input_other _ _ _ _ hxo]; exact hf
          · exact hin

/-- **Second producer rejected**: a build statement naming an output that another statement
    already produces does not enter the graph. -/
theorem second_rejected (g : GraphM) (b : BuildM) (o prev : Nat) (f : FileM)
    (ho : o ∈ b.outs) (hf : g.files[o]? = some f) (hin : f.input = some prev)
    (hne : prev ≠ g.builds.length) : ∃ e, addBuild g b = .error e := by
  unfold addBuild
  simp only
  -- registering the inputs changes `dependents` only
  have key : ∀ (ins : List Nat) (files : List FileM) (f : FileM), files[o]? = some f → f.input = some prev →
      ∃ f', (ins.foldl (fun fs i => modFile fs i (fun f => { f with dependents := f.dependents ++ [g.builds.length] })) files)[o]? = some f'
        ∧ f'.input = some prev := by
    intro ins
    induction ins with
    | nil => intro files f h1 h2; exact ⟨f, h1, h2⟩
    | cons i ins ih =>
      intro files f h1 h2
      simp only [List.foldl_cons]
      by_cases e : o = i
      · subst e
        apply ih _ { f with dependents := f.dependents ++ [g.builds.length] }
        · obtain ⟨hl, heq⟩ := List.getElem?_eq_some_iff.mp h1
          simp [modFile, h1, List.getElem?_set, hl]
          rw [heq]; exact ⟨rfl, rfl, rfl⟩
        · exact h2
      · apply ih _ f
        · rw [modFile_input_other _ _ _ _ e]; exact h1
        · exact h2
  obtain ⟨f', h1, h2⟩ := key b.ins g.files f hf hin
  obtain ⟨e, he⟩ := claimOuts_rejects g.builds.length b.loc g.builds b.outs _ 0 o prev f' ho h1 h2 hne
  rw [he]; exact ⟨e, rfl⟩

/-- `remove_duplicates` leaves no id twice. -/
theorem removeDups_nodup (l : List Nat) (e : Nat) : (removeDups l 0 [] e []).1.Nodup := by
  have key : ∀ (l seen acc : List Nat) (i e : Nat), acc.Nodup → (∀ x ∈ acc, x ∈ seen) →
      (removeDups l i seen e acc).1.Nodup := by
    intro l
    induction l with
    | nil => intro seen acc i e h _; simpa [removeDups] using h
    | cons y rest ih =>
      intro seen acc i e hn hs
      unfold removeDups
      split
      · apply ih _ _ _ _ hn
        intro x hx; simp; exact Or.inl (hs x hx)
      · rename_i h
        simp at h
        apply ih
        · rw [List.nodup_append]
          refine ⟨hn, by simp, ?_⟩
          intro a ha b hb
          simp at hb; subst hb
          exact fun e => h (e ▸ hs a ha)
        · intro x hx
          simp at hx ⊢
          rcases hx with hx | hx
          · exact Or.inl (hs x hx)
          · exact Or.inr hx
  exact key l [] [] 0 e (by simp) (by simp)

/-- The ids that survive are those of the statement, each once. -/
theorem removeDups_mem (l : List Nat) (e : Nat) (x : Nat) :
    x ∈ (removeDups l 0 [] e []).1 ↔ x ∈ l := by
  have key : ∀ (l seen acc : List Nat) (i e : Nat),
      x ∈ (removeDups l i seen e acc).1 ↔ x ∈ acc ∨ (x ∈ l ∧ x ∉ seen) := by
    intro l
    induction l with
    | nil => intro seen acc i e; simp [removeDups]
    | cons y rest ih =>
      intro seen acc i e
      unfold removeDups
      split
      · rename_i h
        rw [ih]; simp at h ⊢
        constructor
        · rintro (h1 | ⟨h1, h2, h3⟩)
          · exact Or.inl h1
          · exact Or.inr ⟨Or.inr h1, h2⟩
        · rintro (h1 | ⟨h1 | h1, h2⟩)
          · exact Or.inl h1
          · subst h1; exact absurd h h2
          · by_cases hxy : x = y
            · subst hxy; exact absurd h h2
            · exact Or.inr ⟨h1, h2, hxy⟩
      · rename_i h
        rw [ih]; simp at h ⊢
        constructor
        · rintro ((h1 | h1) | ⟨h1, h2, h3⟩)
          · exact Or.inl h1
          · subst h1; exact Or.inr ⟨Or.inl rfl, h⟩
          · exact Or.inr ⟨Or.inr h1, h2⟩
        · rintro (h1 | ⟨h1 | h1, h2⟩)
          · exact Or.inl (Or.inl h1)
          · exact Or.inl (Or.inr h1)
          · by_cases hxy : x = y
            · exact Or.inl (Or.inr hxy)
            · exact Or.inr ⟨h1, h2, hxy⟩
  simpa using key l [] [] 0 e

/-- Latent helper defect (not observable through C14: `explicit_outs()` is only used before
    de-duplication): for `[a, a, a]` with 3 explicit outputs, `explicit` ends at 2 although one
    id is left. -/
theorem removeDups_explicit_counterexample : removeDups [1, 1, 1] 0 [] 3 [] = ([1], 2) := by decide

/-- Non-vacuity: `build a b: r` then `build a: r` is rejected citing both statements. -/
def g0 : GraphM := { files := [⟨[97], none, []⟩, ⟨[98], none, []⟩], builds := [] }
def b0 : BuildM := BuildM.mk ⟨[109], 1⟩ none none none false none none [] 0 0 0 [0, 1] 2 false false
def b1 : BuildM := BuildM.mk ⟨[109], 2⟩ none none none false none none [] 0 0 0 [0] 1 false false

example :
    (match addBuild g0 b0 with
     | .ok (g1, _) => (match addBuild g1 b1 with
        | .error (.dupOutput n here there) => n == [97] && here.line == 2 && there.line == 1
        | _ => false)
     | _ => false) = true := by
  simp [addBuild, claimOuts, g0, b0, b1, modFile]

/-- **At most one producing step, for every loaded manifest.**  Whatever the file system holds and
    however `include` / `subninja` nest: in the graph a successful load returns, an output listed by
    two build statements is listed by the same statement; a file's recorded producer lists that file;
    every output's recorded producer is the statement listing it; no statement lists an output twice
    (a repeated output is kept once); and no two graph nodes carry the same name. -/
theorem at_most_one_producer (fs : Fs) (main : Bytes) (l : Loader) (h : load fs main = .ok l) :
    (∀ (p q : Nat) (bp bq : BuildM) (o : Nat), l.graph.builds[p]? = some bp → l.graph.builds[q]? = some bq →
        o ∈ bp.outs → o ∈ bq.outs → p = q) ∧
    (∀ (f : Nat) (fm : FileM) (p : Nat), l.graph.files[f]? = some fm → fm.input = some p →
        ∃ bm : BuildM, l.graph.builds[p]? = some bm ∧ f ∈ bm.outs) ∧
    (∀ (p : Nat) (bm : BuildM), l.graph.builds[p]? = some bm → ∀ o ∈ bm.outs,
        ∃ fm : FileM, l.graph.files[o]? = some fm ∧ fm.input = some p) ∧
    (∀ (p : Nat) (bm : BuildM), l.graph.builds[p]? = some bm → bm.outs.Nodup) ∧
    (∀ (i j : Nat) (fi fj : FileM), l.graph.files[i]? = some fi → l.graph.files[j]? = some fj →
        fi.name = fj.name → i = j) := by
  have inv := load_inv false fs main l h
  exact ⟨fun p q bp bq o => inv.unique_producer p q bp bq o, inv.prod, inv.outs, inv.nodup, inv.names⟩

/-- One statement entering the graph keeps all of that (the step the load theorem iterates). -/
theorem add_build_keeps_one_producer (g : GraphM) (b : BuildM) (g' : GraphM) (w : Nat) (inv : GInv g)
    (hins : ∀ i ∈ b.ins, i < g.files.length) (h : addBuild g b = .ok (g', w)) : GInv g' :=
  (addBuild_inv g b g' w inv hins h).1

/-- Non-vacuity: the graph after `build a b: r` satisfies the invariant and has a producer. -/
example : ∃ g1 w, addBuild g0 b0 = .ok (g1, w) ∧ g1.files[0]? = some ⟨[97], some 0, []⟩ := by
  refine ⟨_, _, by simp [addBuild, claimOuts, g0, b0, modFile]; exact ⟨rfl, rfl⟩, ?_⟩
  simp

open N2V.Eval in
/-- **A second statement for the same output is rejected by the loader** (statement level): when
    the paths of a `build` statement have been evaluated and interned and one of its outputs is a
    file that an earlier statement (of this or of any included file - the graph is shared)
    already produces, `Loader::add_build` fails, whatever else the statement says; with
    `C10.manifest_read_as_written` the whole load fails (`applyItems` propagates the error) and
    nothing is scheduled. -/
theorem duplicate_output_statement_is_rejected (l l1 l2 : Loader) (file : Bytes) (vars : StrMap) (b : Parse.PBuild)
    (ins outs : List Nat)
    (h1 : evalPaths l [envOfEval b.vars, envOfStr vars] b.ins = .ok (l1, ins))
    (h2 : evalPaths l1 [envOfEval b.vars, envOfStr vars] b.outs = .ok (l2, outs))
    (o prev : Nat) (f : FileM) (ho : o ∈ outs) (hf : l2.graph.files[o]? = some f) (hin : f.input = some prev)
    (hne : prev ≠ l2.graph.builds.length) :
    ∃ e, loaderAddBuild l file vars b = .error e := by
  unfold loaderAddBuild
  simp only [h1, h2]
  cases Eval.lookup l2.rules b.rule with
  | none => exact ⟨_, rfl⟩
  | some rule =>
    simp only []
    split
    · exact ⟨_, rfl⟩
    · split
      · exact ⟨_, rfl⟩
      · have hx : ∀ (bm : BuildM) (r : GraphM × Nat), bm.outs = outs → addBuild l2.graph bm ≠ .ok r := by
          intro bm r hbo hh
          obtain ⟨e, he⟩ := second_rejected l2.graph bm o prev f (by rw [hbo]; exact ho) hf hin hne
          rw [he] at hh; cases hh
        split
        · exact ⟨_, rfl⟩
        · rename_i heq
          exact absurd heq (hx _ _ rfl)


end N2V.C14
