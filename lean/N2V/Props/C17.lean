/-
  C17 — An out-of-date manifest is regenerated and reloaded before anything else.
-/
import N2V.Model.World
import N2V.Lemmas.SchedRun
import N2V.Lemmas.SchedClosure
namespace N2V.C17
open N2V N2V.Sched

theorem ofRun_ne_reload (r : RunResult) (n : Nat) : Run.ofRun r ≠ .reload n := by
  cases r <;> simp [Run.ofRun]

theorem phase2_ne_reload {E : Type} (g : Graph) (a : Run.Args) (c : Choices E) (s2 : S) (e : E)
    (perms : List (List Nat)) (fin : List (Nat × Term)) (k n : Nat) :
    (Run.phase2 g a c s2 e perms fin k).2.2 ≠ .reload n := by
  unfold Run.phase2
  simp only
  split
  · rename_i s3 _
    cases hres : (runLoop g a.par c (runFuel g) s3 e perms fin).result with
    | ok b => cases b <;> simp [Run.ofRun]
    | err m => simp [Run.ofRun]
    | bug => simp [Run.ofRun]
    | panic m => simp [Run.ofRun]
    | stuck => simp [Run.ofRun]
    | fuel => simp [Run.ofRun]
  · simp
  · simp

/-- **Reload iff something ran**: `run::build` asks for a reload exactly when the manifest phase
    succeeded having run at least one command; the count it carries is that number. -/
theorem reload_means_ran {E : Type} (g : Graph) (a : Run.Args) (c : Choices E) (e : E) (n : Nat)
    (h : (Run.build g a c e).2.2 = .reload n) :
    n ≠ 0 ∧ (Run.build g a c e).1.tasksFailed = 0 ∧ (Run.build g a c e).1.pending ≤ 0 := by
  unfold Run.build at h ⊢
  simp only at h ⊢
  cases hw : want g (Run.fresh a) a.manifest with
  | ok u s1 =>
    simp only [hw] at h ⊢
    cases hres : (runLoop g a.par c (runFuel g) s1 e c.perms c.finishes).result with
    | ok b =>
      cases b with
      | true =>
        simp only [hres] at h ⊢
        by_cases hn : (runLoop g a.par c (runFuel g) s1 e c.perms c.finishes).s.tasksRun ≠ 0
        · rw [if_pos hn] at h ⊢
          simp only [Run.Outcome.reload.injEq] at h
          have := runLoop_ok_true _ _ _ _ _ _ _ _ hres
          exact ⟨h ▸ hn, this.1, this.2⟩
        · rw [if_neg hn] at h
          exact absurd h (phase2_ne_reload _ _ _ _ _ _ _ _ _)
      | false => simp [hres, Run.ofRun] at h
    | err m => simp [hres, Run.ofRun] at h
    | bug => simp [hres, Run.ofRun] at h
    | panic m => simp [hres, Run.ofRun] at h
    | stuck => simp [hres, Run.ofRun] at h
    | fuel => simp [hres, Run.ofRun] at h
  | err m s1 => simp [hw] at h
  | bad m => simp [hw] at h

/-- **If regeneration fails nothing else runs**: when the manifest phase does not end in
    success, `run::build` returns right there — with the state of that phase and a result that
    is neither success nor a reload. -/
theorem regen_failure_stops {E : Type} (g : Graph) (a : Run.Args) (c : Choices E) (e : E) (s1 : S)
    (hw : want g (Run.fresh a) a.manifest = .ok () s1)
    (hr : (runLoop g a.par c (runFuel g) s1 e c.perms c.finishes).result ≠ .ok true) :
    (Run.build g a c e).1 = (runLoop g a.par c (runFuel g) s1 e c.perms c.finishes).s ∧
    (∀ n, (Run.build g a c e).2.2 ≠ .done n) ∧ (∀ n, (Run.build g a c e).2.2 ≠ .reload n) := by
  unfold Run.build
  simp only [hw]
  cases hres : (runLoop g a.par c (runFuel g) s1 e c.perms c.finishes).result with
  | ok b =>
    cases b with
    | true => exact absurd hres hr
    | false => simp [Run.ofRun]
  | err m => simp [Run.ofRun]
  | bug => simp [Run.ofRun]
  | panic m => simp [Run.ofRun]
  | stuck => simp [Run.ofRun]
  | fuel => simp [Run.ofRun]

/-- **After a reload the new text decides**: the second part of the invocation is a function of
    the reloaded graph and arguments only — a fresh `Work` (`Run.fresh`), no state of the first
    one except the task count. -/
theorem reloaded_uses_new_graph_only {E : Type} (g2 : Graph) (a2 : Run.Args) (c : Choices E) (e : E) (n : Nat) :
    Run.buildReloaded g2 a2 c e n = Run.phase2 g2 a2 c (Run.fresh a2) e c.perms c.finishes n := rfl

/-- **Up-to-date manifest: results are reused**: when the manifest phase ran nothing, phase 2
    continues on the SAME scheduler state, so whatever was settled (Done) stays settled (with
    C01/C06 `want_never_restarts`) and the generator is not started. -/
theorem uptodate_continues {E : Type} (g : Graph) (a : Run.Args) (c : Choices E) (e : E) (s1 : S)
    (hw : want g (Run.fresh a) a.manifest = .ok () s1)
    (hr : (runLoop g a.par c (runFuel g) s1 e c.perms c.finishes).result = .ok true)
    (h0 : (runLoop g a.par c (runFuel g) s1 e c.perms c.finishes).s.tasksRun = 0) :
    Run.build g a c e =
      let r1 := runLoop g a.par c (runFuel g) s1 e c.perms c.finishes
      Run.phase2 g a c r1.s r1.e r1.perms r1.finishes 0 := by
  unfold Run.build
  simp only [hw, hr, h0, ne_eq, not_true_eq_false, if_false]

/-! ### "Before anything else", and whole invocations -/

/-- **The manifest first, and nothing but what it needs**: when `run::build` asks for a reload, the only builds that ever
    left `Unknown` (were considered at all) are those the manifest needs.  No command-line target,
    default or other output has been looked at yet.  (For a failed manifest phase the same follows
    from `regen_failure_stops` and `Run.want_touch`.) -/
theorem manifest_phase_considers_only_the_manifest {E : Type} {g : Graph} (gok : GraphOK g) (a : Run.Args)
    (c : Choices E) (e : E) (n : Nat) (hn : (Run.build g a c e).2.2 = .reload n)
    (b : Nat) (hb : (Run.build g a c e).1.st b ≠ .unknown) : Needs g a.manifest b := by
  revert hb hn
  unfold Run.build
  simp only []
  have hw := Run.want_rel gok (Run.fresh a) a.manifest (Run.fresh_inv g a)
  have ht := want_touch g (Run.fresh a) a.manifest
  cases hwant : want g (Run.fresh a) a.manifest with
  | ok u s1 =>
    rw [hwant] at hw ht
    simp only []
    have hfresh : ∀ x, (Run.fresh a).st x = .unknown := fun x => rfl
    have h1 : ∀ x, s1.st x ≠ .unknown → Needs g a.manifest x := by
      intro x hx
      rcases ht x hx with h | h
      · exact absurd (hfresh x) h
      · exact h
    have hk := runLoop_keeps c (runFuel g) s1 e c.perms c.finishes hw.inv
    cases hres : (runLoop g a.par c (runFuel g) s1 e c.perms c.finishes).result with
    | ok bb =>
      cases bb with
      | true =>
        simp only []
        split
        · intro _ hb; exact h1 b (hk b hb)
        · intro hn _; exact absurd hn (phase2_ne_reload _ _ _ _ _ _ _ _ _)
      | false => intro hn _; simp [Run.ofRun] at hn
    | err m => intro hn _; simp [Run.ofRun] at hn
    | bug => intro hn _; simp [Run.ofRun] at hn
    | panic m => intro hn _; simp [Run.ofRun] at hn
    | stuck => intro hn _; simp [Run.ofRun] at hn
    | fuel => intro hn _; simp [Run.ofRun] at hn
  | err m s1 => intro hn _; simp at hn
  | bad m => intro hn _; simp at hn

open N2V.Work in
/-- **A whole invocation that regenerates**: when the manifest phase asks for a reload, everything
    that follows is computed from the tree, clock and log it left (`w1`) alone: the manifest is
    LOADED AGAIN from `w1` (new graph, new defaults and pools, signatures attached from the log as it
    is now), targets are resolved and dirtiness decided there by a fresh `Work`; of the first part
    only its trace and its task count survive.  A manifest that no longer loads is an error and
    nothing more runs. -/
theorem invocation_after_regeneration (w : World) (a : InvArgs)
    (obs1 obs2 : List (List Nat) × List (Nat × Sched.Term)) (l : Load.Loader) (e0 : Env)
    (hl : loadEnv w a.manifestName = .ok (l, e0)) (n : Nat) (s1 : S) (e1 : Env)
    (hre : Run.build (schedGraph e0.g) (argsOf l a) (choices a.adopt obs1.1 obs1.2) e0 = (s1, e1, .reload n)) :
    invoke w a obs1 obs2 =
      match loadEnv { fs := e1.fs, clock := e1.clock, log := e1.log } a.manifestName with
      | .error e => ({ fs := e1.fs, clock := e1.clock, log := e1.log }, .err (loadErrKind e),
                     s1.trace.reverse ++ [Sched.Ev.load])
      | .ok (l2, e2) =>
        let r2 := Run.buildReloaded (schedGraph e2.g) (argsOf l2 a) (choices a.adopt obs2.1 obs2.2) e2 n
        ({ fs := r2.2.1.fs, clock := r2.2.1.clock, log := r2.2.1.log }, ofOutcome r2.2.2,
         s1.trace.reverse ++ r2.1.trace.reverse) := by
  unfold invoke
  rw [hl]
  simp only []
  rw [hre]
  simp only []
  cases loadEnv { fs := e1.fs, clock := e1.clock, log := e1.log } a.manifestName <;> rfl

end N2V.C17
