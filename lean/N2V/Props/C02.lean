/-
  C02 — A successful incremental build leaves what a clean build would produce.
  Decision-level theorems about `Work.checkDirty` / `Work.recordFinished` (the manifest rule);
  the whole-history statement is checked by the monitor `cleanEq` (World.cleanOutputs) on every
  implementation history and by exact agreement of the model with the implementation
  (traces, results, the whole tree) on those histories.
-/
import N2V.Model.World
import N2V.Lemmas.Work
import N2V.Lemmas.LoadSched
import N2V.Lemmas.WorldSettled
import N2V.Lemmas.WorkSkip
import N2V.Lemmas.WorldSettledD
import N2V.Lemmas.SchedDone2
namespace N2V.C02
open N2V N2V.Work N2V.Load

/-- **A step is skipped only for a reason.**  If `check_build_dirty` answers "clean" for a
    non-phony step, then a completion record exists for it and the recorded manifest equals the
    manifest of the files as they are NOW (names and mtimes of dirtying inputs, discovered
    dependencies and outputs, command line, response file). -/
theorem skip_sound (e e' : Env) (b : Nat) (bm : BuildM) (hb : buildOf e.g b = some bm)
    (hcmd : bm.cmdline.isNone = false) (h : checkDirty e b = (some false, e')) :
    (filesMissing e bm b).2 = some false ∧
    ∃ prev, assocGet e'.hashes b = some prev ∧ prev = manifestOf e' bm b := by
  unfold checkDirty at h
  rw [hb] at h
  simp only [hcmd, Bool.false_eq_true, if_false] at h
  cases hm : (filesMissing e bm b).2 with
  | none => rw [hm] at h; cases h
  | some m =>
    rw [hm] at h
    cases m with
    | true => cases h
    | false =>
      simp only at h
      refine ⟨rfl, ?_⟩
      cases hp : assocGet (filesMissing e bm b).1.hashes b with
      | none => rw [hp] at h; cases h
      | some prev =>
        rw [hp] at h
        simp only [Prod.mk.injEq, Option.some.injEq, decide_eq_false_iff_not, Decidable.not_not] at h
        obtain ⟨h1, h2⟩ := h
        subst h2
        exact ⟨prev, hp, h1⟩

/-- The dirtiness check only looks: it never changes the tree, the log, the recorded hashes or
    the discovered-dependency lists (only the stat cache). -/
theorem check_is_readonly (e : Env) (b : Nat) :
    (checkDirty e b).2.fs = e.fs ∧ (checkDirty e b).2.log = e.log ∧ (checkDirty e b).2.hashes = e.hashes ∧
    (checkDirty e b).2.disc = e.disc := by
  unfold checkDirty
  split
  · exact ⟨rfl, rfl, rfl, rfl⟩
  · rename_i bm hb
    split
    · have := statAllOutputs_same e bm.outs
      exact ⟨this.fs, this.log, this.hashes, this.disc⟩
    · have s := filesMissing_same e bm b
      split
      · exact ⟨s.fs, s.log, s.hashes, s.disc⟩
      · exact ⟨s.fs, s.log, s.hashes, s.disc⟩
      · split <;> exact ⟨s.fs, s.log, s.hashes, s.disc⟩

/-- **No record when a file is missing**: then the log is left as it was (so the step is
    dirty next time for lack of a matching record). -/
theorem no_record_when_missing (e : Env) (b : Nat) (bm : BuildM) (deps : Option (List Bytes))
    (hb : buildOf e.g b = some bm)
    (hm : (restat e bm b deps).1 = true ∨ (restat e bm b deps).2.1.isSome = true) :
    (recordFinished e b deps).log = e.log := by
  unfold recordFinished
  rw [hb]
  simp only
  have hc : ((restat e bm b deps).1 || (restat e bm b deps).2.1.isSome) = true := by
    rcases hm with h | h <;> simp [h]
  rw [if_pos hc]
  -- re-stat()ing and interning do not touch the log
  unfold restat
  simp only
  have k := keepDeps_frame bm.dirtying (deps.getD []) e []
  have s1 := statFold_same
    ({ (keepDeps e bm.dirtying (deps.getD []) []).1 with
        disc := assocPut (keepDeps e bm.dirtying (deps.getD []) []).1.disc b (keepDeps e bm.dirtying (deps.getD []) []).2 } : Env)
    (bm.dirtying ++ (keepDeps e bm.dirtying (deps.getD []) []).2)
  rw [(statAllOutputs_same _ bm.outs).log, s1.log]
  exact k.1

/-- **What is recorded is the state after the command**: when every file is present,
    exactly one record is appended; it names the step's outputs and its NEW discovered
    dependencies, and carries the manifest of the re-stat()ed files. -/
theorem record_is_poststate (e : Env) (b : Nat) (bm : BuildM) (deps : Option (List Bytes))
    (hb : buildOf e.g b = some bm)
    (hp : (restat e bm b deps).1 = false ∧ (restat e bm b deps).2.1 = none) :
    let r := (restat e bm b deps).2.2
    (recordFinished e b deps).log = r.log ++
      [⟨bm.outs.map (fileName r.g), (discOf r b).map (fileName r.g), manifestOf r bm b⟩] := by
  unfold recordFinished
  rw [hb]
  simp only
  have hc : ¬ ((restat e bm b deps).1 || (restat e bm b deps).2.1.isSome) = true := by
    simp [hp.1, hp.2]
  rw [if_neg hc]

/-- The manifest that is compared/recorded names every dirtying input, every discovered
    dependency and every output with its mtime, the command line and the response file — and
    nothing else (in particular no order-only or validation input). -/
theorem manifest_contents (e : Env) (bm : BuildM) (b : Nat) :
    (manifestOf e bm b).ins.map (·.1) = bm.dirtying.map (fileName e.g) ∧
    (manifestOf e bm b).disc.map (·.1) = (discOf e b).map (fileName e.g) ∧
    (manifestOf e bm b).outs.map (·.1) = bm.outs.map (fileName e.g) ∧
    (manifestOf e bm b).cmd = bm.cmdline.getD [] ∧ (manifestOf e bm b).rsp = bm.rspfile := by
  unfold manifestOf
  simp [List.map_map, Function.comp]

/-! ### What a whole invocation may change -/

/-- **n2 itself writes nothing but the log; only commands write, and only their outputs.**  For
    every world and loadable manifest, every argument vector and every scheduling behaviour, at
    the end of `run::build` (both phases, success or not): every file that is not an output of a
    build statement (nor the private input an `rw` command of the abstract semantics rewrites) has
    exactly the state it had (existence, mtime, content); the log is the old log plus appended
    records; the signatures loaded at start-up, the build statements and the ids and names of the
    known files are unchanged; the clock did not go back. -/
theorem invocation_changes_only_outputs (w : World) (m : Bytes) (l : Loader) (e0 : Env)
    (h : loadEnv w m = .ok (l, e0)) (a : Run.Args) (adopt : Bool) (perms : List (List Nat))
    (fin : List (Nat × Sched.Term)) :
    Within e0 (Run.build (schedGraph e0.g) a (choices adopt perms fin) e0).2.1 :=
  build_within e0 (ginv_idsOK e0.g (loadEnv_graph_ok w m l e0 h).1) _ a adopt perms fin

/-- The same for the part of an invocation that follows a manifest reload. -/
theorem reloaded_part_changes_only_outputs (w : World) (m : Bytes) (l : Loader) (e0 : Env)
    (h : loadEnv w m = .ok (l, e0)) (a : Run.Args) (adopt : Bool) (perms : List (List Nat))
    (fin : List (Nat × Sched.Term)) (n : Nat) :
    Within e0 (Run.buildReloaded (schedGraph e0.g) a (choices adopt perms fin) e0 n).2.1 :=
  buildReloaded_within e0 (ginv_idsOK e0.g (loadEnv_graph_ok w m l e0 h).1) _ a adopt perms fin n

/-- **What is Done is settled** (the recorded state is the post-state, for whole invocations with
    other commands running in between; projects without discovered dependencies): at the end of
    a `run::build` that reports success without reloading, invariant `Work.JS` holds — the graph,
    the loaded signatures and the (empty) discovered lists are as loaded; the log is the old log
    plus one record per step that ran, each for a Done step; the stat cache tells the truth except
    about outputs of steps not Done; the dirtying inputs of a Done step are produced by Done steps;
    and for every Done non-phony step whose named files exist, the signature the NEXT start-up
    will attach to it equals the manifest of the files as they are now. -/
theorem done_steps_are_settled (e0 : Env) (inv0 : GInv e0.g) (plain : Plain e0.g) (hnd0 : ∀ b, discOf e0 b = [])
    (hc0 : e0.cache = []) (a : Run.Args) (adopt : Bool) (perms : List (List Nat)) (fin : List (Nat × Sched.Term)) (n : Nat)
    (h : (Run.build (schedGraph e0.g) a (choices adopt perms fin) e0).2.2 = .done n) :
    JS e0 (Run.build (schedGraph e0.g) a (choices adopt perms fin) e0).1
      (Run.build (schedGraph e0.g) a (choices adopt perms fin) e0).2.1 :=
  build_done_js e0 inv0 plain hnd0 hc0 a adopt perms fin n h

/-- **What is Done is settled, with discovered dependencies**: for every environment `load::read`
    returns (any log) and every project without input-rewriting commands, at the end of a
    `run::build` that reports success without reloading - provided the dependencies the finished
    steps remember are source files - invariant `Work.JD` holds: the graph only gained uniquely
    named source files; the log is the old log plus one record per step that ran; the stat cache
    tells the truth except about outputs of steps not Done; and for every Done non-phony step whose
    named files (remembered dependencies included) exist, the LATEST record the log attributes to
    it carries the manifest of the tree as it is now and names exactly its current discovered
    dependencies. -/
theorem done_steps_are_settled_with_depfiles (w : World) (m : Bytes) (l : Loader) (e0 : Env)
    (hl : loadEnv w m = .ok (l, e0)) (plain : PlainD e0.g)
    (a : Run.Args) (adopt : Bool) (perms : List (List Nat)) (fin : List (Nat × Sched.Term)) (n : Nat)
    (h : (Run.build (schedGraph e0.g) a (choices adopt perms fin) e0).2.2 = .done n)
    (hsrc : GoodD (Run.build (schedGraph e0.g) a (choices adopt perms fin) e0).1
              (Run.build (schedGraph e0.g) a (choices adopt perms fin) e0).2.1) :
    JD e0 (Run.build (schedGraph e0.g) a (choices adopt perms fin) e0).1
      (Run.build (schedGraph e0.g) a (choices adopt perms fin) e0).2.1 := by
  obtain ⟨inv0, gok, _⟩ := loadEnv_graph_ok w m l e0 hl
  obtain ⟨hc0, _, _, _⟩ := loadEnv_frame w m l e0 hl
  obtain ⟨_, l0⟩ := loadEnv_loaded0 w m l e0 hl
  exact Run.build_done gok a _ (JG e0) (jd_spec e0 inv0 l0 plain adopt perms fin) e0
    (jg_initial e0 a inv0 l0 hc0) n h hsrc

/-- **…also after a FAILED build** (C02's histories include failed builds): the same invariant holds
    at the end of an invocation that stops because a command failed, the `-k` budget ran out or a
    command was interrupted - every step that did complete is settled exactly as after a
    successful build, so the next invocation has only the rest to do. -/
theorem done_steps_are_settled_also_after_a_failed_build (w : World) (m : Bytes) (l : Loader) (e0 : Env)
    (hl : loadEnv w m = .ok (l, e0)) (plain : PlainD e0.g)
    (a : Run.Args) (adopt : Bool) (perms : List (List Nat)) (fin : List (Nat × Sched.Term))
    (h : (∃ n, (Run.build (schedGraph e0.g) a (choices adopt perms fin) e0).2.2 = .done n) ∨
         (Run.build (schedGraph e0.g) a (choices adopt perms fin) e0).2.2 = .failed)
    (hsrc : GoodD (Run.build (schedGraph e0.g) a (choices adopt perms fin) e0).1
              (Run.build (schedGraph e0.g) a (choices adopt perms fin) e0).2.1) :
    JD e0 (Run.build (schedGraph e0.g) a (choices adopt perms fin) e0).1
      (Run.build (schedGraph e0.g) a (choices adopt perms fin) e0).2.1 := by
  obtain ⟨inv0, gok, _⟩ := loadEnv_graph_ok w m l e0 hl
  obtain ⟨hc0, _, _, _⟩ := loadEnv_frame w m l e0 hl
  obtain ⟨_, l0⟩ := loadEnv_loaded0 w m l e0 hl
  exact Run.build_done_or_failed gok a _ (JG e0) (jd_spec e0 inv0 l0 plain adopt perms fin) e0
    (jg_initial e0 a inv0 l0 hc0) h hsrc

/-! ### "Never skips a step that changed": what a clean answer guarantees -/

/-- **n2 never skips a step whose inputs, discovered dependencies, command, response file or
    outputs changed or were removed.**  At any point of any invocation whose cached stat() answers
    are truthful: if `check_build_dirty` finds a non-phony step clean (the only way a wanted step is
    skipped), then every dirtying input, every remembered dependency and every output exists, and
    the signature attached to the step at start-up - that of the latest record the log attributes
    to it, `C09.remembered_by_every_later_invocation` - IS the manifest of the tree as it is now:
    names and modification times of the dirtying inputs, of the remembered dependencies and of
    the outputs, the command line, the response file's name and content. -/
theorem never_skips_a_changed_step (e : Env) (hc : Coh e) (b : Nat) (bm : BuildM) (hb : buildOf e.g b = some bm)
    (hnp : bm.cmdline.isNone = false) (hskip : (checkDirty e b).1 = some false) :
    (∀ f ∈ bm.dirtying ++ discOf e b ++ bm.outs, (mtimeOf e f).isSome = true) ∧
    assocGet e.hashes b = some (manifestFs e bm b) :=
  let u := clean_means_upToDate e hc b bm hb hnp hskip
  ⟨u.present, u.recorded⟩

/-- Contrapositive, piece by piece: any difference between the recorded signature and the tree
    (a touched input or dependency, an edited command line, different response-file content, a
    touched output), a removed file, or no record at all means the step is NOT found clean. -/
theorem changed_step_is_not_clean (e : Env) (hc : Coh e) (b : Nat) (bm : BuildM) (hb : buildOf e.g b = some bm)
    (hnp : bm.cmdline.isNone = false)
    (hchg : (∃ f ∈ bm.dirtying ++ discOf e b ++ bm.outs, mtimeOf e f = none) ∨
            assocGet e.hashes b = none ∨
            (∃ h, assocGet e.hashes b = some h ∧
              (h.cmd ≠ bm.cmdline.getD [] ∨ h.rsp ≠ bm.rspfile ∨
               h.ins ≠ bm.dirtying.map (fun f => (fileName e.g f, (mtimeOf e f).getD 0)) ∨
               h.disc ≠ (discOf e b).map (fun f => (fileName e.g f, (mtimeOf e f).getD 0)) ∨
               h.outs ≠ bm.outs.map (fun f => (fileName e.g f, (mtimeOf e f).getD 0))))) :
    (checkDirty e b).1 ≠ some false := by
  intro hskip
  obtain ⟨hp, hr⟩ := never_skips_a_changed_step e hc b bm hb hnp hskip
  rcases hchg with ⟨f, hf, hm⟩ | hn | ⟨h, hh, hd⟩
  · have := hp f hf; rw [hm] at this; cases this
  · rw [hn] at hr; cases hr
  · rw [hh] at hr
    have : h = manifestFs e bm b := Option.some.inj hr
    subst this
    rcases hd with h | h | h | h | h <;> exact h rfl

/-- With the generated inputs already stat()ed (they are: their producers finished first, C01),
    clean and up to date are the same thing. -/
theorem clean_iff_up_to_date (e : Env) (hc : Coh e) (b : Nat) (bm : BuildM) (hb : buildOf e.g b = some bm)
    (hnp : bm.cmdline.isNone = false)
    (hgen : ∀ f ∈ bm.dirtying ++ discOf e b, (fileInput e.g f).isSome = true → Cached e f) :
    (checkDirty e b).1 = some false ↔ UpToDate e b bm :=
  ⟨clean_means_upToDate e hc b bm hb hnp, fun u => (checkDirty_upToDate e b bm hb hc u hgen).1⟩

end N2V.C02
