/-
  C05 — Failures are contained, budgeted by -k, and reflected in the exit status.
-/
import N2V.Lemmas.SchedWant
import N2V.Model.Run
namespace N2V.C05
open N2V N2V.Sched

/-- `Work::run` returns success only if no command failed and nothing is left pending. -/
theorem run_success_means_clean {E : Type} (g : Graph) (par : Nat) (c : Choices E) (fuel : Nat) (s : S) (e : E)
    (perms : List (List Nat)) (fin : List (Nat × Term))
    (h : (runLoop g par c fuel s e perms fin).result = .ok true) :
    (runLoop g par c fuel s e perms fin).s.tasksFailed = 0 ∧ (runLoop g par c fuel s e perms fin).s.pending ≤ 0 :=
  runLoop_ok_true g par c fuel s e perms fin h

/-- With the invariant, "nothing pending" means every build is Unknown (not wanted), Done or
    Failed: success is reported only when every wanted step was settled. -/
theorem nothing_pending_means_settled {g : Graph} {par : Nat} {s : S} (inv : Inv g par s)
    (hp : s.pending ≤ 0) (b : Nat) (hb : b < g.nBuilds) : ¬ active (s.st b) = true := by
  intro ha
  have h0 : cnt g.nBuilds (fun b => active (s.st b)) = 0 := by
    have := inv.pending; omega
  -- a positive member contradicts a zero count
  have : ∀ n, b < n → cnt n (fun b => active (s.st b)) ≥ 1 := by
    intro n
    induction n with
    | zero => intro h; omega
    | succ n ih =>
      intro h
      rw [cnt_succ]
      by_cases e : b = n
      · subst e; simp [ha]
      · have := ih (by omega); omega
  have := this g.nBuilds hb
  omega

/-- A failed build is a dead end for its dependents: the gate demands Done. -/
theorem failed_blocks_dependents (g : Graph) (s : S) (d f p : Nat)
    (hf : f ∈ (g.build d).ordering) (hp : g.producer f = some p) (hfail : s.st p = .failed) :
    recheckReady g s d = false := by
  cases h : recheckReady g s d with
  | false => rfl
  | true =>
    have := recheckReady_sound g s d h f hf p hp
    rw [hfail] at this; cases this

/-- The want phase of the second part of an invocation cannot turn a Failed build back. -/
theorem failed_is_final_in_want (g : Graph) (s s' : S) (f : Nat) (h : want g s f = .ok () s') (b : Nat)
    (hb : s.st b = .failed) : s'.st b = .failed :=
  ((want_lateEq' g s s' f h).1 b .failed (Or.inr (Or.inr (Or.inr rfl)))).mpr hb

end N2V.C05
