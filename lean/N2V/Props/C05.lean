/-
  C05 — Failures are contained, budgeted by -k, and reflected in the exit status.
-/
import N2V.Lemmas.SchedExamples
import N2V.Model.Run
import N2V.Lemmas.WorldSettledD
import N2V.Lemmas.SchedDone2
namespace N2V.C05
open N2V N2V.Sched

/-- `Work::run` returns success only if no command failed and nothing is left pending. -/
theorem run_success_means_clean {E : Type} (g : Graph) (par : Nat) (c : Choices E) (fuel : Nat) (s : S) (e : E)
    (perms : List (List Nat)) (fin : List (Nat × Term))
    (h : (runLoop g par c fuel s e perms fin).result = .ok true) :
    (runLoop g par c fuel s e perms fin).s.tasksFailed = 0 ∧ (runLoop g par c fuel s e perms fin).s.pending ≤ 0 :=
  runLoop_ok_true g par c fuel s e perms fin h

/-- With the invariant, "nothing pending" means every build is Unknown (not wanted), Done or
    Failed: success is reported only when every wanted step was settled. -/
theorem nothing_pending_means_settled {g : Graph} {par : Nat} {s : S} (inv : Inv g par s)
    (hp : s.pending ≤ 0) (b : Nat) (hb : b < g.nBuilds) : ¬ active (s.st b) = true := by
  intro ha
  have h0 : cnt g.nBuilds (fun b => active (s.st b)) = 0 := by
    have := inv.pending; omega
  -- a positive member contradicts a zero count
  have : ∀ n, b < n → cnt n (fun b => active (s.st b)) ≥ 1 := by
    intro n
    induction n with
    | zero => intro h; omega
    | succ n ih =>
      intro h
      rw [cnt_succ]
      by_cases e : b = n
      · subst e; simp [ha]
      · have := ih (by omega); omega
  have := this g.nBuilds hb
  omega

/-- A failed build is a dead end for its dependents: the gate demands Done. -/
theorem failed_blocks_dependents (g : Graph) (s : S) (d f p : Nat)
    (hf : f ∈ (g.build d).ordering) (hp : g.producer f = some p) (hfail : s.st p = .failed) :
    recheckReady g s d = false := by
  cases h : recheckReady g s d with
  | false => rfl
  | true =>
    have := recheckReady_sound g s d h f hf p hp
    rw [hfail] at this; cases this

/-- The want phase of the second part of an invocation cannot turn a Failed build back. -/
theorem failed_is_final_in_want (g : Graph) (s s' : S) (f : Nat) (h : want g s f = .ok () s') (b : Nat)
    (hb : s.st b = .failed) : s'.st b = .failed :=
  ((want_lateEq' g s s' f h).1 b .failed (Or.inr (Or.inr (Or.inr rfl)))).mpr hb

/-! ### Whole invocations, at trace level (see Props/C01 for how these are obtained) -/

/-- **Failures are contained, in every invocation**: once a step has `Failed`, no step that
    transitively needs one of its outputs is started at any later point of the same `Work` —
    whatever the environment does and however the invocation ends. -/
theorem failure_contained {E : Type} {g : Graph} (gok : GraphOK g) (a : Run.Args) (c : Choices E) (e : E)
    (b p : Nat) (tr1 tr2 : List Ev)
    (hs : (.start b :: (tr2 ++ tr1)) <:+ (Run.build g a c e).1.trace) (hl : Ev.load ∉ tr2)
    (hfail : stOf tr1 p = .failed) (ha : Anc g b p) : False := by
  have ok := okTrace_suffix (Run.build_tinv gok a c e).ok hs
  have hd := (start_after_all_deps ok ha).1
  have hf := finished_monotone (okTrace_cons.mp ok).2 hl p .failed (Or.inr rfl) hfail
  rw [hf] at hd; cases hd

theorem failure_contained_reloaded {E : Type} {g : Graph} (gok : GraphOK g) (a : Run.Args) (c : Choices E)
    (e : E) (n0 b p : Nat) (tr1 tr2 : List Ev)
    (hs : (.start b :: (tr2 ++ tr1)) <:+ (Run.buildReloaded g a c e n0).1.trace) (hl : Ev.load ∉ tr2)
    (hfail : stOf tr1 p = .failed) (ha : Anc g b p) : False := by
  have ok := okTrace_suffix (Run.buildReloaded_tinv gok a c e n0).ok hs
  have hd := (start_after_all_deps ok ha).1
  have hf := finished_monotone (okTrace_cons.mp ok).2 hl p .failed (Or.inr rfl) hfail
  rw [hf] at hd; cases hd

/-- A command that is reported finished was running; a failed one never becomes anything else
    (`legal`: nothing leaves `Failed`). -/
theorem failed_is_final {E : Type} {g : Graph} (gok : GraphOK g) (a : Run.Args) (c : Choices E) (e : E)
    (tr1 tr2 : List Ev) (hs : (tr2 ++ tr1) <:+ (Run.build g a c e).1.trace) (hl : Ev.load ∉ tr2)
    (b : Nat) (hb : stOf tr1 b = .failed) : stOf (tr2 ++ tr1) b = .failed :=
  finished_monotone (okTrace_suffix (Run.build_tinv gok a c e).ok hs) hl b .failed (Or.inr rfl) hb

/-- Non-vacuity: in the example where the first command fails, the dependent step never starts
    and the invocation reports failure. -/
example : startedSince (Run.build Ex.g0 Ex.a1 Ex.c1 ()).1.trace 1 = false ∧
    stOf (Run.build Ex.g0 Ex.a1 Ex.c1 ()).1.trace 0 = .failed ∧
    (Run.build Ex.g0 Ex.a1 Ex.c1 ()).2.2 = .failed := by decide
/-- With the default budget (`-k 1`) the first failure ends the invocation at once. -/
example : (Run.build Ex.g0 Ex.a0 Ex.c1 ()).2.2 = .failed ∧
    startedSince (Run.build Ex.g0 Ex.a0 Ex.c1 ()).1.trace 1 = false := by decide

/-! ### The `-k` budget and the exit status -/

/-- **The `-k` budget, in every invocation** (for `-k N`, N ≥ 1, or no limit): whenever a command
    starts, fewer than N commands have failed so far in this `Work` and none was interrupted. -/
theorem budget_respected {E : Type} {g : Graph} (gok : GraphOK g) (a : Run.Args) (hk : a.failuresLeft ≠ some 0)
    (c : Choices E) (e : E) (b : Nat) (tr' : List Ev) (hs : (.start b :: tr') <:+ (Run.build g a c e).1.trace) :
    budgetOk a.failuresLeft (sf tr') = true := by
  have h := (Run.build_acct gok a hk c e).1
  have := sf_suffix hs
  rw [sf_start] at this
  exact bT_start_suffix h this

theorem budgetOk_spelled (k0 : Nat) (tr : List Ev) (h : budgetOk (some k0) tr = true) :
    fails tr < k0 ∧ intr tr = false := by
  simp only [budgetOk, Bool.and_eq_true, decide_eq_true_eq, Bool.not_eq_true'] at h
  exact h


/-- **Exit status**: `run::build` reports success (`ran N tasks`, exit 0) only when no command
    failed or was interrupted in this `Work`. -/
theorem success_means_no_failure {E : Type} {g : Graph} (gok : GraphOK g) (a : Run.Args)
    (hk : a.failuresLeft ≠ some 0) (c : Choices E) (e : E) (n : Nat) (h : (Run.build g a c e).2.2 = .done n) :
    fails (sf (Run.build g a c e).1.trace) = 0 ∧ intr (sf (Run.build g a c e).1.trace) = false :=
  ((Run.build_acct gok a hk c e).2.1 n h).2

example : budgetTrace Ex.a0.failuresLeft (Run.build Ex.g0 Ex.a0 Ex.c1 ()).1.trace = true ∧
    fails (sf (Run.build Ex.g0 Ex.a0 Ex.c1 ()).1.trace) = 1 := by decide

/-- **A failed or interrupted command is never recorded as up to date.**  In any invocation that
    ends in success or in an ordinary failure (no reload; no input-rewriting commands; remembered
    dependencies of finished steps are source files): every record the invocation appended to the
    build log carries the outputs of a step that is `Done` at the end - so no record was written
    for a step that is `Failed` (or still running / waiting) when the invocation stops, and the
    next start-up attaches nothing new to such a step. -/
theorem failed_command_is_never_recorded (w : Work.World) (m : Bytes) (l : Load.Loader) (e0 : Work.Env)
    (hl : Work.loadEnv w m = .ok (l, e0)) (plain : Work.PlainD e0.g)
    (a : Run.Args) (adopt : Bool) (perms : List (List Nat)) (fin : List (Nat × Term))
    (h : (∃ n, (Run.build (Work.schedGraph e0.g) a (Work.choices adopt perms fin) e0).2.2 = .done n) ∨
         (Run.build (Work.schedGraph e0.g) a (Work.choices adopt perms fin) e0).2.2 = .failed)
    (hsrc : Work.GoodD (Run.build (Work.schedGraph e0.g) a (Work.choices adopt perms fin) e0).1
              (Run.build (Work.schedGraph e0.g) a (Work.choices adopt perms fin) e0).2.1)
    (b : Nat) (hb : (Run.build (Work.schedGraph e0.g) a (Work.choices adopt perms fin) e0).1.st b ≠ .done) :
    ∀ r ∈ Work.newLog e0 (Run.build (Work.schedGraph e0.g) a (Work.choices adopt perms fin) e0).2.1,
      Db.attributeRec (Work.producerByName e0.g) r.outs ≠ some b := by
  obtain ⟨inv0, gok, _⟩ := Work.loadEnv_graph_ok w m l e0 hl
  obtain ⟨hc0, _, _, _⟩ := Work.loadEnv_frame w m l e0 hl
  obtain ⟨_, l0⟩ := Work.loadEnv_loaded0 w m l e0 hl
  have j := Run.build_done_or_failed gok a _ (Work.JG e0) (Work.jd_spec e0 inv0 l0 plain adopt perms fin) e0
    (Work.jg_initial e0 a inv0 l0 hc0) h hsrc
  intro r hr hatt
  obtain ⟨x, bmx, hx1, hx2, hx3⟩ := j.newRecs r hr
  rw [hx3] at hatt
  have := Work.attributed_unique e0.g inv0 b x bmx hx2 hatt
  subst this
  exact hb hx1

end N2V.C05
