/-
  C12 — Any input is either loaded or rejected with a diagnostic.
-/
import N2V.Model.Load
import N2V.Lemmas.DepfileTotal
import N2V.Lemmas.ParseTotal
import N2V.Lemmas.LoadTotal
import N2V.Model.Depfile
namespace N2V.C12
open N2V N2V.Scanner N2V.Load

theorem boundaryAtOrBelow_le (s : Bytes) (m : Nat) : boundaryAtOrBelow s m ≤ m := by
  induction m with
  | zero => simp [boundaryAtOrBelow]
  | succ m ih => unfold boundaryAtOrBelow; split <;> omega

theorem boundaryAtOrBelow_boundary (s : Bytes) (m : Nat) :
    isCharBoundary s (boundaryAtOrBelow s m) = true := by
  induction m with
  | zero => simp [boundaryAtOrBelow, isCharBoundary]
  | succ m ih => unfold boundaryAtOrBelow; split <;> assumption

/-- Total size of the lines `split` produces: every byte once, plus one separator per line. -/
def linesSize (ls : List Bytes) : Nat := (ls.map (fun l => l.length + 1)).sum

theorem splitLines_size (bs cur : Bytes) : linesSize (splitLines bs cur) = cur.length + bs.length + 1 := by
  induction bs generalizing cur with
  | nil => simp [splitLines, linesSize]
  | cons c r ih =>
    unfold splitLines
    split
    · have := ih []
      unfold linesSize at this ⊢
      simp only [List.map_cons, List.sum_cons]
      rw [this]; simp; omega
    · rw [ih]; simp; omega

/-- `format_parse_error` always finds the line of the error and never hits its
    `panic!("invalid offset")`, for any buffer and any offset inside it (finding F2 repaired:
    the two cut points are moved to character boundaries, so the slicing cannot panic either —
    there is no panic outcome left in the model of the excerpt computation). -/
theorem formatLines_ok (errOfs : Nat) (ls : List Bytes) (lineNo ofs : Nat)
    (h1 : ls ≠ []) (h2 : errOfs + 1 ≤ ofs + linesSize ls) :
    ∃ v, formatLines errOfs ls lineNo ofs = .ok v ∧ lineNo < v.line := by
  induction ls generalizing lineNo ofs with
  | nil => exact absurd rfl h1
  | cons l rest ih =>
    unfold formatLines
    split
    · exact ⟨_, rfl, by simp⟩
    · rename_i hlt
      have hrest : rest ≠ [] := by
        intro e; subst e
        simp [linesSize] at h2; omega
      have := ih (lineNo + 1) (ofs + l.length + 1) hrest (by
        simp only [linesSize, List.map_cons, List.sum_cons] at h2 ⊢; omega)
      obtain ⟨v, hv, hl⟩ := this
      exact ⟨v, hv, by omega⟩

theorem splitLines_ne_nil (bs cur : Bytes) : splitLines bs cur ≠ [] := by
  induction bs generalizing cur with
  | nil => simp [splitLines]
  | cons c r ih => unfold splitLines; split <;> simp [ih]

theorem format_total (buf : Array UInt8) (errOfs : Nat) (h : errOfs ≤ buf.size) :
    ∃ v, formatParseError buf errOfs = .ok v ∧ 1 ≤ v.line := by
  unfold formatParseError
  have hs := splitLines_size buf.toList []
  obtain ⟨v, hv, hl⟩ := formatLines_ok errOfs (splitLines buf.toList []) 0 0 (splitLines_ne_nil _ _)
    (by rw [hs]; simp; omega)
  exact ⟨v, hv, by omega⟩

theorem cutTail_len (ctx : Bytes) : (cutTail ctx).length ≤ 43 := by
  unfold cutTail
  split
  · have := boundaryAtOrBelow_le ctx 40
    simp [dots]; omega
  · omega

/-- The tail cut lands on a character boundary of the line (so `&context[0..end]` cannot panic). -/
theorem cutTail_boundary (ctx : Bytes) : isCharBoundary ctx (boundaryAtOrBelow ctx 40) = true :=
  boundaryAtOrBelow_boundary ctx 40

/-- The excerpt shown is bounded: at most 3 + 40 + 3 bytes. -/
theorem excerpt_bounded (line : Bytes) (col0 : Nat) : (excerptOf line col0).1.length ≤ 46 := by
  unfold excerptOf
  split
  · have := cutTail_len (List.drop (boundaryAtOrBelow line (col0 - 20)) line)
    simp [dots] at *; omega
  · have := cutTail_len line; simp; omega

theorem formatLines_bounded (errOfs : Nat) (ls : List Bytes) (lineNo ofs : Nat) (v : ErrView)
    (h : formatLines errOfs ls lineNo ofs = .ok v) : v.excerpt.length ≤ 46 := by
  induction ls generalizing lineNo ofs with
  | nil => simp [formatLines] at h
  | cons l rest ih =>
    unfold formatLines at h
    split at h
    · cases h; exact excerpt_bounded _ _
    · exact ih _ _ h

/-- Canonicalisation of any target string or manifest path either succeeds or is the one
    explicit refusal of the empty string, which every caller now checks first (F3, F4). -/
theorem canon_total (s : Bytes) : (∃ t, Canon.canon s = .ok t) ∨ s = [] := by
  cases s with
  | nil => exact Or.inr rfl
  | cons c r =>
    left
    unfold Canon.canon
    simp only
    have key : ∀ rest b out st, ∃ t, Canon.go rest b out st = .ok t := by
      intro rest b out st
      fun_induction Canon.go rest b out st <;> simp_all
    split <;> exact key _ _ _ _

/-- The loader refuses an empty path with a diagnostic instead of reaching the assertion. -/
theorem empty_path_diagnosed (l : Loader) : ∃ e, path l [] = .error e := ⟨_, rfl⟩

/-- Include nesting is bounded: a file that includes itself is diagnosed (F14), the recursion
    is structural in the remaining depth. -/
theorem include_depth_bounded (ext : Bool) (fs : Fs) (l : Loader) (file content : Bytes) (vars : Eval.StrMap) (d : Nat) :
    ∃ e, parseFile ext fs 0 l file content vars d = .error e := ⟨_, rfl⟩


/-- **Every depfile is either read or rejected with a diagnostic** (byte level, all inputs): the
    model of `depfile::parse` — scanner with its NUL sentinel, `back` including its `\r\n` quirk,
    line counter, every loop — returns entries or a parse error whose offset lies inside the NUL-terminated buffer, for EVERY byte
    string; the outcomes "read outside the buffer", "stepped back before the start", "line counter
    wrapped" and "out of fuel" (= a loop that does not advance) are unreachable
    (Lemmas/Scanner: `read_ok`, `back_ok`; Lemmas/DepfileTotal). -/
theorem depfile_parse_total (text : Bytes) : match Depfile.parse text with
    | .ok _ _ => True
    | .perr _ o => o ≤ text.length + 1
    | .bad _ => False := Depfile.parse_total text


/-- **Every manifest (and included file) is either parsed or rejected with a diagnostic** (byte
    level, all inputs).  For every file content, the scanner `Scanner::new` builds over the
    NUL-terminated buffer is in good standing, and from any position in good standing one round of
    `Parser::read` (`readItem`: blank lines, comments, `rule`/`build`/`default`/`include`/
    `subninja`/`pool` statements with all their sub-parsers, bindings, `$`-escapes, continuations)
    returns an item or a parse error with an offset INSIDE the buffer, leaving the scanner in good standing again;
    every item other than end-of-file consumed at least one byte, so the statement loop ends
    after at most `size` rounds.  The abnormal outcomes of the model — a read outside the buffer,
    `back` before the start, a wrapped line counter, running out of fuel in any of the parser's
    eight loops — are unreachable.  (`Ok1` excludes them by definition; Lemmas/ParseTotal.) -/
theorem manifest_parse_total (text : Bytes) :
    ∃ s0, Scanner.new (text ++ [Scanner.NUL]).toArray = .ok s0 ∧
      ∀ s, Depfile.G (text ++ [Scanner.NUL]).toArray s →
        Parse.Ok1 (text ++ [Scanner.NUL]).toArray.size (fun it s' => Depfile.G (text ++ [Scanner.NUL]).toArray s' ∧ s.ofs ≤ s'.ofs ∧
              ((match it with | .eof => False | _ => True) → s.ofs < s'.ofs))
          (Parse.readItem ((text ++ [Scanner.NUL]).toArray.size + 1) s) ∧
        Depfile.G (text ++ [Scanner.NUL]).toArray s0 :=
  Parse.readItem_total text

/-- What "never abnormal" means: `Ok1 P r` holds only of values and parse errors. -/
theorem ok1_excludes_abnormal {α : Type} (B : Nat) (P : α → Scanner → Prop) (r : Res Unit) : ¬ Parse.Ok1 B P (.bad r) :=
  fun h => h

/-- The scanner facts everything rests on: a read at a readable position of a well-formed scanner
    succeeds and keeps it well-formed; `back` after at least one byte succeeds, keeps the line
    counter exact (no wrap), and lands one byte back — or two, on the `\r` of a `\r\n` (the quirk
    of scanner.rs l.63-66) — never on a `\n` that follows a `\r`. -/
theorem scanner_back_sound {buf : Array UInt8} {s : Scanner} (w : Scanner.SW buf s) (h : 0 < s.ofs) :
    ∃ s', s.back = .ok s' ∧ Scanner.SW buf s' ∧ Scanner.NCR buf s'.ofs ∧ s'.ofs < buf.size := by
  obtain ⟨s', hb, w', n', lt', _⟩ := Scanner.back_ok w h
  exact ⟨s', hb, w', n', lt'⟩

/-- **Any manifest is either loaded or rejected with a diagnostic** — the whole loader, for every
    file system content and every manifest name (all bytes, any `include`/`subninja` nesting,
    self-including files): `load::read` (up to opening the log) returns a loader with a consistent
    graph, or one of: a parse error, a duplicate-output error, `empty path`, an unreadable file,
    `include nesting`, `unknown rule`, an invalid `deps` value, an unpaired `rspfile`.  The model's
    internal outcomes (panic in path canonicalisation, an unknown file id in `add_build`, a scanner
    made over an unterminated buffer, a read outside a buffer, a statement loop or parser loop that
    runs out of fuel) are unreachable. -/
theorem load_total (fs : Fs) (main : Bytes) :
    match load fs main with
    | .ok l => GInv l.graph
    | .error e => Diagnosed e := by
  have h := Load.load_total false fs main
  unfold load
  cases hl : loadWith false fs main with
  | ok l => rw [hl] at h; exact h
  | error e => rw [hl] at h; exact h

/-- **... and the diagnostic of a parse error can always be rendered**: every parse error the
    loader reports (in the main manifest or any included file) carries an offset that lies inside
    the buffer it was found in — `Diagnosed` records that, carried through every parser function by
    `Parse.Ok1` — so `format_parse_error` finds its line and produces the excerpt (`format_total`);
    its "invalid offset when formatting error" panic is unreachable from `load::read`. -/
theorem parse_errors_are_rendered (fs : Fs) (main : Bytes) (file : Bytes) (msg : String) (ofs : Nat) (view : Res ErrView)
    (h : load fs main = .error (.parse file msg ofs view)) : ∃ v, view = .ok v ∧ 1 ≤ v.line := by
  have ht := load_total fs main
  rw [h] at ht
  obtain ⟨buf, hle, hv⟩ := ht
  obtain ⟨v, hfv, hl⟩ := format_total buf ofs hle
  exact ⟨v, by rw [hv, hfv], hl⟩

/-- `Diagnosed` spelled out: the model's internal error kinds are not among the diagnostics. -/
theorem diagnosed_excludes_internal (k : String)
    (hk : k ∈ ["internal: bad file id", "internal: fuel", "internal: scanner", "internal: canon", "oob", "overflow",
      "fuel", "bad", "panic: canon"]) : ¬ Diagnosed (.other k) := by
  intro hd
  simp only [Diagnosed, List.mem_cons, List.not_mem_nil, or_false] at hd hk
  rcases hk with rfl | rfl | rfl | rfl | rfl | rfl | rfl | rfl | rfl <;> revert hd <;> decide

end N2V.C12
