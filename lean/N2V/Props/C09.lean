/-
  C09 — Discovered dependencies are remembered, replaced wholesale, and never block.
-/
import N2V.Model.World
import N2V.Lemmas.Work
import N2V.Lemmas.SchedRun
namespace N2V.C09
open N2V N2V.Work N2V.Load

theorem assocGet_put {β} (m : List (Nat × β)) (k : Nat) (v : β) : assocGet (assocPut m k v) k = some v := by
  simp [assocGet, assocPut]

/-- What `record_finished` keeps of a report: no duplicates, nothing that is already a dirtying
    input, and only files that were reported. -/
theorem keepDeps_spec (dirtying : List Nat) (ns : List Bytes) (e : Env) (acc : List Nat)
    (hacc : acc.Nodup ∧ ∀ f ∈ acc, f ∉ dirtying) :
    (keepDeps e dirtying ns acc).2.Nodup ∧ ∀ f ∈ (keepDeps e dirtying ns acc).2, f ∉ dirtying := by
  induction ns generalizing e acc with
  | nil => exact hacc
  | cons n ns ih =>
    unfold keepDeps
    split
    · exact ih e acc hacc
    · split
      · rename_i c hc
        by_cases hcond : (acc.contains (intern e c).2 || dirtying.contains (intern e c).2) = true
        · rw [if_pos hcond]; exact ih _ acc hacc
        · rw [if_neg hcond]
          simp at hcond
          apply ih
          constructor
          · rw [List.nodup_append]
            refine ⟨hacc.1, by simp, ?_⟩
            intro a ha b hb; simp at hb; subst hb
            exact fun e => hcond.1 (e ▸ ha)
          · intro f hf
            simp at hf
            rcases hf with hf | hf
            · exact hacc.2 f hf
            · subst hf; exact hcond.2
      · exact ih e acc hacc

/-- **Replaced wholesale**: after `record_finished` the step's discovered-dependency list is
    exactly what was kept of THIS report, whatever the list was before. -/
theorem replaced_wholesale (e : Env) (b : Nat) (bm : BuildM) (deps : Option (List Bytes))
    (hb : buildOf e.g b = some bm) :
    discOf (recordFinished e b deps) b = (keepDeps e bm.dirtying (deps.getD []) []).2 := by
  have key : discOf (restat e bm b deps).2.2 b = (keepDeps e bm.dirtying (deps.getD []) []).2 := by
    unfold restat discOf
    simp only
    rw [(statAllOutputs_same _ bm.outs).disc, (statFold_same _ _).disc]
    simp [assocGet_put]
  unfold recordFinished
  rw [hb]
  simp only
  split
  · exact key
  · exact key

/-- The kept list has no duplicates and avoids the declared dirtying inputs (an order-only
    input may stay: it is not dirtying). -/
theorem recorded_deps_clean (e : Env) (b : Nat) (bm : BuildM) (deps : Option (List Bytes))
    (hb : buildOf e.g b = some bm) :
    (discOf (recordFinished e b deps) b).Nodup ∧ ∀ f ∈ discOf (recordFinished e b deps) b, f ∉ bm.dirtying := by
  rw [replaced_wholesale e b bm deps hb]
  exact keepDeps_spec bm.dirtying (deps.getD []) e [] ⟨by simp, by simp⟩

/-- **A vanished discovered dependency makes the step dirty, never an error**: the second
    `ensure_input_files` (over discovered inputs) has no error branch for a missing source. -/
theorem missing_dep_is_dirty_not_error (e : Env) (bm : BuildM) (b : Nat) (e1 e2 : Env) (f : Nat)
    (h1 : ensureInputs e bm.dirtying = .ok (none, e1))
    (h2 : ensureInputs e1 (discOf e1 b) = .ok (some f, e2)) :
    (filesMissing e bm b).2 = some true := by
  unfold filesMissing; rw [h1]; simp only; rw [h2]

/-- **Never block**: discovered dependencies are not part of the readiness test — the
    scheduler's graph has no field for them (`schedGraph` builds `ordering` from the declared
    explicit/implicit/order-only inputs only). -/
theorem no_ordering (g : GraphM) (b : Nat) (bm : BuildM) (hb : g.builds[b]? = some bm) :
    ((schedGraph g).build b).ordering = bm.ins.take (bm.explicit + bm.implicit + bm.orderOnly) := by
  unfold schedGraph
  simp [hb]

end N2V.C09
