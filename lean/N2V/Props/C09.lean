/-
  C09 — Discovered dependencies are remembered, replaced wholesale, and never block.
-/
import N2V.Model.World
import N2V.Lemmas.Work
import N2V.Lemmas.SchedRun
import N2V.Lemmas.WorkDisc
import N2V.Lemmas.LoadInv
namespace N2V.C09
open N2V N2V.Work N2V.Load

theorem assocGet_put {β} (m : List (Nat × β)) (k : Nat) (v : β) : assocGet (assocPut m k v) k = some v := by
  simp [assocGet, assocPut]

/-- What `record_finished` keeps of a report: no duplicates, nothing that is already a dirtying
    input, and only files that were reported. -/
theorem keepDeps_spec (dirtying : List Nat) (ns : List Bytes) (e : Env) (acc : List Nat)
    (hacc : acc.Nodup ∧ ∀ f ∈ acc, f ∉ dirtying) :
    (keepDeps e dirtying ns acc).2.Nodup ∧ ∀ f ∈ (keepDeps e dirtying ns acc).2, f ∉ dirtying := by
  induction ns generalizing e acc with
  | nil => exact hacc
  | cons n ns ih =>
    unfold keepDeps
    split
    · exact ih e acc hacc
    · split
      · rename_i c hc
        by_cases hcond : (acc.contains (intern e c).2 || dirtying.contains (intern e c).2) = true
        · rw [if_pos hcond]; exact ih _ acc hacc
        · rw [if_neg hcond]
          simp at hcond
          apply ih
          constructor
          · rw [List.nodup_append]
            refine ⟨hacc.1, by simp, ?_⟩
            intro a ha b hb; simp at hb; subst hb
            exact fun e => hcond.1 (e ▸ ha)
          · intro f hf
            simp at hf
            rcases hf with hf | hf
            · exact hacc.2 f hf
            · subst hf; exact hcond.2
      · exact ih e acc hacc

/-- **Replaced wholesale**: after `record_finished` the step's discovered-dependency list is
    exactly what was kept of THIS report, whatever the list was before. -/
theorem replaced_wholesale (e : Env) (b : Nat) (bm : BuildM) (deps : Option (List Bytes))
    (hb : buildOf e.g b = some bm) :
    discOf (recordFinished e b deps) b = (keepDeps e bm.dirtying (deps.getD []) []).2 := by
  have key : discOf (restat e bm b deps).2.2 b = (keepDeps e bm.dirtying (deps.getD []) []).2 := by
    unfold restat discOf
    simp only
    rw [(statAllOutputs_same _ bm.outs).disc, (statFold_same _ _).disc]
    simp [assocGet_put]
  unfold recordFinished
  rw [hb]
  simp only
  split
  · exact key
  · exact key

/-- The kept list has no duplicates and avoids the declared dirtying inputs (an order-only
    input may stay: it is not dirtying). -/
theorem recorded_deps_clean (e : Env) (b : Nat) (bm : BuildM) (deps : Option (List Bytes))
    (hb : buildOf e.g b = some bm) :
    (discOf (recordFinished e b deps) b).Nodup ∧ ∀ f ∈ discOf (recordFinished e b deps) b, f ∉ bm.dirtying := by
  rw [replaced_wholesale e b bm deps hb]
  exact keepDeps_spec bm.dirtying (deps.getD []) e [] ⟨by simp, by simp⟩

/-- **A vanished discovered dependency makes the step dirty, never an error**: the second
    `ensure_input_files` (over discovered inputs) has no error branch for a missing source. -/
theorem missing_dep_is_dirty_not_error (e : Env) (bm : BuildM) (b : Nat) (e1 e2 : Env) (f : Nat)
    (h1 : ensureInputs e bm.dirtying = .ok (none, e1))
    (h2 : ensureInputs e1 (discOf e1 b) = .ok (some f, e2)) :
    (filesMissing e bm b).2 = some true := by
  unfold filesMissing; rw [h1]; simp only; rw [h2]

/-- **Never block**: discovered dependencies are not part of the readiness test — the
    scheduler's graph has no field for them (`schedGraph` builds `ordering` from the declared
    explicit/implicit/order-only inputs only). -/
theorem no_ordering (g : GraphM) (b : Nat) (bm : BuildM) (hb : g.builds[b]? = some bm) :
    ((schedGraph g).build b).ordering = bm.ins.take (bm.explicit + bm.implicit + bm.orderOnly) := by
  unfold schedGraph
  simp [hb]

/-! ### Across invocations: any log, any number of earlier runs -/

/-- **Remembered in all later invocations.**  For EVERY tree and log (whatever earlier
    invocations, manifests and crashes produced it): after start-up, the discovered-dependency list
    of a step is, name by name and in order, the dependency list of the LATEST record the log
    attributes to the step, and the signature it will be compared with is that record's.  Start-up
    changes neither the tree nor the steps of the manifest (it only interns source files). -/
theorem remembered_by_every_later_invocation (w : World) (m : Bytes) (l : Loader) (e : Env)
    (h : loadEnv w m = .ok (l, e)) (b : Nat) (r : Rec) (hr : lastRec l.graph b w.log none = some r) :
    (discOf e b).map (fileName e.g) = r.deps ∧ assocGet e.hashes b = some r.hash ∧
    e.fs = w.fs ∧ e.g.builds = l.graph.builds := by
  unfold loadEnv at h
  simp only [] at h
  split at h
  · cases h
  · rename_i l0 _
    cases h
    obtain ⟨hx, hfs, _, _, _, hb⟩ := applyLog_spec w.log
      { g := l.graph, disc := [], hashes := [], cache := [], fs := w.fs, clock := w.clock, log := w.log }
    obtain ⟨h1, _, h3⟩ := (hb b).1 r hr
    exact ⟨h1, h3, hfs, hx.builds⟩

/-- A step no record is attributed to starts with no remembered dependencies and no signature
    (so it is dirty): nothing is ever remembered from another step's record. -/
theorem nothing_remembered_without_record (w : World) (m : Bytes) (l : Loader) (e : Env)
    (h : loadEnv w m = .ok (l, e)) (b : Nat) (hr : lastRec l.graph b w.log none = none) :
    discOf e b = [] ∧ assocGet e.hashes b = none := by
  unfold loadEnv at h
  simp only [] at h
  split at h
  · cases h
  · cases h
    obtain ⟨_, _, _, _, _, hb⟩ := applyLog_spec w.log
      { g := l.graph, disc := [], hashes := [], cache := [], fs := w.fs, clock := w.clock, log := w.log }
    obtain ⟨h1, h2⟩ := (hb b).2 hr
    exact ⟨by rw [h1]; rfl, by rw [h2]; rfl⟩

/-- **…until that step next succeeds, when the new report replaces the old list entirely.**
    Whatever the log held before, once a record for the step's outputs is appended (that is what a
    success does: `recordFinished_record`) it is the one that counts, until a later record is
    attributed to the step — nothing of the older lists survives (`Remembers` is an equality). -/
theorem latest_success_wins (g : GraphM) (inv : GInv g) (b : Nat) (bm : BuildM) (hb : buildOf g b = some bm)
    (hne : bm.outs ≠ []) (before after : List Rec) (rec : Rec) (hrec : rec.outs = bm.outs.map (fileName g))
    (hafter : ∀ r ∈ after, Db.attributeRec (producerByName g) r.outs ≠ some b) :
    lastRec g b (before ++ [rec] ++ after) none = some rec := by
  rw [lastRec_append, lastRec_none_attributed g b after _ hafter, lastRec_append]
  have : Db.attributeRec (producerByName g) rec.outs = some b := by
    rw [hrec]; exact attributed_own g inv b bm hb hne
  simp [lastRec, this]

/-- What a success writes: the outputs by name and the kept report by name (so the next
    start-up's list is exactly this report, `replaced_wholesale`), with a signature that stamps
    exactly those names. -/
theorem success_writes_its_report (e : Env) (b : Nat) (bm : BuildM) (hb : buildOf e.g b = some bm)
    (deps : Option (List Bytes)) :
    (recordFinished e b deps).log = e.log ∨
    ∃ rec, (recordFinished e b deps).log = e.log ++ [rec] ∧
      rec.outs = bm.outs.map (fileName (recordFinished e b deps).g) ∧
      rec.deps = (discOf (recordFinished e b deps) b).map (fileName (recordFinished e b deps).g) ∧
      rec.hash.disc.map (·.1) = rec.deps :=
  recordFinished_record e b bm hb deps

/-- **A remembered dependency is a dirtying input.**  At any point of any invocation whose cached
    stat() answers are truthful: if the step remembers record `r` and the `i`-th remembered name
    is missing now, or its modification time differs from the one stamped in `r`'s signature, the
    step is not found clean (it is dirty or, for a generated file without a path to it, an error). -/
theorem changed_dependency_is_dirty (e : Env) (hc : Coh e) (b : Nat) (bm : BuildM) (hb : buildOf e.g b = some bm)
    (hnp : bm.cmdline.isNone = false) (r : Rec) (hrem : Remembers e b r)
    (i : Nat) (n : Bytes) (t : Nat) (hn : r.deps[i]? = some n) (hs : r.hash.disc[i]? = some (n, t))
    (hchg : (e.fs.get n).map (·.mtime) ≠ some t) : (checkDirty e b).1 ≠ some false := by
  intro h
  obtain ⟨hp, hd⟩ := clean_means_deps_unchanged e hc b bm hb hnp r hrem h
  rw [hd, List.getElem?_map, hn] at hs
  simp only [Option.map_some, Option.some.injEq, Prod.mk.injEq, true_and] at hs
  have hpn := hp n (List.mem_of_getElem? hn)
  cases hx : e.fs.get n with
  | none => rw [hx] at hpn; cases hpn
  | some info =>
    rw [hx] at hs hchg
    simp only [Option.map_some, Option.getD_some] at hs hchg
    exact hchg (by rw [hs])

/-- **…but never an error**: once the declared inputs are in place, remembered dependencies that
    are source files (or were stat()ed already) cannot make the check fail — whatever became of
    them, the answer is "dirty" or "clean". -/
theorem remembered_sources_never_fail (e : Env) (bm : BuildM) (b : Nat) (e1 : Env)
    (h1 : ensureInputs e bm.dirtying = .ok (none, e1))
    (hsrc : ∀ f ∈ discOf e b, fileInput e.g f = none ∨ Cached e f) : (filesMissing e bm b).2 ≠ none := by
  obtain ⟨s1, m1, _⟩ := ensureInputs_stat _ _ _ _ h1
  have hsrc1 : ∀ f ∈ discOf e1 b, fileInput e1.g f = none ∨ Cached e1 f := by
    intro f hf
    have hd : discOf e1 b = discOf e b := by unfold discOf; rw [s1.toSameButCache.disc]
    rw [hd] at hf
    rcases hsrc f hf with h | h
    · left; rw [s1.toSameButCache.g]; exact h
    · right; exact m1 f h
  obtain ⟨r, e2, h2⟩ := ensureInputs_no_error _ e1 hsrc1
  unfold filesMissing
  rw [h1]
  simp only []
  rw [h2]
  cases r <;> simp

/-- Non-vacuity: a two-record log for `build out: cc in` — the later record's list (`h2`) is what
    start-up attaches, the earlier one (`h1`) is gone. -/
def exG : GraphM :=
  { files := [⟨[111], some 0, []⟩, ⟨[105], none, [0]⟩],
    builds := [{ loc := ⟨[], 1⟩, desc := none, cmdline := some [99], depfile := some [100], showIncludes := false, rspfile := none,
                 pool := none, ins := [1], explicit := 1, implicit := 0, orderOnly := 0, outs := [0], explicitOuts := 1,
                 hideSuccess := false, hideProgress := false }] }
def exHash (t : Nat) (d : Bytes) : Manifest := { ins := [([105], 1)], disc := [(d, t)], cmd := [99], rsp := none, outs := [([111], 2)] }
def exLog : List Rec := [⟨[[111]], [[104, 49]], exHash 1 [104, 49]⟩, ⟨[[111]], [[104, 50]], exHash 1 [104, 50]⟩]
def exE0 : Env := { g := exG, disc := [], hashes := [], cache := [], fs := [], clock := 0, log := exLog }

example : lastRec exG 0 exLog none = some ⟨[[111]], [[104, 50]], exHash 1 [104, 50]⟩ := by decide
example : (discOf (applyLog exE0 exLog) 0).map (fileName (applyLog exE0 exLog).g) = [[104, 50]] := by decide

end N2V.C09
