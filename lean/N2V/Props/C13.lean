/-
  C13 — Different spellings of one path are one graph node.
  Property theorems about `N2V.Canon` (model of canon.rs::canonicalize_path).
-/
import N2V.Model.Canon
import N2V.Lemmas.Canon
namespace N2V.C13
open N2V N2V.Canon

theorem dotdot_len (out : Bytes) (st : List Nat) (sep : Option UInt8) :
    (dotdot out st sep).1.length ≤ out.length + 2 + sep.toList.length := by
  unfold dotdot; split <;> simp <;> omega

theorem finish_len (out : Bytes) : (finish out).length ≤ max 1 out.length := by
  unfold finish; split <;> simp_all <;> omega

/-- What `classify` consumes pays for what `dotdot` may emit. -/
theorem classify_up_budget {c r sep r'} (h : classify c r = .up sep r') :
    r'.length + 2 + sep.toList.length ≤ r.length + 1 := by
  unfold classify at h
  split at h
  · cases h
  · split at h
    · split at h
      · cases h
      · split at h
        · cases h
        · split at h
          · split at h
            · cases h; simp
            · split at h
              · cases h; simp
              · cases h
          · cases h
    · cases h

theorem go_len (rest : Bytes) (b : Bool) (out : Bytes) (st : List Nat) (t : Bytes)
    (h : go rest b out st = .ok t) : t.length ≤ max 1 (out.length + rest.length) := by
  fun_induction go rest b out st
  case case1 ic out st => cases h; simpa using finish_len out
  case case2 out st c r ih => have := ih h; simp at this ⊢; omega
  case case3 ic out st c r hn r' hc ih =>
    have := ih h; have := classify_skip_len hc; simp at *; omega
  case case4 ic out st c r hn hc => cases h; have := finish_len out; simp at *; omega
  case case5 ic out st c r hn sep r' hc p ih =>
    have := ih h; have := classify_up_budget hc; have := dotdot_len out st sep
    simp [p] at *; omega
  case case6 ic out st c r hn hc ih => have := ih h; simp at this ⊢; omega

/-- Never lengthens: `|canon s| ≤ |s|` for every input. -/
theorem len (s t : Bytes) (h : canon s = .ok t) : t.length ≤ s.length := by
  unfold canon at h
  split at h
  · simp at h
  · split at h
    · have := go_len _ _ _ _ _ h; simp at this ⊢; omega
    · have := go_len _ _ _ _ _ h; simp at this ⊢; omega

theorem go_ok (rest : Bytes) (b : Bool) (out : Bytes) (st : List Nat) : ∃ t, go rest b out st = .ok t := by
  fun_induction go rest b out st <;> simp_all

/-- Every non-empty path is canonicalised — any number of components (after the repair of
    finding F4 the component stack spills to the heap instead of panicking past 60). -/
theorem ok (s : Bytes) (hne : s ≠ []) : ∃ t, canon s = .ok t := by
  unfold canon
  cases s with
  | nil => exact absurd rfl hne
  | cons c r => simp only; split <;> exact go_ok _ _ _ _

/-- The empty path is the one input `canonicalize_path` refuses (its callers never pass it:
    repair of finding F3). -/
theorem empty_refused : canon [] = .panic "assertion failed: !path.is_empty()" := rfl

/-- Non-vacuity: a concrete spelling (`a/./b//../c\\..`) with every special case in it. -/
example : canon [97,47,46,47,98,47,47,46,46,47,99,92,92,46,46] = .ok [97,47] := by
  simp [canon, go, classify, isSep, dot, dotdot, finish]


/-! ### Functional correctness (Lemmas/Canon: the byte-level loop with its two cursors and offset
    stack is simulated by a fold over the path's components) -/

/-- **`canonicalize_path` computes the specification**: for every non-empty path — any length,
    any number of components, any mixture of `/` and `\` — the result is the rendering of what
    the path denotes: its root separator if any, the leading `..` that cannot be resolved, and
    the remaining names each with the separator byte that followed it (`.`, empty components
    and `name/..` pairs are gone; a trailing separator is kept: it is significant). -/
theorem spec (s : Bytes) (hne : s ≠ []) : canon s = .ok (render (denote s)) := canon_spec s hne

/-- **Same location**: the canonical form denotes what the original spelling denotes. -/
theorem same_location (s t : Bytes) (h : canon s = .ok t) : denote t = denote s := denote_canon s t h

/-- **Idempotent**: canonicalising a canonical form changes nothing. -/
theorem idempotent (s t : Bytes) (h : canon s = .ok t) : canon t = .ok t := canon_idem s t h

/-- **Normal form**: a canonical form is its own rendering, and none of its names is empty, `.`
    or `..` or contains a separator (every `..` left is a leading one, recorded in `ups`). -/
theorem normal_form (s t : Bytes) (h : canon s = .ok t) :
    render (denote t) = t ∧
    ∀ n ∈ (denote t).names, n.1 ≠ [] ∧ n.1 ≠ [dot] ∧ n.1 ≠ [dot, dot] ∧ ∀ b ∈ n.1, isSep b = false :=
  canon_normal s t h

/-- **One node per location**: two spellings get the same canonical bytes — hence the same graph
    node, since nodes are looked up by canonical name — exactly when they denote the same
    location. -/
theorem one_node_per_location (s s' t t' : Bytes) (h : canon s = .ok t) (h' : canon s' = .ok t') :
    t = t' ↔ denote s = denote s' := canon_eq_iff s s' t t' h h'

/-- Non-vacuity: `a/./b/../c//d/` and `a\c/d/`... denote the same location as `a/c/d/` up to the
    separator bytes that are kept; `foo/../..` keeps one leading `..`. -/
example : canon [97, 47, 46, 47, 98, 47, 46, 46, 47, 99, 47, 47, 100, 47] = .ok [97, 47, 99, 47, 100, 47] := by
  rw [spec _ (by decide)]; decide
example : canon [102, 47, 46, 46, 47, 46, 46] = .ok [46, 46] := by
  rw [spec _ (by decide)]; decide
example : denote [97, 47, 98] ≠ denote [97, 47, 98, 47] := by decide

end N2V.C13
