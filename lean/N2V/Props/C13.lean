/-
  C13 — Different spellings of one path are one graph node.
  Property theorems about `N2V.Canon` (model of canon.rs::canonicalize_path).
-/
import N2V.Model.Canon
namespace N2V.C13
open N2V N2V.Canon

theorem dotdot_len (out : Bytes) (st : List Nat) (sep : Option UInt8) :
    (dotdot out st sep).1.length ≤ out.length + 2 + sep.toList.length := by
  unfold dotdot; split <;> simp <;> omega

theorem finish_len (out : Bytes) : (finish out).length ≤ max 1 out.length := by
  unfold finish; split <;> simp_all <;> omega

/-- What `classify` consumes pays for what `dotdot` may emit. -/
theorem classify_up_budget {c r sep r'} (h : classify c r = .up sep r') :
    r'.length + 2 + sep.toList.length ≤ r.length + 1 := by
  unfold classify at h
  split at h
  · cases h
  · split at h
    · split at h
      · cases h
      · split at h
        · cases h
        · split at h
          · split at h
            · cases h; simp
            · split at h
              · cases h; simp
              · cases h
          · cases h
    · cases h

theorem go_len (cap : Nat) (rest : Bytes) (b : Bool) (out : Bytes) (st : List Nat) (t : Bytes)
    (h : go cap rest b out st = .ok t) : t.length ≤ max 1 (out.length + rest.length) := by
  fun_induction go cap rest b out st
  case case1 ic out st => cases h; simpa using finish_len out
  case case2 out st c r ih => have := ih h; simp at this ⊢; omega
  case case3 ic out st c r hn r' hc ih =>
    have := ih h; have := classify_skip_len hc; simp at *; omega
  case case4 ic out st c r hn hc => cases h; have := finish_len out; simp at *; omega
  case case5 ic out st c r hn sep r' hc p ih =>
    have := ih h; have := classify_up_budget hc; have := dotdot_len out st sep
    simp [p] at *; omega
  case case6 => simp at h
  case case7 ic out st c r hn hc hcap ih => have := ih h; simp at this ⊢; omega

/-- Never lengthens: `|canon s| ≤ |s|` (for every capacity, every input). -/
theorem len (cap : Nat) (s t : Bytes) (h : canonCap cap s = .ok t) : t.length ≤ s.length := by
  unfold canonCap at h
  split at h
  · simp at h
  · split at h
    · have := go_len _ _ _ _ _ _ h; simp at this ⊢; omega
    · have := go_len _ _ _ _ _ _ h; simp at this ⊢; omega

/-! ### No panic within the capacity -/

theorem numComps_inComp (c : UInt8) (r : Bytes) :
    numComps (c :: r) true = numComps r (!isSep c) := by
  simp [numComps]; split <;> simp_all

theorem classify_skip_comps {c r r'} (h : classify c r = .skip r') :
    numComps r' false ≤ numComps (c :: r) false := by
  unfold classify at h
  split at h
  · cases h; simp [numComps, *]
  · split at h
    · split at h
      · cases h
      · split at h
        · cases h; simp [numComps, *]
        · split at h
          · split at h
            · cases h
            · split at h <;> cases h
          · cases h
    · cases h

theorem classify_up_comps {c r sep r'} (h : classify c r = .up sep r') :
    numComps r' false ≤ numComps (c :: r) false := by
  unfold classify at h
  split at h
  · cases h
  · split at h
    · split at h
      · cases h
      · split at h
        · cases h
        · split at h
          · split at h
            · cases h; simp [numComps]
            · split at h
              · cases h; simp [numComps, *]
              · cases h
          · cases h
    · cases h

theorem classify_comp_notsep {c r} (h : classify c r = .comp) : isSep c = false := by
  unfold classify at h
  split at h
  · cases h
  · simp_all

theorem dotdot_stack_len (out : Bytes) (st : List Nat) (sep : Option UInt8) :
    (dotdot out st sep).2.length ≤ st.length := by
  unfold dotdot; split <;> simp

theorem go_ok (cap : Nat) (rest : Bytes) (b : Bool) (out : Bytes) (st : List Nat)
    (h : numComps rest b + st.length ≤ cap) : ∃ t, go cap rest b out st = .ok t := by
  fun_induction go cap rest b out st
  case case1 => exact ⟨_, rfl⟩
  case case2 out st c r ih => apply ih; rw [numComps_inComp] at h; exact h
  case case3 ic out st c r hn r' hc ih =>
    apply ih; have := classify_skip_comps hc; simp at hn; subst hn; omega
  case case4 => exact ⟨_, rfl⟩
  case case5 ic out st c r hn sep r' hc p ih =>
    apply ih; have := classify_up_comps hc; have := dotdot_stack_len out st sep
    simp at hn; subst hn; simp [p]; omega
  case case6 ic out st c r hn hc hcap =>
    exfalso; have := classify_comp_notsep hc; simp at hn; subst hn
    simp [numComps, this] at h; omega
  case case7 ic out st c r hn hc hcap ih =>
    apply ih; have := classify_comp_notsep hc; simp at hn; subst hn
    simp [numComps, this] at h ⊢; omega

/-- A non-empty path with at most `cap` components (60 in n2) is always canonicalised:
    no panic, no other abnormal outcome. -/
theorem ok (cap : Nat) (s : Bytes) (hne : s ≠ []) (hc : numComps s false ≤ cap) :
    ∃ t, canonCap cap s = .ok t := by
  unfold canonCap
  cases s with
  | nil => exact absurd rfl hne
  | cons c r =>
    simp only
    split
    · apply go_ok; simp [numComps, *] at hc; simpa using hc
    · apply go_ok; simpa using hc

/-- The only abnormal outcomes, for every input whatsoever, are the two explicit panics of the
    source (`assert!(!path.is_empty())`, "too many path components"). -/
theorem outcomes (cap : Nat) (s : Bytes) :
    (∃ t, canonCap cap s = .ok t) ∨ (∃ m, canonCap cap s = .panic m) := by
  have key : ∀ rest b out st, (∃ t, go cap rest b out st = .ok t) ∨ (∃ m, go cap rest b out st = .panic m) := by
    intro rest b out st
    fun_induction go cap rest b out st <;> simp_all
  unfold canonCap
  split
  · exact Or.inr ⟨_, rfl⟩
  · split <;> exact key _ _ _ _

/-- Non-vacuity: a concrete spelling (`a/./b//../c\\\\..`) with every special case in it
    canonicalises to `a/`, and satisfies the hypotheses of `ok`. -/
example : canon [97,47,46,47,98,47,47,46,46,47,99,92,92,46,46] = .ok [97,47] := by
  simp [canon, canonCap, go, classify, isSep, dot, dotdot, finish, CAP]
example : numComps [97,47,46,47,98,47,47,46,46,47,99,92,92,46,46] false ≤ CAP := by decide

end N2V.C13
