/-
  C20 — Status rendering never breaks the build.
  Property theorems about `N2V.Render` (model of progress_fancy.rs's pure helpers).
  All statements hold for arbitrary byte strings, not only valid UTF-8.
-/
import N2V.Model.Render
namespace N2V.C20
open N2V N2V.Render

theorem boundaryAtOrBelow_le (s : Bytes) (m : Nat) : boundaryAtOrBelow s m ≤ m := by
  induction m with
  | zero => simp [boundaryAtOrBelow]
  | succ m ih => unfold boundaryAtOrBelow; split <;> omega

theorem boundaryAtOrBelow_boundary (s : Bytes) (m : Nat) :
    isCharBoundary s (boundaryAtOrBelow s m) = true := by
  induction m with
  | zero => simp [boundaryAtOrBelow, isCharBoundary]
  | succ m ih => unfold boundaryAtOrBelow; split <;> assumption

theorem isCharBoundary_length (s : Bytes) : isCharBoundary s s.length = true := by
  unfold isCharBoundary
  split
  · rfl
  · simp

/-- `truncate` returns a prefix of its argument ... -/
theorem truncate_prefix (s : Bytes) (max : Nat) : truncate s max <+: s := by
  unfold truncate; split
  · exact List.prefix_refl s
  · exact List.take_prefix _ s

/-- ... of at most `max` bytes ... -/
theorem truncate_len (s : Bytes) (max : Nat) : (truncate s max).length ≤ max := by
  unfold truncate; split
  · omega
  · have := boundaryAtOrBelow_le s max; simp; omega

/-- ... that ends on a character boundary. -/
theorem truncate_boundary (s : Bytes) (max : Nat) :
    isCharBoundary s (truncate s max).length = true := by
  unfold truncate; split
  · exact isCharBoundary_length s
  · rename_i h
    have h1 := boundaryAtOrBelow_le s max
    have h2 := boundaryAtOrBelow_boundary s max
    have : (List.take (boundaryAtOrBelow s max) s).length = boundaryAtOrBelow s max := by
      simp; omega
    rw [this]; exact h2

theorem stringTruncate_ok (s : Bytes) (n : Nat) (hb : isCharBoundary s n = true) :
    stringTruncate s n = .ok (s.take n) := by
  unfold stringTruncate
  split
  · rw [List.take_of_length_le (by omega)]
  · simp [hb]

/-- Closed form of the (repaired) `task_message`: it always returns normally. -/
theorem with_eq (msg note : Bytes) (cols : Nat) :
    taskMessageWith msg note cols = .ok
      (if msg.length + note.length ≥ cols
       then msg.take (truncate msg (cols - (note.length + 3))).length ++ ellipsis ++ note
       else msg ++ note) := by
  unfold taskMessageWith
  split
  · simp only [stringTruncate_ok _ _ (truncate_boundary msg _)]
  · rfl

/-- `task_message` never panics, whatever the message bytes, elapsed time and width
    (finding F9: before the repair `String::truncate` was called at a raw byte index). -/
theorem taskMessage_no_panic (msg : Bytes) (secs cols : Nat) :
    ∃ t, taskMessage msg secs cols = .ok t := ⟨_, with_eq _ _ _⟩

theorem noteFor_fits (secs cols : Nat) (hc : 3 ≤ cols) : (noteFor secs cols).length + 3 ≤ cols := by
  unfold noteFor; split
  · simpa using hc
  · omega

theorem with_fits (msg note : Bytes) (cols : Nat) (t : Bytes) (hnote : note.length + 3 ≤ cols)
    (h : taskMessageWith msg note cols = .ok t) : t.length ≤ cols := by
  rw [with_eq] at h
  cases h
  have hl := truncate_len msg (cols - (note.length + 3))
  have hle : (truncate msg (cols - (note.length + 3))).length ≤ msg.length :=
    (truncate_prefix msg _).length_le
  split
  · simp [ellipsis]; omega
  · simp; omega

/-- The rendered task line fits the terminal: at most `cols` bytes, for every width ≥ 3
    (n2 only accepts widths ≥ 10). -/
theorem taskMessage_fits (msg : Bytes) (secs cols : Nat) (t : Bytes) (hc : 3 ≤ cols)
    (h : taskMessage msg secs cols = .ok t) : t.length ≤ cols :=
  with_fits _ _ _ _ (noteFor_fits secs cols hc) h

/-- The cut happens on a character boundary of the message: the result is a boundary-aligned
    prefix of the message, then `...`, then the time note (or nothing). -/
theorem taskMessage_shape (msg : Bytes) (secs cols : Nat) (t : Bytes)
    (h : taskMessage msg secs cols = .ok t) :
    ∃ k, isCharBoundary msg k = true ∧ k ≤ msg.length ∧
      (t = msg.take k ++ ellipsis ++ noteFor secs cols ∨ t = msg ++ noteFor secs cols) := by
  unfold taskMessage at h
  rw [with_eq] at h
  cases h
  split
  · exact ⟨_, truncate_boundary msg _, (truncate_prefix msg _).length_le, Or.inl rfl⟩
  · exact ⟨0, by simp [isCharBoundary], by omega, Or.inr rfl⟩

/-! ### progress bar -/

theorem barStep_len_le (B total : Nat) (acc : Nat × Bytes) (seg : Nat × UInt8)
    (hacc : acc.2.length ≤ B) (hsum : acc.1 + seg.1 ≤ total) (ht : 0 < total) :
    (barStep B total acc seg).2.length ≤ B := by
  have h0 : (acc.1 + seg.1) * B / total ≤ B :=
    Nat.div_le_of_le_mul (Nat.mul_le_mul_right B hsum)
  unfold barStep
  simp only
  split <;> simp_all <;> omega

theorem barStep_final (B total : Nat) (acc : Nat × Bytes) (seg : Nat × UInt8)
    (hacc : acc.2.length ≤ B) (hsum : acc.1 + seg.1 = total) (ht : 0 < total) :
    (barStep B total acc seg).2.length = B := by
  have h0 : (acc.1 + seg.1) * B / total = B := by
    rw [hsum]; exact Nat.mul_div_cancel_left B ht
  unfold barStep
  simp only
  rw [h0]
  split <;> simp_all <;> omega

/-- The bar is exactly its nominal width, for every count vector and every width. -/
theorem progressBar_width (c : Counts) (n : Nat) : (progressBar c n).length = n := by
  unfold progressBar
  simp only
  split
  · simp
  · rename_i ht
    have ht : 0 < c.total := by simp at ht; omega
    simp only [List.foldl_cons, List.foldl_nil]
    have h1 := barStep_len_le n c.total (0, []) (c.done + c.failed, 61) (by simp) (by simp [Counts.total]) ht
    have s1 : (barStep n c.total (0, []) (c.done + c.failed, 61)).1 = c.done + c.failed := by simp [barStep]
    have h2 := barStep_len_le n c.total _ (c.queued + c.running + c.ready, 45) h1 (by rw [s1]; simp [Counts.total]; omega) ht
    have s2 : (barStep n c.total (barStep n c.total (0, []) (c.done + c.failed, 61)) (c.queued + c.running + c.ready, 45)).1
        = c.done + c.failed + (c.queued + c.running + c.ready) := by simp [barStep]
    exact barStep_final n c.total _ (c.want, 32) h2 (by rw [s2]; simp [Counts.total]; omega) ht

/-- Non-vacuity: the F9 witness (a description of 2-byte characters cut in the middle of one)
    now renders, within the width. -/
example : taskMessage [195,169,195,169,195,169,195,169,195,169,195,169] 0 10
    = .ok [195,169,195,169,195,169,46,46,46] := by decide

/-! ### Whole frames (`print_progress`) -/

/-- The rows written for one running task — its message and, if it produced output, its last
    output line — are computed without panicking and each fits the terminal, for every message,
    every output line (any bytes), every age and every width ≥ 3.  The output-line row is two
    blanks followed by a prefix of the (decoded) line that ends on a character boundary. -/
theorem task_rows_fit (t : FrameTask) (cols : Nat) (hc : 3 ≤ cols) :
    ∃ rs, taskRows t cols = .ok rs ∧ (∀ r ∈ rs, r.length ≤ cols) ∧
      (∀ l, t.lastLine = some l → ∃ m p, rs = [m, [32, 32] ++ p] ∧ p <+: l ∧ isCharBoundary l p.length = true) := by
  obtain ⟨m, hm⟩ := taskMessage_no_panic t.message t.secs cols
  have hfit := taskMessage_fits t.message t.secs cols m hc hm
  unfold taskRows
  rw [hm]
  cases hl : t.lastLine with
  | none =>
    refine ⟨[m], rfl, ?_, fun l h => by cases h⟩
    intro r hr; simp at hr; subst hr; exact hfit
  | some l =>
    simp only []
    rw [if_neg (by omega)]
    refine ⟨_, rfl, ?_, ?_⟩
    · intro r hr
      simp only [List.mem_cons, List.not_mem_nil, or_false] at hr
      rcases hr with rfl | rfl
      · exact hfit
      · have := truncate_len l (cols - 2)
        simp only [List.length_append, List.length_cons, List.length_nil]
        omega
    · intro l' h
      cases h
      exact ⟨m, truncate l (cols - 2), rfl, truncate_prefix l _, truncate_boundary l _⟩

theorem all_task_rows_fit (ts : List FrameTask) (cols : Nat) (hc : 3 ≤ cols) :
    ∃ rs, allTaskRows ts cols = .ok rs ∧ ∀ r ∈ rs, r.length ≤ cols := by
  induction ts with
  | nil => exact ⟨[], rfl, fun r hr => by cases hr⟩
  | cons t ts ih =>
    obtain ⟨r1, h1, f1, _⟩ := task_rows_fit t cols hc
    obtain ⟨r2, h2, f2⟩ := ih
    refine ⟨r1 ++ r2, by simp [allTaskRows, h1, h2], ?_⟩
    intro r hr
    rcases List.mem_append.mp hr with h | h
    · exact f1 r h
    · exact f2 r h

/-- **Rendering a frame never panics**, for every count vector, every set of running tasks
    (messages, ages, output lines of any bytes) and every width n2 accepts (≥ 10 columns, or no
    terminal size at all: 80 is assumed). -/
theorem frame_never_panics (c : Counts) (tasks : List FrameTask) (cols : Option Nat)
    (hc : ∀ k, cols = some k → 10 ≤ k) : ∃ out, frame c tasks cols = .ok out := by
  have h3 : 3 ≤ cols.getD 80 := by
    cases cols with
    | none => decide
    | some k => have := hc k rfl; simp; omega
  obtain ⟨rs, hrs, _⟩ := all_task_rows_fit (tasks.take 8) (cols.getD 80) h3
  unfold frame
  simp only [hrs]
  exact ⟨_, rfl⟩

end N2V.C20
