/-
  C08 — Log records follow steps by output name across manifest edits.
-/
import N2V.Lemmas.Db
namespace N2V.C08
open N2V N2V.Db

theorem attrib_obsolete (producer : Bytes → Option Nat) (outs : List Bytes) (u : Option Nat) :
    attrib producer outs u true = u := by
  induction outs generalizing u with
  | nil => rfl
  | cons o os ih => simp [attrib, ih]

theorem attrib_sound_aux (producer : Bytes → Option Nat) (outs : List Bytes) (b : Nat) :
    (attrib producer outs none true = some b → False) ∧
    (∀ u, attrib producer outs (some u) false = some b → u = b ∧ ∀ o ∈ outs, producer o = some b) := by
  induction outs with
  | nil => simp [attrib]
  | cons o os ih =>
    constructor
    · rw [attrib_obsolete]; simp
    · intro u h
      unfold attrib at h
      simp only [Bool.false_eq_true, if_false] at h
      cases hp : producer o with
      | none => simp [hp] at h; exact absurd h (by rw [attrib_obsolete]; simp)
      | some p =>
        simp [hp] at h
        split at h
        · rename_i hup
          obtain ⟨e, hall⟩ := ih.2 u h
          subst e
          exact ⟨rfl, fun x hx => by
            simp at hx; rcases hx with rfl | hx
            · rw [hp, hup]
            · exact hall x hx⟩
        · rw [attrib_obsolete] at h; cases h

/-- **Attribution** (after the repair of finding F6): a record is applied to a step only if
    EVERY output named in it is currently produced by that one step. -/
theorem attribution (producer : Bytes → Option Nat) (outs : List Bytes) (b : Nat)
    (h : attributeRec producer outs = some b) : outs ≠ [] ∧ ∀ o ∈ outs, producer o = some b := by
  unfold attributeRec at h
  cases outs with
  | nil => simp [attrib] at h
  | cons o os =>
    refine ⟨by simp, ?_⟩
    unfold attrib at h
    simp only [Bool.false_eq_true, if_false] at h
    cases hp : producer o with
    | none => simp [hp] at h; exact absurd h (by rw [attrib_obsolete]; simp)
    | some p =>
      simp [hp] at h
      obtain ⟨e, hall⟩ := (attrib_sound_aux producer os b).2 p h
      subst e
      intro x hx
      simp at hx; rcases hx with rfl | hx
      · exact hp
      · exact hall x hx

theorem attrib_complete_aux (producer : Bytes → Option Nat) (outs : List Bytes) (b : Nat)
    (hall : ∀ o ∈ outs, producer o = some b) : attrib producer outs (some b) false = some b := by
  induction outs with
  | nil => rfl
  | cons o os ih =>
    unfold attrib
    simp [hall o (by simp)]
    exact ih (fun x hx => hall x (by simp [hx]))

/-- Conversely a record all of whose outputs belong to one step IS applied to it: edits that
    keep a step's outputs (reordering statements, other steps, renamed rules or variables,
    comments, includes) do not detach its record — ids in the log are resolved through names. -/
theorem attribution_complete (producer : Bytes → Option Nat) (outs : List Bytes) (b : Nat)
    (hne : outs ≠ []) (hall : ∀ o ∈ outs, producer o = some b) : attributeRec producer outs = some b := by
  unfold attributeRec
  cases outs with
  | nil => exact absurd rfl hne
  | cons o os =>
    unfold attrib
    simp [hall o (by simp)]
    exact attrib_complete_aux producer os b (fun x hx => hall x (by simp [hx]))

/-- Moving an output to another step, or dropping it, makes the old record unusable rather than
    misapplied. -/
theorem moved_output_unusable (producer : Bytes → Option Nat) (outs : List Bytes) (o : Bytes) (b : Nat)
    (ho : o ∈ outs) (hmoved : producer o ≠ some b) : attributeRec producer outs ≠ some b := by
  intro h
  exact hmoved ((attribution producer outs b h).2 o ho)

/-- Latest wins: once a record is attributed to a step it is the one in force for that step. -/
theorem latest_wins (producer : Bytes → Option Nat) (st st' : LoadState) (outs deps : List Nat) (hash b : Nat)
    (os ds : List Bytes) (ho : namesOf st.names outs = .ok os) (hd : namesOf st.names deps = .ok ds)
    (ha : attributeRec producer os = some b)
    (h : loadRec producer st (.build outs deps hash) = .ok st') :
    latest st' b = some ⟨os, ds, hash⟩ := by
  unfold loadRec at h
  simp [ho, hd, ha] at h
  subst h
  simp [latest]

/-- What is written is what is read, for any number of outputs and dependencies within the
    field widths, any path bytes (the payload of C07's round trip). -/
theorem roundtrip (r : Rec) (rest : Bytes) (hf : r.fits) :
    decodeRec (encode r ++ rest) = some (r, rest) := decodeRec_encode r rest hf

/-- Beyond the field widths nothing is written at all (repair of finding F7), so the log is never
    mis-framed; the step simply has no record and stays dirty. -/
theorem oversize_writes_nothing (known outs deps : List Bytes) (hash : Nat)
    (h : outs.length ≥ 0x8000 ∨ deps.length ≥ 0x10000) :
    writeBuild known outs deps hash = ([], known) := by
  unfold writeBuild; simp [h]

/-- Non-vacuity / F6 witness: a record for `[a, b]` is not applied to a step that now produces
    only `a`, in either output order. -/
example : attributeRec (fun n => if n = [97] then some 0 else none) [[97], [98]] = none := by decide
example : attributeRec (fun n => if n = [97] then some 0 else none) [[98], [97]] = none := by decide

end N2V.C08
