/-
  C06 — Every invocation terminates with a decision for every wanted step.
-/
import N2V.Lemmas.SchedExamples
import N2V.Lemmas.SchedTerm
import N2V.Lemmas.SchedCycle
import N2V.Model.Run
import N2V.Lemmas.LoadSched
import N2V.Lemmas.SchedWantTerm
import N2V.Lemmas.SchedAcyclic
import N2V.Lemmas.SchedReg
namespace N2V.C06
open N2V N2V.Sched

/-- A cycle (or any other error while collecting the wanted set) is reported before the run
    loop is entered: the invocation ends with that diagnostic, and the state it leaves has
    exactly the late (queued/running/done/failed) builds of a fresh `Work` — none: no command
    was started, no step of the cycle ran. -/
theorem want_error_runs_nothing {E : Type} (g : Graph) (a : Run.Args) (c : Choices E) (e : E) (m : String) (s1 : S)
    (h : want g (Run.fresh a) a.manifest = .err m s1) :
    Run.build g a c e = (s1, e, .err m) ∧ ∀ b, s1.st b ≠ .running ∧ s1.st b ≠ .done := by
  constructor
  · unfold Run.build; simp only [h]
  · intro b
    have e := (want_lateEq_err g _ _ _ _ h).1 b
    have h0 : (Run.fresh a).st b = .unknown := rfl
    constructor
    · intro hr
      have := (e .running (Or.inr (Or.inl rfl))).mp hr
      rw [h0] at this; cases this
    · intro hr
      have := (e .done (Or.inr (Or.inr (Or.inl rfl)))).mp hr
      rw [h0] at this; cases this

/-- The cycle diagnostic has the documented shape. -/
theorem cycle_message_shape (g : Graph) (stack : List Nat) (id : Nat) :
    cycleMessage g stack id =
      "dependency cycle: " ++ " -> ".intercalate ((stack ++ [id]).map (fun f => stringOfBytes (g.fileName f))) := rfl

/-- A build never waits for its validation targets: the readiness test does not look at
    validation inputs at all. -/
theorem never_waits_for_validation (g g' : Graph) (s : S) (id : Nat)
    (hord : (g.build id).ordering = (g'.build id).ordering) (hprod : g.producer = g'.producer) :
    recheckReady g s id = recheckReady g' s id := by
  unfold recheckReady; rw [hord, hprod]

/-- The loops of `Work::run` are total: `start`/`ready` loops and the main loop always return
    (structural recursion on their fuel), and with no failure on record the only exits are
    success, an error, or the explicit BUG outcome — which the correspondence run checks is never
    observed (monitor `decided`). -/
theorem run_returns {E : Type} (g : Graph) (par : Nat) (c : Choices E) (s : S) (e : E) :
    ∃ out, run g par c s e = out := ⟨_, rfl⟩

/-- The want phase keeps a state inherited from the manifest-regeneration phase: steps already
    settled there stay settled. -/
theorem inherited_state_kept (g : Graph) (s s' : S) (f : Nat) (h : want g s f = .ok () s') (b : Nat)
    (hb : s.st b = .done) : s'.st b = .done :=
  ((want_lateEq' g s s' f h).1 b .done (Or.inr (Or.inr (Or.inl rfl)))).mpr hb

/-! ### Whole invocations -/

/-- **n2 never aborts with its internal error** (`BUG: no work to do and runner not running`):
    for every graph without a cycle of ordering edges (`Acyclic`: producers rank below consumers;
    validation edges are unconstrained) whose cross references are consistent (`DepsOK`, what
    `Graph::add_build` establishes), every `-j ≥ 1`, every argument vector and every behaviour of
    the environment — which steps are dirty, in which order commands finish, which fail, whether
    one is interrupted.  The proof carries, next to the scheduler invariant, the converse
    bookkeeping facts (`PInv`): a `Ready` build is in the ready queue, a `Queued` one in its pool's
    queue, a `Want` one has a producer that is not `Done`, producers of wanted builds are wanted,
    a `Failed` build was counted — through the want phase (with its re-entrant visits) and every
    step of `Work::run`; in the state where the panic would fire these leave only `Want` builds,
    each waiting for another, which acyclicity forbids. -/
theorem never_internal_error {E : Type} {g : Graph} (gok : GraphOK g) (dok : DepsOK g) (acyc : Acyclic g)
    (a : Run.Args) (hpar : 0 < a.par) (c : Choices E) (e : E) :
    (Run.build g a c e).2.2 ≠ .bug ∧ ∀ n0, (Run.buildReloaded g a c e n0).2.2 ≠ .bug :=
  ⟨Run.build_no_bug gok dok acyc a hpar c e, fun n0 => Run.buildReloaded_no_bug gok dok acyc a hpar c e n0⟩

/-- **Success means every wanted step is up to date**: when `run::build` reports success, every
    build is `Done` or was never wanted; nothing is left waiting, queued, running or failed. -/
theorem success_means_all_up_to_date {E : Type} {g : Graph} (gok : GraphOK g) (dok : DepsOK g)
    (acyc : Acyclic g) (a : Run.Args) (hpar : 0 < a.par) (c : Choices E) (e : E) (n : Nat)
    (h : (Run.build g a c e).2.2 = .done n) (b : Nat) :
    (Run.build g a c e).1.st b = .unknown ∨ (Run.build g a c e).1.st b = .done :=
  Run.build_done_settled gok dok acyc a hpar c e n h b

/-- The situation the panic guards against, stated on its own: with the invariants, "something
    pending, nothing ready, nothing startable, nothing running, nothing failed" is contradictory. -/
theorem no_stall_state {g : Graph} {par : Nat} {s : S} (inv : Inv g par s) (pi : PInv g s) (acyc : Acyclic g)
    (hpar : 0 < par) (hpend : ¬ s.pending ≤ 0) (hready : s.ready = [])
    (hpop : ¬ s.running < par ∨ popQueued s.pools = none) (hrun : s.running ≤ 0)
    (htf : s.tasksFailed = 0) : False :=
  no_stall inv pi acyc hpar hpend hready hpop hrun htf

/-- The example graph `b <- c` satisfies the hypotheses (they are not vacuous). -/
example : DepsOK Ex.g0 ∧ Acyclic Ex.g0 := by
  refine ⟨⟨?_, ?_⟩, ⟨fun b => b, ?_⟩⟩
  · intro f p h
    unfold Ex.g0 at h ⊢
    simp only at h ⊢
    split at h
    · cases h; rename_i hf; subst hf; decide
    · split at h
      · cases h; rename_i hf; subst hf; decide
      · cases h
  · intro b f hf
    unfold Ex.g0 at hf ⊢
    simp only at hf ⊢
    split at hf
    · cases hf
    · split at hf
      · simp at hf; subst hf; rename_i hb; simp [hb]
      · cases hf
  · intro b f p hf hp
    unfold Ex.g0 at hf hp
    simp only at hf hp
    split at hf
    · cases hf
    · split at hf
      · simp at hf; subst hf
        simp at hp; subst hp
        rename_i hb0 hb; show (0 : Nat) < b; omega
      · cases hf

/-- **A reported dependency cycle is real**: when `Work::want_file` fails, the message is
    `dependency cycle: f0 -> f1 -> ... -> f0` over files each of which is an explicit, implicit or
    order-only input of the step producing its predecessor (`Linked`), and the list returns to its
    first file.  Validation inputs are visited with a fresh stack, so a cycle closed only by a
    validation edge is never reported (and, by `want_error_runs_nothing`, no step runs after a
    cycle error). -/
theorem cycle_diagnostic_sound (g : Graph) (s s' : S) (f : Nat) (m : String) (h : want g s f = .err m s') :
    ∃ (c : List Nat) (x : Nat), m = cycleMessage g c x ∧ c.head? = some x ∧ Linked g (c ++ [x]) :=
  want_cycle_sound g s s' f m h

/-- **`Work::run` terminates**: in both phases of `run::build` the loops end for a reason of their
    own — success, failure, interruption, an error, or the environment supplying no further
    completion — never because the model's fuel ran out (`6·(#builds+1)+2` rounds of the outer loop,
    `#builds+1` of the start and ready loops).  Every round of the outer loop that continues moves
    a build forward in Unknown < Want < Ready < Queued < Running < Done < Failed (`gain`, bounded by
    6 per build: `gain_eq`); every start takes a build out of the Queued stock and every round of
    the ready loop one out of the Want/Ready stock.  (The want phase's own recursion is covered by
    `want_phase_terminates` below.) -/
theorem run_loops_terminate {E : Type} {g : Graph} (gok : GraphOK g) (a : Run.Args) (c : Choices E) (e : E) :
    (Run.build g a c e).2.2 ≠ .fuel ∧ ∀ n0, (Run.buildReloaded g a c e n0).2.2 ≠ .fuel :=
  ⟨Run.build_no_fuel gok a c e, fun n0 => Run.buildReloaded_no_fuel gok a c e n0⟩

/-- **The hypotheses about the graph hold of every graph an invocation schedules on**: whatever the
    file system and the log contain, the graph `load::read` returns (manifest, includes, then the log's
    recorded dependency names interned) has every producer id in range, every producer listing its
    file, and every step registered as a dependent of its ordering inputs — `GraphOK` and `DepsOK` as
    used by the scheduler theorems of C01/C04/C05/C06/C18/C19.  Acyclicity is the property's own
    premise (n2 reports a cycle instead). -/
theorem loaded_graph_meets_hypotheses (w : Work.World) (m : Bytes) (l : Load.Loader) (e0 : Work.Env)
    (h : Work.loadEnv w m = .ok (l, e0)) :
    GraphOK (Work.schedGraph e0.g) ∧ DepsOK (Work.schedGraph e0.g) :=
  (Work.loadEnv_graph_ok w m l e0 h).2

/-- Hence, for every world and every loadable manifest without ordering cycles, the whole
    invocation never ends in n2's internal-error state. -/
theorem never_internal_error_loaded (w : Work.World) (m : Bytes) (l : Load.Loader) (e0 : Work.Env)
    (h : Work.loadEnv w m = .ok (l, e0)) (acyc : Acyclic (Work.schedGraph e0.g))
    (a : Run.Args) (hpar : 0 < a.par) (c : Choices Work.Env) :
    (Run.build (Work.schedGraph e0.g) a c e0).2.2 ≠ .bug :=
  (never_internal_error (loaded_graph_meets_hypotheses w m l e0 h).1 (loaded_graph_meets_hypotheses w m l e0 h).2
    acyc a hpar c e0).1

/-- **The want phase terminates**: `Work::want_file` — the mutually recursive `want_file` /
    `want_build` with its loops over ordering and validation inputs, including re-entrant visits
    through validation edges and input lists of any length (repeated inputs included) — never
    runs out of the model's fuel `wantFuel g = (longest input list + 3)·(#builds+1)·(#files+1) + 2`,
    for every graph whose producers and inputs are in range, every state and every file; likewise
    the marking of command-line targets, `default`s, or every file.  Measure: (#builds still
    Unknown)·(#files+1) + #files not on the cycle stack; a producer edge pushes a file that is not
    on the stack, a validation edge is crossed only after its build left Unknown. -/
theorem want_phase_terminates (g : Graph) (gok : GraphOK g) (fok : FilesOK g) (s : S) :
    (∀ f, f < g.nFiles → FuelOK (want g s f)) ∧
    (∀ fs, (∀ f ∈ fs, f < g.nFiles) → FuelOK (Run.wantAll g s fs)) ∧
    (∀ a ns, FuelOK (Run.wantTargets g a s ns)) :=
  ⟨fun f hf => want_never_out_of_fuel g gok fok s f hf,
   fun fs hfs => Run.wantAll_fuelOK g gok fok fs hfs s,
   fun a ns => Run.wantTargets_fuelOK g gok fok a ns s⟩

/-- ... and its hypotheses hold of every graph an invocation schedules on. -/
theorem want_phase_terminates_loaded (w : Work.World) (m : Bytes) (l : Load.Loader) (e0 : Work.Env)
    (h : Work.loadEnv w m = .ok (l, e0)) (s : S) (f : Nat) (hf : f < (Work.schedGraph e0.g).nFiles) :
    FuelOK (want (Work.schedGraph e0.g) s f) :=
  want_never_out_of_fuel _ (Work.loadEnv_graph_ok w m l e0 h).2.1
    (Work.schedGraph_filesOK e0.g (Work.loadEnv_graph_ok w m l e0 h).1) s f hf

/-- Non-vacuity / the case that exposed the old bound: one step listing the same input 40 times
    (`build out: cc a a a …`) is marked without running out of fuel. -/
def exRepeated : Graph :=
  { nBuilds := 1, nFiles := 2,
    build := fun _ => { ordering := List.replicate 40 1, validation := [], outs := [0], phony := false, pool := [] },
    producer := fun f => if f = 0 then some 0 else none,
    dependents := fun _ => [], fileName := fun _ => [] }

example : (match want exRepeated (init [] none) 0 with | .ok _ _ => true | _ => false) = true := by
  decide

/-- **A dependency cycle among the requested steps is always diagnosed** (completeness of the
    cycle check).  `want_build` marks a build only after its ordering inputs have been walked, so
    whenever `Work::want_file f` SUCCEEDS from a state in which nothing is marked yet, no build
    that `f` needs - through explicit, implicit, order-only or validation inputs - is its own
    ordering ancestor.  Contrapositive: if a step the target needs lies on a cycle of ordering
    edges, `want_file` does not succeed; it cannot run out of fuel (`want_phase_terminates`), so it
    returns the `dependency cycle:` error (`cycle_diagnostic_sound`: a real one), and then nothing
    runs (`want_error_runs_nothing`).  A cycle closed only by a validation edge is not an ordering
    cycle and is accepted. -/
theorem cycle_among_requested_steps_is_diagnosed (g : Graph) (s s' : S) (f : Nat) (hfresh : ∀ b, s.st b = .unknown)
    (h : want g s f = .ok () s') : ∀ b, Needs g f b → ¬ Anc g b b := by
  have hc0 : ClosedX g s [] := fun b _ hb => absurd (hfresh b) hb
  obtain ⟨_, hmarked⟩ := want_complete g s s' f hc0 h
  have hai := want_acyclic g s s' f (ai_of_unmarked g s hfresh) h
  intro b hn
  exact hai.acyc b (hmarked b hn)

/-- The same along a sequence of successful `want_file`s (several targets, defaults, every file):
    the invariant is kept from one call to the next. -/
theorem cycle_free_ground_is_kept (g : Graph) (s s' : S) (f : Nat) (hai : AI g s) (h : want g s f = .ok () s') :
    AI g s' := want_acyclic g s s' f hai h

/-- **No internal error on ANY graph** (the acyclicity hypothesis of `never_internal_error` is not
    needed): for every graph with consistent cross references - cyclic or not -, `-j ≥ 1` and every
    behaviour of the environment, `run::build` never ends in `BUG: no work to do and runner not
    running`.  If the requested steps contain an ordering cycle the want phase returns the cycle
    error and nothing runs; if it succeeds, the marked builds admit a rank (`regAcyc_of_ai`: number
    of ordering ancestors) and `Work::run`, which never marks a new build, cannot stall. -/
theorem never_internal_error_on_any_graph {E : Type} {g : Graph} (gok : GraphOK g) (dok : DepsOK g)
    (a : Run.Args) (hpar : 0 < a.par) (c : Choices E) (e : E) : (Run.build g a c e).2.2 ≠ .bug :=
  Run.build_no_bug_free gok dok a hpar c e

/-- **Success means every wanted step is up to date, on any graph.** -/
theorem success_means_all_up_to_date_on_any_graph {E : Type} {g : Graph} (gok : GraphOK g) (dok : DepsOK g)
    (a : Run.Args) (hpar : 0 < a.par) (c : Choices E) (e : E) (n : Nat)
    (h : (Run.build g a c e).2.2 = .done n) (b : Nat) :
    (Run.build g a c e).1.st b = .unknown ∨ (Run.build g a c e).1.st b = .done :=
  Run.build_done_settled_free gok dok a hpar c e n h b

end N2V.C06
