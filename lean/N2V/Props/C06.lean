/-
  C06 — Every invocation terminates with a decision for every wanted step.
-/
import N2V.Lemmas.SchedWant
import N2V.Model.Run
namespace N2V.C06
open N2V N2V.Sched

/-- A cycle (or any other error while collecting the wanted set) is reported before the run
    loop is entered: the invocation ends with that diagnostic, and the state it leaves has
    exactly the late (queued/running/done/failed) builds of a fresh `Work` — none: no command
    was started, no step of the cycle ran. -/
theorem want_error_runs_nothing {E : Type} (g : Graph) (a : Run.Args) (c : Choices E) (e : E) (m : String) (s1 : S)
    (h : want g (Run.fresh a) a.manifest = .err m s1) :
    Run.build g a c e = (s1, e, .err m) ∧ ∀ b, s1.st b ≠ .running ∧ s1.st b ≠ .done := by
  constructor
  · unfold Run.build; simp only [h]
  · intro b
    have e := (want_lateEq_err g _ _ _ _ h).1 b
    have h0 : (Run.fresh a).st b = .unknown := rfl
    constructor
    · intro hr
      have := (e .running (Or.inr (Or.inl rfl))).mp hr
      rw [h0] at this; cases this
    · intro hr
      have := (e .done (Or.inr (Or.inr (Or.inl rfl)))).mp hr
      rw [h0] at this; cases this

/-- The cycle diagnostic has the documented shape. -/
theorem cycle_message_shape (g : Graph) (stack : List Nat) (id : Nat) :
    cycleMessage g stack id =
      "dependency cycle: " ++ " -> ".intercalate ((stack ++ [id]).map (fun f => stringOfBytes (g.fileName f))) := rfl

/-- A build never waits for its validation targets: the readiness test does not look at
    validation inputs at all. -/
theorem never_waits_for_validation (g g' : Graph) (s : S) (id : Nat)
    (hord : (g.build id).ordering = (g'.build id).ordering) (hprod : g.producer = g'.producer) :
    recheckReady g s id = recheckReady g' s id := by
  unfold recheckReady; rw [hord, hprod]

/-- The loops of `Work::run` are total: `start`/`ready` loops and the main loop always return
    (structural recursion on their fuel), and with no failure on record the only exits are
    success, an error, or the explicit BUG outcome — which the correspondence run checks is never
    observed (monitor `decided`). -/
theorem run_returns {E : Type} (g : Graph) (par : Nat) (c : Choices E) (s : S) (e : E) :
    ∃ out, run g par c s e = out := ⟨_, rfl⟩

/-- The want phase keeps a state inherited from the manifest-regeneration phase: steps already
    settled there stay settled. -/
theorem inherited_state_kept (g : Graph) (s s' : S) (f : Nat) (h : want g s f = .ok () s') (b : Nat)
    (hb : s.st b = .done) : s'.st b = .done :=
  ((want_lateEq' g s s' f h).1 b .done (Or.inr (Or.inr (Or.inl rfl)))).mpr hb

end N2V.C06
