/-
  C16 — Commands run as written and their output is shown intact.
  The logic is proved here; process spawning, descriptor inheritance, pipes and signals are
  observed on the real `run_command` and the real binary (see DESIGN.md §7 C16).
-/
import N2V.Model.Task
namespace N2V.C16
open N2V N2V.Task

/-- **Exit status 0 is success, any other status is a failure** — for every exit code. -/
theorem exit_status (c : Nat) :
    decodeStatus (exitStatus c) = (if c % 256 = 0 then .success else .failure) := by
  unfold decodeStatus exitStatus
  have h1 : (c % 256 * 256) % 128 = 0 := by omega
  have h2 : (c % 256 * 256) / 256 % 256 = c % 256 := by omega
  simp only [h1, h2, beq_self_eq_true, if_true]
  split <;> simp_all

/-- **A signal is a failure, SIGINT an interruption** — for every terminating signal, with or
    without the core-dump flag. -/
theorem signal_status (s : Nat) (core : Bool) (h1 : 1 ≤ s) (h2 : s ≤ 126) :
    decodeStatus (signalStatus s core) = (if s = SIGINT then .interrupted else .failure) := by
  unfold decodeStatus signalStatus
  have hl : (s + if core = true then 128 else 0) % 128 = s := by
    cases core <;> simp <;> omega
  simp only [hl]
  have n0 : (s == 0) = false := by simp; omega
  have n127 : (s == 127) = false := by simp; omega
  simp only [n0, n127, Bool.false_eq_true, if_false]
  split <;> simp_all

/-- Cut a stream into reads of the given sizes (the last read takes the rest). -/
def cutAt : Bytes → List Nat → List Bytes
  | s, [] => [s]
  | s, n :: ns => s.take n :: cutAt (s.drop n) ns

/-- **Every byte, in order, whatever the read boundaries**: however the kernel cuts the
    command's output into reads, what `run_task` accumulates is the stream. -/
theorem chunks_reassemble (s : Bytes) (sizes : List Nat) : accumulate (cutAt s sizes) = s := by
  induction sizes generalizing s with
  | nil => simp [cutAt, accumulate]
  | cons n ns ih =>
    simp only [cutAt, accumulate, List.flatten_cons]
    have := ih (s.drop n)
    simp only [accumulate] at this
    rw [this, List.take_append_drop]

/-- The pieces `DumbConsoleProgress` prints, one per callback. -/
def piece (last : Option Nat) : PEv → Bytes
  | .started _ msg => msg ++ [NL]
  | .finished id msg t output hide =>
    (match t with
      | .success => if output.isEmpty || last == some id then [] else msg ++ [NL]
      | .interrupted => "interrupted: ".toUTF8.toList ++ msg ++ [NL]
      | .failure => "failed: ".toUTF8.toList ++ msg ++ [NL])
    ++ (if output.isEmpty || (t == .success && hide) then [] else output)

def lastAfter (last : Option Nat) : PEv → Option Nat
  | .started id _ => some id
  | .finished .. => last

def pieces : List PEv → Option Nat → List Bytes
  | [], _ => []
  | e :: rest, last => piece last e :: pieces rest (lastAfter last e)

/-- **Printed once, contiguously, when it finishes**: the console stream is the concatenation,
    in callback order, of one piece per callback; the piece of a finished command is its header
    followed by its whole output as one block (or nothing, when the output is empty or the rule
    hides successful output) — for every interleaving of starts and finishes. -/
theorem printed_once (evs : List PEv) (last : Option Nat) :
    dumbPrint evs last = (pieces evs last).flatten := by
  induction evs generalizing last with
  | nil => rfl
  | cons e rest ih =>
    cases e with
    | started id msg => simp [dumbPrint, pieces, piece, lastAfter, ih]
    | finished id msg t output hide =>
      cases t <;> simp [dumbPrint, pieces, piece, lastAfter, ih, List.append_assoc]

/-- A failed or interrupted command's output is never hidden. -/
theorem failure_output_shown (last : Option Nat) (id : Nat) (msg output : Bytes) (hide : Bool)
    (hne : output ≠ []) :
    ∃ header, piece last (.finished id msg .failure output hide) = header ++ output := by
  refine ⟨"failed: ".toUTF8.toList ++ msg ++ [NL], ?_⟩
  have : output.isEmpty = false := by cases output <;> simp_all
  simp [piece, this]

/-- `/showIncludes` filtering, characterised: the includes are the payloads of the note lines in
    order, and what is shown is the other lines, in order, re-joined — no note line survives
    and no other line is lost (finding F10 repaired: leading empty lines stay). -/
def isNote (l : Bytes) : Bool := (stripPrefix notePrefix l).isSome

def joinLines : List Bytes → Bytes
  | [] => []
  | [l] => l
  | l :: rest => l ++ [NL] ++ joinLines rest

theorem extractLines_spec (ls : List Bytes) (first : Bool) (incs : List Bytes) (out : Bytes) :
    extractLines ls first incs out =
      (incs ++ (ls.filterMap (stripPrefix notePrefix)).map notePayload,
       match ls.filter (fun l => !isNote l) with
       | [] => out
       | kept => if first then out ++ joinLines kept else out ++ [NL] ++ joinLines kept) := by
  induction ls generalizing first incs out with
  | nil => simp [extractLines]
  | cons l rest ih =>
    unfold extractLines
    cases hs : stripPrefix notePrefix l with
    | some inc =>
      simp only
      rw [ih]
      have hn : isNote l = true := by simp [isNote, hs]
      simp [List.filterMap_cons, hs, List.filter_cons, hn]
    | none =>
      simp only
      rw [ih]
      have hn : isNote l = false := by simp [isNote, hs]
      simp only [List.filterMap_cons, hs, List.filter_cons, hn, Bool.not_false, if_true]
      cases hk : rest.filter (fun l => !isNote l) with
      | nil => cases first <;> simp [joinLines]
      | cons k ks => cases first <;> simp [joinLines, List.append_assoc]

theorem showincludes_spec (output : Bytes) :
    extractShowIncludes output =
      (((splitNL output []).filterMap (stripPrefix notePrefix)).map notePayload,
       joinLines ((splitNL output []).filter (fun l => !isNote l))) := by
  unfold extractShowIncludes
  rw [extractLines_spec]
  simp only [List.nil_append, Bool.true_eq_false, if_true]
  cases (splitNL output []).filter (fun l => !isNote l) <;> simp [joinLines]

/-! ### Output directories -/

theorem createParentDirs_done (outs done : List Bytes) :
    ∀ d ∈ done, d ∈ createParentDirs outs done := by
  induction outs generalizing done with
  | nil => intro d hd; exact hd
  | cons o os ih =>
    intro d hd
    unfold createParentDirs
    simp only []
    split
    · exact ih done d hd
    · exact ih _ d (by simp [hd])

/-- The parent of every output is handed to `create_dir_all` (whatever else the step lists,
    in whatever order, however the directories nest). -/
theorem createParentDirs_covers (outs done : List Bytes) :
    ∀ o ∈ outs, parentOf o ∈ createParentDirs outs done := by
  induction outs generalizing done with
  | nil => intro o ho; cases ho
  | cons o' os ih =>
    intro o ho
    unfold createParentDirs
    simp only []
    simp at ho
    rcases ho with rfl | ho
    · split
      · rename_i hc; exact createParentDirs_done os done _ (by simpa using hc)
      · exact createParentDirs_done os _ _ (by simp)
    · split
      · exact ih done o ho
      · exact ih _ o ho

theorem splitSlash_length_pos (l cur : Bytes) : 0 < (splitSlash l cur).length := by
  induction l generalizing cur with
  | nil => simp [splitSlash]
  | cons c r ih => unfold splitSlash; split <;> simp [ih]

theorem joinSlash_splitSlash (l cur : Bytes) : joinSlash (splitSlash l cur) = cur ++ l := by
  induction l generalizing cur with
  | nil => simp [splitSlash, joinSlash]
  | cons c r ih =>
    unfold splitSlash
    split
    · rename_i hc
      have hpos := splitSlash_length_pos r []
      cases hx : splitSlash r [] with
      | nil => rw [hx] at hpos; simp at hpos
      | cons y ys =>
        have := ih []
        rw [hx] at this
        simp only [joinSlash, this]
        have : c = SLASH := by simpa using hc
        simp [this]
    · rw [ih]; simp

theorem dirAndAncestors_self (d : Bytes) (hd : d ≠ []) (hj : joinSlash (splitSlash d []) = d) :
    d ∈ dirAndAncestors d := by
  unfold dirAndAncestors
  have : d.isEmpty = false := by cases d <;> simp_all
  simp only [this, Bool.false_eq_true, if_false, List.mem_map, List.mem_range]
  have hl := splitSlash_length_pos d []
  refine ⟨(splitSlash d []).length - 1, by omega, ?_⟩
  rw [show (splitSlash d []).length - 1 + 1 = (splitSlash d []).length by omega, List.take_length]
  exact hj

/-- **Every output's directory exists when the command starts**: the (non-empty) parent of every
    output is among the directories made before the command, for every list of outputs. -/
theorem output_dirs_exist (outs : List Bytes) (o : Bytes) (ho : o ∈ outs) (hne : parentOf o ≠ []) :
    parentOf o ∈ dirsBeforeCommand outs := by
  unfold dirsBeforeCommand
  simp only [List.mem_flatMap]
  exact ⟨parentOf o, createParentDirs_covers outs [] o ho, dirAndAncestors_self _ hne (by simpa using joinSlash_splitSlash (parentOf o) [])⟩

/-- Non-vacuity and a concrete instance: `build sub/x.txt sub/deep/y.txt` — both `sub` and
    `sub/deep` exist (the shape a prefix-based "already made" shortcut gets wrong). -/
example : dirsBeforeCommand [[115,117,98,47,120], [115,117,98,47,100,101,101,112,47,121]]
    = [[115,117,98], [115,117,98], [115,117,98,47,100,101,101,112]] := by decide

/-- The same along a whole invocation in which earlier commands removed directory trees: the
    directories are made again before EVERY command, so whatever existed or was removed before,
    the parent of each of a step's outputs exists when that step's command starts. -/
theorem output_dirs_exist_every_step (steps : List (List Bytes × Option Bytes)) (existing : List Bytes)
    (i : Nat) (outs : List Bytes) (rm : Option Bytes) (hi : steps[i]? = some (outs, rm))
    (o : Bytes) (ho : o ∈ outs) (hne : parentOf o ≠ []) :
    ∃ atStart, (chainDirs steps existing)[i]? = some atStart ∧ parentOf o ∈ atStart := by
  induction steps generalizing existing i with
  | nil => simp at hi
  | cons st rest ih =>
    obtain ⟨outs0, rm0⟩ := st
    cases i with
    | zero =>
      simp only [List.getElem?_cons_zero, Option.some.injEq, Prod.mk.injEq] at hi
      obtain ⟨rfl, rfl⟩ := hi
      refine ⟨(existing ++ dirsBeforeCommand outs0).eraseDups, by simp [chainDirs], ?_⟩
      rw [List.mem_eraseDups]
      exact List.mem_append_right _ (output_dirs_exist outs0 o ho hne)
    | succ j =>
      simp only [List.getElem?_cons_succ] at hi
      obtain ⟨a, h1, h2⟩ := ih _ j hi
      exact ⟨a, by simpa [chainDirs] using h1, h2⟩

end N2V.C16
