/-
  A declarative specification of scheduler traces: what every single observable event must
  satisfy with respect to the history before it.  It is decidable, so the driver evaluates it
  on the trace recorded from the real n2 (monitor `traceSpec`), and Lemmas/SchedTrace proves
  that EVERY trace the model can produce — any graph, arguments, environment behaviour, and
  whatever the outcome — satisfies it.  Props C01/C04/C05/C19 derive their "at every instant"
  statements from it by reasoning about traces alone.
-/
import N2V.Lemmas.SchedInv
namespace N2V.Sched

/-- Build states reconstructed from a trace (newest event first): the last `set` of a build
    since the last (re)load. -/
def stOf : List Ev → Nat → St
  | [] => fun _ => .unknown
  | .set id _ new _ _ :: tr => upd (stOf tr) id new
  | .load :: _ => fun _ => .unknown
  | _ :: tr => stOf tr

def stateList : List St := [.want, .ready, .queued, .running, .done, .failed]

/-- The six UI counts as they should be for the states `st`. -/
def exactCounts (g : Graph) (st : Nat → St) : List Int :=
  stateList.map (fun x => (cnt g.nBuilds (fun b => st b == x && !(g.build b).phony) : Int))

/-- The state transitions n2 makes.  Nothing leaves `Done`/`Failed`, nothing returns to
    `Unknown`, a command starts only from `Queued`, finishes only from `Running`. -/
def legal : St → St → Bool
  | .unknown, .want | .unknown, .ready | .want, .want | .want, .ready
  | .ready, .queued | .ready, .done | .queued, .running | .running, .done | .running, .failed => true
  | _, _ => false

/-- Every ordering input of `b` that some build produces has that build `Done`. -/
def directDone (g : Graph) (st : Nat → St) (b : Nat) : Bool :=
  (g.build b).ordering.all (fun f => match g.producer f with | none => true | some p => st p == .done)

/-- `-j` and every pool depth are respected by the states `st`. -/
def withinLimits (g : Graph) (par : Nat) (shape : List (Bytes × Nat)) (st : Nat → St) : Bool :=
  decide (cnt g.nBuilds (fun x => st x == .running) ≤ par) &&
  shape.all (fun nd => nd.2 == 0 ||
    decide (cnt g.nBuilds (fun x => st x == .running && (g.build x).pool == nd.1) ≤ nd.2))

/-- What one event must satisfy after the history `tr`.  `shape` = pool names and depths. -/
def okEv (g : Graph) (par : Nat) (shape : List (Bytes × Nat)) (tr : List Ev) : Ev → Bool
  | .set id prev new cs pend =>
    decide (id < g.nBuilds) && prev == stOf tr id && legal prev new &&
    cs == exactCounts g (upd (stOf tr) id new) &&
    pend == (cnt g.nBuilds (fun b => active (upd (stOf tr) id new b)) : Int) &&
    (new != .ready || directDone g (stOf tr) id) &&
    (new != .running || withinLimits g par shape (upd (stOf tr) id new))
  | .update cs => cs == exactCounts g (stOf tr)
  | .start b =>
    (match tr with | .set b' .queued .running _ _ :: _ => b' == b | _ => false) &&
    withinLimits g par shape (stOf tr) &&
    shape.any (fun nd => nd.1 == (g.build b).pool) &&
    directDone g (stOf tr) b
  | .finish b _ => stOf tr b == .running
  | .load => true

def okTrace (g : Graph) (par : Nat) (shape : List (Bytes × Nat)) : List Ev → Bool
  | [] => true
  | e :: tr => okEv g par shape tr e && okTrace g par shape tr

def poolShape (ps : List Pool) : List (Bytes × Nat) := ps.map (fun p => (p.name, p.depth))

end N2V.Sched
