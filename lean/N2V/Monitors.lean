/-
  Decidable predicates on OBSERVED scheduler traces.  The driver evaluates them on the trace
  recorded from the real n2 (so a property failure of the implementation is decided by these
  definitions, not by the harness), and Props/* relate them to the model.
-/
import N2V.Model.Run
import N2V.TraceSpec
import N2V.Lemmas.SchedFrame
namespace N2V.Mon
open N2V N2V.Sched

/-- Builds that (transitively) produce an ordering input of `b`. -/
def orderingProducers (g : Graph) (b : Nat) : List Nat :=
  dedup ((g.build b).ordering.filterMap g.producer)

def allProducers (g : Graph) (b : Nat) : List Nat :=
  dedup (((g.build b).ordering ++ (g.build b).validation).filterMap g.producer)

/-- Transitive closure of `next` from `frontier` (bounded by the number of builds). -/
def closure (next : Nat → List Nat) : Nat → List Nat → List Nat → List Nat
  | 0, _, acc => acc
  | _ + 1, [], acc => acc
  | fuel + 1, b :: rest, acc =>
    if acc.contains b then closure next fuel rest acc
    else closure next fuel (next b ++ rest) (b :: acc)

def ancestors (g : Graph) (b : Nat) : List Nat :=
  closure (orderingProducers g) (g.nBuilds * g.nBuilds + g.nBuilds + 1) (orderingProducers g b) []

structure Scan where
  st : Nat → St := fun _ => .unknown
  running : List Nat := []
  started : List Nat := []
  failed : List Nat := []
  failures : Nat := 0
  successes : Nat := 0
  interrupted : Bool := false
  lastDone : Int := 0
  lastFailed : Int := 0
  -- verdicts (conjunctions over the trace so far)
  afterDeps : Bool := true
  once : Bool := true
  limits : Bool := true
  contained : Bool := true
  budget : Bool := true
  counts : Bool := true
  setsConsistent : Bool := true
  noStartAfterStop : Bool := true
  loads : Nat := 0

def poolDepth (pools : List Pool) (name : Bytes) : Option Nat :=
  (pools.find? (·.name == name)).map (·.depth)

def countSt (g : Graph) (st : Nat → St) (s : St) : Int :=
  ((List.range g.nBuilds).filter (fun b => !(g.build b).phony && st b == s)).length

def step (g : Graph) (a : Run.Args) (pools : List Pool) (sc : Scan) (e : Ev) : Scan :=
  match e with
  | .set id prev new _ _ =>
    { sc with st := upd sc.st id new, setsConsistent := sc.setsConsistent && sc.st id == prev }
  | .start b =>
    let running := b :: sc.running
    let inPool (p : Bytes) := (running.filter (fun r => (g.build r).pool == p)).length
    let poolOk := match poolDepth pools (g.build b).pool with
      | some d => d == 0 || inPool (g.build b).pool ≤ d
      | none => false
    { sc with
      running := running, started := b :: sc.started,
      afterDeps := sc.afterDeps && (ancestors g b).all (fun p => sc.st p == .done),
      once := sc.once && !sc.started.contains b,
      limits := sc.limits && running.length ≤ a.par && poolOk,
      contained := sc.contained && !(ancestors g b).any sc.failed.contains,
      budget := sc.budget && (match a.failuresLeft with | some k => sc.failures < k | none => true),
      noStartAfterStop := sc.noStartAfterStop && !sc.interrupted }
  | .finish b t =>
    { sc with
      running := sc.running.erase b,
      failed := if t == .failure then b :: sc.failed else sc.failed,
      failures := if t == .failure then sc.failures + 1 else sc.failures,
      successes := if t == .success then sc.successes + 1 else sc.successes,
      interrupted := sc.interrupted || t == .interrupted,
      setsConsistent := sc.setsConsistent && sc.running.contains b }
  | .load =>
    -- a new `Work`: every build is Unknown again; nothing may still be running
    { sc with st := fun _ => .unknown, started := [], failed := [], lastDone := 0, lastFailed := 0,
              loads := sc.loads + 1, setsConsistent := sc.setsConsistent && sc.running.isEmpty }
  | .update cs =>
    let expect := [St.want, .ready, .queued, .running, .done, .failed].map (countSt g sc.st)
    let done := cs.getD 4 0
    let failed := cs.getD 5 0
    { sc with
      counts := sc.counts && cs == expect && cs.getD 3 0 == (sc.running.length : Int)
                  && done ≥ sc.lastDone && failed ≥ sc.lastFailed,
      lastDone := done, lastFailed := failed }

def scan (g : Graph) (a : Run.Args) (tr : List Ev) : Scan :=
  tr.foldl (step g a (initPools a.pools)) {}

/-- The files the invocation asks for (C18 `target_choice`), or `none` when a name is unknown.
    The manifest named as a target is skipped by `run::build` (it was brought up to date in the
    first phase already); `wantedBuilds` adds it for invocations that did not reload. -/
def wantedFiles (g : Graph) (a : Run.Args) : Option (List Nat) :=
  if !a.targets.isEmpty then
    a.targets.foldl (fun acc n =>
      match acc, Run.lookupM g a n with
      | some l, .ok (some t) => some (if t = a.manifest then l else l ++ [t])
      | some l, .ok none => if a.adopt then some l else none
      | _, _ => none) (some [])
  else if !a.defaults.isEmpty then some a.defaults
  else some ((List.range g.nFiles).filter (· ≠ a.manifest))

/-- The command-line names that resolve (used when another one does not). -/
def resolvable (g : Graph) (a : Run.Args) : List Nat :=
  a.targets.filterMap (fun n => match Run.lookupM g a n with | .ok (some t) => some t | _ => none)

/-- Builds in the closure of the wanted files over ordering and validation producers. -/
def wantedBuilds (g : Graph) (a : Run.Args) (files : List Nat) (withManifest : Bool := true) : List Nat :=
  closure (allProducers g) (g.nBuilds * g.nBuilds + g.nBuilds + 1)
    ((if withManifest then a.manifest :: files else files).filterMap g.producer) []

/-- Is some build of `bs` on a cycle of ordering edges (it reaches itself through producers of
    ordering inputs)? -/
def hasOrderingCycle (g : Graph) (bs : List Nat) : Bool :=
  bs.any (fun b => (ancestors g b).contains b)

/-- The theorems' hypotheses about the graph (`GraphOK`, `DepsOK`), decided on the graph the real
    loader built: producers are builds that list the file among their outputs; every build is a
    dependent of each of its ordering inputs. -/
def graphHypsB (g : Graph) : Bool :=
  (List.range g.nFiles).all (fun f =>
    match g.producer f with
    | some p => decide (p < g.nBuilds) && (g.build p).outs.contains f
    | none => true) &&
  (List.range g.nBuilds).all (fun b => (g.build b).ordering.all (fun f => (g.dependents f).contains b))

structure Verdicts where
  startsAfterDeps : Bool
  startsOnce : Bool
  withinLimits : Bool
  failuresContained : Bool
  budgetRespected : Bool
  countsOk : Bool
  traceConsistent : Bool
  onlyWanted : Bool          -- every build that left Unknown is in the requested closure
  closureComplete : Bool     -- (successful collection) every build of the closure left Unknown
  exitOk : Bool              -- success reported ⇒ no failure/interrupt and every wanted build Done
  summaryOk : Bool           -- `ran N tasks`: N = number of successful commands
  decided : Bool             -- no failure/interrupt/error ⇒ success; never the BUG panic
  stopsOnInterrupt : Bool
  cycleSound : Bool          -- a `dependency cycle` diagnostic only if the requested closure has one
  cycleComplete : Bool       -- an ordering cycle in the requested closure is never built through
  traceSpec : Bool           -- every event satisfies `okEv` (TraceSpec.lean) w.r.t. its history
  budgetSpec : Bool          -- every start respected the -k budget and preceded any interruption (`budgetTrace`)
  keepsGoing : Bool          -- failure within budget: every wanted step not downstream of a failure is Done
  graphHyps : Bool           -- the hypotheses of the theorems (GraphOK, DepsOK) hold of the real graph

/-- `result`: the observed outcome token (`ok n`, `fail`, `err ..`, `panic ..`). -/
def verdicts (g : Graph) (a : Run.Args) (result : List String) (tr : List Ev) : Verdicts :=
  let sc := scan g a tr
  let wanted := wantedFiles g a
  let touched := (List.range g.nBuilds).filter (fun b => sc.st b != .unknown)
  -- after a reload the manifest itself is not wanted again
  let cl := match wanted with | some fs => wantedBuilds g a fs (sc.loads ≤ 1) | none => []
  let isOk := result.head? == some "ok"
  let isErr := result.head? == some "err"
  let isPanic := result.head? == some "panic" || result.head? == some "abort"
  let n := (result.getD 1 "").toNat?.getD 0
  { startsAfterDeps := sc.afterDeps
    startsOnce := sc.once
    withinLimits := sc.limits
    failuresContained := sc.contained
    budgetRespected := sc.budget
    countsOk := sc.counts
    traceConsistent := sc.setsConsistent
    onlyWanted := match wanted with
      | some _ => touched.all cl.contains
      -- an unknown name: the names before it were already marked (never more than what the
      -- resolvable names ask for), and no command outside the manifest's closure was started
      | none => (touched.all (wantedBuilds g a (resolvable g a)).contains) && sc.started.all (wantedBuilds g a []).contains
    closureComplete := !isOk || cl.all touched.contains
    exitOk := !isOk || (sc.failures == 0 && !sc.interrupted && touched.all (fun b => sc.st b == .done))
    summaryOk := !isOk || n == sc.successes
    decided := !isPanic && (isOk || isErr || sc.failures > 0 || sc.interrupted)
    stopsOnInterrupt := sc.noStartAfterStop
    cycleSound :=
      let isCycleErr := match result with
        | ["err", h] => (match bytesOfHex h with
          | some b => (stringOfBytes b).startsWith "dependency cycle"
          | none => false)
        | _ => false
      -- the requested steps (closure over ordering AND validation edges) of everything that
      -- may have been requested; the cycle itself must consist of ordering edges
      let reach := closure (allProducers g) (g.nBuilds * g.nBuilds + g.nBuilds + 1)
        (match wanted with
         | some fs => (a.manifest :: fs).filterMap g.producer
         | none => (List.range g.nFiles).filterMap g.producer) []
      !isCycleErr || hasOrderingCycle g reach
    cycleComplete :=
      let reach := match wanted with
        | some fs => closure (allProducers g) (g.nBuilds * g.nBuilds + g.nBuilds + 1)
            ((if sc.loads ≤ 1 then a.manifest :: fs else fs).filterMap g.producer) []
        | none => []
      !isOk || !hasOrderingCycle g reach
    traceSpec := okTrace g a.par (poolShape (initPools a.pools)) tr.reverse
    budgetSpec := a.failuresLeft == some 0 || budgetTrace a.failuresLeft tr.reverse
    keepsGoing :=
      let exhausted := match a.failuresLeft with | some k => decide (sc.failures ≥ k) | none => false
      isOk || isErr || isPanic || sc.interrupted || exhausted ||
      touched.all (fun b => sc.st b == .done || sc.st b == .failed ||
        (ancestors g b).any (fun p => sc.st p == .failed))
    graphHyps := graphHypsB g }

def Verdicts.toList (v : Verdicts) : List (String × Bool) :=
  [("startsAfterDeps", v.startsAfterDeps), ("startsOnce", v.startsOnce), ("withinLimits", v.withinLimits),
   ("failuresContained", v.failuresContained), ("budgetRespected", v.budgetRespected),
   ("countsOk", v.countsOk), ("traceConsistent", v.traceConsistent), ("onlyWanted", v.onlyWanted),
   ("closureComplete", v.closureComplete), ("exitOk", v.exitOk), ("summaryOk", v.summaryOk),
   ("decided", v.decided), ("stopsOnInterrupt", v.stopsOnInterrupt),
   ("cycleSound", v.cycleSound), ("cycleComplete", v.cycleComplete), ("traceSpec", v.traceSpec),
   ("budgetSpec", v.budgetSpec), ("keepsGoing", v.keepsGoing), ("graphHyps", v.graphHyps)]

end N2V.Mon
