import N2V.Model.Parse
namespace N2V.Parse
open N2V N2V.Scanner N2V.Eval

/-- Inversion of a monadic bind that succeeded. -/
theorem bind_ok {α β} (m : PM α) (f : α → PM β) (s s' : Scanner) (b : β)
    (h : (m >>= f) s = .ok b s') : ∃ a s1, m s = .ok a s1 ∧ f a s1 = .ok b s' := by
  simp only [bind, PM.bind] at h
  split at h
  · rename_i a s1 hm; exact ⟨a, s1, hm, h⟩
  · cases h
  · cases h

theorem pure_ok {α} (a b : α) (s s' : Scanner) (h : (pure a : PM α) s = .ok b s') : a = b ∧ s = s' := by
  simp only [pure, PM.pure] at h
  cases h; exact ⟨rfl, rfl⟩

/-- `read_unevaluated_paths_to` only appends to the list it is given. -/
theorem pathsLoop_extends (fuel : Nat) (acc r : List EvalStr) (s s' : Scanner)
    (h : pathsLoop fuel acc s = .ok r s') : ∃ ext, r = acc ++ ext := by
  induction fuel generalizing acc s with
  | zero => simp [pathsLoop, pFuel] at h
  | succ fuel ih =>
    unfold pathsLoop at h
    obtain ⟨p, s1, _, h⟩ := bind_ok _ _ _ _ _ h
    split at h
    · obtain ⟨e, _⟩ := pure_ok _ _ _ _ h; exact ⟨[], by simp [e]⟩
    · obtain ⟨e, s2, _, h⟩ := bind_ok _ _ _ _ _ h
      obtain ⟨_, s3, _, h⟩ := bind_ok _ _ _ _ _ h
      obtain ⟨ext, he⟩ := ih _ _ h
      exact ⟨[e] ++ ext, by rw [he]; simp⟩

theorem readPathsTo_extends (acc r : List EvalStr) (s s' : Scanner)
    (h : readPathsTo acc s = .ok r s') : ∃ ext, r = acc ++ ext := by
  unfold readPathsTo at h
  obtain ⟨_, s1, _, h⟩ := bind_ok _ _ _ _ _ h
  obtain ⟨n, s2, _, h⟩ := bind_ok _ _ _ _ _ h
  exact pathsLoop_extends _ _ _ _ _ h

end N2V.Parse

namespace N2V.Parse
open N2V N2V.Scanner N2V.Eval

theorem optImplicitOuts_extends (acc r : List EvalStr) (s s' : Scanner)
    (h : optImplicitOuts acc s = .ok r s') : ∃ ext, r = acc ++ ext := by
  unfold optImplicitOuts at h
  obtain ⟨p, s1, _, h⟩ := bind_ok _ _ _ _ _ h
  split at h
  · obtain ⟨_, s2, _, h⟩ := bind_ok _ _ _ _ _ h
    exact readPathsTo_extends _ _ _ _ h
  · obtain ⟨e, _⟩ := pure_ok _ _ _ _ h; exact ⟨[], by simp [e]⟩

theorem optImplicit_extends (acc r : List EvalStr) (s s' : Scanner)
    (h : optImplicit acc s = .ok r s') : ∃ ext, r = acc ++ ext := by
  unfold optImplicit at h
  obtain ⟨p, s1, _, h⟩ := bind_ok _ _ _ _ _ h
  split at h
  · obtain ⟨_, s2, _, h⟩ := bind_ok _ _ _ _ _ h
    obtain ⟨q, s3, _, h⟩ := bind_ok _ _ _ _ _ h
    split at h
    · obtain ⟨_, s4, _, h⟩ := bind_ok _ _ _ _ _ h
      obtain ⟨e, _⟩ := pure_ok _ _ _ _ h; exact ⟨[], by simp [e]⟩
    · exact readPathsTo_extends _ _ _ _ h
  · obtain ⟨e, _⟩ := pure_ok _ _ _ _ h; exact ⟨[], by simp [e]⟩

theorem optOrderOnly_extends (acc r : List EvalStr) (s s' : Scanner)
    (h : optOrderOnly acc s = .ok r s') : ∃ ext, r = acc ++ ext := by
  unfold optOrderOnly at h
  obtain ⟨p, s1, _, h⟩ := bind_ok _ _ _ _ _ h
  split at h
  · obtain ⟨_, s2, _, h⟩ := bind_ok _ _ _ _ _ h
    obtain ⟨q, s3, _, h⟩ := bind_ok _ _ _ _ _ h
    split at h
    · obtain ⟨_, s4, _, h⟩ := bind_ok _ _ _ _ _ h
      obtain ⟨e, _⟩ := pure_ok _ _ _ _ h; exact ⟨[], by simp [e]⟩
    · obtain ⟨_, s4, _, h⟩ := bind_ok _ _ _ _ _ h
      exact readPathsTo_extends _ _ _ _ h
  · obtain ⟨e, _⟩ := pure_ok _ _ _ _ h; exact ⟨[], by simp [e]⟩

theorem optValidation_extends (acc r : List EvalStr) (s s' : Scanner)
    (h : optValidation acc s = .ok r s') : ∃ ext, r = acc ++ ext := by
  unfold optValidation at h
  obtain ⟨p, s1, _, h⟩ := bind_ok _ _ _ _ _ h
  split at h
  · obtain ⟨_, s2, _, h⟩ := bind_ok _ _ _ _ _ h
    obtain ⟨_, s3, _, h⟩ := bind_ok _ _ _ _ _ h
    exact readPathsTo_extends _ _ _ _ h
  · obtain ⟨e, _⟩ := pure_ok _ _ _ _ h; exact ⟨[], by simp [e]⟩

/-- The four input sections and two output sections of a parsed `build` line: the recorded
    counts partition the path lists in order (explicit, then implicit, then order-only, then
    validation), whichever sections are present or empty. -/
theorem readBuild_sections (s s' : Scanner) (st : Stmt) (h : readBuild s = .ok st s') :
    ∃ b, st = .build b ∧
      b.explicitIns + b.implicitIns + b.orderOnlyIns + b.validationIns = b.ins.length ∧
      b.explicitOuts ≤ b.outs.length := by
  unfold readBuild at h
  obtain ⟨line, s1, _, h⟩ := bind_ok _ _ _ _ _ h
  obtain ⟨outs0, s2, _, h⟩ := bind_ok _ _ _ _ _ h
  obtain ⟨outs, s3, ho, h⟩ := bind_ok _ _ _ _ _ h
  obtain ⟨_, s4, _, h⟩ := bind_ok _ _ _ _ _ h
  obtain ⟨_, s5, _, h⟩ := bind_ok _ _ _ _ _ h
  obtain ⟨rule, s6, _, h⟩ := bind_ok _ _ _ _ _ h
  obtain ⟨ins0, s7, _, h⟩ := bind_ok _ _ _ _ _ h
  obtain ⟨ins1, s8, h1, h⟩ := bind_ok _ _ _ _ _ h
  obtain ⟨ins2, s9, h2, h⟩ := bind_ok _ _ _ _ _ h
  obtain ⟨ins3, s10, h3, h⟩ := bind_ok _ _ _ _ _ h
  obtain ⟨_, s11, _, h⟩ := bind_ok _ _ _ _ _ h
  obtain ⟨vars, s12, _, h⟩ := bind_ok _ _ _ _ _ h
  obtain ⟨e, _⟩ := pure_ok _ _ _ _ h
  obtain ⟨x0, e0⟩ := optImplicitOuts_extends _ _ _ _ ho
  obtain ⟨x1, e1⟩ := optImplicit_extends _ _ _ _ h1
  obtain ⟨x2, e2⟩ := optOrderOnly_extends _ _ _ _ h2
  obtain ⟨x3, e3⟩ := optValidation_extends _ _ _ _ h3
  refine ⟨_, e.symm, ?_, ?_⟩
  · simp only [e3, e2, e1, List.length_append]; omega
  · simp only [e0, List.length_append]; omega

end N2V.Parse
