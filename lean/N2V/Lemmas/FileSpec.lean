/-
  File level (C10): a manifest written as a sequence of statements - bindings, `rule`, `pool`,
  `build`, `default`, with blank lines and comments anywhere between them - is read by the
  loader's statement loop into exactly those statements, in order: the loop's result is the fold of
  the statements' effects over the loader state.  (`include` / `subninja` go through the file
  system and are covered by correspondence only.)
-/
import N2V.Lemmas.StmtSpec
import N2V.Model.Load
namespace N2V.Load
open N2V N2V.Scanner N2V.Eval N2V.Parse
open N2V.Depfile (G)

/-- Blank lines and comments. -/
inductive Noise where
  | blank
  | comment (body : Bytes)

def Noise.bytes : Noise → Bytes → Bytes
  | .blank, x => NL :: x
  | .comment body, x => HASH :: (body ++ NL :: x)

def Noise.WF : Noise → Prop
  | .blank => True
  | .comment body => ∀ c ∈ body, c ≠ NUL ∧ c ≠ NL ∧ c ≠ CR

def noiseBytes (ns : List Noise) (x : Bytes) : Bytes := ns.foldr Noise.bytes x

/-- A statement as written. -/
inductive StmtText where
  | build (gs : List PGap) (b : BuildText)
  | binding (name : Bytes) (v : ValueText)
  | rule (gs : List PGap) (name : Bytes) (bs : List BindingText)
  | pool (gs : List PGap) (name : Bytes) (bs : List BindingText) (depth : Nat)
  | default (gs : List PGap) (ps : List (PathText × List PGap))
  | incl (sub : Bool) (gs : List PGap) (t : PathText)

def StmtText.bytes : StmtText → Bytes → Bytes
  | .build gs b, after => kwBuild ++ (pgapBytes gs ++ b.bytes after)
  | .binding name v, after => name ++ (valueBytes v ++ after)
  | .rule gs name bs, after => kwRule ++ (pgapBytes gs ++ (name ++ NL :: (bindingsBytes bs ++ after)))
  | .pool gs name bs _, after => kwPool ++ (pgapBytes gs ++ (name ++ NL :: (bindingsBytes bs ++ after)))
  | .default gs ps, after => kwDefault ++ (pgapBytes gs ++ (pathsBytes ps ++ NL :: after))
  | .incl sub gs t, after => (if sub then kwSubninja else kwInclude) ++ (pgapBytes gs ++ (pathBytes t ++ after))

def bindingsMap (bs : List BindingText) : EvalMap := bs.foldl (fun m b => Eval.insert m b.name (valueOf b.rhs)) []

/-- Well-formedness of a written statement in front of `after` (what the byte-level theorems of
    Lemmas/StmtSpec ask for). -/
def StmtText.WF : StmtText → Bytes → Prop
  | .build gs b, after => gs ≠ [] ∧ BuildWF b after ∧ GapEnd (b.bytes after)
  | .binding name v, after => name ≠ [] ∧ (∀ c ∈ name, isIdentChar c true = true) ∧
      name ∉ [kwRule, kwBuild, kwDefault, kwInclude, kwSubninja, kwPool] ∧ ValueWF v after
  | .rule gs name bs, after => gs ≠ [] ∧ name ≠ [] ∧ (∀ c ∈ name, isIdentChar c true = true) ∧
      (∃ c0 r0, after = c0 :: r0 ∧ c0 ≠ SP) ∧ BindingsWF isRuleVar bs after
  | .pool gs name bs d, after => gs ≠ [] ∧ name ≠ [] ∧ (∀ c ∈ name, isIdentChar c true = true) ∧
      (∃ c0 r0, after = c0 :: r0 ∧ c0 ≠ SP) ∧ BindingsWF (fun n => n == bytesOfString "depth") bs after ∧
      poolDepth (bindingsMap bs) = some d
  | .default gs ps, after => gs ≠ [] ∧ ps ≠ [] ∧ PathsWF ps (NL :: after) ∧ GapEnd (pathsBytes ps ++ NL :: after)
  | .incl _ gs t, after => gs ≠ [] ∧ ∃ r, after = NL :: r ∧ SegsWF false t.1 (t.2 ++ NL :: r) ∧
      (∀ c ∈ t.2, plain false c) ∧ pathValue t ≠ [] ∧ GapEnd (pathBytes t ++ NL :: r)

/-- The item `Parser::read` produces for it (`ln`: the line number a `build` statement records). -/
def StmtText.item : StmtText → Nat → Item
  | .build _ b, ln => .stmt (.build
      { rule := b.rule, line := ln, outs := b.outsV, explicitOuts := (sectionValues b.eouts).length,
        ins := b.insV, explicitIns := (sectionValues b.eins).length, implicitIns := (optVals b.iins).length,
        orderOnlyIns := (optVals b.oins).length, validationIns := (optVals b.vins).length,
        vars := b.varsV })
  | .binding name v, _ => .binding name (valueOf v)
  | .rule _ name bs, _ => .stmt (.rule name (bindingsMap bs))
  | .pool _ name _ d, _ => .stmt (.pool name d)
  | .default _ ps, _ => .stmt (.default (ps.map (fun pg => pathValue pg.1)))
  | .incl sub _ t, _ => .stmt (if sub then .subninja (pathValue t) else .include (pathValue t))

/-- One written statement is read as its item, leaving the scanner at what follows. -/
theorem readItem_stmt (buf : Array UInt8) (st : StmtText) (after : Bytes) (hwf : st.WF after) (fuel : Nat)
    (s : Scanner) (g : G buf s) (hr : Rest buf s.ofs (st.bytes after)) :
    ∃ s' ln, readItem (fuel + 1) s = .ok (st.item ln) s' ∧ G buf s' ∧ Rest buf s'.ofs after := by
  cases st with
  | build gs b =>
    obtain ⟨h1, h2, h3⟩ := hwf
    exact readItem_build buf gs h1 b after h2 h3 fuel s g hr
  | binding name v =>
    obtain ⟨h1, h2, h3, h4⟩ := hwf
    obtain ⟨s', h⟩ := readItem_binding buf name h1 h2 h3 v after h4 fuel s g hr
    exact ⟨s', 0, h⟩
  | rule gs name bs =>
    obtain ⟨h1, h2, h3, ⟨c0, r0, h4, h5⟩, h6⟩ := hwf
    obtain ⟨s', h⟩ := readItem_rule buf gs h1 name h2 h3 bs after c0 r0 h4 h5 h6 fuel s g hr
    exact ⟨s', 0, h⟩
  | pool gs name bs d =>
    obtain ⟨h1, h2, h3, ⟨c0, r0, h4, h5⟩, h6, h7⟩ := hwf
    obtain ⟨s', h⟩ := readItem_pool buf gs h1 name h2 h3 bs after c0 r0 h4 h5 h6 d h7 fuel s g hr
    exact ⟨s', 0, h⟩
  | default gs ps =>
    obtain ⟨h1, h2, h3, h4⟩ := hwf
    obtain ⟨s', h⟩ := readItem_default buf gs h1 ps h2 after h3 h4 fuel s g hr
    exact ⟨s', 0, h⟩
  | incl sub gs t =>
    obtain ⟨h1, r, hafter, h2, h3, h4, h5⟩ := hwf
    subst hafter
    obtain ⟨s', h⟩ := readItem_include buf sub gs h1 t r h2 h3 h4 h5 fuel s g hr
    exact ⟨s', 0, h⟩

theorem StmtText.bytes_pos (st : StmtText) (after : Bytes) (hwf : st.WF after) : 0 < (st.bytes after).length := by
  cases st with
  | build gs b =>
    show 0 < (kwBuild ++ _).length
    rw [List.length_append]; have : 0 < kwBuild.length := by decide
    omega
  | binding name v =>
    show 0 < (name ++ _).length
    rw [List.length_append]
    have : 0 < name.length := List.length_pos_iff.mpr hwf.1
    omega
  | rule gs name bs =>
    show 0 < (kwRule ++ _).length
    rw [List.length_append]; have : 0 < kwRule.length := by decide
    omega
  | pool gs name bs d =>
    show 0 < (kwPool ++ _).length
    rw [List.length_append]; have : 0 < kwPool.length := by decide
    omega
  | default gs ps =>
    show 0 < (kwDefault ++ _).length
    rw [List.length_append]; have : 0 < kwDefault.length := by decide
    omega
  | incl sub gs t =>
    show 0 < ((if sub then kwSubninja else kwInclude) ++ _).length
    rw [List.length_append]
    have : 0 < (if sub then kwSubninja else kwInclude).length := by cases sub <;> decide
    omega

/-- Blank lines and comments in front of anything are skipped, one unit of fuel each. -/
theorem readItem_noise (buf : Array UInt8) (ns : List Noise) (hns : ∀ n ∈ ns, n.WF) (x : Bytes) :
    ∀ (fuel : Nat) (s : Scanner), G buf s → Rest buf s.ofs (noiseBytes ns x) →
    ∃ s1, G buf s1 ∧ Rest buf s1.ofs x ∧ readItem (fuel + ns.length) s = readItem fuel s1 := by
  induction ns with
  | nil => intro fuel s g hr; exact ⟨s, g, hr, rfl⟩
  | cons n ns ih =>
    intro fuel s g hr
    have hns' : ∀ n ∈ ns, n.WF := fun m hm => hns m (by simp [hm])
    have hfuel : fuel + (n :: ns).length = (fuel + ns.length) + 1 := by simp; omega
    rw [hfuel]
    cases n with
    | blank =>
      obtain ⟨s1, g1, hr1, he⟩ := readItem_blank buf (noiseBytes ns x) (fuel + ns.length) s g hr
      obtain ⟨s2, g2, hr2, he2⟩ := ih hns' fuel s1 g1 hr1
      exact ⟨s2, g2, hr2, he.trans he2⟩
    | comment body =>
      have hb : ∀ c ∈ body, c ≠ NUL ∧ c ≠ NL ∧ c ≠ CR := hns (.comment body) (by simp)
      obtain ⟨s1, g1, hr1, he⟩ := readItem_comment buf body (noiseBytes ns x) hb (fuel + ns.length) s g hr
      obtain ⟨s2, g2, hr2, he2⟩ := ih hns' fuel s1 g1 hr1
      exact ⟨s2, g2, hr2, he.trans he2⟩

theorem noiseBytes_length (ns : List Noise) (x : Bytes) : ns.length + x.length ≤ (noiseBytes ns x).length := by
  induction ns with
  | nil => simp [noiseBytes]
  | cons n ns ih =>
    have : noiseBytes (n :: ns) x = n.bytes (noiseBytes ns x) := rfl
    rw [this]
    cases n with
    | blank => simp [Noise.bytes]; omega
    | comment body => simp [Noise.bytes]; omega

theorem Rest.length_le {buf : Array UInt8} {k : Nat} {r : Bytes} (h : Rest buf k r) : r.length ≤ buf.size := by
  unfold Rest at h
  rw [← h, List.length_drop]
  simp

/-! ### The effects of the statements, and the file-level theorem -/

/-- What `stmtLoop` does with one item.  `include` / `subninja` read the named file through `fs`
    and hand it to `sub` (the parser for one nested file); the including file continues with its
    own scope (`subninja`, and `include` in n2: finding F12) or with the scope the included file
    ended with (`include` under Ninja's rule, `inclExtends = true`). -/
def applyItem (inclExtends : Bool) (fs : Fs) (depth : Nat)
    (sub : Loader → Bytes → Bytes → StrMap → Nat → Except LoadErr (Loader × StrMap))
    (file : Bytes) (l : Loader) (vars : StrMap) : Item → Except LoadErr (Loader × StrMap)
  | .binding name val => .ok (l, Eval.insert vars name (evaluate [envOfStr vars] val))
  | .stmt (.default ps) =>
    match evalPaths l [envOfStr vars] ps with
    | .error e => .error e
    | .ok (l1, ids) => .ok ({ l1 with defaults := l1.defaults ++ ids }, vars)
  | .stmt (.rule name rvars) => .ok ({ l with rules := Eval.insert l.rules name rvars }, vars)
  | .stmt (.build b) =>
    match loaderAddBuild l file vars b with
    | .error e => .error e
    | .ok l1 => .ok (l1, vars)
  | .stmt (.pool name d) => .ok ({ l with pools := Eval.insert l.pools name d }, vars)
  | .stmt (.include p) =>
    match path l (evaluate [envOfStr vars] p) with
    | .error e => .error e
    | .ok (l1, id) =>
      match fs ((l1.graph.files[id]?.map (·.name)).getD []) with
      | none => .error (.other "read")
      | some content =>
        if depth ≥ MAX_INCLUDE_DEPTH then .error (.other "include nesting")
        else
          match sub l1 ((l1.graph.files[id]?.map (·.name)).getD []) content vars (depth + 1) with
          | .error e => .error e
          | .ok (l2, vars') => .ok (l2, afterInclude inclExtends vars vars')
  | .stmt (.subninja p) =>
    match path l (evaluate [envOfStr vars] p) with
    | .error e => .error e
    | .ok (l1, id) =>
      match fs ((l1.graph.files[id]?.map (·.name)).getD []) with
      | none => .error (.other "read")
      | some content =>
        if depth ≥ MAX_INCLUDE_DEPTH then .error (.other "include nesting")
        else
          match sub l1 ((l1.graph.files[id]?.map (·.name)).getD []) content vars (depth + 1) with
          | .error e => .error e
          | .ok (l2, _) => .ok (l2, vars)
  | .eof => .error (.other "eof is not a statement")

def applyItems (inclExtends : Bool) (fs : Fs) (depth : Nat)
    (sub : Loader → Bytes → Bytes → StrMap → Nat → Except LoadErr (Loader × StrMap))
    (file : Bytes) : List Item → Loader → StrMap → Except LoadErr (Loader × StrMap)
  | [], l, vars => .ok ({ l with builddir := Eval.lookup vars (bytesOfString "builddir") }, vars)
  | it :: rest, l, vars =>
    match applyItem inclExtends fs depth sub file l vars it with
    | .error e => .error e
    | .ok (l', vars') => applyItems inclExtends fs depth sub file rest l' vars'

/-- Noise, then a statement. -/
abbrev FSeg := List Noise × StmtText

def fileBytes : List FSeg → Bytes → Bytes
  | [], tail => tail
  | (ns, st) :: rest, tail => noiseBytes ns (st.bytes (fileBytes rest tail))

def FileWF : List FSeg → Bytes → Prop
  | [], _ => True
  | (ns, st) :: rest, tail => (∀ n ∈ ns, n.WF) ∧ st.WF (fileBytes rest tail) ∧ FileWF rest tail

theorem stmtLoop_item (inclExtends : Bool) (fs : Fs) (file : Bytes) (depth : Nat)
    (sub : Loader → Bytes → Bytes → StrMap → Nat → Except LoadErr (Loader × StrMap))
    (fuel : Nat) (l : Loader) (sc sc' : Scanner) (vars : StrMap) (st : StmtText) (ln : Nat)
    (h : readItem (sc.buf.size + 1) sc = .ok (st.item ln) sc') :
    stmtLoop inclExtends fs file depth sub (fuel + 1) l sc vars =
      match applyItem inclExtends fs depth sub file l vars (st.item ln) with
      | .error e => .error e
      | .ok (l', vars') => stmtLoop inclExtends fs file depth sub fuel l' sc' vars' := by
  conv => lhs; unfold stmtLoop
  rw [h]
  cases st with
  | build gs b =>
    simp only [StmtText.item, applyItem]
    cases loaderAddBuild l file vars _ <;> rfl
  | binding name v => simp only [StmtText.item, applyItem]
  | rule gs name bs => simp only [StmtText.item, applyItem]
  | pool gs name bs d => simp only [StmtText.item, applyItem]
  | default gs ps =>
    simp only [StmtText.item, applyItem]
    cases evalPaths l [envOfStr vars] _ with
    | error e => rfl
    | ok r => obtain ⟨l1, ids⟩ := r; rfl
  | incl isSub gs t =>
    cases isSub with
    | false =>
      simp only [StmtText.item, applyItem, Bool.false_eq_true, if_false]
      cases path l (evaluate [envOfStr vars] (pathValue t)) with
      | error e => rfl
      | ok r =>
        obtain ⟨l1, id⟩ := r
        simp only []
        cases fs ((l1.graph.files[id]?.map (·.name)).getD []) with
        | none => rfl
        | some content =>
          simp only []
          by_cases hd : depth ≥ MAX_INCLUDE_DEPTH
          · simp only [hd, if_true]
          · simp only [hd, if_false]
            cases sub l1 ((l1.graph.files[id]?.map (·.name)).getD []) content vars (depth + 1) with
            | error e => rfl
            | ok r2 => obtain ⟨l2, v2⟩ := r2; rfl
    | true =>
      simp only [StmtText.item, applyItem, if_true]
      cases path l (evaluate [envOfStr vars] (pathValue t)) with
      | error e => rfl
      | ok r =>
        obtain ⟨l1, id⟩ := r
        simp only []
        cases fs ((l1.graph.files[id]?.map (·.name)).getD []) with
        | none => rfl
        | some content =>
          simp only []
          by_cases hd : depth ≥ MAX_INCLUDE_DEPTH
          · simp only [hd, if_true]
          · simp only [hd, if_false]
            cases sub l1 ((l1.graph.files[id]?.map (·.name)).getD []) content vars (depth + 1) with
            | error e => rfl
            | ok r2 => obtain ⟨l2, v2⟩ := r2; rfl

/-- **The file is read as written.**  For a buffer whose unread part is the written statements
    (each preceded by any blank lines and comments) followed by trailing blank lines / comments
    and the NUL sentinel, the loader's statement loop returns exactly the fold of the statements'
    effects, in order - for any loader state and scope it starts from. -/
theorem stmtLoop_file (inclExtends : Bool) (fs : Fs) (file : Bytes) (depth : Nat)
    (sub : Loader → Bytes → Bytes → StrMap → Nat → Except LoadErr (Loader × StrMap))
    (buf : Array UInt8) (tailNoise : List Noise) (htn : ∀ n ∈ tailNoise, n.WF) :
    ∀ (segs : List FSeg) (fuel : Nat) (l : Loader) (sc : Scanner) (vars : StrMap),
    FileWF segs (noiseBytes tailNoise [NUL]) → G buf sc →
    Rest buf sc.ofs (fileBytes segs (noiseBytes tailNoise [NUL])) → segs.length < fuel →
    ∃ lns : List Nat, lns.length = segs.length ∧
      stmtLoop inclExtends fs file depth sub fuel l sc vars =
        applyItems inclExtends fs depth sub file (List.zipWith (fun (sg : FSeg) ln => sg.2.item ln) segs lns) l vars := by
  intro segs
  induction segs with
  | nil =>
    intro fuel l sc vars _ g hr hf
    refine ⟨[], rfl, ?_⟩
    cases fuel with
    | zero => omega
    | succ fuel =>
      have hsz : sc.buf.size = buf.size := by rw [g.w.hb]
      have hlen := noiseBytes_length tailNoise [NUL]
      have hle := Rest.length_le hr
      simp only [fileBytes] at hr hle
      obtain ⟨s1, g1, hr1, he⟩ := readItem_noise buf tailNoise htn [NUL] (sc.buf.size + 1 - tailNoise.length) sc g hr
      have hfe : sc.buf.size + 1 - tailNoise.length + tailNoise.length = sc.buf.size + 1 := by
        simp at hlen; omega
      rw [hfe] at he
      have h2 : sc.buf.size + 1 - tailNoise.length = (sc.buf.size - tailNoise.length) + 1 := by
        simp at hlen; omega
      rw [h2] at he
      have heof := readItem_eof buf [] (sc.buf.size - tailNoise.length) s1 g1 hr1
      conv => lhs; unfold stmtLoop
      rw [he, heof]
      rfl
  | cons sg rest ih =>
    intro fuel l sc vars hwf g hr hf
    obtain ⟨ns, st⟩ := sg
    obtain ⟨hnw, hsw, hrw⟩ := hwf
    cases fuel with
    | zero => simp at hf
    | succ fuel =>
      have hsz : sc.buf.size = buf.size := by rw [g.w.hb]
      simp only [fileBytes] at hr
      have hlen := noiseBytes_length ns (st.bytes (fileBytes rest (noiseBytes tailNoise [NUL])))
      have hle := Rest.length_le hr
      obtain ⟨s1, g1, hr1, he⟩ := readItem_noise buf ns hnw _ (sc.buf.size + 1 - ns.length) sc g hr
      have hpos := StmtText.bytes_pos st _ hsw
      have hfe : sc.buf.size + 1 - ns.length + ns.length = sc.buf.size + 1 := by omega
      rw [hfe] at he
      have h2 : sc.buf.size + 1 - ns.length = (sc.buf.size - ns.length) + 1 := by omega
      rw [h2] at he
      obtain ⟨s2, ln, hitem, g2, hr2⟩ := readItem_stmt buf st _ hsw (sc.buf.size - ns.length) s1 g1 hr1
      have hread : readItem (sc.buf.size + 1) sc = .ok (st.item ln) s2 := he.trans hitem
      rw [stmtLoop_item inclExtends fs file depth sub fuel l sc s2 vars st ln hread]
      cases hap : applyItem inclExtends fs depth sub file l vars (st.item ln) with
      | error e =>
        refine ⟨ln :: List.replicate rest.length 0, by simp, ?_⟩
        simp only [List.zipWith_cons_cons, applyItems, hap]
      | ok r =>
        obtain ⟨l', vars'⟩ := r
        obtain ⟨lns, hl, heq⟩ := ih fuel l' s2 vars' hrw g2 hr2 (by simp at hf; omega)
        refine ⟨ln :: lns, by simp [hl], ?_⟩
        simp only [List.zipWith_cons_cons, applyItems, hap]
        exact heq

theorem fileBytes_length (segs : List FSeg) (tail : Bytes) (hwf : FileWF segs tail) :
    segs.length + tail.length ≤ (fileBytes segs tail).length := by
  induction segs with
  | nil => simp [fileBytes]
  | cons sg rest ih =>
    obtain ⟨ns, st⟩ := sg
    obtain ⟨_, hsw, hrw⟩ := hwf
    have h1 := ih hrw
    have h2 := noiseBytes_length ns (st.bytes (fileBytes rest tail))
    have h3 := StmtText.bytes_pos st _ hsw
    have h4 : (fileBytes rest tail).length < (st.bytes (fileBytes rest tail)).length := by
      have k1 : 0 < kwBuild.length := by decide
      have k2 : 0 < kwRule.length := by decide
      have k3 : 0 < kwPool.length := by decide
      have k4 : 0 < kwDefault.length := by decide
      cases st with
      | binding name v =>
        have : 0 < name.length := List.length_pos_iff.mpr hsw.1
        simp [StmtText.bytes]; omega
      | incl isSub gs t =>
        have k5 : 0 < (if isSub then kwSubninja else kwInclude).length := by cases isSub <;> decide
        simp only [StmtText.bytes, List.length_append]; omega
      | _ =>
        simp [StmtText.bytes, BuildText.bytes, BuildText.tail0, BuildText.tail1, BuildText.tail2,
          BuildText.tail3, BuildText.tail4, BuildText.tail5] <;> omega
    simp only [fileBytes, List.length_cons]
    omega

/-- One whole file: `parse_with_parser` on the written text. -/
theorem parseFile_as_written (inclExtends : Bool) (fs : Fs) (d : Nat) (l : Loader) (file content : Bytes)
    (vars : StrMap) (depth : Nat) (segs : List FSeg) (tailNoise : List Noise) (htn : ∀ n ∈ tailNoise, n.WF)
    (hwf : FileWF segs (noiseBytes tailNoise [NUL]))
    (htext : content ++ [NUL] = fileBytes segs (noiseBytes tailNoise [NUL])) :
    ∃ lns : List Nat, lns.length = segs.length ∧
      parseFile inclExtends fs (d + 1) l file content vars depth =
        applyItems inclExtends fs depth (parseFile inclExtends fs d) file
          (List.zipWith (fun (sg : FSeg) ln => sg.2.item ln) segs lns) l vars := by
  unfold parseFile
  simp only []
  have hsz : (content ++ [NUL]).toArray.size = content.length + 1 := by simp
  have hlast : (content ++ [NUL]).toArray[(content ++ [NUL]).toArray.size - 1]? = some NUL := by
    rw [hsz]; simp
  have hnew : Scanner.new (content ++ [NUL]).toArray = .ok ⟨(content ++ [NUL]).toArray, 0, 1⟩ := by
    unfold Scanner.new
    have : (content ++ [NUL]).toArray.back? = some NUL := by
      rw [Array.back?]; exact hlast
    simp [this]
  rw [hnew]
  simp only []
  have g0 : G (content ++ [NUL]).toArray ⟨(content ++ [NUL]).toArray, 0, 1⟩ :=
    ⟨⟨rfl, by rw [hsz]; omega, hlast, by show 0 ≤ _; omega, rfl⟩, by show 0 < _; rw [hsz]; omega,
     fun hx => by have := hx.2.1; exact absurd this (by show ¬ 0 < 0; omega)⟩
  have hr : Rest (content ++ [NUL]).toArray 0 (fileBytes segs (noiseBytes tailNoise [NUL])) := by
    unfold Rest; rw [← htext]; simp
  have hlen := fileBytes_length segs _ hwf
  have hfuel : segs.length < (content ++ [NUL]).toArray.size + 1 := by
    rw [hsz]
    have : (fileBytes segs (noiseBytes tailNoise [NUL])).length = content.length + 1 := by rw [← htext]; simp
    omega
  exact stmtLoop_file inclExtends fs file depth (parseFile inclExtends fs d) _ tailNoise htn segs _ l _ vars hwf g0 hr hfuel

/-- **The manifest is read into exactly the declared statements** (file level, no includes): if
    the main manifest's text is a sequence of written statements with blank lines and comments
    anywhere, `load::read` returns the fold of those statements' effects - rules and pools
    registered, bindings evaluated in order, every `build` statement added to the graph with its
    paths in their declared roles, defaults resolved - starting from the loader that knows only
    the manifest's own name. -/
theorem load_as_written (inclExtends : Bool) (fs : Fs) (main c content : Bytes) (hne : main.isEmpty = false)
    (hc : Canon.canon main = .ok c) (hfs : fs c = some content)
    (segs : List FSeg) (tailNoise : List Noise) (htn : ∀ n ∈ tailNoise, n.WF)
    (hwf : FileWF segs (noiseBytes tailNoise [NUL]))
    (htext : content ++ [NUL] = fileBytes segs (noiseBytes tailNoise [NUL])) :
    ∃ lns : List Nat, lns.length = segs.length ∧
      loadWith inclExtends fs main =
        (applyItems inclExtends fs 0 (parseFile inclExtends fs (MAX_INCLUDE_DEPTH + 1)) c
          (List.zipWith (fun (sg : FSeg) ln => sg.2.item ln) segs lns)
          { graph := { files := [⟨c, none, []⟩] } } []).map (·.1) := by
  obtain ⟨lns, hl, h⟩ := parseFile_as_written inclExtends fs (MAX_INCLUDE_DEPTH + 1)
    { graph := { files := [⟨c, none, []⟩] } } c content [] 0 segs tailNoise htn hwf htext
  refine ⟨lns, hl, ?_⟩
  unfold loadWith
  rw [if_neg (by simp [hne]), hc]
  have hid : idFromCanonical {} c = ({ files := [⟨c, none, []⟩] }, 0) := by
    unfold idFromCanonical; simp
  simp only [hid, List.getElem?_cons_zero, Option.map_some, Option.getD_some, hfs]
  rw [h]

/-- Non-vacuity: the one-statement file ` build o: cc a | b || c` / `  x = 1` / blank line. -/
def exBuild2 : BuildText := { exBuild with eouts := ([], [(([], [111]), [])]) }

theorem exBuild_wf2 : BuildWF exBuild2 [NL, NUL] := by
  refine ⟨?_, ?_, ?_, ?_, ?_, ?_, ?_, ?_, ?_, ?_, ?_⟩
  · exact ⟨⟨⟨_, _, rfl, by decide⟩, trivial, by decide, by decide, gapEnd_of (by decide) (by decide), trivial⟩,
      gapEnd_of (by decide) (by decide)⟩
  · intro sec h; cases h
  · decide
  · decide
  · exact ⟨_, _, rfl, by decide⟩
  · exact ⟨⟨⟨_, _, rfl, by decide⟩, trivial, by decide, by decide, gapEnd_of (by decide) (by decide), trivial⟩,
      gapEnd_of (by decide) (by decide)⟩
  · intro sec h; cases h
    exact ⟨⟨⟨⟨_, _, rfl, by decide⟩, trivial, by decide, by decide, gapEnd_of (by decide) (by decide), trivial⟩,
      gapEnd_of (by decide) (by decide)⟩, _, _, rfl, by decide, by decide⟩
  · intro sec h; cases h
    exact ⟨⟨⟨_, _, rfl, by decide⟩, trivial, by decide, by decide, gapEnd_of (by decide) (by decide), trivial⟩,
      gapEnd_of (by decide) (by decide)⟩
  · intro sec h; cases h
  · exact ⟨by decide, by decide, rfl,
      ⟨trivial, by decide, by decide, gapEnd_of (by decide) (by decide), _, _, rfl, by decide⟩, trivial⟩
  · exact ⟨_, _, rfl, by decide⟩

example : FileWF [([.comment [104, 105]], .build [.sp] exBuild2)] (noiseBytes [.blank] [NUL]) :=
  ⟨by intro n hn; simp at hn; subst hn; intro c hc; simp at hc; rcases hc with rfl | rfl <;> decide,
   ⟨by simp, exBuild_wf2, gapEnd_of (by decide) (by decide)⟩, trivial⟩

/-- The statements' effects without the end-of-file step. -/
def runItems (inclExtends : Bool) (fs : Fs) (depth : Nat)
    (sub : Loader → Bytes → Bytes → StrMap → Nat → Except LoadErr (Loader × StrMap))
    (file : Bytes) : List Item → Loader → StrMap → Except LoadErr (Loader × StrMap)
  | [], l, vars => .ok (l, vars)
  | it :: rest, l, vars =>
    match applyItem inclExtends fs depth sub file l vars it with
    | .error e => .error e
    | .ok (l', vars') => runItems inclExtends fs depth sub file rest l' vars'

/-- **Top-down**: what the first statements of a file do - the scope their bindings build, the
    graph their `build` statements add, each evaluated in the scope as of its own line - does not
    depend on anything written after them; the rest of the file continues from that state. -/
theorem applyItems_append (inclExtends : Bool) (fs : Fs) (depth : Nat)
    (sub : Loader → Bytes → Bytes → StrMap → Nat → Except LoadErr (Loader × StrMap))
    (file : Bytes) (a b : List Item) (l : Loader) (vars : StrMap) :
    applyItems inclExtends fs depth sub file (a ++ b) l vars =
      match runItems inclExtends fs depth sub file a l vars with
      | .error e => .error e
      | .ok (l', vars') => applyItems inclExtends fs depth sub file b l' vars' := by
  induction a generalizing l vars with
  | nil => rfl
  | cons it rest ih =>
    simp only [List.cons_append, applyItems, runItems]
    cases applyItem inclExtends fs depth sub file l vars it with
    | error e => rfl
    | ok r => obtain ⟨l', v'⟩ := r; exact ih l' v'

/-- A binding is evaluated exactly once, in the scope of the lines before it, and a later
    re-binding of the same name replaces it for the lines after only. -/
theorem runItems_binding (inclExtends : Bool) (fs : Fs) (depth : Nat)
    (sub : Loader → Bytes → Bytes → StrMap → Nat → Except LoadErr (Loader × StrMap))
    (file : Bytes) (name : Bytes) (val : EvalStr) (rest : List Item) (l : Loader) (vars : StrMap) :
    runItems inclExtends fs depth sub file (.binding name val :: rest) l vars =
      runItems inclExtends fs depth sub file rest l (Eval.insert vars name (evaluate [envOfStr vars] val)) := rfl


end N2V.Load
