/-
  Lemma library for the scanner model: what `read` and `back` do to a well-formed scanner
  (buffer ending in NUL, exact line counter), including `back`'s CR quirk.
-/
import N2V.Model.Scanner
namespace N2V.Scanner

/-- Number of `\n` among the first `k` bytes. -/
def nlCount (buf : Array UInt8) : Nat → Nat
  | 0 => 0
  | k + 1 => nlCount buf k + (if buf[k]? = some NL then 1 else 0)

/-- Well-formed scanner over `buf`: the buffer ends in NUL, the offset is within `0..size`, and
    the line counter is exact. -/
structure SW (buf : Array UInt8) (s : Scanner) : Prop where
  hb : s.buf = buf
  pos : 0 < buf.size
  last : buf[buf.size - 1]? = some NUL
  le : s.ofs ≤ buf.size
  line : s.line = 1 + nlCount buf s.ofs

/-- Not resting on a `\n` that follows a `\r` (where `back` would retreat two bytes). -/
def NCR (buf : Array UInt8) (k : Nat) : Prop :=
  ¬ (buf[k]? = some NL ∧ 0 < k ∧ buf[k - 1]? = some CR)

theorem get_ok {buf : Array UInt8} {s : Scanner} (w : SW buf s) (h : s.ofs < buf.size) :
    ∃ c, buf[s.ofs]? = some c ∧ s.get = .ok c := by
  have : s.ofs < s.buf.size := by rw [w.hb]; exact h
  refine ⟨s.buf[s.ofs], ?_, ?_⟩
  · rw [← w.hb]; exact Array.getElem?_eq_getElem this
  · unfold get; rw [Array.getElem?_eq_getElem this]

/-- `read` on a readable position. -/
theorem read_ok {buf : Array UInt8} {s : Scanner} (w : SW buf s) (h : s.ofs < buf.size) :
    ∃ c s1, buf[s.ofs]? = some c ∧ s.read = .ok (c, s1) ∧ SW buf s1 ∧ s1.ofs = s.ofs + 1 ∧
      (c ≠ NUL → s1.ofs < buf.size) := by
  obtain ⟨c, hc, hg⟩ := get_ok w h
  refine ⟨c, { s with ofs := s.ofs + 1, line := if c == NL then s.line + 1 else s.line }, hc, ?_, ?_, rfl, ?_⟩
  · unfold read; rw [hg]
  · refine ⟨w.hb, w.pos, w.last, by show s.ofs + 1 ≤ buf.size; omega, ?_⟩
    show (if c == NL then s.line + 1 else s.line) = 1 + nlCount buf (s.ofs + 1)
    rw [nlCount, hc, w.line]
    by_cases e : c = NL
    · simp [e]; omega
    · have : (c == NL) = false := by simpa using e
      simp [this, e]
  · intro hne
    show s.ofs + 1 < buf.size
    by_cases e : s.ofs = buf.size - 1
    · exfalso
      rw [e, w.last] at hc
      exact hne (Option.some.inj hc).symm
    · omega

theorem peek_ok {buf : Array UInt8} {s : Scanner} (w : SW buf s) (h : s.ofs < buf.size) :
    ∃ c, buf[s.ofs]? = some c ∧ s.peek = .ok c := get_ok w h

theorem next_ok {buf : Array UInt8} {s : Scanner} (w : SW buf s) (h : s.ofs < buf.size) :
    ∃ c s1, buf[s.ofs]? = some c ∧ s.next = .ok s1 ∧ SW buf s1 ∧ s1.ofs = s.ofs + 1 ∧
      (c ≠ NUL → s1.ofs < buf.size) := by
  obtain ⟨c, s1, hc, hr, w1, ho, hn⟩ := read_ok w h
  exact ⟨c, s1, hc, by unfold next; rw [hr], w1, ho, hn⟩

theorem nlCount_pos {buf : Array UInt8} {k : Nat} (h : buf[k]? = some NL) : 0 < nlCount buf (k + 1) := by
  rw [nlCount, h]; simp

theorem nlCount_mono (buf : Array UInt8) (k : Nat) : nlCount buf k ≤ nlCount buf (k + 1) := by
  rw [nlCount]; omega

/-- `back` after at least one byte was consumed: lands one byte back — or two, on the `\r` of a
    `\r\n` — never on a `\n` that follows a `\r`, and keeps the line counter exact. -/
theorem back_ok {buf : Array UInt8} {s : Scanner} (w : SW buf s) (h : 0 < s.ofs) :
    ∃ s', s.back = .ok s' ∧ SW buf s' ∧ NCR buf s'.ofs ∧ s'.ofs < buf.size ∧
      ((s'.ofs + 1 = s.ofs ∧ buf[s'.ofs]? ≠ some NL) ∨
       (s'.ofs + 1 = s.ofs ∧ buf[s'.ofs]? = some NL ∧ (s'.ofs = 0 ∨ buf[s'.ofs - 1]? ≠ some CR)) ∨
       (s'.ofs + 2 = s.ofs ∧ buf[s'.ofs]? = some CR ∧ buf[s'.ofs + 1]? = some NL)) := by
  obtain ⟨k, hk⟩ : ∃ k, s.ofs = k + 1 := ⟨s.ofs - 1, by omega⟩
  have hklt : k < buf.size := by have := w.le; omega
  have hkb : k < s.buf.size := by rw [w.hb]; exact hklt
  have hc : buf[k]? = some (s.buf[k]) := by rw [← w.hb]; exact Array.getElem?_eq_getElem hkb
  have hline := w.line
  rw [hk, nlCount] at hline
  have hne0 : (s.ofs == 0) = false := by simp [hk]
  unfold back
  simp only [hne0, Bool.false_eq_true, if_false]
  have hget : ({ s with ofs := s.ofs - 1 } : Scanner).get = .ok (s.buf[k]) := by
    unfold get
    show (match s.buf[s.ofs - 1]? with | some c => Res.ok c | none => Res.oob) = _
    rw [hk]; simp only [Nat.add_sub_cancel]
    rw [Array.getElem?_eq_getElem hkb]
  rw [hget]
  simp only []
  by_cases hnl : s.buf[k] = NL
  · -- stepping back over a newline
    have hcn : buf[k]? = some NL := by rw [hc, hnl]
    simp only [hnl, beq_self_eq_true, if_true]
    rw [hcn] at hline
    simp only [if_true] at hline
    by_cases hq : (k > 0 && s.buf[k - 1]? == some CR) = true
    · -- preceded by a carriage return: two bytes back
      have hq' : 0 < k ∧ buf[k - 1]? = some CR := by
        simp only [Bool.and_eq_true, decide_eq_true_eq, beq_iff_eq] at hq
        exact ⟨hq.1, by rw [← w.hb]; exact hq.2⟩
      obtain ⟨j, hj⟩ : ∃ j, k = j + 1 := ⟨k - 1, by omega⟩
      have hcr : buf[j]? = some CR := by have := hq'.2; rw [hj] at this; simpa using this
      have hcount : nlCount buf (j + 1) = nlCount buf j := by
        rw [nlCount, hcr]; simp [CR, NL]
      have hcond : (({ s with ofs := s.ofs - 1 } : Scanner).ofs > 0 &&
          ({ s with ofs := s.ofs - 1 } : Scanner).buf[({ s with ofs := s.ofs - 1 } : Scanner).ofs - 1]? == some CR) = true := by
        show (s.ofs - 1 > 0 && s.buf[s.ofs - 1 - 1]? == some CR) = true
        rw [hk]; simpa using hq
      rw [if_pos hcond]
      have hl0 : ¬ s.line = 0 := by omega
      simp only [show (s.line == 0) = false by simpa using hl0, Bool.false_eq_true, if_false]
      refine ⟨_, rfl, ⟨w.hb, w.pos, w.last, ?_, ?_⟩, ?_, ?_, ?_⟩
      · show s.ofs - 1 - 1 ≤ buf.size; omega
      · show s.line - 1 = 1 + nlCount buf (s.ofs - 1 - 1)
        rw [hk, hj]; simp only [Nat.add_sub_cancel]
        rw [hj, hcount] at hline; omega
      · show NCR buf (s.ofs - 1 - 1)
        rw [hk, hj]; simp only [Nat.add_sub_cancel]
        intro hx; rw [hcr] at hx; simp [CR, NL] at hx
      · show s.ofs - 1 - 1 < buf.size; omega
      · right; right
        show s.ofs - 1 - 1 + 2 = s.ofs ∧ buf[s.ofs - 1 - 1]? = some CR ∧ buf[s.ofs - 1 - 1 + 1]? = some NL
        rw [hk, hj]; simp only [Nat.add_sub_cancel]
        exact ⟨trivial, hcr, by rw [← hj]; exact hcn⟩
    · have hcond : ¬ (({ s with ofs := s.ofs - 1 } : Scanner).ofs > 0 &&
          ({ s with ofs := s.ofs - 1 } : Scanner).buf[({ s with ofs := s.ofs - 1 } : Scanner).ofs - 1]? == some CR) = true := by
        show ¬ (s.ofs - 1 > 0 && s.buf[s.ofs - 1 - 1]? == some CR) = true
        rw [hk]; simpa using hq
      rw [if_neg hcond]
      have hl0 : ¬ s.line = 0 := by omega
      simp only [show (s.line == 0) = false by simpa using hl0, Bool.false_eq_true, if_false]
      refine ⟨_, rfl, ⟨w.hb, w.pos, w.last, ?_, ?_⟩, ?_, ?_, ?_⟩
      · show s.ofs - 1 ≤ buf.size; omega
      · show s.line - 1 = 1 + nlCount buf (s.ofs - 1)
        rw [hk]; simp only [Nat.add_sub_cancel]; omega
      · show NCR buf (s.ofs - 1)
        rw [hk]; simp only [Nat.add_sub_cancel]
        intro hx
        apply hq
        simp only [Bool.and_eq_true, decide_eq_true_eq, beq_iff_eq]
        exact ⟨hx.2.1, by rw [w.hb]; exact hx.2.2⟩
      · show s.ofs - 1 < buf.size; omega
      · right; left
        show s.ofs - 1 + 1 = s.ofs ∧ buf[s.ofs - 1]? = some NL ∧ (s.ofs - 1 = 0 ∨ buf[s.ofs - 1 - 1]? ≠ some CR)
        rw [hk]; simp only [Nat.add_sub_cancel]
        refine ⟨trivial, hcn, ?_⟩
        by_cases hk0 : k = 0
        · exact Or.inl hk0
        · right
          intro hx
          apply hq
          simp only [Bool.and_eq_true, decide_eq_true_eq, beq_iff_eq]
          exact ⟨by omega, by rw [w.hb]; exact hx⟩
  · have hcn : buf[k]? ≠ some NL := by rw [hc]; intro e; exact hnl (Option.some.inj e)
    have : (s.buf[k] == NL) = false := by simpa using hnl
    simp only [this, Bool.false_eq_true, if_false]
    rw [if_neg hcn] at hline
    refine ⟨_, rfl, ⟨w.hb, w.pos, w.last, ?_, ?_⟩, ?_, ?_, ?_⟩
    · show s.ofs - 1 ≤ buf.size; omega
    · show s.line = 1 + nlCount buf (s.ofs - 1)
      rw [hk]; simp only [Nat.add_sub_cancel]; omega
    · show NCR buf (s.ofs - 1)
      rw [hk]; simp only [Nat.add_sub_cancel]
      intro hx; exact hcn hx.1
    · show s.ofs - 1 < buf.size; omega
    · left
      show s.ofs - 1 + 1 = s.ofs ∧ buf[s.ofs - 1]? ≠ some NL
      rw [hk]; simp only [Nat.add_sub_cancel]
      exact ⟨trivial, hcn⟩


/-! ### The rest of the input as a list -/

/-- From offset `k` the buffer continues with exactly the bytes `r` (to its end). -/
def Rest (buf : Array UInt8) (k : Nat) (r : Bytes) : Prop := buf.toList.drop k = r

theorem Rest.head {buf : Array UInt8} {k : Nat} {c : UInt8} {r : Bytes} (h : Rest buf k (c :: r)) :
    buf[k]? = some c := by
  unfold Rest at h
  have : buf.toList[k]? = some c := by
    rw [← List.head?_drop, h]; rfl
  simpa using this

theorem Rest.tail {buf : Array UInt8} {k : Nat} {c : UInt8} {r : Bytes} (h : Rest buf k (c :: r)) :
    Rest buf (k + 1) r := by
  unfold Rest at h ⊢
  have : buf.toList.drop (k + 1) = (buf.toList.drop k).tail := by
    rw [List.tail_drop]
  rw [this, h]; rfl

theorem Rest.lt {buf : Array UInt8} {k : Nat} {c : UInt8} {r : Bytes} (h : Rest buf k (c :: r)) : k < buf.size := by
  have := h.head
  apply Classical.byContradiction
  intro hn
  have : buf[k]? = none := by simp; omega
  simp_all

theorem Rest.append {buf : Array UInt8} {k : Nat} {a r : Bytes} (h : Rest buf k (a ++ r)) :
    Rest buf (k + a.length) r := by
  induction a generalizing k with
  | nil => simpa using h
  | cons c a ih =>
    have := ih (k := k + 1) (by exact Rest.tail (by simpa using h))
    simpa [Nat.add_assoc, Nat.add_comm 1] using this

/-- The bytes between two offsets, when the rest at the first offset is known. -/
theorem Rest.extract {buf : Array UInt8} {k : Nat} {a r : Bytes} (h : Rest buf k (a ++ r)) :
    (buf.extract k (k + a.length)).toList = a := by
  unfold Rest at h
  rw [Array.toList_extract]
  have : (buf.toList.drop k).take a.length = a := by rw [h]; simp
  simpa [List.extract_eq_drop_take] using this

theorem rest_start (text : Bytes) : Rest (text ++ [NUL]).toArray 0 (text ++ [NUL]) := by
  unfold Rest; simp

end N2V.Scanner
