/-
  What `read_eval` computes, at byte level: literal text, `$var` / `${var}` references, the
  escapes `$ ` `$$` `$:` and `$`-newline continuations — and hence that the parsed value does
  not depend on which of the equivalent spellings was used.
-/
import N2V.Lemmas.ParseTotal
namespace N2V.Parse
open N2V N2V.Scanner N2V.Eval
open N2V.Depfile (G ncr_after back_after_read)

theorem bind_eq {α β : Type} (m : PM α) (f : α → PM β) (s s1 : Scanner) (a : α) (h : m s = .ok a s1) :
    (m >>= f) s = f a s1 := by
  simp only [bind, PM.bind, h]

theorem pure_eq {α : Type} (a : α) (s : Scanner) : (pure a : PM α) s = .ok a s := rfl

theorem pRead_eq {buf : Array UInt8} {s : Scanner} {c : UInt8} {r : Bytes} (w : SW buf s)
    (hr : Rest buf s.ofs (c :: r)) :
    ∃ s1, pRead s = .ok c s1 ∧ SW buf s1 ∧ s1.ofs = s.ofs + 1 ∧ Rest buf s1.ofs r ∧ (c ≠ NUL → s1.ofs < buf.size) := by
  obtain ⟨c', s1, hc, hrd, w1, ho, hn⟩ := read_ok w hr.lt
  have : c' = c := by rw [hr.head] at hc; exact (Option.some.inj hc).symm
  subst this
  refine ⟨s1, ?_, w1, ho, by rw [ho]; exact hr.tail, hn⟩
  unfold pRead liftRes; rw [hrd]

theorem pPeek_eq {buf : Array UInt8} {s : Scanner} {c : UInt8} {r : Bytes} (w : SW buf s)
    (hr : Rest buf s.ofs (c :: r)) : pPeek s = .ok c s := by
  obtain ⟨c', hc, hp⟩ := peek_ok w hr.lt
  have : c' = c := by rw [hr.head] at hc; exact (Option.some.inj hc).symm
  subst this
  unfold pPeek; rw [hp]

/-- `back` right after one byte was read from a position in good standing. -/
theorem pBack_eq {buf : Array UInt8} {s s1 : Scanner} (g : G buf s) (w1 : SW buf s1) (ho : s1.ofs = s.ofs + 1) :
    ∃ s', pBack s1 = .ok () s' ∧ G buf s' ∧ s'.ofs = s.ofs := by
  obtain ⟨s', hb, g', e⟩ := back_after_read g w1 ho
  exact ⟨s', by unfold pBack; rw [hb], g', e⟩

/-- `back` over a byte that is not a newline. -/
theorem pBack_plain_eq {buf : Array UInt8} {s : Scanner} (w : SW buf s) (k : Nat) (hk : s.ofs = k + 1) (c : UInt8)
    (hc : buf[k]? = some c) (hne : c ≠ NL) : ∃ s', pBack s = .ok () s' ∧ G buf s' ∧ s'.ofs = k := by
  have := pBack_plain w k hk c hc hne
  cases h : pBack s with
  | ok u s' => rw [h] at this; exact ⟨s', rfl, this.1, this.2⟩
  | perr m o => unfold pBack at h; split at h <;> simp [PRes.ofRes] at h <;> split at h <;> cases h
  | bad r => rw [h] at this; exact this.elim

/-! ### Identifiers -/

theorem identLoop_spec (buf : Array UInt8) (d : Bool) (name : Bytes) : (∀ c ∈ name, isIdentChar c d = true) →
    ∀ (fuel : Nat) (s : Scanner) (c : UInt8) (r : Bytes), SW buf s → Rest buf s.ofs (name ++ c :: r) →
    isIdentChar c d = false → name.length < fuel →
    ∃ s', identLoop d fuel s = .ok () s' ∧ SW buf s' ∧ s'.ofs = s.ofs + name.length + 1 := by
  induction name with
  | nil =>
    intro _ fuel s c r w hr hc hf
    cases fuel with
    | zero => simp at hf
    | succ fuel =>
      obtain ⟨s1, h1, w1, ho, _, _⟩ := pRead_eq w (by simpa using hr)
      refine ⟨s1, ?_, w1, by simp [ho]⟩
      unfold identLoop
      rw [bind_eq _ _ _ _ _ h1]
      simp [hc, pure_eq]
  | cons x name ih =>
    intro hn fuel s c r w hr hc hf
    cases fuel with
    | zero => simp at hf
    | succ fuel =>
      simp only [List.cons_append] at hr
      obtain ⟨s1, h1, w1, ho, hr1, _⟩ := pRead_eq w hr
      obtain ⟨s', h', w', ho'⟩ := ih (fun y hy => hn y (by simp [hy])) fuel s1 c r w1 hr1 hc (by simp at hf; omega)
      refine ⟨s', ?_, w', by simp [ho', ho]; omega⟩
      unfold identLoop
      rw [bind_eq _ _ _ _ _ h1]
      simp only [hn x (by simp), if_true]
      exact h'

/-- `read_ident` / `read_simple_varname` return exactly the run of identifier bytes. -/
theorem readIdentGen_spec (buf : Array UInt8) (d : Bool) (msg : String) (name : Bytes) (hne : name ≠ [])
    (hn : ∀ c ∈ name, isIdentChar c d = true) (s : Scanner) (c : UInt8) (r : Bytes) (g : G buf s)
    (hr : Rest buf s.ofs (name ++ c :: r)) (hc : isIdentChar c d = false) :
    ∃ s', readIdentGen d msg s = .ok name s' ∧ G buf s' ∧ s'.ofs = s.ofs + name.length ∧
      Rest buf s'.ofs (c :: r) := by
  have hlen : name.length < s.buf.size + 1 := by
    have := (Rest.append hr).lt
    rw [g.w.hb]; omega
  obtain ⟨s2, h2, w2, ho2⟩ := identLoop_spec buf d name hn (s.buf.size + 1) s c r g.w hr hc hlen
  -- the byte before the terminator is an identifier byte (or the terminator is the first byte)
  have hrc : Rest buf (s.ofs + name.length) (c :: r) := Rest.append hr
  have hback : ∃ s3, pBack s2 = .ok () s3 ∧ G buf s3 ∧ s3.ofs = s.ofs + name.length := by
    obtain ⟨s3, hb, w3, n3, lt3, hcase⟩ := back_ok w2 (by omega)
    refine ⟨s3, by unfold pBack; rw [hb], ⟨w3, lt3, n3⟩, ?_⟩
    rcases hcase with ⟨h1, _⟩ | ⟨h1, _⟩ | ⟨h2', hcr, _⟩
    · omega
    · omega
    · -- two bytes back would land on the last byte of the name, an identifier byte, not CR
      exfalso
      obtain ⟨pre, x, hpx⟩ : ∃ pre x, name = pre ++ [x] :=
        ⟨name.dropLast, name.getLast hne, (List.dropLast_concat_getLast hne).symm⟩
      have hx := (isIdentChar_ne x d (hn x (by rw [hpx]; simp))).2.1
      have hrx : Rest buf (s.ofs + pre.length) (x :: c :: r) := by
        have : Rest buf s.ofs (pre ++ (x :: c :: r)) := by rw [hpx] at hr; simpa [List.append_assoc] using hr
        exact Rest.append this
      have hpos : s3.ofs = s.ofs + pre.length := by rw [hpx] at ho2; simp at ho2; omega
      rw [hpos, hrx.head] at hcr
      exact hx (Option.some.inj hcr)
  obtain ⟨s3, h3, g3, ho3⟩ := hback
  refine ⟨s3, ?_, g3, ho3, by rw [ho3]; exact hrc⟩
  unfold readIdentGen
  have e1 : pOfs s = .ok s.ofs s := rfl
  have e2 : pSize s = .ok s.buf.size s := rfl
  rw [bind_eq _ _ _ _ _ e1, bind_eq _ _ _ _ _ e2, bind_eq _ _ _ _ _ h2, bind_eq _ _ _ _ _ h3]
  have e3 : pOfs s3 = .ok s3.ofs s3 := rfl
  rw [bind_eq _ _ _ _ _ e3]
  have hne2 : (s3.ofs == s.ofs) = false := by
    have : 0 < name.length := by cases name with | nil => exact absurd rfl hne | cons _ _ => simp
    simp [ho3]; omega
  simp only [hne2, Bool.false_eq_true, if_false]
  unfold pSlice slice
  have hcond : s.ofs ≤ s3.ofs ∧ s3.ofs ≤ s3.buf.size := ⟨by omega, by rw [g3.w.hb]; exact Nat.le_of_lt g3.lt⟩
  rw [if_pos hcond, g3.w.hb, ho3, Rest.extract hr]

/-! ### `${name}` -/

theorem braceLoop_spec (buf : Array UInt8) (name : Bytes) : (∀ c ∈ name, c ≠ NUL ∧ c ≠ RBRACE) →
    ∀ (fuel : Nat) (s : Scanner) (r : Bytes), SW buf s → Rest buf s.ofs (name ++ RBRACE :: r) → name.length < fuel →
    ∃ s', braceLoop fuel s = .ok () s' ∧ G buf s' ∧ s'.ofs = s.ofs + name.length + 1 ∧ Rest buf s'.ofs r := by
  induction name with
  | nil =>
    intro _ fuel s r w hr hf
    cases fuel with
    | zero => simp at hf
    | succ fuel =>
      obtain ⟨s1, h1, w1, ho, hr1, hn⟩ := pRead_eq w (by simpa using hr)
      have hc : buf[s.ofs]? = some RBRACE := Rest.head (by simpa using hr)
      refine ⟨s1, ?_, ⟨w1, hn (by decide), by rw [ho]; exact ncr_after hc (by decide)⟩, by simp [ho], hr1⟩
      unfold braceLoop
      rw [bind_eq _ _ _ _ _ h1]
      have : (RBRACE == NUL) = false := by decide
      simp [this, pure_eq]
  | cons x name ih =>
    intro hn fuel s r w hr hf
    cases fuel with
    | zero => simp at hf
    | succ fuel =>
      simp only [List.cons_append] at hr
      obtain ⟨s1, h1, w1, ho, hr1, _⟩ := pRead_eq w hr
      obtain ⟨s', h', g', ho', hr'⟩ := ih (fun y hy => hn y (by simp [hy])) fuel s1 r w1 hr1 (by simp at hf; omega)
      refine ⟨s', ?_, g', by simp [ho', ho]; omega, hr'⟩
      unfold braceLoop
      rw [bind_eq _ _ _ _ _ h1]
      have hx := hn x (by simp)
      have e1 : (x == NUL) = false := by simpa using hx.1
      have e2 : (x == RBRACE) = false := by simpa using hx.2
      simp only [e1, e2, Bool.false_eq_true, if_false]
      exact h'

end N2V.Parse
