/-
  What `read_eval` computes, at byte level: literal text, `$var` / `${var}` references, the
  escapes `$ ` `$$` `$:` and `$`-newline continuations — and hence that the parsed value does
  not depend on which of the equivalent spellings was used.
-/
import N2V.Lemmas.ParseTotal
import N2V.Lemmas.DepfileSpec
namespace N2V.Parse
open N2V N2V.Scanner N2V.Eval
open N2V.Depfile (G ncr_after back_after_read)

theorem bind_eq {α β : Type} (m : PM α) (f : α → PM β) (s s1 : Scanner) (a : α) (h : m s = .ok a s1) :
    (m >>= f) s = f a s1 := by
  simp only [bind, PM.bind, h]

theorem pure_eq {α : Type} (a : α) (s : Scanner) : (pure a : PM α) s = .ok a s := rfl

theorem pRead_eq {buf : Array UInt8} {s : Scanner} {c : UInt8} {r : Bytes} (w : SW buf s)
    (hr : Rest buf s.ofs (c :: r)) :
    ∃ s1, pRead s = .ok c s1 ∧ SW buf s1 ∧ s1.ofs = s.ofs + 1 ∧ Rest buf s1.ofs r ∧ (c ≠ NUL → s1.ofs < buf.size) := by
  obtain ⟨c', s1, hc, hrd, w1, ho, hn⟩ := read_ok w hr.lt
  have : c' = c := by rw [hr.head] at hc; exact (Option.some.inj hc).symm
  subst this
  refine ⟨s1, ?_, w1, ho, by rw [ho]; exact hr.tail, hn⟩
  unfold pRead liftRes; rw [hrd]

theorem pPeek_eq {buf : Array UInt8} {s : Scanner} {c : UInt8} {r : Bytes} (w : SW buf s)
    (hr : Rest buf s.ofs (c :: r)) : pPeek s = .ok c s := by
  obtain ⟨c', hc, hp⟩ := peek_ok w hr.lt
  have : c' = c := by rw [hr.head] at hc; exact (Option.some.inj hc).symm
  subst this
  unfold pPeek; rw [hp]

/-- `back` right after one byte was read from a position in good standing. -/
theorem pBack_eq {buf : Array UInt8} {s s1 : Scanner} (g : G buf s) (w1 : SW buf s1) (ho : s1.ofs = s.ofs + 1) :
    ∃ s', pBack s1 = .ok () s' ∧ G buf s' ∧ s'.ofs = s.ofs := by
  obtain ⟨s', hb, g', e⟩ := back_after_read g w1 ho
  exact ⟨s', by unfold pBack; rw [hb], g', e⟩

/-- `back` over a byte that is not a newline. -/
theorem pBack_plain_eq {buf : Array UInt8} {s : Scanner} (w : SW buf s) (k : Nat) (hk : s.ofs = k + 1) (c : UInt8)
    (hc : buf[k]? = some c) (hne : c ≠ NL) : ∃ s', pBack s = .ok () s' ∧ G buf s' ∧ s'.ofs = k := by
  have := pBack_plain w k hk c hc hne
  cases h : pBack s with
  | ok u s' => rw [h] at this; exact ⟨s', rfl, this.1, this.2⟩
  | perr m o => unfold pBack at h; split at h <;> simp [PRes.ofRes] at h <;> split at h <;> cases h
  | bad r => rw [h] at this; exact this.elim

/-! ### Identifiers -/

theorem identLoop_spec (buf : Array UInt8) (d : Bool) (name : Bytes) : (∀ c ∈ name, isIdentChar c d = true) →
    ∀ (fuel : Nat) (s : Scanner) (c : UInt8) (r : Bytes), SW buf s → Rest buf s.ofs (name ++ c :: r) →
    isIdentChar c d = false → name.length < fuel →
    ∃ s', identLoop d fuel s = .ok () s' ∧ SW buf s' ∧ s'.ofs = s.ofs + name.length + 1 := by
  induction name with
  | nil =>
    intro _ fuel s c r w hr hc hf
    cases fuel with
    | zero => simp at hf
    | succ fuel =>
      obtain ⟨s1, h1, w1, ho, _, _⟩ := pRead_eq w (by simpa using hr)
      refine ⟨s1, ?_, w1, by simp [ho]⟩
      unfold identLoop
      rw [bind_eq _ _ _ _ _ h1]
      simp [hc, pure_eq]
  | cons x name ih =>
    intro hn fuel s c r w hr hc hf
    cases fuel with
    | zero => simp at hf
    | succ fuel =>
      simp only [List.cons_append] at hr
      obtain ⟨s1, h1, w1, ho, hr1, _⟩ := pRead_eq w hr
      obtain ⟨s', h', w', ho'⟩ := ih (fun y hy => hn y (by simp [hy])) fuel s1 c r w1 hr1 hc (by simp at hf; omega)
      refine ⟨s', ?_, w', by simp [ho', ho]; omega⟩
      unfold identLoop
      rw [bind_eq _ _ _ _ _ h1]
      simp only [hn x (by simp), if_true]
      exact h'

/-- `read_ident` / `read_simple_varname` return exactly the run of identifier bytes. -/
theorem readIdentGen_spec (buf : Array UInt8) (d : Bool) (msg : String) (name : Bytes) (hne : name ≠ [])
    (hn : ∀ c ∈ name, isIdentChar c d = true) (s : Scanner) (c : UInt8) (r : Bytes) (g : G buf s)
    (hr : Rest buf s.ofs (name ++ c :: r)) (hc : isIdentChar c d = false) :
    ∃ s', readIdentGen d msg s = .ok name s' ∧ G buf s' ∧ s'.ofs = s.ofs + name.length ∧
      Rest buf s'.ofs (c :: r) := by
  have hlen : name.length < s.buf.size + 1 := by
    have := (Rest.append hr).lt
    rw [g.w.hb]; omega
  obtain ⟨s2, h2, w2, ho2⟩ := identLoop_spec buf d name hn (s.buf.size + 1) s c r g.w hr hc hlen
  -- the byte before the terminator is an identifier byte (or the terminator is the first byte)
  have hrc : Rest buf (s.ofs + name.length) (c :: r) := Rest.append hr
  have hback : ∃ s3, pBack s2 = .ok () s3 ∧ G buf s3 ∧ s3.ofs = s.ofs + name.length := by
    obtain ⟨s3, hb, w3, n3, lt3, hcase⟩ := back_ok w2 (by omega)
    refine ⟨s3, by unfold pBack; rw [hb], ⟨w3, lt3, n3⟩, ?_⟩
    rcases hcase with ⟨h1, _⟩ | ⟨h1, _⟩ | ⟨h2', hcr, _⟩
    · omega
    · omega
    · -- two bytes back would land on the last byte of the name, an identifier byte, not CR
      exfalso
      obtain ⟨pre, x, hpx⟩ : ∃ pre x, name = pre ++ [x] :=
        ⟨name.dropLast, name.getLast hne, (List.dropLast_concat_getLast hne).symm⟩
      have hx := (isIdentChar_ne x d (hn x (by rw [hpx]; simp))).2.1
      have hrx : Rest buf (s.ofs + pre.length) (x :: c :: r) := by
        have : Rest buf s.ofs (pre ++ (x :: c :: r)) := by rw [hpx] at hr; simpa [List.append_assoc] using hr
        exact Rest.append this
      have hpos : s3.ofs = s.ofs + pre.length := by rw [hpx] at ho2; simp at ho2; omega
      rw [hpos, hrx.head] at hcr
      exact hx (Option.some.inj hcr)
  obtain ⟨s3, h3, g3, ho3⟩ := hback
  refine ⟨s3, ?_, g3, ho3, by rw [ho3]; exact hrc⟩
  unfold readIdentGen
  have e1 : pOfs s = .ok s.ofs s := rfl
  have e2 : pSize s = .ok s.buf.size s := rfl
  rw [bind_eq _ _ _ _ _ e1, bind_eq _ _ _ _ _ e2, bind_eq _ _ _ _ _ h2, bind_eq _ _ _ _ _ h3]
  have e3 : pOfs s3 = .ok s3.ofs s3 := rfl
  rw [bind_eq _ _ _ _ _ e3]
  have hne2 : (s3.ofs == s.ofs) = false := by
    have : 0 < name.length := by cases name with | nil => exact absurd rfl hne | cons _ _ => simp
    simp [ho3]; omega
  simp only [hne2, Bool.false_eq_true, if_false]
  unfold pSlice slice
  have hcond : s.ofs ≤ s3.ofs ∧ s3.ofs ≤ s3.buf.size := ⟨by omega, by rw [g3.w.hb]; exact Nat.le_of_lt g3.lt⟩
  rw [if_pos hcond, g3.w.hb, ho3, Rest.extract hr]

/-! ### `${name}` -/

theorem braceLoop_spec (buf : Array UInt8) (name : Bytes) : (∀ c ∈ name, c ≠ NUL ∧ c ≠ RBRACE) →
    ∀ (fuel : Nat) (s : Scanner) (r : Bytes), SW buf s → Rest buf s.ofs (name ++ RBRACE :: r) → name.length < fuel →
    ∃ s', braceLoop fuel s = .ok () s' ∧ G buf s' ∧ s'.ofs = s.ofs + name.length + 1 ∧ Rest buf s'.ofs r := by
  induction name with
  | nil =>
    intro _ fuel s r w hr hf
    cases fuel with
    | zero => simp at hf
    | succ fuel =>
      obtain ⟨s1, h1, w1, ho, hr1, hn⟩ := pRead_eq w (by simpa using hr)
      have hc : buf[s.ofs]? = some RBRACE := Rest.head (by simpa using hr)
      refine ⟨s1, ?_, ⟨w1, hn (by decide), by rw [ho]; exact ncr_after hc (by decide)⟩, by simp [ho], hr1⟩
      unfold braceLoop
      rw [bind_eq _ _ _ _ _ h1]
      have : (RBRACE == NUL) = false := by decide
      simp [this, pure_eq]
  | cons x name ih =>
    intro hn fuel s r w hr hf
    cases fuel with
    | zero => simp at hf
    | succ fuel =>
      simp only [List.cons_append] at hr
      obtain ⟨s1, h1, w1, ho, hr1, _⟩ := pRead_eq w hr
      obtain ⟨s', h', g', ho', hr'⟩ := ih (fun y hy => hn y (by simp [hy])) fuel s1 r w1 hr1 (by simp at hf; omega)
      refine ⟨s', ?_, g', by simp [ho', ho]; omega, hr'⟩
      unfold braceLoop
      rw [bind_eq _ _ _ _ _ h1]
      have hx := hn x (by simp)
      have e1 : (x == NUL) = false := by simpa using hx.1
      have e2 : (x == RBRACE) = false := by simpa using hx.2
      simp only [e1, e2, Bool.false_eq_true, if_false]
      exact h'


/-! ### Escapes -/

/-- What may follow a `$`. -/
inductive Esc where
  | cont (k : Nat)            -- `$` newline, then `k` spaces of indentation: nothing
  | ch (c : UInt8)            -- `$ `, `$$`, `$:`: the character itself
  | braced (name : Bytes)     -- `${name}`
  | simple (name : Bytes)     -- `$name`
  deriving Repr

def escBytes : Esc → Bytes
  | .cont k => NL :: List.replicate k SP
  | .ch c => [c]
  | .braced n => LBRACE :: n ++ [RBRACE]
  | .simple n => n

def escPart : Esc → Part
  | .cont _ => .lit []
  | .ch c => .lit [c]
  | .braced n => .var n
  | .simple n => .var n

/-- Well-formedness of an escape, given the byte `nx` that follows it. -/
def EscWF (e : Esc) (nx : UInt8) : Prop :=
  match e with
  | .cont _ => nx ≠ SP
  | .ch c => c = SP ∨ c = DOLLAR ∨ c = COLON
  | .braced n => ∀ c ∈ n, c ≠ NUL ∧ c ≠ RBRACE
  | .simple n => n ≠ [] ∧ (∀ c ∈ n, isIdentChar c false = true) ∧ isIdentChar nx false = false

theorem pScannerSkipSpaces_eq {buf : Array UInt8} {s : Scanner} (g : G buf s) (k : Nat) (c : UInt8) (r : Bytes)
    (hr : Rest buf s.ofs (List.replicate k SP ++ c :: r)) (hc : c ≠ SP) :
    ∃ s', pScannerSkipSpaces s = .ok () s' ∧ G buf s' ∧ s'.ofs = s.ofs + k ∧ Rest buf s'.ofs (c :: r) := by
  obtain ⟨s', h', g', ho'⟩ := Depfile.scanner_skipSpaces_spec buf k (s.buf.size + 1) s c r g hr hc
    (by rw [g.w.hb]; omega)
  refine ⟨s', by unfold pScannerSkipSpaces; rw [h'], g', ho', ?_⟩
  have := Rest.append (a := List.replicate k SP) hr
  rw [List.length_replicate] at this
  rw [ho']; exact this

theorem readEscape_spec (buf : Array UInt8) (e : Esc) (nx : UInt8) (r : Bytes) (hwf : EscWF e nx) (s : Scanner)
    (g : G buf s) (hr : Rest buf s.ofs (escBytes e ++ nx :: r)) :
    ∃ s', readEscape s = .ok (escPart e) s' ∧ G buf s' ∧ s'.ofs = s.ofs + (escBytes e).length ∧
      Rest buf s'.ofs (nx :: r) := by
  cases e with
  | cont k =>
    simp only [escBytes, List.cons_append] at hr
    obtain ⟨s1, h1, w1, ho, hr1, hn⟩ := pRead_eq g.w hr
    have g1 : G buf s1 := ⟨w1, hn (by decide), by rw [ho]; exact ncr_after hr.head (by decide)⟩
    obtain ⟨s2, h2, g2, ho2, hr2⟩ := pScannerSkipSpaces_eq g1 k nx r hr1 hwf
    refine ⟨s2, ?_, g2, by simp [escBytes, ho2, ho]; omega, hr2⟩
    unfold readEscape
    rw [bind_eq _ _ _ _ _ h1]
    simp only [beq_self_eq_true, if_true]
    rw [bind_eq _ _ _ _ _ h2]
    rfl
  | ch c =>
    simp only [escBytes, List.cons_append, List.nil_append] at hr
    obtain ⟨s1, h1, w1, ho, hr1, hn⟩ := pRead_eq g.w hr
    have hcn : c ≠ NUL ∧ c ≠ CR ∧ c ≠ NL := by
      rcases hwf with h | h | h <;> subst h <;> decide
    have g1 : G buf s1 := ⟨w1, hn hcn.1, by rw [ho]; exact ncr_after hr.head hcn.2.1⟩
    refine ⟨s1, ?_, g1, by simp [escBytes, ho], hr1⟩
    unfold readEscape
    rw [bind_eq _ _ _ _ _ h1]
    have e1 : (c == NL) = false := by simpa using hcn.2.2
    have e2 : (c == SP || c == DOLLAR || c == COLON) = true := by
      rcases hwf with h | h | h <;> subst h <;> decide
    simp only [e1, e2, Bool.false_eq_true, if_false, if_true]
    rfl
  | braced n =>
    simp only [escBytes, List.cons_append, List.append_assoc] at hr
    obtain ⟨s1, h1, w1, ho, hr1, hn⟩ := pRead_eq g.w hr
    have hlt1 : s1.ofs < buf.size := hn (by decide)
    have hlen : n.length < s1.buf.size + 1 := by
      have := (Rest.append (a := n) (by simpa using hr1)).lt
      rw [w1.hb]; omega
    obtain ⟨s2, h2, g2, ho2, hr2⟩ := braceLoop_spec buf n hwf (s1.buf.size + 1) s1 (nx :: r) w1 (by simpa using hr1) hlen
    refine ⟨s2, ?_, g2, by simp [escBytes, ho2, ho]; omega, hr2⟩
    unfold readEscape
    rw [bind_eq _ _ _ _ _ h1]
    have e1 : (LBRACE == NL) = false := by decide
    have e2 : (LBRACE == SP || LBRACE == DOLLAR || LBRACE == COLON) = false := by decide
    simp only [e1, e2, Bool.false_eq_true, if_false, beq_self_eq_true, if_true]
    have e3 : pOfs s1 = .ok s1.ofs s1 := rfl
    have e4 : pSize s1 = .ok s1.buf.size s1 := rfl
    rw [bind_eq _ _ _ _ _ e3, bind_eq _ _ _ _ _ e4, bind_eq _ _ _ _ _ h2]
    have e5 : pOfs s2 = .ok s2.ofs s2 := rfl
    rw [bind_eq _ _ _ _ _ e5]
    have hsl : pSlice s1.ofs (s2.ofs - 1) s2 = .ok n s2 := by
      unfold pSlice slice
      have hcond : s1.ofs ≤ s2.ofs - 1 ∧ s2.ofs - 1 ≤ s2.buf.size := ⟨by omega, by rw [g2.w.hb]; have := g2.lt; omega⟩
      rw [if_pos hcond, g2.w.hb]
      have : s2.ofs - 1 = s1.ofs + n.length := by omega
      rw [this, Rest.extract (a := n) (by simpa using hr1)]
    rw [bind_eq _ _ _ _ _ hsl]
    rfl
  | simple n =>
    simp only [escBytes] at hr
    obtain ⟨hne, hn, hnx⟩ := hwf
    obtain ⟨c0, n', hc0⟩ : ∃ c0 n', n = c0 :: n' := by
      cases n with
      | nil => exact absurd rfl hne
      | cons c0 n' => exact ⟨c0, n', rfl⟩
    have hid0 : isIdentChar c0 false = true := hn c0 (by rw [hc0]; simp)
    have hr' : Rest buf s.ofs (c0 :: (n' ++ nx :: r)) := by rw [hc0] at hr; simpa using hr
    obtain ⟨s1, h1, w1, ho, hr1, _⟩ := pRead_eq g.w hr'
    obtain ⟨s2, h2, g2, ho2⟩ := pBack_eq g w1 ho
    have hr2 : Rest buf s2.ofs (n ++ nx :: r) := by rw [ho2]; exact hr
    obtain ⟨s3, h3, g3, ho3, hr3⟩ := readIdentGen_spec buf false "failed to scan variable name" n hne hn s2 nx r g2 hr2 hnx
    refine ⟨s3, ?_, g3, by simp [escBytes, ho3, ho2], hr3⟩
    unfold readEscape
    rw [bind_eq _ _ _ _ _ h1]
    have e1 : (c0 == NL) = false := by
      have := (isIdentChar_ne c0 false hid0).2.2; simpa using this
    have e2 : (c0 == SP || c0 == DOLLAR || c0 == COLON) = false := by
      have h := hid0
      simp only [Bool.or_eq_false_iff, beq_eq_false_iff_ne]
      refine ⟨⟨?_, ?_⟩, ?_⟩ <;> intro e <;> subst e <;> simp [isIdentChar, SP, DOLLAR, COLON] at h
    have e3 : (c0 == LBRACE) = false := by
      have h := hid0
      simp only [beq_eq_false_iff_ne]; intro e; subst e; simp [isIdentChar, LBRACE] at h
    simp only [e1, e2, e3, Bool.false_eq_true, if_false]
    rw [bind_eq _ _ _ _ _ h2]
    have : readSimpleVarname s2 = .ok n s3 := h3
    rw [bind_eq _ _ _ _ _ this]
    rfl


/-! ### `read_eval` -/

/-- A byte of literal text (`sep`: paths on a `build` line also stop at space, `:` and `|`). -/
def plain (sep : Bool) (c : UInt8) : Prop :=
  c ≠ NUL ∧ c ≠ NL ∧ c ≠ DOLLAR ∧ c ≠ CR ∧ (sep = true → c ≠ SP ∧ c ≠ COLON ∧ c ≠ PIPE)

def stops (sep : Bool) (t : UInt8) : Prop := t = NL ∨ (sep = true ∧ (t = SP ∨ t = COLON ∨ t = PIPE))

abbrev Seg := Bytes × Esc

def segBytes (sg : Seg) : Bytes := sg.1 ++ DOLLAR :: escBytes sg.2
def segsBytes (segs : List Seg) : Bytes := segs.flatMap segBytes
def segParts (sg : Seg) : List Part := (if sg.1.isEmpty then [] else [Part.lit sg.1]) ++ [escPart sg.2]

/-- Literal runs are plain text and each escape is well-formed w.r.t. the byte that follows it. -/
def SegsWF (sep : Bool) : List Seg → Bytes → Prop
  | [], _ => True
  | sg :: segs, tail => (∀ c ∈ sg.1, plain sep c) ∧
      (∃ nx x, segsBytes segs ++ tail = nx :: x ∧ EscWF sg.2 nx) ∧ SegsWF sep segs tail

theorem pBack_ncr {buf : Array UInt8} {s : Scanner} (w : SW buf s) (k : Nat) (hk : s.ofs = k + 1) (hn : NCR buf k) :
    ∃ s', pBack s = .ok () s' ∧ G buf s' ∧ s'.ofs = k := by
  obtain ⟨s', hb, w', n', lt', hcase⟩ := back_ok w (by omega)
  refine ⟨s', by unfold pBack; rw [hb], ⟨w', lt', n'⟩, ?_⟩
  rcases hcase with ⟨h1, _⟩ | ⟨h1, _⟩ | ⟨h2, hcr, hnl⟩
  · omega
  · omega
  · exfalso
    apply hn
    have e : s'.ofs + 1 = k := by omega
    refine ⟨by rw [← e]; exact hnl, by omega, ?_⟩
    rw [← e]; simpa using hcr

/-- The loop steps over a run of literal text without changing its accumulators. -/
theorem evalLoop_lit (buf : Array UInt8) (sep : Bool) (l : Bytes) : (∀ c ∈ l, plain sep c) →
    ∀ (fuel : Nat) (ofs : Nat) (acc : List Part) (s : Scanner) (x : Bytes), SW buf s → NCR buf s.ofs →
    Rest buf s.ofs (l ++ x) → x ≠ [] →
    ∃ s', evalLoop sep (fuel + l.length) ofs acc s = evalLoop sep fuel ofs acc s' ∧ SW buf s' ∧ NCR buf s'.ofs ∧
      s'.ofs = s.ofs + l.length ∧ Rest buf s'.ofs x := by
  induction l with
  | nil => intro _ fuel ofs acc s x w hn hr _; exact ⟨s, rfl, w, hn, by simp, by simpa using hr⟩
  | cons c l ih =>
    intro hp fuel ofs acc s x w hn hr hx
    simp only [List.cons_append] at hr
    have hc := hp c (by simp)
    obtain ⟨s1, h1, w1, ho, hr1, _⟩ := pRead_eq w hr
    obtain ⟨s', h', w', n', ho', hr'⟩ := ih (fun y hy => hp y (by simp [hy])) fuel ofs acc s1 x w1
      (by rw [ho]; exact ncr_after hr.head hc.2.2.2.1) hr1 hx
    refine ⟨s', ?_, w', n', by simp [ho', ho]; omega, hr'⟩
    rw [← h']
    have : fuel + (c :: l).length = (fuel + l.length) + 1 := by simp; omega
    rw [this]
    conv => lhs; unfold evalLoop
    rw [bind_eq _ _ _ _ _ h1]
    have e1 : (c == NUL) = false := by simpa using hc.1
    have e2 : (c == NL || (sep && (c == SP || c == COLON || c == PIPE))) = false := by
      have e3 : (c == NL) = false := by simpa using hc.2.1
      cases sep with
      | false => simp [e3]
      | true =>
        have := hc.2.2.2.2 rfl
        simp [e3, this.1, this.2.1, this.2.2]
    have e4 : (c == DOLLAR) = false := by simpa using hc.2.2.1
    simp only [e1, e2, e4, Bool.false_eq_true, if_false]

theorem segsBytes_cons (sg : Seg) (segs : List Seg) : segsBytes (sg :: segs) = segBytes sg ++ segsBytes segs := by
  simp [segsBytes]

theorem evalLoop_spec (buf : Array UInt8) (sep : Bool) (last : Bytes) (t : UInt8) (r : Bytes)
    (hlast : ∀ c ∈ last, plain sep c) (ht : stops sep t) (segs : List Seg) :
    SegsWF sep segs (last ++ t :: r) → ∀ (fuel : Nat) (acc : List Part) (s : Scanner), G buf s →
    Rest buf s.ofs (segsBytes segs ++ last ++ t :: r) → (segsBytes segs ++ last).length + 1 ≤ fuel →
    ∃ s', evalLoop sep fuel s.ofs acc s = .ok (acc ++ segs.flatMap segParts, s'.ofs - last.length, s'.ofs) s' ∧
      G buf s' ∧ s'.ofs = s.ofs + (segsBytes segs ++ last).length ∧ Rest buf s'.ofs (t :: r) := by
  induction segs with
  | nil =>
    intro _ fuel acc s g hr hf
    simp only [segsBytes, List.flatMap_nil, List.nil_append] at hr hf
    obtain ⟨fuel', hfe⟩ : ∃ f', fuel = (f' + 1) + last.length := ⟨fuel - last.length - 1, by omega⟩
    obtain ⟨s1, h1, w1, n1, ho1, hr1⟩ := evalLoop_lit buf sep last hlast (fuel' + 1) s.ofs acc s (t :: r) g.w g.ncr hr (by simp)
    obtain ⟨s2, h2, w2, ho2, hr2, _⟩ := pRead_eq w1 hr1
    obtain ⟨s3, h3, g3, ho3⟩ := pBack_ncr w2 s1.ofs ho2 n1
    refine ⟨s3, ?_, g3, by simp [segsBytes, ho3, ho1], by rw [ho3]; exact hr1⟩
    rw [hfe, h1]
    unfold evalLoop
    rw [bind_eq _ _ _ _ _ h2]
    have htn : t ≠ NUL := by
      rcases ht with h | ⟨_, h | h | h⟩ <;> subst h <;> decide
    have e1 : (t == NUL) = false := by simpa using htn
    have e2 : (t == NL || (sep && (t == SP || t == COLON || t == PIPE))) = true := by
      rcases ht with h | ⟨hs, h | h | h⟩
      · subst h; simp
      · subst h; simp [hs]
      · subst h; simp [hs]
      · subst h; simp [hs]
    simp only [e1, e2, Bool.false_eq_true, if_false, if_true]
    rw [bind_eq _ _ _ _ _ h3]
    have e3 : pOfs s3 = .ok s3.ofs s3 := rfl
    rw [bind_eq _ _ _ _ _ e3]
    simp [pure_eq, ho3, ho1]
  | cons sg segs ih =>
    intro hwf fuel acc s g hr hf
    obtain ⟨l, e⟩ := sg
    obtain ⟨hl, ⟨nx, x, hnx, hewf⟩, hwf'⟩ := hwf
    simp only [] at hl hewf
    -- the bytes: literal, `$`, escape, then what follows
    have hbytes : segsBytes ((l, e) :: segs) ++ last ++ t :: r
        = l ++ (DOLLAR :: (escBytes e ++ nx :: x)) := by
      rw [segsBytes_cons, ← hnx]; simp [segBytes, List.append_assoc]
    rw [hbytes] at hr
    have hlen : (segsBytes ((l, e) :: segs) ++ last).length
        = l.length + 1 + (escBytes e).length + (segsBytes segs ++ last).length := by
      rw [segsBytes_cons]; simp [segBytes]; omega
    obtain ⟨fuel', hfe⟩ : ∃ f', fuel = (f' + 1) + l.length := ⟨fuel - l.length - 1, by omega⟩
    obtain ⟨s1, h1, w1, n1, ho1, hr1⟩ := evalLoop_lit buf sep l hl (fuel' + 1) s.ofs acc s _ g.w g.ncr hr (by simp)
    obtain ⟨s2, h2, w2, ho2, hr2, hn2⟩ := pRead_eq w1 hr1
    have g2 : G buf s2 := ⟨w2, hn2 (by decide), by rw [ho2]; exact ncr_after hr1.head (by decide)⟩
    obtain ⟨s3, h3, g3, ho3, hr3⟩ := readEscape_spec buf e nx x hewf s2 g2 hr2
    have hr3' : Rest buf s3.ofs (segsBytes segs ++ last ++ t :: r) := by
      have : nx :: x = segsBytes segs ++ last ++ t :: r := by rw [← hnx]; simp [List.append_assoc]
      rw [← this]; exact hr3
    obtain ⟨s', h', g', ho', hr'⟩ := ih hwf' fuel'
      ((if s2.ofs - 1 > s.ofs then acc ++ [Part.lit l] else acc) ++ [escPart e]) s3 g3 hr3' (by omega)
    refine ⟨s', ?_, g', by rw [ho', ho3, ho2, ho1, hlen]; omega, hr'⟩
    rw [hfe, h1]
    unfold evalLoop
    rw [bind_eq _ _ _ _ _ h2]
    have e1 : (DOLLAR == NUL) = false := by decide
    have e2 : (DOLLAR == NL || (sep && (DOLLAR == SP || DOLLAR == COLON || DOLLAR == PIPE))) = false := by
      cases sep <;> decide
    simp only [e1, e2, Bool.false_eq_true, if_false, beq_self_eq_true, if_true]
    have e3 : pOfs s2 = .ok s2.ofs s2 := rfl
    rw [bind_eq _ _ _ _ _ e3]
    -- the pending literal
    have hacc1 : (if s2.ofs - 1 > s.ofs then (do let lit ← pSlice s.ofs (s2.ofs - 1); pure (acc ++ [Part.lit lit]))
        else (pure acc : PM (List Part))) s2
        = .ok (if s2.ofs - 1 > s.ofs then acc ++ [Part.lit l] else acc) s2 := by
      by_cases hgt : s2.ofs - 1 > s.ofs
      · simp only [hgt, if_true]
        have hsl : pSlice s.ofs (s2.ofs - 1) s2 = .ok l s2 := by
          unfold pSlice slice
          have hcond : s.ofs ≤ s2.ofs - 1 ∧ s2.ofs - 1 ≤ s2.buf.size := ⟨by omega, by rw [w2.hb]; have := w2.le; omega⟩
          rw [if_pos hcond, w2.hb]
          have : s2.ofs - 1 = s.ofs + l.length := by omega
          rw [this, Rest.extract hr]
        rw [bind_eq _ _ _ _ _ hsl]; rfl
      · simp only [hgt, if_false]; rfl
    rw [bind_eq _ _ _ _ _ hacc1, bind_eq _ _ _ _ _ h3]
    have e4 : pOfs s3 = .ok s3.ofs s3 := rfl
    rw [bind_eq _ _ _ _ _ e4, h']
    -- the accumulated parts
    have hparts : (if s2.ofs - 1 > s.ofs then acc ++ [Part.lit l] else acc) ++ [escPart e] = acc ++ segParts (l, e) := by
      unfold segParts
      by_cases hle : l = []
      · subst hle
        have : ¬ s2.ofs - 1 > s.ofs := by simp at ho1; omega
        simp [this]
      · have : s2.ofs - 1 > s.ofs := by
          have : 0 < l.length := by cases l with | nil => exact absurd rfl hle | cons _ _ => simp
          omega
        have hne : l.isEmpty = false := by cases l with | nil => exact absurd rfl hle | cons _ _ => rfl
        simp [this, hne]
    rw [hparts]
    simp [List.flatMap_cons, List.append_assoc]


/-- The value `read_eval` returns for a text made of segments and a last literal. -/
def textParts (segs : List Seg) (last : Bytes) : List Part :=
  segs.flatMap segParts ++ (if last.isEmpty then [] else [Part.lit last])

/-- **`read_eval` at byte level**: for text made of literal runs, `$var` / `${var}` references,
    `$ ` `$$` `$:` escapes and `$`-newline continuations (followed by any indentation), up to the
    newline — or the space, `:` or `|` that ends a path — it returns exactly the corresponding
    parts, and stops at that terminator. -/
theorem readEval_spec (buf : Array UInt8) (sep : Bool) (segs : List Seg) (last : Bytes) (t : UInt8) (r : Bytes)
    (hwf : SegsWF sep segs (last ++ t :: r)) (hlast : ∀ c ∈ last, plain sep c) (ht : stops sep t)
    (hne : textParts segs last ≠ []) (s : Scanner) (g : G buf s)
    (hr : Rest buf s.ofs (segsBytes segs ++ last ++ t :: r)) :
    ∃ s', readEval sep s = .ok (textParts segs last) s' ∧ G buf s' ∧ Rest buf s'.ofs (t :: r) := by
  have hlen : (segsBytes segs ++ last).length + 1 ≤ s.buf.size + 1 := by
    have h1 := Rest.append (a := segsBytes segs ++ last) (by simpa [List.append_assoc] using hr)
    have := h1.lt
    rw [g.w.hb]; omega
  obtain ⟨s1, h1, g1, ho1, hr1⟩ := evalLoop_spec buf sep last t r hlast ht segs hwf (s.buf.size + 1) [] s g hr hlen
  refine ⟨s1, ?_, g1, hr1⟩
  unfold readEval
  have e1 : pOfs s = .ok s.ofs s := rfl
  have e2 : pSize s = .ok s.buf.size s := rfl
  rw [bind_eq _ _ _ _ _ e1, bind_eq _ _ _ _ _ e2, bind_eq _ _ _ _ _ h1]
  simp only [List.nil_append]
  have hacc : (if s1.ofs > s1.ofs - last.length then (do
        let l ← pSlice (s1.ofs - last.length) s1.ofs; pure (segs.flatMap segParts ++ [Part.lit l]))
      else (pure (segs.flatMap segParts) : PM (List Part))) s1 = .ok (textParts segs last) s1 := by
    unfold textParts
    by_cases hl : last = []
    · subst hl; simp [pure_eq]
    · have hpos : 0 < last.length := by cases last with | nil => exact absurd rfl hl | cons _ _ => simp
      have hgt : s1.ofs > s1.ofs - last.length := by simp [List.length_append] at ho1; omega
      have hne' : last.isEmpty = false := by cases last with | nil => exact absurd rfl hl | cons _ _ => rfl
      simp only [hgt, if_true, hne', Bool.false_eq_true, if_false]
      have hsl : pSlice (s1.ofs - last.length) s1.ofs s1 = .ok last s1 := by
        unfold pSlice slice
        have hcond : s1.ofs - last.length ≤ s1.ofs ∧ s1.ofs ≤ s1.buf.size := ⟨by omega, by rw [g1.w.hb]; exact Nat.le_of_lt g1.lt⟩
        rw [if_pos hcond, g1.w.hb]
        have hrl : Rest buf (s.ofs + (segsBytes segs).length) (last ++ t :: r) :=
          Rest.append (a := segsBytes segs) (by simpa [List.append_assoc] using hr)
        have e3 : s1.ofs - last.length = s.ofs + (segsBytes segs).length := by
          simp [List.length_append] at ho1; omega
        have e4 : s1.ofs = s.ofs + (segsBytes segs).length + last.length := by
          simp [List.length_append] at ho1; omega
        rw [e3]
        conv => lhs; rw [e4]
        rw [Rest.extract hrl]
      rw [bind_eq _ _ _ _ _ hsl]; rfl
  rw [bind_eq _ _ _ _ _ hacc]
  have hem : (textParts segs last).isEmpty = false := by
    cases h : textParts segs last with
    | nil => exact absurd h hne
    | cons _ _ => rfl
  simp only [hem, Bool.false_eq_true, if_false]
  rfl

/-- **`$var` versus `${var}`**: two texts that differ only in how references are spelled are
    read as the same value. -/
theorem readEval_brace_independent (buf buf' : Array UInt8) (sep : Bool) (segs segs' : List Seg) (last : Bytes)
    (t t' : UInt8) (r r' : Bytes)
    (hsame : segs.map (fun sg => (sg.1, escPart sg.2)) = segs'.map (fun sg => (sg.1, escPart sg.2)))
    (hwf : SegsWF sep segs (last ++ t :: r)) (hwf' : SegsWF sep segs' (last ++ t' :: r'))
    (hlast : ∀ c ∈ last, plain sep c) (ht : stops sep t) (ht' : stops sep t')
    (hne : textParts segs last ≠ []) (s s' : Scanner) (g : G buf s) (g' : G buf' s')
    (hr : Rest buf s.ofs (segsBytes segs ++ last ++ t :: r))
    (hr' : Rest buf' s'.ofs (segsBytes segs' ++ last ++ t' :: r')) :
    ∃ v s1 s1', readEval sep s = .ok v s1 ∧ readEval sep s' = .ok v s1' := by
  have hparts : textParts segs last = textParts segs' last := by
    unfold textParts
    congr 1
    have : ∀ l : List Seg, l.flatMap segParts
        = (l.map (fun sg => (sg.1, escPart sg.2))).flatMap (fun p => (if p.1.isEmpty then [] else [Part.lit p.1]) ++ [p.2]) := by
      intro l; induction l with
      | nil => rfl
      | cons a l ih => simp [segParts, ih]
    rw [this segs, this segs', hsame]
  obtain ⟨s1, h1, _, _⟩ := readEval_spec buf sep segs last t r hwf hlast ht hne s g hr
  obtain ⟨s1', h1', _, _⟩ := readEval_spec buf' sep segs' last t' r' hwf' hlast ht' (by rw [← hparts]; exact hne) s' g' hr'
  exact ⟨textParts segs last, s1, s1', h1, by rw [hparts]; exact h1'⟩

end N2V.Parse
