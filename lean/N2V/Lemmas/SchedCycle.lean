/-
  Soundness of the `dependency cycle: a -> b -> a` diagnostic: when the want phase reports one,
  the files it names really form a cycle of ordering edges (each is an explicit, implicit or
  order-only input of the step producing the one before it), closed on the first file.
-/
import N2V.Model.Sched
namespace N2V.Sched

/-- `f'` is an ordering input of the step that produces `f`. -/
def link (g : Graph) (f f' : Nat) : Prop := ∃ b, g.producer f = some b ∧ f' ∈ (g.build b).ordering

/-- Consecutive files are linked. -/
def Linked (g : Graph) : List Nat → Prop
  | [] => True
  | [_] => True
  | a :: b :: r => link g a b ∧ Linked g (b :: r)

theorem Linked.tail {g : Graph} {a : Nat} {l : List Nat} (h : Linked g (a :: l)) : Linked g l := by
  cases l with
  | nil => trivial
  | cons b r => exact h.2

theorem Linked.drop {g : Graph} (l : List Nat) (i : Nat) (h : Linked g l) : Linked g (l.drop i) := by
  induction i generalizing l with
  | zero => simpa using h
  | succ i ih =>
    cases l with
    | nil => trivial
    | cons a r => simp only [List.drop_succ_cons]; exact ih r h.tail

theorem Linked.snoc {g : Graph} (l : List Nat) (x y : Nat) (h : Linked g (l ++ [x])) (hl : link g x y) :
    Linked g (l ++ [x] ++ [y]) := by
  induction l with
  | nil => exact ⟨hl, trivial⟩
  | cons a r ih =>
    cases r with
    | nil => exact ⟨h.1, hl, trivial⟩
    | cons b r' => exact ⟨h.1, ih h.2⟩

/-- What a cycle diagnostic must be: the message of a non-empty list of linked files that
    returns to its first element. -/
def CycleMsg (g : Graph) (m : String) : Prop :=
  ∃ (c : List Nat) (x : Nat), m = cycleMessage g c x ∧ c.head? = some x ∧ Linked g (c ++ [x])

def errOk {α : Type} (g : Graph) : WR α → Prop
  | .err m _ => CycleMsg g m
  | _ => True

theorem idxOf_drop_head (l : List Nat) (f : Nat) (i : Nat) (h : l.idxOf? f = some i) :
    (l.drop i).head? = some f := by
  induction l generalizing i with
  | nil => simp [List.idxOf?] at h
  | cons a r ih =>
    rw [List.idxOf?_cons] at h
    by_cases e : a = f
    · subst e; simp at h; subst h; simp
    · have : (a == f) = false := by simpa using e
      simp only [this, Bool.false_eq_true, if_false, Option.map_eq_some_iff] at h
      obtain ⟨j, hj, rfl⟩ := h
      simp only [List.drop_succ_cons]
      exact ih j hj

theorem cycle_sound (g : Graph) : ∀ fuel : Nat,
    (∀ s stack f, Linked g (stack ++ [f]) → errOk g (wantFile g fuel s stack f)) ∧
    (∀ s stack id, (∀ f ∈ (g.build id).ordering, Linked g (stack ++ [f])) → errOk g (wantBuild g fuel s stack id)) ∧
    (∀ s stack fs rd, (∀ f ∈ fs, Linked g (stack ++ [f])) → errOk g (wantIns g fuel s stack fs rd)) ∧
    (∀ s fs, errOk g (wantVals g fuel s fs)) := by
  intro fuel
  induction fuel with
  | zero => refine ⟨?_, ?_, ?_, ?_⟩ <;> intros <;> simp [wantFile, wantBuild, wantIns, wantVals, errOk]
  | succ fuel ih =>
    obtain ⟨ihF, ihB, ihI, ihV⟩ := ih
    refine ⟨?_, ?_, ?_, ?_⟩
    · intro s stack f hl
      unfold wantFile
      split
      · rename_i i hi
        refine ⟨stack.drop i, f, rfl, idxOf_drop_head stack f i hi, ?_⟩
        have := Linked.drop (stack ++ [f]) i hl
        have hlen : i < stack.length := by
          obtain ⟨h1, _⟩ := List.idxOf?_eq_some_iff.mp hi
          exact h1
        rwa [List.drop_append_of_le_length (Nat.le_of_lt hlen)] at this
      · split
        · trivial
        · rename_i bid hprod
          have hb := ihB s (stack ++ [f]) bid (fun f' hf' => Linked.snoc stack f f' hl ⟨bid, hprod, hf'⟩)
          split <;> rename_i hw <;> rw [hw] at hb
          · trivial
          · exact hb
          · trivial
    · intro s stack id hl
      unfold wantBuild
      split
      · trivial
      · have hi := ihI s stack (g.build id).ordering true hl
        split
        · rename_i rd s1 hins
          simp only []
          split
          · rename_i s2 hs
            have hv := ihV s2 (g.build id).validation
            split <;> rename_i hvv <;> rw [hvv] at hv
            · trivial
            · exact hv
            · trivial
          · trivial
          · trivial
        · rename_i m s1 hins
          rw [hins] at hi; exact hi
        · trivial
    · intro s stack fs rd hl
      cases fs with
      | nil => simp only [wantIns]; trivial
      | cons f fs =>
        simp only [wantIns]
        have hf := ihF s stack f (hl f (by simp))
        split <;> rename_i hff <;> rw [hff] at hf
        · rename_i r s'
          exact ihI s' stack fs (rd && r) (fun f' hf' => hl f' (by simp [hf']))
        · exact hf
        · trivial
    · intro s fs
      cases fs with
      | nil => simp only [wantVals]; trivial
      | cons f fs =>
        simp only [wantVals]
        have hf := ihF s [] f (by trivial)
        split <;> rename_i hff <;> rw [hff] at hf
        · rename_i r s'
          exact ihV s' fs
        · exact hf
        · trivial

/-- **The cycle diagnostic is sound**: if `Work::want_file` fails, its message is
    `dependency cycle: f0 -> f1 -> ... -> f0` for files where each is an ordering input of the
    step producing its predecessor — a real cycle of ordering edges.  Validation edges start a
    fresh stack, so a cycle closed only by a validation edge is never reported. -/
theorem want_cycle_sound (g : Graph) (s s' : S) (f : Nat) (m : String) (h : want g s f = .err m s') :
    CycleMsg g m := by
  unfold want at h
  have := (cycle_sound g (wantFuel g)).1 s [] f (by trivial)
  split at h <;> rename_i hw
  · cases h
  · cases h; rw [hw] at this; exact this
  · cases h

end N2V.Sched
