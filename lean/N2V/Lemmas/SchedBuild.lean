/-
  The scheduler invariant over a whole `run::build`: fresh `Work`, manifest phase, target
  resolution, second `Work::run`.
-/
import N2V.Lemmas.SchedWantInv
import N2V.Lemmas.SchedAcct
import N2V.Model.Run
namespace N2V.Run
open N2V N2V.Sched

theorem fresh_inv (g : Graph) (a : Args) : Inv g a.par (fresh a) :=
  Inv.of_sameCore (s := init a.pools a.failuresLeft) ⟨rfl, rfl, rfl, rfl, rfl, rfl⟩
    (init_inv g a.par a.pools a.failuresLeft)

/-- The invariant in whatever state a want phase ends, successfully or with an error. -/
def WRInv (g : Graph) (par : Nat) : WR Unit → Prop
  | .ok _ s => Inv g par s
  | .err _ s => Inv g par s
  | .bad _ => True

theorem want_WRInv {g : Graph} {par : Nat} (gok : GraphOK g) (s : S) (f : Nat) (inv : Inv g par s) :
    WRInv g par (want g s f) := by
  cases h : want g s f with
  | ok u s' => exact (want_inv gok s s' f inv h).inv
  | err m s' => exact (want_inv_err gok s s' f m inv h).inv
  | bad m => trivial

theorem wantAll_inv {g : Graph} {par : Nat} (gok : GraphOK g) (fs : List Nat) (s : S) (inv : Inv g par s) :
    WRInv g par (wantAll g s fs) := by
  induction fs generalizing s with
  | nil => exact inv
  | cons f fs ih =>
    unfold wantAll
    have hw := want_WRInv gok s f inv
    split
    · rename_i s' h; rw [h] at hw; exact ih s' hw
    · rename_i r hne
      cases h : want g s f with
      | ok u s' => exact absurd h (hne u s')
      | err m s' => rw [h] at hw; exact hw
      | bad m => trivial

theorem wantTargets_inv {g : Graph} (a : Args) (gok : GraphOK g) (ns : List Bytes) (s : S)
    (inv : Inv g a.par s) : WRInv g a.par (wantTargets g a s ns) := by
  induction ns generalizing s with
  | nil => exact inv
  | cons n ns ih =>
    unfold wantTargets
    split
    · split
      · exact ih s inv
      · exact inv
    · split
      · exact ih s inv
      · rename_i t _ _
        have hw := want_WRInv gok s t inv
        split
        · rename_i s' h; rw [h] at hw; exact ih s' hw
        · rename_i r hne
          cases h : want g s t with
          | ok u s' => exact absurd h (hne u s')
          | err m s' => rw [h] at hw; exact hw
          | bad m => trivial
    · trivial
    · trivial

/-- **Second phase**: whenever target resolution succeeds and `Work::run` reports success, the
    final state satisfies the whole invariant. -/
theorem phase2_inv {E : Type} {g : Graph} (gok : GraphOK g) (a : Args) (c : Choices E) (s2 : S) (e : E)
    (perms : List (List Nat)) (fin : List (Nat × Term)) (n0 n : Nat) (inv : Inv g a.par s2)
    (h : (phase2 g a c s2 e perms fin n0).2.2 = .done n) :
    Inv g a.par (phase2 g a c s2 e perms fin n0).1 := by
  unfold phase2 at h ⊢
  have hw : WRInv g a.par (if !a.targets.isEmpty then wantTargets g a s2 a.targets
      else if !a.defaults.isEmpty then wantAll g s2 a.defaults
      else wantAll g s2 ((List.range g.nFiles).filter (· ≠ a.manifest))) := by
    split
    · exact wantTargets_inv a gok _ _ inv
    · split
      · exact wantAll_inv gok _ _ inv
      · exact wantAll_inv gok _ _ inv
  simp only [] at h ⊢
  generalize (if !a.targets.isEmpty then wantTargets g a s2 a.targets
      else if !a.defaults.isEmpty then wantAll g s2 a.defaults
      else wantAll g s2 ((List.range g.nFiles).filter (· ≠ a.manifest))) = w at h hw ⊢
  cases w with
  | ok u s3 =>
    simp only [] at h ⊢
    cases hr : (runLoop g a.par c (runFuel g) s3 e perms fin).result with
    | ok b =>
      cases b with
      | true => simp only [hr]; exact runLoop_inv c _ _ _ _ _ hw hr
      | false => simp [hr, ofRun] at h
    | _ => simp [hr, ofRun] at h
  | err m s3 => simp at h
  | bad m => simp at h

/-- **A whole `run::build`** (up to a reload): whenever it reports success — or stops to re-read
    a regenerated manifest — the scheduler state satisfies the whole invariant. -/
theorem build_inv {E : Type} {g : Graph} (gok : GraphOK g) (a : Args) (c : Choices E) (e : E) (n : Nat)
    (h : (build g a c e).2.2 = .done n ∨ (build g a c e).2.2 = .reload n) :
    Inv g a.par (build g a c e).1 := by
  unfold build at h ⊢
  simp only [] at h ⊢
  have hw := want_WRInv gok (fresh a) a.manifest (fresh_inv g a)
  cases hwant : want g (fresh a) a.manifest with
  | ok u s1 =>
    rw [hwant] at hw
    simp only [hwant] at h ⊢
    cases hr : (runLoop g a.par c (runFuel g) s1 e c.perms c.finishes).result with
    | ok b =>
      cases b with
      | true =>
        have i1 := runLoop_inv c _ _ _ _ _ hw hr
        simp only [hr] at h ⊢
        split
        · exact i1
        · rename_i h0
          simp only [h0, if_false] at h
          rcases h with h | h
          · exact phase2_inv gok a c _ _ _ _ 0 n i1 h
          · exfalso
            revert h
            unfold phase2
            simp only []
            split
            · split <;> simp [ofRun]
              split <;> simp
            · simp
            · simp
      | false => simp [hr, ofRun] at h
    | _ => simp [hr, ofRun] at h
  | err m s1 => simp [hwant] at h
  | bad m => simp [hwant] at h

theorem buildReloaded_inv {E : Type} {g : Graph} (gok : GraphOK g) (a : Args) (c : Choices E) (e : E)
    (n0 n : Nat) (h : (buildReloaded g a c e n0).2.2 = .done n) :
    Inv g a.par (buildReloaded g a c e n0).1 :=
  phase2_inv gok a c _ _ _ _ n0 n (fresh_inv g a) h

/-! ### The trace of a whole `run::build` -/

def shapeOf (a : Args) : List (Bytes × Nat) := poolShape (initPools a.pools)

theorem fresh_tinv (g : Graph) (a : Args) : TInv g a.par (shapeOf a) (fresh a) :=
  ⟨rfl, rfl, rfl⟩

/-- Invariant and trace link in whatever state a want phase ends. -/
def WRInv2 (g : Graph) (par : Nat) (shape : List (Bytes × Nat)) : WR Unit → Prop
  | .ok _ s => Inv g par s ∧ TInv g par shape s
  | .err _ s => Inv g par s ∧ TInv g par shape s
  | .bad _ => True

theorem want_WRInv2 {g : Graph} {par : Nat} {shape : List (Bytes × Nat)} (gok : GraphOK g) (s : S) (f : Nat)
    (inv : Inv g par s) (ti : TInv g par shape s) : WRInv2 g par shape (want g s f) := by
  cases h : want g s f with
  | ok u s' => have r := want_inv gok s s' f inv h; exact ⟨r.inv, r.tinv _ ti⟩
  | err m s' => have r := want_inv_err gok s s' f m inv h; exact ⟨r.inv, r.tinv _ ti⟩
  | bad m => trivial

theorem wantAll_inv2 {g : Graph} {par : Nat} {shape : List (Bytes × Nat)} (gok : GraphOK g) (fs : List Nat)
    (s : S) (inv : Inv g par s) (ti : TInv g par shape s) : WRInv2 g par shape (wantAll g s fs) := by
  induction fs generalizing s with
  | nil => exact ⟨inv, ti⟩
  | cons f fs ih =>
    unfold wantAll
    have hw := want_WRInv2 gok s f inv ti
    split
    · rename_i s' h; rw [h] at hw; exact ih s' hw.1 hw.2
    · rename_i r hne
      cases h : want g s f with
      | ok u s' => exact absurd h (hne u s')
      | err m s' => rw [h] at hw; exact hw
      | bad m => trivial

theorem wantTargets_inv2 {g : Graph} {shape : List (Bytes × Nat)} (a : Args) (gok : GraphOK g) (ns : List Bytes)
    (s : S) (inv : Inv g a.par s) (ti : TInv g a.par shape s) :
    WRInv2 g a.par shape (wantTargets g a s ns) := by
  induction ns generalizing s with
  | nil => exact ⟨inv, ti⟩
  | cons n ns ih =>
    unfold wantTargets
    split
    · split
      · exact ih s inv ti
      · exact ⟨inv, ti⟩
    · split
      · exact ih s inv ti
      · rename_i t _ _
        have hw := want_WRInv2 gok s t inv ti
        split
        · rename_i s' h; rw [h] at hw; exact ih s' hw.1 hw.2
        · rename_i r hne
          cases h : want g s t with
          | ok u s' => exact absurd h (hne u s')
          | err m s' => rw [h] at hw; exact hw
          | bad m => trivial
    · trivial
    · trivial

/-- The second phase of `run::build`: its trace satisfies the specification, whatever happens. -/
theorem phase2_tinv {E : Type} {g : Graph} (gok : GraphOK g) (a : Args) (c : Choices E) (s2 : S) (e : E)
    (perms : List (List Nat)) (fin : List (Nat × Term)) (n0 : Nat) (inv : Inv g a.par s2)
    (ti : TInv g a.par (shapeOf a) s2) :
    TInv g a.par (shapeOf a) (phase2 g a c s2 e perms fin n0).1 := by
  unfold phase2
  have hw : WRInv2 g a.par (shapeOf a) (if !a.targets.isEmpty then wantTargets g a s2 a.targets
      else if !a.defaults.isEmpty then wantAll g s2 a.defaults
      else wantAll g s2 ((List.range g.nFiles).filter (· ≠ a.manifest))) := by
    split
    · exact wantTargets_inv2 a gok _ _ inv ti
    · split
      · exact wantAll_inv2 gok _ _ inv ti
      · exact wantAll_inv2 gok _ _ inv ti
  simp only []
  generalize (if !a.targets.isEmpty then wantTargets g a s2 a.targets
      else if !a.defaults.isEmpty then wantAll g s2 a.defaults
      else wantAll g s2 ((List.range g.nFiles).filter (· ≠ a.manifest))) = w at hw ⊢
  cases w with
  | ok u s3 =>
    simp only []
    have := runLoop_tinv c (runFuel g) s3 e perms fin hw.1 hw.2
    split <;> exact this
  | err m s3 => exact hw.2
  | bad m => exact ti

/-- **Every trace of `run::build`** (up to a reload) satisfies the trace specification: for every
    graph whose producers are builds, every argument vector, every behaviour of the environment
    and every outcome. -/
theorem build_tinv {E : Type} {g : Graph} (gok : GraphOK g) (a : Args) (c : Choices E) (e : E) :
    TInv g a.par (shapeOf a) (build g a c e).1 := by
  unfold build
  simp only []
  have hw := want_WRInv2 gok (fresh a) a.manifest (fresh_inv g a) (fresh_tinv g a)
  cases hwant : want g (fresh a) a.manifest with
  | ok u s1 =>
    rw [hwant] at hw
    simp only []
    have t1 := runLoop_tinv c (runFuel g) s1 e c.perms c.finishes hw.1 hw.2
    cases hr : (runLoop g a.par c (runFuel g) s1 e c.perms c.finishes).result with
    | ok b =>
      cases b with
      | true =>
        simp only []
        split
        · exact t1
        · exact phase2_tinv gok a c _ _ _ _ 0 (runLoop_inv c _ _ _ _ _ hw.1 hr) t1
      | false => exact t1
    | _ => exact t1
  | err m s1 => rw [hwant] at hw; exact hw.2
  | bad m => exact fresh_tinv g a

theorem buildReloaded_tinv {E : Type} {g : Graph} (gok : GraphOK g) (a : Args) (c : Choices E) (e : E)
    (n0 : Nat) : TInv g a.par (shapeOf a) (buildReloaded g a c e n0).1 :=
  phase2_tinv gok a c _ _ _ _ n0 (fresh_inv g a) (fresh_tinv g a)

/-! ### Accounting over a whole `run::build` -/

/-- Everything a want phase guarantees about the state it ends in (`WRel` is transitive). -/
def WRRel (g : Graph) (par : Nat) (s0 : S) : WR Unit → Prop
  | .ok _ s => WRel g par s0 s
  | .err _ s => WRel g par s0 s
  | .bad _ => True

theorem want_rel {g : Graph} {par : Nat} (gok : GraphOK g) (s : S) (f : Nat) (inv : Inv g par s) :
    WRRel g par s (want g s f) := by
  cases h : want g s f with
  | ok u s' => exact want_inv gok s s' f inv h
  | err m s' => exact want_inv_err gok s s' f m inv h
  | bad m => trivial

theorem wantAll_rel {g : Graph} {par : Nat} (gok : GraphOK g) (fs : List Nat) (s0 s : S)
    (r0 : WRel g par s0 s) : WRRel g par s0 (wantAll g s fs) := by
  induction fs generalizing s with
  | nil => exact r0
  | cons f fs ih =>
    unfold wantAll
    have hw := want_rel gok s f r0.inv
    split
    · rename_i s' h; rw [h] at hw; exact ih s' (r0.trans hw)
    · rename_i r hne
      cases h : want g s f with
      | ok u s' => exact absurd h (hne u s')
      | err m s' => rw [h] at hw; exact r0.trans hw
      | bad m => trivial

theorem wantTargets_rel {g : Graph} (a : Args) (gok : GraphOK g) (ns : List Bytes) (s0 s : S)
    (r0 : WRel g a.par s0 s) : WRRel g a.par s0 (wantTargets g a s ns) := by
  induction ns generalizing s with
  | nil => exact r0
  | cons n ns ih =>
    unfold wantTargets
    split
    · split
      · exact ih s r0
      · exact r0
    · split
      · exact ih s r0
      · rename_i t _ _
        have hw := want_rel gok s t r0.inv
        split
        · rename_i s' h; rw [h] at hw; exact ih s' (r0.trans hw)
        · rename_i r hne
          cases h : want g s t with
          | ok u s' => exact absurd h (hne u s')
          | err m s' => rw [h] at hw; exact r0.trans hw
          | bad m => trivial
    · trivial
    · trivial

theorem fresh_ainv (a : Args) (hk : a.failuresLeft ≠ some 0) : AInv a.failuresLeft (fresh a) := by
  refine ⟨rfl, rfl, ?_, rfl, rfl⟩
  cases hf : a.failuresLeft with
  | none => simp only []; show a.failuresLeft = none; exact hf
  | some k0 =>
    simp only []
    refine ⟨?_, ?_⟩
    · show a.failuresLeft = some (k0 - 0); rw [hf]; rfl
    · show 0 < k0
      rw [hf] at hk
      cases k0 with
      | zero => exact absurd rfl hk
      | succ n => omega

/-- What the accounting says about the end of one `Work`'s second phase. -/
theorem phase2_acct {E : Type} {g : Graph} (gok : GraphOK g) (a : Args) (c : Choices E) (s2 : S) (e : E)
    (perms : List (List Nat)) (fin : List (Nat × Term)) (n0 : Nat) (inv : Inv g a.par s2)
    (ai : AInv a.failuresLeft s2) :
    budgetTrace a.failuresLeft (phase2 g a c s2 e perms fin n0).1.trace = true ∧
    (∀ n, (phase2 g a c s2 e perms fin n0).2.2 = .done n →
      n = n0 + succs (sf (phase2 g a c s2 e perms fin n0).1.trace) ∧
      fails (sf (phase2 g a c s2 e perms fin n0).1.trace) = 0 ∧
      intr (sf (phase2 g a c s2 e perms fin n0).1.trace) = false) := by
  unfold phase2
  have hw : WRRel g a.par s2 (if !a.targets.isEmpty then wantTargets g a s2 a.targets
      else if !a.defaults.isEmpty then wantAll g s2 a.defaults
      else wantAll g s2 ((List.range g.nFiles).filter (· ≠ a.manifest))) := by
    split
    · exact wantTargets_rel a gok _ _ _ (WRel.refl inv)
    · split
      · exact wantAll_rel gok _ _ _ (WRel.refl inv)
      · exact wantAll_rel gok _ _ _ (WRel.refl inv)
  simp only []
  generalize (if !a.targets.isEmpty then wantTargets g a s2 a.targets
      else if !a.defaults.isEmpty then wantAll g s2 a.defaults
      else wantAll g s2 ((List.range g.nFiles).filter (· ≠ a.manifest))) = w at hw ⊢
  cases w with
  | ok u s3 =>
    simp only []
    have a3 : AInv a.failuresLeft s3 := ai.of_frame hw.frm
    have hr := runLoop_acct (g := g) (par := a.par) c (runFuel g) s3 e perms fin a3
    cases hres : (runLoop g a.par c (runFuel g) s3 e perms fin).result with
    | ok b =>
      cases b with
      | true =>
        simp only []
        refine ⟨hr.1, ?_⟩
        intro n hn
        have af := hr.2 hres
        have h0 := (runLoop_ok_true g a.par c _ _ _ _ _ hres).1
        cases hn
        exact ⟨by rw [af.run], by rw [← af.failed]; exact h0, af.nointr⟩
      | false => exact ⟨hr.1, fun n hn => by simp [ofRun] at hn⟩
    | _ => exact ⟨hr.1, fun n hn => by simp [ofRun] at hn⟩
  | err m s3 => exact ⟨(ai.of_frame hw.frm).bt, fun n hn => by cases hn⟩
  | bad m => exact ⟨ai.bt, fun n hn => by cases hn⟩

/-- **Accounting of a whole `run::build`** (for `-k N` with N ≥ 1, or no `-k` limit at all):
    every command was started while fewer than N commands had failed and none had been
    interrupted; `ran n tasks` (`.done n`) is reported only when no command failed or was
    interrupted, and `n` is exactly the number of commands that completed successfully; a reload
    happens exactly after a manifest phase that ran `n > 0` commands successfully. -/
theorem build_acct {E : Type} {g : Graph} (gok : GraphOK g) (a : Args) (hk : a.failuresLeft ≠ some 0)
    (c : Choices E) (e : E) :
    budgetTrace a.failuresLeft (build g a c e).1.trace = true ∧
    (∀ n, (build g a c e).2.2 = .done n →
      n = succs (sf (build g a c e).1.trace) ∧ fails (sf (build g a c e).1.trace) = 0 ∧
      intr (sf (build g a c e).1.trace) = false) ∧
    (∀ n, (build g a c e).2.2 = .reload n → n = succs (sf (build g a c e).1.trace) ∧ n ≠ 0) := by
  unfold build
  simp only []
  have hw := want_rel gok (fresh a) a.manifest (fresh_inv g a)
  have a0 := fresh_ainv a hk
  cases hwant : want g (fresh a) a.manifest with
  | ok u s1 =>
    rw [hwant] at hw
    simp only []
    have a1 : AInv a.failuresLeft s1 := a0.of_frame hw.frm
    have hr := runLoop_acct (g := g) (par := a.par) c (runFuel g) s1 e c.perms c.finishes a1
    cases hres : (runLoop g a.par c (runFuel g) s1 e c.perms c.finishes).result with
    | ok b =>
      cases b with
      | true =>
        simp only []
        have af := hr.2 hres
        have i1 := runLoop_inv c _ _ _ _ _ hw.inv hres
        split
        · rename_i hne
          refine ⟨hr.1, (fun n hn => by cases hn), ?_⟩
          intro n hn
          cases hn
          exact ⟨af.run, hne⟩
        · rename_i h0
          have h0' : (runLoop g a.par c (runFuel g) s1 e c.perms c.finishes).s.tasksRun = 0 := by
            simpa using h0
          have p2 := phase2_acct gok a c _ (runLoop g a.par c (runFuel g) s1 e c.perms c.finishes).e (runLoop g a.par c (runFuel g) s1 e c.perms c.finishes).perms
            (runLoop g a.par c (runFuel g) s1 e c.perms c.finishes).finishes 0 i1 af
          refine ⟨p2.1, ?_, ?_⟩
          · intro n hn
            have := p2.2 n hn
            exact ⟨by omega, this.2⟩
          · intro n hn
            exfalso
            revert hn
            unfold phase2
            simp only []
            split
            · split <;> simp [ofRun]
              split <;> simp
            · simp
            · simp
      | false => exact ⟨hr.1, (fun n hn => by simp [ofRun] at hn), (fun n hn => by simp [ofRun] at hn)⟩
    | _ => exact ⟨hr.1, (fun n hn => by simp [ofRun] at hn), (fun n hn => by simp [ofRun] at hn)⟩
  | err m s1 =>
    rw [hwant] at hw
    exact ⟨(a0.of_frame hw.frm).bt, (fun n hn => by cases hn), (fun n hn => by cases hn)⟩
  | bad m => exact ⟨a0.bt, (fun n hn => by cases hn), (fun n hn => by cases hn)⟩

theorem buildReloaded_acct {E : Type} {g : Graph} (gok : GraphOK g) (a : Args) (hk : a.failuresLeft ≠ some 0)
    (c : Choices E) (e : E) (n0 : Nat) :
    budgetTrace a.failuresLeft (buildReloaded g a c e n0).1.trace = true ∧
    (∀ n, (buildReloaded g a c e n0).2.2 = .done n →
      n = n0 + succs (sf (buildReloaded g a c e n0).1.trace) ∧
      fails (sf (buildReloaded g a c e n0).1.trace) = 0 ∧
      intr (sf (buildReloaded g a c e n0).1.trace) = false) :=
  phase2_acct gok a c _ _ _ _ n0 (fresh_inv g a) (fresh_ainv a hk)

/-! ### The `BUG` panic is unreachable -/

theorem fresh_pinv (g : Graph) (a : Args) : PInv g (fresh a) :=
  ⟨(fun b hb => by cases hb), (fun b hb => by cases hb), (fun b hb => by cases hb),
   (fun b hb => absurd rfl hb), (fun b hb => by cases hb)⟩

theorem ofRun_bug (r : RunResult) (h : ofRun r = .bug) : r = .bug := by
  cases r <;> simp [ofRun] at h ⊢

theorem phase2_no_bug {E : Type} {g : Graph} (gok : GraphOK g) (dok : DepsOK g) (acyc : Acyclic g) (a : Args)
    (hpar : 0 < a.par) (c : Choices E) (s2 : S) (e : E) (perms : List (List Nat)) (fin : List (Nat × Term))
    (n0 : Nat) (inv : Inv g a.par s2) (pi : PInv g s2) :
    (phase2 g a c s2 e perms fin n0).2.2 ≠ .bug := by
  unfold phase2
  have hw : WRRel g a.par s2 (if !a.targets.isEmpty then wantTargets g a s2 a.targets
      else if !a.defaults.isEmpty then wantAll g s2 a.defaults
      else wantAll g s2 ((List.range g.nFiles).filter (· ≠ a.manifest))) := by
    split
    · exact wantTargets_rel a gok _ _ _ (WRel.refl inv)
    · split
      · exact wantAll_rel gok _ _ _ (WRel.refl inv)
      · exact wantAll_rel gok _ _ _ (WRel.refl inv)
  simp only []
  generalize (if !a.targets.isEmpty then wantTargets g a s2 a.targets
      else if !a.defaults.isEmpty then wantAll g s2 a.defaults
      else wantAll g s2 ((List.range g.nFiles).filter (· ≠ a.manifest))) = w at hw ⊢
  cases w with
  | ok u s3 =>
    simp only []
    have hr := runLoop_no_bug dok acyc hpar c (runFuel g) s3 e perms fin hw.inv (hw.pinv pi)
    cases hres : (runLoop g a.par c (runFuel g) s3 e perms fin).result with
    | ok b => cases b <;> simp [ofRun]
    | bug => exact absurd hres hr.1
    | _ => simp [ofRun]
  | err m s3 => simp
  | bad m => simp

/-- **`run::build` never ends in n2's `BUG: no work to do and runner not running` panic**: for
    every acyclic graph with consistent cross references, `-j ≥ 1`, and every behaviour of the
    environment (dirty answers, completion order, failures, interruptions). -/
theorem build_no_bug {E : Type} {g : Graph} (gok : GraphOK g) (dok : DepsOK g) (acyc : Acyclic g) (a : Args)
    (hpar : 0 < a.par) (c : Choices E) (e : E) : (build g a c e).2.2 ≠ .bug := by
  unfold build
  simp only []
  have hw := want_rel gok (fresh a) a.manifest (fresh_inv g a)
  cases hwant : want g (fresh a) a.manifest with
  | ok u s1 =>
    rw [hwant] at hw
    simp only []
    have hr := runLoop_no_bug dok acyc hpar c (runFuel g) s1 e c.perms c.finishes hw.inv (hw.pinv (fresh_pinv g a))
    cases hres : (runLoop g a.par c (runFuel g) s1 e c.perms c.finishes).result with
    | ok b =>
      cases b with
      | true =>
        simp only []
        split
        · simp
        · exact phase2_no_bug gok dok acyc a hpar c _ _ _ _ 0 (runLoop_inv c _ _ _ _ _ hw.inv hres) (hr.2 hres)
      | false => simp [ofRun]
    | bug => exact absurd hres hr.1
    | _ => simp [ofRun]
  | err m s1 => simp
  | bad m => simp

theorem buildReloaded_no_bug {E : Type} {g : Graph} (gok : GraphOK g) (dok : DepsOK g) (acyc : Acyclic g)
    (a : Args) (hpar : 0 < a.par) (c : Choices E) (e : E) (n0 : Nat) :
    (buildReloaded g a c e n0).2.2 ≠ .bug :=
  phase2_no_bug gok dok acyc a hpar c _ _ _ _ n0 (fresh_inv g a) (fresh_pinv g a)

/-! ### Success means every wanted step is up to date -/

theorem settled_of {g : Graph} {par : Nat} {s : S} (inv : Inv g par s) (pi : PInv g s) (hp : s.pending ≤ 0)
    (htf : s.tasksFailed = 0) (b : Nat) : s.st b = .unknown ∨ s.st b = .done := by
  have hz : cnt g.nBuilds (fun b => active (s.st b)) = 0 := by
    have := inv.pending; omega
  cases hs : s.st b with
  | unknown => exact Or.inl rfl
  | done => exact Or.inr rfl
  | failed => have := pi.fld b hs; omega
  | _ =>
    exfalso
    have hlt : b < g.nBuilds := inv.valid b (by rw [hs]; simp)
    have := cnt_zero_forall _ _ hz b hlt
    simp [hs, active] at this

theorem phase2_done_settled {E : Type} {g : Graph} (gok : GraphOK g) (dok : DepsOK g) (acyc : Acyclic g)
    (a : Args) (hpar : 0 < a.par) (c : Choices E) (s2 : S) (e : E) (perms : List (List Nat))
    (fin : List (Nat × Term)) (n0 n : Nat) (inv : Inv g a.par s2) (pi : PInv g s2)
    (h : (phase2 g a c s2 e perms fin n0).2.2 = .done n) (b : Nat) :
    (phase2 g a c s2 e perms fin n0).1.st b = .unknown ∨ (phase2 g a c s2 e perms fin n0).1.st b = .done := by
  unfold phase2 at h ⊢
  have hw : WRRel g a.par s2 (if !a.targets.isEmpty then wantTargets g a s2 a.targets
      else if !a.defaults.isEmpty then wantAll g s2 a.defaults
      else wantAll g s2 ((List.range g.nFiles).filter (· ≠ a.manifest))) := by
    split
    · exact wantTargets_rel a gok _ _ _ (WRel.refl inv)
    · split
      · exact wantAll_rel gok _ _ _ (WRel.refl inv)
      · exact wantAll_rel gok _ _ _ (WRel.refl inv)
  simp only [] at h ⊢
  generalize (if !a.targets.isEmpty then wantTargets g a s2 a.targets
      else if !a.defaults.isEmpty then wantAll g s2 a.defaults
      else wantAll g s2 ((List.range g.nFiles).filter (· ≠ a.manifest))) = w at hw h ⊢
  cases w with
  | ok u s3 =>
    simp only [] at h ⊢
    have hr := runLoop_no_bug dok acyc hpar c (runFuel g) s3 e perms fin hw.inv (hw.pinv pi)
    cases hres : (runLoop g a.par c (runFuel g) s3 e perms fin).result with
    | ok bb =>
      cases bb with
      | true =>
        simp only [hres]
        have hok := runLoop_ok_true g a.par c _ _ _ _ _ hres
        exact settled_of (runLoop_inv c _ _ _ _ _ hw.inv hres) (hr.2 hres) hok.2 hok.1 b
      | false => simp [hres, ofRun] at h
    | _ => simp [hres, ofRun] at h
  | err m s3 => simp at h
  | bad m => simp at h

/-- **If `run::build` reports success, every step it wanted is up to date**: every build is
    either untouched (`Unknown`: outside the requested closure) or `Done`; none is left waiting,
    queued, running or failed. -/
theorem build_done_settled {E : Type} {g : Graph} (gok : GraphOK g) (dok : DepsOK g) (acyc : Acyclic g)
    (a : Args) (hpar : 0 < a.par) (c : Choices E) (e : E) (n : Nat) (h : (build g a c e).2.2 = .done n)
    (b : Nat) : (build g a c e).1.st b = .unknown ∨ (build g a c e).1.st b = .done := by
  unfold build at h ⊢
  simp only [] at h ⊢
  have hw := want_rel gok (fresh a) a.manifest (fresh_inv g a)
  cases hwant : want g (fresh a) a.manifest with
  | ok u s1 =>
    rw [hwant] at hw
    simp only [hwant] at h ⊢
    have hr := runLoop_no_bug dok acyc hpar c (runFuel g) s1 e c.perms c.finishes hw.inv (hw.pinv (fresh_pinv g a))
    cases hres : (runLoop g a.par c (runFuel g) s1 e c.perms c.finishes).result with
    | ok bb =>
      cases bb with
      | true =>
        simp only [hres] at h ⊢
        split
        · rename_i hne; simp [hne] at h
        · rename_i h0
          simp only [h0, if_false] at h
          exact phase2_done_settled gok dok acyc a hpar c _ _ _ _ 0 n (runLoop_inv c _ _ _ _ _ hw.inv hres) (hr.2 hres) h b
      | false => simp [hres, ofRun] at h
    | _ => simp [hres, ofRun] at h
  | err m s1 => simp [hwant] at h
  | bad m => simp [hwant] at h

end N2V.Run
