/-
  The converse of `checkDirty_upToDate`: a step that `check_build_dirty` finds clean (and that is
  therefore skipped) is up to date - every file it names exists and the signature attached at
  start-up is the manifest of the tree as it is.  (C02's "n2 never skips a step whose dirtying
  inputs, discovered dependencies, command line, response-file content or outputs were changed or
  removed since that step last completed successfully".)
-/
import N2V.Lemmas.WorkDisc
namespace N2V.Work
open N2V N2V.Load

/-- When `stat_all_outputs` reports nothing missing, every output exists. -/
theorem statAllOutputs_none_present (outs : List Nat) (e : Env) (h : (statAllOutputs e outs).1 = none) :
    ∀ o ∈ outs, (mtimeOf e o).isSome = true := by
  unfold statAllOutputs at h
  have key : ∀ (l : List Nat) (acc : Option Nat × Env), SameButCache e acc.2 →
      (l.foldl (fun (acc : Option Nat × Env) o =>
        let (m, e') := statFile acc.2 o
        (if m.isNone && acc.1.isNone then some o else acc.1, e')) acc).1 = none →
      acc.1 = none ∧ ∀ o ∈ l, (mtimeOf e o).isSome = true := by
    intro l
    induction l with
    | nil => intro acc _ h; exact ⟨h, fun _ h => by cases h⟩
    | cons o os ih =>
      intro acc hs h
      simp only [List.foldl_cons] at h
      have hs' : SameButCache e (statFile acc.2 o).2 := hs.trans (statFile_same acc.2 o)
      obtain ⟨h1, h2⟩ := ih ((if (statFile acc.2 o).1.isNone && acc.1.isNone then some o else acc.1),
        (statFile acc.2 o).2) hs' h
      simp only [] at h1
      have hm : (statFile acc.2 o).1 = mtimeOf e o := by rw [statFile_fst, mtimeOf_same hs]
      cases hacc : acc.1 with
      | some x => rw [hacc] at h1; simp at h1
      | none =>
        rw [hacc] at h1
        refine ⟨rfl, ?_⟩
        intro o' ho'
        rcases List.mem_cons.mp ho' with rfl | ho'
        · cases hx : mtimeOf e o' with
          | some _ => rfl
          | none => rw [hm, hx] at h1; simp at h1
        · exact h2 o' ho'
  exact (key outs (none, e) (SameButCache.refl e) h).2

/-- **A step found clean is up to date** (truthful cache): every dirtying input, remembered
    dependency and output exists, and the signature attached to the step is the manifest of the
    tree as it is now - names and modification times of the dirtying inputs, of the remembered
    dependencies and of the outputs, the command line and the response file. -/
theorem clean_means_upToDate (e : Env) (hc : Coh e) (b : Nat) (bm : BuildM) (hb : buildOf e.g b = some bm)
    (hnp : bm.cmdline.isNone = false) (h : (checkDirty e b).1 = some false) : UpToDate e b bm := by
  have hst := checkDirty_stat e b
  have hc' := hst.coh hc
  obtain ⟨f1, _, f3⟩ := checkDirty_clean_facts e b bm hb hnp h
  have hd := checkDirty_clean_disc e hc b bm hb hnp h
  have hdisc : discOf (checkDirty e b).2 b = discOf e b := by unfold discOf; rw [hst.toSameButCache.disc]
  -- everything is cached afterwards
  have hcached : ∀ f ∈ bm.dirtying ++ discOf (checkDirty e b).2 b ++ bm.outs, Cached (checkDirty e b).2 f := by
    intro f hf
    rw [hdisc] at hf
    simp only [List.mem_append] at hf
    rcases hf with (hf | hf) | hf
    · exact f1 f (by simp [hf])
    · obtain ⟨t, _, hcache⟩ := hd f hf
      unfold Cached; rw [hcache]; rfl
    · exact f1 f (by simp [hf])
  have hman : manifestOf (checkDirty e b).2 bm b = manifestFs e bm b := by
    rw [manifestOf_eq_fs _ bm b hc' hcached, manifestFs_same hst.toSameButCache]
  refine ⟨?_, ?_⟩
  · -- presence: from the three stat rounds
    have hfm : (filesMissing e bm b).2 = some false := by
      unfold checkDirty at h
      rw [hb] at h
      simp only [hnp, Bool.false_eq_true, if_false] at h
      cases hm : (filesMissing e bm b).2 with
      | none => rw [hm] at h; cases h
      | some m =>
        cases m with
        | true => rw [hm] at h; cases h
        | false => rfl
    revert hfm
    unfold filesMissing
    split
    · intro hx; cases hx
    · intro hx; split at hx <;> cases hx
    · rename_i e1 h1
      obtain ⟨s1, _, _⟩ := ensureInputs_stat _ _ _ _ h1
      split
      · intro hx; cases hx
      · intro hx; cases hx
      · rename_i e2 h2
        obtain ⟨s2, _, _⟩ := ensureInputs_stat _ _ _ _ h2
        intro hx
        have hnone : (statAllOutputs e2 bm.outs).1 = none := by
          cases hso : (statAllOutputs e2 bm.outs).1 with
          | none => rfl
          | some _ => rw [hso] at hx; simp at hx
        intro f hf
        simp only [List.mem_append] at hf
        rcases hf with (hf | hf) | hf
        · exact ensureInputs_none_present _ _ _ hc h1 f hf
        · obtain ⟨t, ht, _⟩ := hd f hf
          rw [ht]; rfl
        · have := statAllOutputs_none_present bm.outs e2 hnone f hf
          rw [mtimeOf_same (s1.trans s2).toSameButCache] at this
          exact this
  · rw [← hst.toSameButCache.hashes, f3, hman]

/-- **Up to date is a matter of the step's own files only.**  Whatever happens elsewhere - other
    commands running, rewriting their own outputs, leaving outputs untouched (restat-style) - a step
    stays up to date as long as the modification times of the files IT names, its remembered
    dependency list and its attached signature are unchanged. -/
theorem upToDate_frame (e e' : Env) (b : Nat) (bm : BuildM) (hg : e'.g = e.g) (hd : discOf e' b = discOf e b)
    (hh : assocGet e'.hashes b = assocGet e.hashes b)
    (hm : ∀ f ∈ bm.dirtying ++ discOf e b ++ bm.outs, mtimeOf e' f = mtimeOf e f) (u : UpToDate e b bm) :
    UpToDate e' b bm := by
  refine ⟨?_, ?_⟩
  · intro f hf
    rw [hd] at hf
    rw [hm f hf]; exact u.present f hf
  · rw [hh, u.recorded, manifestFs_congr e e' bm b hg hd hm]


end N2V.Work
