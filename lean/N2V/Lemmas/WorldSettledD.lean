/-
  The round trip for projects WITH discovered dependencies: a successful build followed by the
  same build does nothing, provided the dependencies the commands reported are source files.
-/
import N2V.Lemmas.WorkSettledD
import N2V.Lemmas.WorldSettled
namespace N2V.Work
open N2V N2V.Load N2V.Sched N2V.Run

theorem sg_build_ext {g g' : GraphM} (h : Ext g g') (b : Nat) : (schedGraph g').build b = (schedGraph g).build b := by
  unfold schedGraph
  simp only [h.builds]

theorem sg_fileName (g : GraphM) (f : Nat) : (schedGraph g).fileName f = fileName g f := by
  unfold schedGraph fileName
  simp only [List.getElem?_toArray]
  cases g.files[f]? <;> rfl

theorem sg_nFiles (g : GraphM) : (schedGraph g).nFiles = g.files.length := by simp [schedGraph]

/-- Two graphs that extend the same loaded graph by source files need the same builds. -/
theorem needs_ext {L g0 g1 : GraphM} (h0 : Ext L g0) (h1 : Ext L g1) {f b : Nat}
    (h : Needs (schedGraph g1) f b) : Needs (schedGraph g0) f b := by
  induction h with
  | direct hp =>
    rename_i f b
    rw [sg_producer] at hp
    have hf : f < L.files.length := by
      by_cases hf : f < L.files.length
      · exact hf
      · rw [h1.fileInput_new f (by omega)] at hp; cases hp
    apply Needs.direct
    rw [sg_producer, h0.fileInput_old f hf, ← h1.fileInput_old f hf]
    exact hp
  | step _ hmem _ ih1 ih2 =>
    refine Needs.step ih1 ?_ ih2
    rw [sg_build_ext h0, ← sg_build_ext h1]
    exact hmem

theorem needs_has_producer {g : Graph} {f b : Nat} (h : Needs g f b) : ∃ p, g.producer f = some p := by
  induction h with
  | direct hp => exact ⟨_, hp⟩
  | step _ _ _ ih1 _ => exact ih1

theorem lookupM_ext {L g0 g1 : GraphM} (h0 : Ext L g0) (h1 : Ext L g1) (a : Args)
    (hmf : a.manifestFiles = some L.files.length) (n : Bytes) (f : Nat)
    (h : lookupM (schedGraph g1) a n = .ok (some f)) : lookupM (schedGraph g0) a n = .ok (some f) := by
  unfold lookupM at h ⊢
  rw [hmf] at h ⊢
  cases hl : lookup (schedGraph g1) n with
  | ok r =>
    rw [hl] at h
    cases r with
    | none => simp at h
    | some t =>
      simp only [] at h
      by_cases ht : t < L.files.length
      · rw [if_pos ht] at h
        have htf : t = f := by injection h with h'; injection h'
        subst htf
        -- the same first index in the other graph
        have hl0 : lookup (schedGraph g0) n = .ok (some t) := by
          unfold lookup at hl ⊢
          cases hc : Canon.canon n with
          | ok c =>
            rw [hc] at hl
            simp only [] at hl ⊢
            have hfind : (List.range (schedGraph g1).nFiles).find? (fun f => (schedGraph g1).fileName f == c) = some t := by
              injection hl
            obtain ⟨hp, i, hi, hget, hbefore⟩ := List.find?_eq_some_iff_getElem.mp hfind
            rw [List.getElem_range] at hget
            subst hget
            congr 1
            apply List.find?_eq_some_iff_getElem.mpr
            have hnm : ∀ j, j < L.files.length → (schedGraph g0).fileName j = (schedGraph g1).fileName j := by
              intro j hj
              rw [sg_fileName, sg_fileName, h0.fileName_old j hj, h1.fileName_old j hj]
            refine ⟨by rw [hnm i ht]; exact hp, i, ?_, ?_, ?_⟩
            · rw [List.length_range, sg_nFiles]; exact Nat.lt_of_lt_of_le ht h0.length_le
            · rw [List.getElem_range]
            · intro j hj
              have := hbefore j hj
              rw [List.getElem_range] at this ⊢
              rw [hnm j (by omega)]
              exact this
          | panic m => rw [hc] at hl; simp at hl
          | _ => rw [hc] at hl; simp at hl
        rw [hl0]
        simp only [ht, if_true]
      · rw [if_neg ht] at h; simp at h
  | _ => rw [hl] at h; simp at h

theorem wanted_ext {L g0 g1 : GraphM} (h0 : Ext L g0) (h1 : Ext L g1) (a : Args)
    (hmf : a.manifestFiles = some L.files.length) (b : Nat)
    (h : Wanted (schedGraph g1) a b) : Wanted (schedGraph g0) a b := by
  obtain ⟨f, hr, hn⟩ := h
  refine ⟨f, ?_, needs_ext h0 h1 hn⟩
  rcases hr with h | ⟨n, hn', hl⟩ | h | ⟨ht, hd, hlt⟩
  · exact Or.inl h
  · exact Or.inr (Or.inl ⟨n, hn', lookupM_ext h0 h1 a hmf n f hl⟩)
  · exact Or.inr (Or.inr (Or.inl h))
  · refine Or.inr (Or.inr (Or.inr ⟨ht, hd, ?_⟩))
    obtain ⟨p, hp⟩ := needs_has_producer hn
    rw [sg_producer] at hp
    rw [sg_nFiles]
    by_cases hf : f < L.files.length
    · exact Nat.lt_of_lt_of_le hf h0.length_le
    · rw [h1.fileInput_new f (by omega)] at hp; cases hp


/-- Modification time by name. -/
def mtN (fs : FsM) (n : Bytes) : MTime := (fs.get n).map (·.mtime)

/-- The manifest as a function of names and the tree. -/
def manifestN (fs : FsM) (ins disc outs : List Bytes) (cmd : Bytes) (rsp : Option (Bytes × Bytes)) : Manifest :=
  { ins := ins.map (fun n => (n, (mtN fs n).getD 0)), disc := disc.map (fun n => (n, (mtN fs n).getD 0)),
    cmd := cmd, rsp := rsp, outs := outs.map (fun n => (n, (mtN fs n).getD 0)) }

theorem manifestFs_eq_N (e : Env) (bm : BuildM) (b : Nat) :
    manifestFs e bm b = manifestN e.fs (bm.dirtying.map (fileName e.g)) ((discOf e b).map (fileName e.g))
      (bm.outs.map (fileName e.g)) (bm.cmdline.getD []) bm.rspfile := by
  unfold manifestFs manifestN mtimeOf mtN
  simp only [List.map_map]
  rfl

theorem mtimeOf_eq_N (e : Env) (f : Nat) : mtimeOf e f = mtN e.fs (fileName e.g f) := rfl

/-- What start-up attaches, as `Loaded0` (for the environment `load::read` returns). -/
theorem loadEnv_loaded0 (w : World) (m : Bytes) (l : Loader) (e0 : Env) (h : loadEnv w m = .ok (l, e0)) :
    Ext l.graph e0.g ∧ Loaded0 e0 := by
  have he0 := loadEnv_eq w m l e0 h
  obtain ⟨hx, _, _, hlog, _, hb⟩ := applyLog_spec w.log
    { g := l.graph, disc := [], hashes := [], cache := [], fs := w.fs, clock := w.clock, log := w.log }
  rw [← he0] at hx hlog hb
  simp only [] at hx hlog hb
  have hlc : ∀ b acc, lastRec e0.g b e0.log acc = lastRec l.graph b w.log acc := by
    intro b acc
    rw [hlog]
    exact lastRec_congr l.graph e0.g hx.producer b w.log acc
  refine ⟨hx, ⟨?_, ?_⟩⟩
  · intro b r hr
    rw [hlc] at hr
    exact (hb b).1 r hr
  · intro b hr
    rw [hlc] at hr
    obtain ⟨h1, h2⟩ := (hb b).2 hr
    exact ⟨by rw [h2]; rfl, by rw [h1]; rfl⟩

theorem jg_initial (e0 : Env) (a : Args) (inv0 : GInv e0.g) (l0 : Loaded0 e0) (hc0 : e0.cache = []) :
    JG e0 (fresh a) e0 := by
  intro _
  refine ⟨Ext.refl _, inv0.names, rfl, List.prefix_refl _, ?_, fun _ _ => rfl, l0.ids, ?_, ?_, ?_, ?_⟩
  · intro r hr; simp [newLog] at hr
  · intro f hf; unfold Cached at hf; rw [hc0] at hf; simp [assocGet] at hf
  · intro f m hm; rw [hc0] at hm; simp [assocGet] at hm
  · intro b bm hb; simp [fresh, init] at hb
  · intro b bm hb; simp [fresh, init] at hb

/-- **A successful build followed by the same build: the second does nothing** - also for steps
    with depfiles / `deps = msvc`.  Hypotheses: no command rewrites its inputs, every step has an
    output; the first invocation succeeds without reloading the manifest; the
    dependencies its finished steps remember at the end are SOURCE files (not produced by any
    step); the files the wanted steps name exist afterwards; the manifest still loads to the same
    graph.  Then the next invocation with the same arguments leaves the world as it is, starts no
    command and reports 0 tasks - for every scheduling behaviour in either invocation. -/
theorem second_build_does_nothing_deps (w : World) (a : InvArgs) (perms : List (List Nat)) (fin : List (Nat × Term))
    (l : Loader) (e0 : Env) (hl : loadEnv w a.manifestName = .ok (l, e0))
    (plain : PlainD e0.g) (hpar : 0 < a.par) (n : Nat)
    (hdone : (build (schedGraph e0.g) (argsOf l a) (choices a.adopt perms fin) e0).2.2 = .done n)
    (hsrc : GoodD (build (schedGraph e0.g) (argsOf l a) (choices a.adopt perms fin) e0).1
              (build (schedGraph e0.g) (argsOf l a) (choices a.adopt perms fin) e0).2.1)
    (hpresent : ∀ b bm, Wanted (schedGraph e0.g) (argsOf l a) b → buildOf e0.g b = some bm → bm.cmdline.isNone = false →
      AllPresentD (build (schedGraph e0.g) (argsOf l a) (choices a.adopt perms fin) e0).2.1 bm b)
    (w' : World)
    (hw' : w' = { fs := (build (schedGraph e0.g) (argsOf l a) (choices a.adopt perms fin) e0).2.1.fs,
                  clock := (build (schedGraph e0.g) (argsOf l a) (choices a.adopt perms fin) e0).2.1.clock,
                  log := (build (schedGraph e0.g) (argsOf l a) (choices a.adopt perms fin) e0).2.1.log })
    (e0' : Env) (hl' : loadEnv w' a.manifestName = .ok (l, e0'))
    (o1 o2 : List (List Nat) × List (Nat × Term)) :
    (invoke w' a o1 o2).1 = w' ∧ commandEvents (invoke w' a o1 o2).2.2 = [] ∧
    (∀ k, (invoke w' a o1 o2).2.1 = .done k → k = 0) := by
  obtain ⟨inv0, gok, dok⟩ := loadEnv_graph_ok w a.manifestName l e0 hl
  obtain ⟨hcache0, hfs0, hclock0, hlog0⟩ := loadEnv_frame w a.manifestName l e0 hl
  obtain ⟨hx0, l0⟩ := loadEnv_loaded0 w a.manifestName l e0 hl
  have hcomplete : ∀ b, Wanted (schedGraph e0.g) (argsOf l a) b →
      (build (schedGraph e0.g) (argsOf l a) (choices a.adopt perms fin) e0).1.st b ≠ .unknown :=
    fun b hW => build_complete gok (argsOf l a) _ e0 n hdone b hW
  -- the invariant at the end of the first build
  have jg := build_done gok (argsOf l a) _ (JG e0) (jd_spec e0 inv0 l0 plain a.adopt perms fin) e0
    (jg_initial e0 (argsOf l a) inv0 l0 hcache0) n hdone
  have j := jg hsrc
  have hsettled := fun b => build_done_settled_free gok dok (argsOf l a) hpar (choices a.adopt perms fin) e0 n hdone b
  generalize hr : build (schedGraph e0.g) (argsOf l a) (choices a.adopt perms fin) e0 = r
    at j hdone hcomplete hpresent hw' hsrc hsettled
  obtain ⟨s1, e1, out1⟩ := r
  simp only [] at j hdone hcomplete hpresent hw' hsrc hsettled
  -- the second environment
  obtain ⟨inv1, _, _⟩ := loadEnv_graph_ok w' a.manifestName l e0' hl'
  obtain ⟨_, hfs1, _, hlog1⟩ := loadEnv_frame w' a.manifestName l e0' hl'
  obtain ⟨hx1, l1⟩ := loadEnv_loaded0 w' a.manifestName l e0' hl'
  have hfs : e0'.fs = e1.fs := by rw [hfs1, hw']
  have hlog : e0'.log = e1.log := by rw [hlog1, hw']
  -- graphs: all extend the manifest's
  have hxe1 : Ext l.graph e1.g := hx0.trans j.ext
  have hbuilds : ∀ b, buildOf e0'.g b = buildOf e0.g b := by
    intro b; rw [hx1.buildOf, hx0.buildOf]
  have hsg : schedGraph e0'.g = schedGraph e0'.g := rfl
  have idsL : ∀ b bm, buildOf e0.g b = some bm → ∀ f ∈ bm.dirtying ++ bm.outs, f < l.graph.files.length := by
    intro b bm hb f hf
    have hbl : buildOf l.graph b = some bm := by rw [← hx0.buildOf]; exact hb
    have : GInv l.graph := by
      unfold loadEnv at hl
      simp only [] at hl
      split at hl
      · cases hl
      · rename_i l0' hl0; cases hl; exact load_inv false _ _ _ hl0
    apply ginv_idsOK l.graph this b bm hbl f
    rcases List.mem_append.mp hf with h | h
    · exact List.mem_append.mpr (Or.inl (List.mem_of_mem_take h))
    · exact List.mem_append.mpr (Or.inr h)
  have hname : ∀ f, f < l.graph.files.length → fileName e0'.g f = fileName e1.g f := by
    intro f hf; rw [hx1.fileName_old f hf, hxe1.fileName_old f hf]
  -- the wanted steps, seen from the second start-up
  have key : ∀ b bm, Wanted (schedGraph e0.g) (argsOf l a) b → buildOf e0.g b = some bm → bm.cmdline.isNone = false →
      ∃ r, Remembers e0' b r ∧ r.hash = manifestFs e1 bm b ∧ r.deps = (discOf e1 b).map (fileName e1.g) ∧
        s1.st b = .done := by
    intro b bm hW hb hnp
    have hdoneb : s1.st b = .done := by
      rcases hsettled b with h | h
      · exact absurd h (hcomplete b hW)
      · exact h
    obtain ⟨r, q1, q2, q3⟩ := j.settled b bm hdoneb hb hnp (hpresent b bm hW hb hnp)
    refine ⟨r, l1.rem b r ?_, q2, q3, hdoneb⟩
    rw [hlog, lastRec_congr l.graph e0'.g hx1.producer, ← lastRec_congr l.graph e0.g hx0.producer]
    exact q1
  apply invoke_upToDate w' a o1 o2 l e0' hl'
  have uniq1 : UniqueNames e1.g := j.uniq
  have hfileName_unique : ∀ f1 f2, f1 < e1.g.files.length → f2 < e1.g.files.length →
      fileName e1.g f1 = fileName e1.g f2 → f1 = f2 := by
    intro f1 f2 h1 h2 hn
    have a1 : e1.g.files[f1]? = some e1.g.files[f1] := List.getElem?_eq_getElem h1
    have a2 : e1.g.files[f2]? = some e1.g.files[f2] := List.getElem?_eq_getElem h2
    apply uniq1 f1 f2 _ _ a1 a2
    unfold fileName at hn; rw [a1, a2] at hn; simpa using hn
  refine ⟨?_, ?_⟩
  · intro b bm hW' hb' hnp
    have hW := wanted_ext hx0 hx1 (argsOf l a) rfl b hW'
    have hb : buildOf e0.g b = some bm := by rw [← hbuilds]; exact hb'
    obtain ⟨r, hrem, hh, hdeps, hdoneb⟩ := key b bm hW hb hnp
    obtain ⟨m1, m2, m3⟩ := hrem
    have hdn : (discOf e0' b).map (fileName e0'.g) = (discOf e1 b).map (fileName e1.g) := m1.trans hdeps
    have hall := hpresent b bm hW hb hnp
    have hold : ∀ f ∈ bm.dirtying ++ bm.outs, mtimeOf e0' f = mtimeOf e1 f := by
      intro f hf
      rw [mtimeOf_eq_N, mtimeOf_eq_N, hfs, hname f (idsL b bm hb f hf)]
    refine ⟨?_, ?_⟩
    · intro f hf
      simp only [List.mem_append] at hf
      rcases hf with (hf | hf) | hf
      · rw [hold f (by simp [hf])]; exact hall f (by simp [hf])
      · have hn : fileName e0'.g f ∈ (discOf e0' b).map (fileName e0'.g) := List.mem_map_of_mem hf
        rw [hdn] at hn
        obtain ⟨f1, hf1, hn1⟩ := List.mem_map.mp hn
        have := hall f1 (by simp [hf1])
        rw [mtimeOf_eq_N] at this ⊢
        rw [hfs, ← hn1]; exact this
      · rw [hold f (by simp [hf])]; exact hall f (by simp [hf])
    · rw [m3, hh, manifestFs_eq_N, manifestFs_eq_N, hfs, hdn]
      congr 2
      · apply List.map_congr_left
        intro f hf; exact (hname f (idsL b bm hb f (by simp [hf]))).symm
      · apply List.map_congr_left
        intro f hf; exact (hname f (idsL b bm hb f (by simp [hf]))).symm
  · intro b bm hW' hb' hnp f hf p hp
    exfalso
    have hW := wanted_ext hx0 hx1 (argsOf l a) rfl b hW'
    have hb : buildOf e0.g b = some bm := by rw [← hbuilds]; exact hb'
    obtain ⟨r, hrem, hh, hdeps, hdoneb⟩ := key b bm hW hb hnp
    obtain ⟨m1, m2, m3⟩ := hrem
    have hdn : (discOf e0' b).map (fileName e0'.g) = (discOf e1 b).map (fileName e1.g) := m1.trans hdeps
    have hfL : f < l.graph.files.length := by
      by_cases h : f < l.graph.files.length
      · exact h
      · rw [hx1.fileInput_new f (by omega)] at hp; cases hp
    have hpL : fileInput l.graph f = some p := by rw [← hx1.fileInput_old f hfL]; exact hp
    have hn : fileName e0'.g f ∈ (discOf e0' b).map (fileName e0'.g) := List.mem_map_of_mem hf
    rw [hdn, hname f hfL] at hn
    obtain ⟨f1, hf1, hn1⟩ := List.mem_map.mp hn
    have hfe1 : f < e1.g.files.length := Nat.lt_of_lt_of_le hfL hxe1.length_le
    have : f1 = f := hfileName_unique f1 f (j.discIds b f1 hf1) hfe1 hn1
    subst this
    have hsrcf := hsrc b hdoneb f1 hf1
    rw [hxe1.fileInput_old f1 hfL, hpL] at hsrcf
    cases hsrcf

/-- **A completed step is up to date at the next start-up** (whatever else happened in the
    invocation - it may have failed elsewhere): if the invariant `JD` holds at the end of an
    invocation, the remembered dependencies of finished steps are source files, and the manifest
    loads to the same graph from the world that invocation left, then every `Done` non-phony step
    whose named files exist is `UpToDate` in the freshly loaded environment, and its remembered
    dependencies are sources there too. -/
theorem next_startup_upToDate (w : World) (m : Bytes) (l : Loader) (e0 : Env) (hl : loadEnv w m = .ok (l, e0))
    (s1 : S) (e1 : Env) (j : JD e0 s1 e1) (hsrc : GoodD s1 e1)
    (w' : World) (hw' : w' = { fs := e1.fs, clock := e1.clock, log := e1.log })
    (e0' : Env) (hl' : loadEnv w' m = .ok (l, e0'))
    (b : Nat) (bm : BuildM) (hb : buildOf e0.g b = some bm) (hdoneb : s1.st b = .done)
    (hnp : bm.cmdline.isNone = false) (hall : AllPresentD e1 bm b) :
    buildOf e0'.g b = some bm ∧ UpToDate e0' b bm ∧ ∀ f ∈ discOf e0' b, fileInput e0'.g f = none := by
  obtain ⟨hx0, l0⟩ := loadEnv_loaded0 w m l e0 hl
  obtain ⟨_, hfs1, _, hlog1⟩ := loadEnv_frame w' m l e0' hl'
  obtain ⟨hx1, l1⟩ := loadEnv_loaded0 w' m l e0' hl'
  have hfs : e0'.fs = e1.fs := by rw [hfs1, hw']
  have hlog : e0'.log = e1.log := by rw [hlog1, hw']
  have hxe1 : Ext l.graph e1.g := hx0.trans j.ext
  have hbuilds : buildOf e0'.g b = buildOf e0.g b := by rw [hx1.buildOf, hx0.buildOf]
  have idsL : ∀ f ∈ bm.dirtying ++ bm.outs, f < l.graph.files.length := by
    intro f hf
    have hbl : buildOf l.graph b = some bm := by rw [← hx0.buildOf]; exact hb
    have : GInv l.graph := by
      unfold loadEnv at hl
      simp only [] at hl
      split at hl
      · cases hl
      · rename_i l0' hl0; cases hl; exact load_inv false _ _ _ hl0
    apply ginv_idsOK l.graph this b bm hbl f
    rcases List.mem_append.mp hf with h | h
    · exact List.mem_append.mpr (Or.inl (List.mem_of_mem_take h))
    · exact List.mem_append.mpr (Or.inr h)
  have hname : ∀ f, f < l.graph.files.length → fileName e0'.g f = fileName e1.g f := by
    intro f hf; rw [hx1.fileName_old f hf, hxe1.fileName_old f hf]
  obtain ⟨r, q1, hh, hdeps⟩ := j.settled b bm hdoneb hb hnp hall
  have hrem : Remembers e0' b r := by
    apply l1.rem b r
    rw [hlog, lastRec_congr l.graph e0'.g hx1.producer, ← lastRec_congr l.graph e0.g hx0.producer]
    exact q1
  obtain ⟨m1, m2, m3⟩ := hrem
  have hdn : (discOf e0' b).map (fileName e0'.g) = (discOf e1 b).map (fileName e1.g) := m1.trans hdeps
  have hold : ∀ f ∈ bm.dirtying ++ bm.outs, mtimeOf e0' f = mtimeOf e1 f := by
    intro f hf
    rw [mtimeOf_eq_N, mtimeOf_eq_N, hfs, hname f (idsL f hf)]
  have hfileName_unique : ∀ f1 f2, f1 < e1.g.files.length → f2 < e1.g.files.length →
      fileName e1.g f1 = fileName e1.g f2 → f1 = f2 := by
    intro f1 f2 h1 h2 hn
    have a1 : e1.g.files[f1]? = some e1.g.files[f1] := List.getElem?_eq_getElem h1
    have a2 : e1.g.files[f2]? = some e1.g.files[f2] := List.getElem?_eq_getElem h2
    apply j.uniq f1 f2 _ _ a1 a2
    unfold fileName at hn; rw [a1, a2] at hn; simpa using hn
  refine ⟨by rw [hbuilds]; exact hb, ⟨?_, ?_⟩, ?_⟩
  · intro f hf
    simp only [List.mem_append] at hf
    rcases hf with (hf | hf) | hf
    · rw [hold f (by simp [hf])]; exact hall f (by simp [hf])
    · have hn : fileName e0'.g f ∈ (discOf e0' b).map (fileName e0'.g) := List.mem_map_of_mem hf
      rw [hdn] at hn
      obtain ⟨f1, hf1, hn1⟩ := List.mem_map.mp hn
      have := hall f1 (by simp [hf1])
      rw [mtimeOf_eq_N] at this ⊢
      rw [hfs, ← hn1]; exact this
    · rw [hold f (by simp [hf])]; exact hall f (by simp [hf])
  · rw [m3, hh, manifestFs_eq_N, manifestFs_eq_N, hfs, hdn]
    congr 2
    · apply List.map_congr_left
      intro f hf; exact (hname f (idsL f (by simp [hf]))).symm
    · apply List.map_congr_left
      intro f hf; exact (hname f (idsL f (by simp [hf]))).symm
  · intro f hf
    cases hp : fileInput e0'.g f with
    | none => rfl
    | some p =>
      exfalso
      have hfL : f < l.graph.files.length := by
        by_cases h : f < l.graph.files.length
        · exact h
        · rw [hx1.fileInput_new f (by omega)] at hp; cases hp
      have hpL : fileInput l.graph f = some p := by rw [← hx1.fileInput_old f hfL]; exact hp
      have hn : fileName e0'.g f ∈ (discOf e0' b).map (fileName e0'.g) := List.mem_map_of_mem hf
      rw [hdn, hname f hfL] at hn
      obtain ⟨f1, hf1, hn1⟩ := List.mem_map.mp hn
      have hfe1 : f < e1.g.files.length := Nat.lt_of_lt_of_le hfL hxe1.length_le
      have : f1 = f := hfileName_unique f1 f (j.discIds b f1 hf1) hfe1 hn1
      subst this
      have hsrcf := hsrc b hdoneb f1 hf1
      rw [hxe1.fileInput_old f1 hfL, hpL] at hsrcf
      cases hsrcf


end N2V.Work
