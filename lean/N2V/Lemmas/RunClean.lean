/-
  `run::build` when every dirtiness check answers "clean": no command starts in either phase, no
  reload is requested, and a successful outcome reports 0 tasks ("no work to do").
-/
import N2V.Lemmas.SchedClean
import N2V.Model.Run
import N2V.Lemmas.SchedBuild
namespace N2V.Run
open N2V N2V.Sched

theorem popQueued_none_of_empty : ∀ ps : List Pool, (∀ p ∈ ps, p.queued = []) → popQueued ps = none := by
  intro ps
  induction ps with
  | nil => intro _; rfl
  | cons p ps ih =>
    intro h
    have hp := h p (by simp)
    have hr := ih (fun x hx => h x (by simp [hx]))
    unfold popQueued
    split
    · rw [hp]; simp [hr]
    · simp [hr]

theorem insertPool_empty (ps : List Pool) (n : Bytes) (d : Nat) (h : ∀ p ∈ ps, p.queued = []) :
    ∀ p ∈ insertPool ps n d, p.queued = [] := by
  induction ps with
  | nil => intro p hp; simp [insertPool] at hp; subst hp; rfl
  | cons q qs ih =>
    intro p hp
    unfold insertPool at hp
    split at hp
    · simp at hp
      rcases hp with rfl | hp
      · rfl
      · exact h p (by simp [hp])
    · simp at hp
      rcases hp with rfl | hp
      · exact h p (by simp)
      · exact ih (fun x hx => h x (by simp [hx])) p hp

theorem initPools_empty (declared : List (Bytes × Nat)) : ∀ p ∈ initPools declared, p.queued = [] := by
  unfold initPools
  have key : ∀ (ds : List (Bytes × Nat)) (ps : List Pool), (∀ p ∈ ps, p.queued = []) →
      ∀ p ∈ ds.foldl (fun ps d => insertPool ps d.1 d.2) ps, p.queued = [] := by
    intro ds
    induction ds with
    | nil => intro ps h; exact h
    | cons d ds ih => intro ps h; exact ih _ (insertPool_empty ps d.1 d.2 h)
  apply key
  intro p hp
  simp at hp
  rcases hp with rfl | rfl <;> rfl

theorem fresh_quiet (a : Args) : Quiet (fresh a) :=
  ⟨rfl, fun _ => ⟨by simp [fresh, init], by simp [fresh, init]⟩,
   popQueued_none_of_empty _ (initPools_empty a.pools)⟩

/-- Quiet, and nothing started or finished since `s0`. -/
def QF (s0 s : S) : Prop := Quiet s ∧ Frame s0 s

theorem qf_set (g : Graph) (s0 : S) : ∀ s s' id new, QF s0 s → (new = St.ready ∨ new = St.want) →
    set g s id new = .ok s' → QF s0 s' := by
  intro s s' id new q h hs
  exact ⟨set_quiet q.1 (by rcases h with rfl | rfl <;> decide) (by rcases h with rfl | rfl <;> decide) hs,
    q.2.trans (set_frm hs)⟩

theorem wantAll_qf (g : Graph) (s0 : S) : ∀ (fs : List Nat) (s : S), QF s0 s → WRKeep (QF s0) (wantAll g s fs) := by
  intro fs
  induction fs with
  | nil => intro s q; exact q
  | cons f fs ih =>
    intro s q
    unfold wantAll
    have hw := want_keep g (QF s0) (qf_set g s0) s f q
    cases h : want g s f with
    | ok u s' => rw [h] at hw; exact ih s' hw
    | err m s' => rw [h] at hw; exact hw
    | bad m => trivial

theorem wantTargets_qf (g : Graph) (a : Args) (s0 : S) : ∀ (ns : List Bytes) (s : S), QF s0 s →
    WRKeep (QF s0) (wantTargets g a s ns) := by
  intro ns
  induction ns with
  | nil => intro s q; exact q
  | cons n ns ih =>
    intro s q
    unfold wantTargets
    split
    · split
      · exact ih s q
      · exact q
    · split
      · exact ih s q
      · rename_i t _ _
        have hw := want_keep g (QF s0) (qf_set g s0) s t q
        cases h : want g s t with
        | ok u s' => rw [h] at hw; exact ih s' hw
        | err m s' => rw [h] at hw; exact hw
        | bad m => trivial
    · trivial
    · trivial

theorem phase2_clean {E : Type} (g : Graph) (a : Args) (c : Choices E) (P : E → Prop)
    (hP : ∀ e b, P e → (c.check e b).1 = some false ∧ P (c.check e b).2)
    (s0 s2 : S) (e : E) (perms : List (List Nat)) (fin : List (Nat × Term)) (tb : Nat) (q : QF s0 s2) (pe : P e) :
    QF s0 (phase2 g a c s2 e perms fin tb).1 ∧ P (phase2 g a c s2 e perms fin tb).2.1 ∧
    (∀ n, (phase2 g a c s2 e perms fin tb).2.2 = .done n → n = tb + s0.tasksRun) ∧
    (∀ n, (phase2 g a c s2 e perms fin tb).2.2 ≠ .reload n) := by
  unfold phase2
  simp only []
  generalize hw : (if !a.targets.isEmpty then wantTargets g a s2 a.targets
    else if !a.defaults.isEmpty then wantAll g s2 a.defaults
    else wantAll g s2 ((List.range g.nFiles).filter (· ≠ a.manifest))) = wanted
  have hk : WRKeep (QF s0) wanted := by
    rw [← hw]
    split
    · exact wantTargets_qf g a s0 _ s2 q
    · split
      · exact wantAll_qf g s0 _ s2 q
      · exact wantAll_qf g s0 _ s2 q
  cases wanted with
  | ok u s3 =>
    simp only []
    obtain ⟨r1, r2, r3, r4⟩ := runLoop_quiet (g := g) (par := a.par) c P hP (runFuel g) s3 e perms fin hk.1 pe
    have qf : QF s0 (runLoop g a.par c (runFuel g) s3 e perms fin).s := ⟨r1, hk.2.trans r3⟩
    split
    · refine ⟨qf, r2, ?_, fun n h => by cases h⟩
      intro n h
      cases h
      rw [qf.2.tasksRun]
    · refine ⟨qf, r2, ?_, ?_⟩
      · intro n h
        rename_i r hne
        cases hr : (runLoop g a.par c (runFuel g) s3 e perms fin).result <;> simp [ofRun, hr] at h
      · intro n h
        cases hr : (runLoop g a.par c (runFuel g) s3 e perms fin).result <;> simp [ofRun, hr] at h
  | err m s3 =>
    refine ⟨hk, pe, ?_, ?_⟩
    · intro n h; cases h
    · intro n h; cases h
  | bad m =>
    refine ⟨q, pe, ?_, ?_⟩
    · intro n h; cases h
    · intro n h; cases h

/-- **When every check answers "clean", `run::build` runs nothing**: no start or finish event in
    the whole trace, no reload, and a successful outcome reports 0 tasks. -/
theorem build_clean {E : Type} (g : Graph) (a : Args) (c : Choices E) (P : E → Prop)
    (hP : ∀ e b, P e → (c.check e b).1 = some false ∧ P (c.check e b).2) (e : E) (pe : P e) :
    sf (build g a c e).1.trace = [Ev.load] ∧ (build g a c e).1.tasksRun = 0 ∧ P (build g a c e).2.1 ∧
    (∀ n, (build g a c e).2.2 = .done n → n = 0) ∧ (∀ n, (build g a c e).2.2 ≠ .reload n) := by
  have q0 : QF (fresh a) (fresh a) := ⟨fresh_quiet a, Frame.refl _⟩
  have fin_of : ∀ (r : S × E × Outcome), QF (fresh a) r.1 → P r.2.1 →
      (∀ n, r.2.2 = .done n → n = 0 + (fresh a).tasksRun) → (∀ n, r.2.2 ≠ .reload n) →
      sf r.1.trace = [Ev.load] ∧ r.1.tasksRun = 0 ∧ P r.2.1 ∧ (∀ n, r.2.2 = .done n → n = 0) ∧ (∀ n, r.2.2 ≠ .reload n) := by
    intro r q p h1 h2
    exact ⟨by rw [q.2.sf]; rfl, by rw [q.2.tasksRun]; rfl, p, fun n h => by have := h1 n h; simpa [fresh, init] using this, h2⟩
  unfold build
  simp only []
  have hw := want_keep g (QF (fresh a)) (qf_set g (fresh a)) (fresh a) a.manifest q0
  cases hwm : want g (fresh a) a.manifest with
  | ok u s1 =>
    rw [hwm] at hw
    simp only []
    obtain ⟨r1, r2, r3, r4⟩ := runLoop_quiet (g := g) (par := a.par) c P hP (runFuel g) s1 e c.perms c.finishes hw.1 pe
    have qf : QF (fresh a) (runLoop g a.par c (runFuel g) s1 e c.perms c.finishes).s := ⟨r1, hw.2.trans r3⟩
    split
    · have htr : (runLoop g a.par c (runFuel g) s1 e c.perms c.finishes).s.tasksRun = 0 := by
        rw [qf.2.tasksRun]; rfl
      rw [if_neg (by rw [htr]; simp)]
      obtain ⟨b1, b2, b3, b4⟩ := phase2_clean g a c P hP (fresh a) _ _ (runLoop g a.par c (runFuel g) s1 e c.perms c.finishes).perms
        (runLoop g a.par c (runFuel g) s1 e c.perms c.finishes).finishes 0 qf r2
      exact fin_of _ b1 b2 b3 b4
    · apply fin_of _ qf r2
      · intro n h
        cases hr : (runLoop g a.par c (runFuel g) s1 e c.perms c.finishes).result <;> simp [ofRun, hr] at h
      · intro n h
        cases hr : (runLoop g a.par c (runFuel g) s1 e c.perms c.finishes).result <;> simp [ofRun, hr] at h
  | err m s1 =>
    rw [hwm] at hw
    exact fin_of (s1, e, .err m) hw pe (fun n h => by cases h) (fun n h => by cases h)
  | bad m => exact fin_of (fresh a, e, .panic m) q0 pe (fun n h => by cases h) (fun n h => by cases h)

/-! ### With a check that needs the producers to have been checked first -/

theorem WRel.done_sub {g : Graph} {par : Nat} {s s' : S} (r : WRel g par s s') :
    ∀ p, s'.st p = .done → s.st p = .done := by
  intro p hp
  by_cases hu : s.st p = .unknown
  · rcases r.mono p hu with h | h | h <;> rw [h] at hp <;> cases hp
  · rw [r.frame p hu] at hp; exact hp

theorem WRRel.jd {E : Type} {g : Graph} {par : Nat} {D : E → Nat → Prop} {s0 : S} {e : E} (jd : JD D s0 e) :
    ∀ w : WR Unit, WRRel g par s0 w → (match w with | .ok _ s => JD D s e | .err _ s => JD D s e | .bad _ => True) := by
  intro w h
  cases w with
  | ok u s => exact fun p hp => jd p (WRel.done_sub h p hp)
  | err m s => exact fun p hp => jd p (WRel.done_sub h p hp)
  | bad m => trivial

/-- The builds an invocation may consider at all (`build_only_requested`). -/
def Wanted (g : Graph) (a : Args) (b : Nat) : Prop := ∃ f, Requested g a f ∧ Needs g f b

theorem phase2_clean2 {E : Type} (g : Graph) (gok : GraphOK g) (a : Args) (c : Choices E) (P : E → Prop)
    (D : E → Nat → Prop) (hD : CleanCheck g c P D (Wanted g a))
    (s0 s2 : S) (e : E) (perms : List (List Nat)) (fin : List (Nat × Term)) (tb : Nat) (q : QF s0 s2)
    (inv : Inv g a.par s2) (pe : P e) (jd : JD D s2 e) (hW : ∀ b, s2.st b ≠ .unknown → Wanted g a b) :
    QF s0 (phase2 g a c s2 e perms fin tb).1 ∧ P (phase2 g a c s2 e perms fin tb).2.1 ∧
    (∀ n, (phase2 g a c s2 e perms fin tb).2.2 = .done n → n = tb + s0.tasksRun) ∧
    (∀ n, (phase2 g a c s2 e perms fin tb).2.2 ≠ .reload n) := by
  unfold phase2
  simp only []
  generalize hw : (if !a.targets.isEmpty then wantTargets g a s2 a.targets
    else if !a.defaults.isEmpty then wantAll g s2 a.defaults
    else wantAll g s2 ((List.range g.nFiles).filter (· ≠ a.manifest))) = wanted
  have hk : WRKeep (QF s0) wanted := by
    rw [← hw]
    split
    · exact wantTargets_qf g a s0 _ s2 q
    · split
      · exact wantAll_qf g s0 _ s2 q
      · exact wantAll_qf g s0 _ s2 q
  have hrel : WRRel g a.par s2 wanted := by
    rw [← hw]
    split
    · exact wantTargets_rel a gok _ s2 s2 (WRel.refl inv)
    · split
      · exact wantAll_rel gok _ s2 s2 (WRel.refl inv)
      · exact wantAll_rel gok _ s2 s2 (WRel.refl inv)
  have hjd := WRRel.jd (D := D) (e := e) jd wanted hrel
  have ht : TouchW g s2 (Requested g a) wanted := by
    rw [← hw]
    split
    · exact wantTargets_touch g a _ s2 s2 _ (fun n hn t hl => Or.inr (Or.inl ⟨n, hn, hl⟩)) (fun b hb => Or.inl hb)
    · rename_i ht
      have hte : a.targets = [] := by cases h : a.targets with | nil => rfl | cons _ _ => simp [h] at ht
      split
      · exact wantAll_touch g _ s2 s2 _ (fun f hf => Or.inr (Or.inr (Or.inl ⟨hte, hf⟩))) (fun b hb => Or.inl hb)
      · rename_i hd
        have hde : a.defaults = [] := by cases h : a.defaults with | nil => rfl | cons _ _ => simp [h] at hd
        exact wantAll_touch g _ s2 s2 _ (fun f hf => Or.inr (Or.inr (Or.inr ⟨hte, hde, by
          simp only [List.mem_filter, List.mem_range] at hf; exact hf.1⟩))) (fun b hb => Or.inl hb)
  cases wanted with
  | ok u s3 =>
    simp only []
    have hW3 : ∀ b, s3.st b ≠ .unknown → Wanted g a b := fun b hb => by
      rcases ht b hb with h | h
      · exact hW b h
      · exact h
    obtain ⟨r1, r2, r3, r4, _⟩ := runLoop_quiet2 (g := g) (par := a.par) c P D _ hD (runFuel g) s3 e perms fin hrel.inv hk.1 pe hjd hW3
    have qf : QF s0 (runLoop g a.par c (runFuel g) s3 e perms fin).s := ⟨r1, hk.2.trans r3⟩
    split
    · refine ⟨qf, r2, ?_, fun n h => by cases h⟩
      intro n h
      cases h
      rw [qf.2.tasksRun]
    · refine ⟨qf, r2, ?_, ?_⟩
      · intro n h
        cases hr : (runLoop g a.par c (runFuel g) s3 e perms fin).result <;> simp [ofRun, hr] at h
      · intro n h
        cases hr : (runLoop g a.par c (runFuel g) s3 e perms fin).result <;> simp [ofRun, hr] at h
  | err m s3 =>
    refine ⟨hk, pe, ?_, ?_⟩
    · intro n h; cases h
    · intro n h; cases h
  | bad m =>
    refine ⟨q, pe, ?_, ?_⟩
    · intro n h; cases h
    · intro n h; cases h

/-- **`run::build` runs nothing when every step is found clean once its producers have been
    checked**: no start or finish event, no reload, `done 0` when it succeeds. -/
theorem build_clean2 {E : Type} (g : Graph) (gok : GraphOK g) (a : Args) (c : Choices E) (P : E → Prop)
    (D : E → Nat → Prop) (hD : CleanCheck g c P D (Wanted g a)) (e : E) (pe : P e) :
    sf (build g a c e).1.trace = [Ev.load] ∧ (build g a c e).1.tasksRun = 0 ∧ P (build g a c e).2.1 ∧
    (∀ n, (build g a c e).2.2 = .done n → n = 0) ∧ (∀ n, (build g a c e).2.2 ≠ .reload n) := by
  have q0 : QF (fresh a) (fresh a) := ⟨fresh_quiet a, Frame.refl _⟩
  have i0 := fresh_inv g a
  have j0 : JD D (fresh a) e := fun p hp => by simp [fresh, init] at hp
  have fin_of : ∀ (r : S × E × Outcome), QF (fresh a) r.1 → P r.2.1 →
      (∀ n, r.2.2 = .done n → n = 0 + (fresh a).tasksRun) → (∀ n, r.2.2 ≠ .reload n) →
      sf r.1.trace = [Ev.load] ∧ r.1.tasksRun = 0 ∧ P r.2.1 ∧ (∀ n, r.2.2 = .done n → n = 0) ∧ (∀ n, r.2.2 ≠ .reload n) := by
    intro r q p h1 h2
    exact ⟨by rw [q.2.sf]; rfl, by rw [q.2.tasksRun]; rfl, p, fun n h => by have := h1 n h; simpa [fresh, init] using this, h2⟩
  unfold build
  simp only []
  have hw := want_keep g (QF (fresh a)) (qf_set g (fresh a)) (fresh a) a.manifest q0
  have hrel := want_rel gok (fresh a) a.manifest i0
  have hjd := WRRel.jd (D := D) (e := e) j0 _ hrel
  have htm := want_touch g (fresh a) a.manifest
  cases hwm : want g (fresh a) a.manifest with
  | ok u s1 =>
    rw [hwm] at hw hrel hjd htm
    simp only []
    have hW1 : ∀ b, s1.st b ≠ .unknown → Wanted g a b := fun b hb => by
      rcases htm b hb with h | h
      · exact absurd rfl h
      · exact ⟨a.manifest, Or.inl rfl, h⟩
    have hkp := runLoop_keeps c (runFuel g) s1 e c.perms c.finishes hrel.inv
    obtain ⟨r1, r2, r3, r4, r5⟩ := runLoop_quiet2 (g := g) (par := a.par) c P D _ hD (runFuel g) s1 e c.perms c.finishes hrel.inv hw.1 pe hjd hW1
    have qf : QF (fresh a) (runLoop g a.par c (runFuel g) s1 e c.perms c.finishes).s := ⟨r1, hw.2.trans r3⟩
    split
    · rename_i hres
      have htr : (runLoop g a.par c (runFuel g) s1 e c.perms c.finishes).s.tasksRun = 0 := by
        rw [qf.2.tasksRun]; rfl
      rw [if_neg (by rw [htr]; simp)]
      obtain ⟨i1, j1⟩ := r5 hres
      obtain ⟨b1, b2, b3, b4⟩ := phase2_clean2 g gok a c P D hD (fresh a) _ _ (runLoop g a.par c (runFuel g) s1 e c.perms c.finishes).perms
        (runLoop g a.par c (runFuel g) s1 e c.perms c.finishes).finishes 0 qf i1 r2 j1 (fun b hb => hW1 b (hkp b hb))
      exact fin_of _ b1 b2 b3 b4
    · apply fin_of _ qf r2
      · intro n h
        cases hr : (runLoop g a.par c (runFuel g) s1 e c.perms c.finishes).result <;> simp [ofRun, hr] at h
      · intro n h
        cases hr : (runLoop g a.par c (runFuel g) s1 e c.perms c.finishes).result <;> simp [ofRun, hr] at h
  | err m s1 =>
    rw [hwm] at hw
    exact fin_of (s1, e, .err m) hw pe (fun n h => by cases h) (fun n h => by cases h)
  | bad m => exact fin_of (fresh a, e, .panic m) q0 pe (fun n h => by cases h) (fun n h => by cases h)
end N2V.Run
