/-
  What the statement parsers compute, at byte level: lists of paths with the parser's spacing
  (`skip_spaces`: spaces and `$`-newline), the sections of a `build` line, indented bindings.
-/
import N2V.Lemmas.EvalSpec
namespace N2V.Parse
open N2V N2V.Scanner N2V.Eval
open N2V.Depfile (G ncr_after back_after_read)

/-- Spacing the parser skips between tokens: spaces and `$`-newline continuations. -/
inductive PGap where
  | sp | cont
  deriving DecidableEq, Repr

def pgapBytes : List PGap → Bytes
  | [] => []
  | .sp :: g => SP :: pgapBytes g
  | .cont :: g => DOLLAR :: NL :: pgapBytes g

/-- The byte after a gap: not a space, and if it is a `$` it does not start a continuation. -/
def GapEnd (x : Bytes) : Prop :=
  match x with
  | [] => False
  | c :: r => c ≠ SP ∧ (c = DOLLAR → ∃ d r', r = d :: r' ∧ d ≠ NL)

theorem skipSpacesLoop_spec (buf : Array UInt8) (gs : List PGap) : ∀ (fuel : Nat) (s : Scanner) (x : Bytes),
    G buf s → Rest buf s.ofs (pgapBytes gs ++ x) → GapEnd x → (pgapBytes gs).length < fuel →
    ∃ s', skipSpacesLoop fuel s = .ok () s' ∧ G buf s' ∧ s'.ofs = s.ofs + (pgapBytes gs).length ∧ Rest buf s'.ofs x := by
  induction gs with
  | nil =>
    intro fuel s x g hr hx hf
    cases fuel with
    | zero => simp at hf
    | succ fuel =>
      cases x with
      | nil => exact absurd hx (by simp [GapEnd])
      | cons c r =>
        simp only [pgapBytes, List.nil_append] at hr
        obtain ⟨s1, h1, w1, ho, hr1, hn⟩ := pRead_eq g.w hr
        obtain ⟨s2, h2, g2, ho2⟩ := pBack_eq g w1 ho
        refine ⟨s2, ?_, g2, by simp [pgapBytes, ho2], by rw [ho2]; exact hr⟩
        unfold skipSpacesLoop
        rw [bind_eq _ _ _ _ _ h1]
        have e1 : (c == SP) = false := by simpa using hx.1
        simp only [e1, Bool.false_eq_true, if_false]
        by_cases hd : c = DOLLAR
        · subst hd
          obtain ⟨d, r', hrr, hdn⟩ := hx.2 rfl
          subst hrr
          simp only [beq_self_eq_true, if_true]
          have hp : pPeek s1 = .ok d s1 := pPeek_eq w1 hr1
          rw [bind_eq _ _ _ _ _ hp]
          have : (d != NL) = true := by simpa using hdn
          simp only [this, if_true]
          exact h2
        · have e2 : (c == DOLLAR) = false := by simpa using hd
          simp only [e2, Bool.false_eq_true, if_false]
          exact h2
  | cons gi gs ih =>
    intro fuel s x g hr hx hf
    cases fuel with
    | zero => simp at hf
    | succ fuel =>
      cases gi with
      | sp =>
        simp only [pgapBytes, List.cons_append] at hr hf
        obtain ⟨s1, h1, w1, ho, hr1, hn⟩ := pRead_eq g.w hr
        have g1 : G buf s1 := ⟨w1, hn (by decide), by rw [ho]; exact ncr_after hr.head (by decide)⟩
        obtain ⟨s', h', g', ho', hr'⟩ := ih fuel s1 x g1 hr1 hx (by simp at hf; omega)
        refine ⟨s', ?_, g', by simp [pgapBytes, ho', ho]; omega, hr'⟩
        unfold skipSpacesLoop
        rw [bind_eq _ _ _ _ _ h1]
        simp only [beq_self_eq_true, if_true]
        exact h'
      | cont =>
        simp only [pgapBytes, List.cons_append] at hr hf
        obtain ⟨s1, h1, w1, ho, hr1, hn⟩ := pRead_eq g.w hr
        have hp : pPeek s1 = .ok NL s1 := pPeek_eq w1 hr1
        obtain ⟨s2, h2, w2, ho2, hr2, hn2⟩ := pRead_eq w1 hr1
        have g2 : G buf s2 := ⟨w2, hn2 (by decide), by rw [ho2]; exact ncr_after hr1.head (by decide)⟩
        obtain ⟨s', h', g', ho', hr'⟩ := ih fuel s2 x g2 hr2 hx (by simp at hf; omega)
        refine ⟨s', ?_, g', by simp [pgapBytes, ho', ho2, ho]; omega, hr'⟩
        unfold skipSpacesLoop
        rw [bind_eq _ _ _ _ _ h1]
        have e1 : (DOLLAR == SP) = false := by decide
        simp only [e1, Bool.false_eq_true, if_false, beq_self_eq_true, if_true]
        rw [bind_eq _ _ _ _ _ hp]
        simp only [bne_self_eq_false, Bool.false_eq_true, if_false]
        rw [bind_eq _ _ _ _ _ h2]
        exact h'

theorem skipSpaces_spec (buf : Array UInt8) (gs : List PGap) (s : Scanner) (x : Bytes) (g : G buf s)
    (hr : Rest buf s.ofs (pgapBytes gs ++ x)) (hx : GapEnd x) :
    ∃ s', skipSpaces s = .ok () s' ∧ G buf s' ∧ s'.ofs = s.ofs + (pgapBytes gs).length ∧ Rest buf s'.ofs x := by
  have hlen : (pgapBytes gs).length < s.buf.size + 1 := by
    cases x with
    | nil => exact absurd hx (by simp [GapEnd])
    | cons c r =>
      have := (Rest.append hr).lt
      rw [g.w.hb]; omega
  obtain ⟨s', h', g', ho', hr'⟩ := skipSpacesLoop_spec buf gs (s.buf.size + 1) s x g hr hx hlen
  refine ⟨s', ?_, g', ho', hr'⟩
  unfold skipSpaces
  have e : pSize s = .ok s.buf.size s := rfl
  rw [bind_eq _ _ _ _ _ e]
  exact h'


/-! ### Lists of paths -/

/-- A path as written: segments and a last literal. -/
abbrev PathText := List Seg × Bytes

def pathBytes (p : PathText) : Bytes := segsBytes p.1 ++ p.2
def pathValue (p : PathText) : EvalStr := textParts p.1 p.2

def pathsBytes (ps : List (PathText × List PGap)) : Bytes :=
  ps.flatMap (fun pg => pathBytes pg.1 ++ pgapBytes pg.2)

/-- Every path is well-formed text that ends where a space, `:`, `|` or newline follows, and the
    gap after it ends at the next path or at the end of the list. -/
def PathsWF : List (PathText × List PGap) → Bytes → Prop
  | [], _ => True
  | pg :: rest, after =>
    (∃ t r, pgapBytes pg.2 ++ (pathsBytes rest ++ after) = t :: r ∧ stops true t) ∧
    SegsWF true pg.1.1 (pg.1.2 ++ (pgapBytes pg.2 ++ (pathsBytes rest ++ after))) ∧
    (∀ c ∈ pg.1.2, plain true c) ∧ pathValue pg.1 ≠ [] ∧
    GapEnd (pathsBytes rest ++ after) ∧ PathsWF rest after

theorem pathBytes_pos (p : PathText) (hne : pathValue p ≠ []) : 0 < (pathBytes p).length := by
  obtain ⟨segs, last⟩ := p
  cases segs with
  | nil =>
    cases last with
    | nil => exfalso; apply hne; simp [pathValue, textParts]
    | cons c l => simp [pathBytes, segsBytes]
  | cons sg segs => simp [pathBytes, segsBytes, segBytes]; omega

/-- A path does not begin with `:`, `|` or a newline. -/
theorem path_head (p : PathText) (y : Bytes) (hne : pathValue p ≠ []) (hwf : SegsWF true p.1 (p.2 ++ y))
    (hl : ∀ c ∈ p.2, plain true c) :
    ∃ c x, pathBytes p ++ y = c :: x ∧ c ≠ COLON ∧ c ≠ PIPE ∧ c ≠ NL := by
  obtain ⟨segs, last⟩ := p
  have plain_ok : ∀ c, plain true c → c ≠ COLON ∧ c ≠ PIPE ∧ c ≠ NL :=
    fun c h => ⟨(h.2.2.2.2 rfl).2.1, (h.2.2.2.2 rfl).2.2, h.2.1⟩
  cases segs with
  | nil =>
    cases last with
    | nil => exfalso; apply hne; simp [pathValue, textParts]
    | cons c l => exact ⟨c, l ++ y, by simp [pathBytes, segsBytes], plain_ok c (hl c (by simp))⟩
  | cons sg segs =>
    obtain ⟨l, e⟩ := sg
    cases l with
    | nil =>
      refine ⟨DOLLAR, escBytes e ++ (segsBytes segs ++ (last ++ y)), ?_, by decide, by decide, by decide⟩
      simp [pathBytes, segsBytes, segBytes, List.append_assoc]
    | cons c l' =>
      refine ⟨c, l' ++ DOLLAR :: (escBytes e ++ (segsBytes segs ++ (last ++ y))), ?_, plain_ok c (hwf.1 c (by simp))⟩
      simp [pathBytes, segsBytes, segBytes, List.append_assoc]

theorem pathsBytes_cons (pg : PathText × List PGap) (rest : List (PathText × List PGap)) :
    pathsBytes (pg :: rest) = pathBytes pg.1 ++ pgapBytes pg.2 ++ pathsBytes rest := by
  simp [pathsBytes]

theorem pathsLoop_spec (buf : Array UInt8) (after : Bytes) (e0 : UInt8) (r0 : Bytes) (hafter : after = e0 :: r0)
    (he0 : e0 = COLON ∨ e0 = PIPE ∨ e0 = NL) (ps : List (PathText × List PGap)) : PathsWF ps after →
    ∀ (fuel : Nat) (acc : List EvalStr) (s : Scanner), G buf s → Rest buf s.ofs (pathsBytes ps ++ after) →
    ps.length < fuel →
    ∃ s', pathsLoop fuel acc s = .ok (acc ++ ps.map (fun pg => pathValue pg.1)) s' ∧ G buf s' ∧
      Rest buf s'.ofs after := by
  induction ps with
  | nil =>
    intro _ fuel acc s g hr hf
    cases fuel with
    | zero => simp at hf
    | succ fuel =>
      simp only [pathsBytes, List.flatMap_nil, List.nil_append] at hr
      rw [hafter] at hr
      have hp : pPeek s = .ok e0 s := pPeek_eq g.w hr
      refine ⟨s, ?_, g, by rw [hafter]; exact hr⟩
      unfold pathsLoop
      rw [bind_eq _ _ _ _ _ hp]
      have : (e0 == COLON || e0 == PIPE || e0 == NL) = true := by
        rcases he0 with h | h | h <;> subst h <;> decide
      simp [this, pure_eq]
  | cons pg rest ih =>
    intro hwf fuel acc s g hr hf
    obtain ⟨⟨t, r, hfol, hst⟩, hsw, hlast, hne, hge, hwf'⟩ := hwf
    cases fuel with
    | zero => simp at hf
    | succ fuel =>
      have hbytes : pathsBytes (pg :: rest) ++ after
          = segsBytes pg.1.1 ++ pg.1.2 ++ (pgapBytes pg.2 ++ (pathsBytes rest ++ after)) := by
        rw [pathsBytes_cons]; simp [pathBytes, List.append_assoc]
      rw [hbytes] at hr
      obtain ⟨c, x, hcx, hc1, hc2, hc3⟩ := path_head pg.1 (pgapBytes pg.2 ++ (pathsBytes rest ++ after)) hne hsw hlast
      have hr0 : Rest buf s.ofs (c :: x) := by
        rw [← hcx]; simpa [pathBytes, List.append_assoc] using hr
      have hp : pPeek s = .ok c s := pPeek_eq g.w hr0
      rw [hfol] at hr hsw
      obtain ⟨s1, h1, g1, hr1⟩ := readEval_spec buf true pg.1.1 pg.1.2 t r hsw hlast hst hne s g hr
      rw [← hfol] at hr1
      obtain ⟨s2, h2, g2, _, hr2⟩ := skipSpaces_spec buf pg.2 s1 (pathsBytes rest ++ after) g1 hr1 hge
      obtain ⟨s', h', g', hr'⟩ := ih hwf' fuel (acc ++ [pathValue pg.1]) s2 g2 hr2 (by simp at hf; omega)
      refine ⟨s', ?_, g', hr'⟩
      unfold pathsLoop
      rw [bind_eq _ _ _ _ _ hp]
      have : (c == COLON || c == PIPE || c == NL) = false := by simp [hc1, hc2, hc3]
      simp only [this, Bool.false_eq_true, if_false]
      rw [bind_eq _ _ _ _ _ h1, bind_eq _ _ _ _ _ h2]
      have h'' : pathsLoop fuel (acc ++ [textParts pg.1.1 pg.1.2]) s2
          = .ok (acc ++ [pathValue pg.1] ++ rest.map (fun pg => pathValue pg.1)) s' := h'
      rw [h'']
      simp [List.append_assoc]

/-- `read_unevaluated_paths_to`: a leading gap, then the paths. -/
theorem readPathsTo_spec (buf : Array UInt8) (after : Bytes) (e0 : UInt8) (r0 : Bytes) (hafter : after = e0 :: r0)
    (he0 : e0 = COLON ∨ e0 = PIPE ∨ e0 = NL) (lead : List PGap) (ps : List (PathText × List PGap))
    (hwf : PathsWF ps after) (hge : GapEnd (pathsBytes ps ++ after)) (acc : List EvalStr) (s : Scanner) (g : G buf s)
    (hr : Rest buf s.ofs (pgapBytes lead ++ (pathsBytes ps ++ after))) :
    ∃ s', readPathsTo acc s = .ok (acc ++ ps.map (fun pg => pathValue pg.1)) s' ∧ G buf s' ∧
      Rest buf s'.ofs after := by
  obtain ⟨s1, h1, g1, _, hr1⟩ := skipSpaces_spec buf lead s _ g hr hge
  have hlen : ps.length < s1.buf.size + 1 := by
    -- each path has at least one byte
    have : ∀ (l : List (PathText × List PGap)) (a : Bytes), PathsWF l a → l.length ≤ (pathsBytes l).length := by
      intro l a
      induction l with
      | nil => intro _; simp
      | cons pg rest ih =>
        intro hw
        obtain ⟨_, _, _, hne, _, hw'⟩ := hw
        have hpos := pathBytes_pos pg.1 hne
        have := ih hw'
        rw [pathsBytes_cons]; simp; omega
    have h1' := this ps after hwf
    have h2' := (Rest.append (a := pathsBytes ps) (by rw [hafter] at hr1; exact hr1)).lt
    rw [g1.w.hb]; omega
  obtain ⟨s', h', g', hr'⟩ := pathsLoop_spec buf after e0 r0 hafter he0 ps hwf (s1.buf.size + 1) acc s1 g1 hr1 hlen
  refine ⟨s', ?_, g', hr'⟩
  unfold readPathsTo
  rw [bind_eq _ _ _ _ _ h1]
  have e : pSize s1 = .ok s1.buf.size s1 := rfl
  rw [bind_eq _ _ _ _ _ e]
  exact h'


/-! ### The optional sections of a `build` line -/

theorem pNext_eq {buf : Array UInt8} {s : Scanner} {c : UInt8} {r : Bytes} (g : G buf s) (hr : Rest buf s.ofs (c :: r))
    (h0 : c ≠ NUL) (h1 : c ≠ CR) : ∃ s1, pNext s = .ok () s1 ∧ G buf s1 ∧ SW buf s1 ∧ s1.ofs = s.ofs + 1 ∧ Rest buf s1.ofs r := by
  obtain ⟨s1, hrd, w1, ho, hr1, hn⟩ := pRead_eq g.w hr
  refine ⟨s1, ?_, ⟨w1, hn h0, by rw [ho]; exact ncr_after hr.head h1⟩, w1, ho, hr1⟩
  unfold pNext Scanner.next
  unfold pRead liftRes at hrd
  cases hread : s.read with
  | ok v =>
    rw [hread] at hrd
    obtain ⟨c', s1'⟩ := v
    simp only [] at hrd
    cases hrd
    rfl
  | _ => rw [hread] at hrd; simp [PRes.ofRes] at hrd

/-- A section as written after its introducer (`|`, `||`, `|@`): a gap, then paths. -/
abbrev Section := List PGap × List (PathText × List PGap)

def sectionBytes (sec : Section) : Bytes := pgapBytes sec.1 ++ pathsBytes sec.2
def sectionValues (sec : Section) : List EvalStr := sec.2.map (fun pg => pathValue pg.1)

def SectionWF (sec : Section) (after : Bytes) : Prop :=
  PathsWF sec.2 after ∧ GapEnd (pathsBytes sec.2 ++ after)

theorem section_spec (buf : Array UInt8) (sec : Section) (after : Bytes) (e0 : UInt8) (r0 : Bytes)
    (hafter : after = e0 :: r0) (he0 : e0 = COLON ∨ e0 = PIPE ∨ e0 = NL) (hwf : SectionWF sec after)
    (acc : List EvalStr) (s : Scanner) (g : G buf s) (hr : Rest buf s.ofs (sectionBytes sec ++ after)) :
    ∃ s', readPathsTo acc s = .ok (acc ++ sectionValues sec) s' ∧ G buf s' ∧ Rest buf s'.ofs after :=
  readPathsTo_spec buf after e0 r0 hafter he0 sec.1 sec.2 hwf.1 hwf.2 acc s g
    (by simpa [sectionBytes, List.append_assoc] using hr)

theorem peek_not_pipe {buf : Array UInt8} {s : Scanner} {c : UInt8} {r : Bytes} (g : G buf s)
    (hr : Rest buf s.ofs (c :: r)) (hc : c ≠ PIPE) (f : PM (List EvalStr)) (x : List EvalStr) :
    (do let p ← pPeek; if p == PIPE then f else pure x) s = .ok x s := by
  rw [bind_eq _ _ _ _ _ (pPeek_eq g.w hr)]
  have : (c == PIPE) = false := by simpa using hc
  simp [this, pure_eq]

/-- `| implicit outputs`, present. -/
theorem optImplicitOuts_some (buf : Array UInt8) (sec : Section) (after : Bytes) (r0 : Bytes)
    (hafter : after = COLON :: r0) (hwf : SectionWF sec after) (outs : List EvalStr) (s : Scanner) (g : G buf s)
    (hr : Rest buf s.ofs (PIPE :: (sectionBytes sec ++ after))) :
    ∃ s', optImplicitOuts outs s = .ok (outs ++ sectionValues sec) s' ∧ G buf s' ∧ Rest buf s'.ofs after := by
  obtain ⟨s1, h1, g1, _, _, hr1⟩ := pNext_eq g hr (by decide) (by decide)
  obtain ⟨s', h', g', hr'⟩ := section_spec buf sec after COLON r0 hafter (Or.inl rfl) hwf outs s1 g1 hr1
  refine ⟨s', ?_, g', hr'⟩
  unfold optImplicitOuts
  rw [bind_eq _ _ _ _ _ (pPeek_eq g.w hr)]
  simp only [beq_self_eq_true, if_true]
  rw [bind_eq _ _ _ _ _ h1]
  exact h'

theorem optImplicitOuts_none (buf : Array UInt8) (c : UInt8) (r : Bytes) (hc : c ≠ PIPE) (outs : List EvalStr)
    (s : Scanner) (g : G buf s) (hr : Rest buf s.ofs (c :: r)) : optImplicitOuts outs s = .ok outs s := by
  unfold optImplicitOuts
  exact peek_not_pipe g hr hc _ _

/-- `| implicit inputs`, present: the byte after `|` is neither `|` nor `@`. -/
theorem optImplicit_some (buf : Array UInt8) (sec : Section) (after : Bytes) (e0 : UInt8) (r0 : Bytes)
    (hafter : after = e0 :: r0) (he0 : e0 = PIPE ∨ e0 = NL) (hwf : SectionWF sec after) (q : UInt8) (x : Bytes)
    (hq : sectionBytes sec ++ after = q :: x) (hq1 : q ≠ PIPE) (hq2 : q ≠ AT) (ins : List EvalStr) (s : Scanner)
    (g : G buf s) (hr : Rest buf s.ofs (PIPE :: (sectionBytes sec ++ after))) :
    ∃ s', optImplicit ins s = .ok (ins ++ sectionValues sec) s' ∧ G buf s' ∧ Rest buf s'.ofs after := by
  obtain ⟨s1, h1, g1, _, _, hr1⟩ := pNext_eq g hr (by decide) (by decide)
  obtain ⟨s', h', g', hr'⟩ := section_spec buf sec after e0 r0 hafter (by rcases he0 with h | h <;> simp [h]) hwf ins s1 g1 hr1
  refine ⟨s', ?_, g', hr'⟩
  unfold optImplicit
  rw [bind_eq _ _ _ _ _ (pPeek_eq g.w hr)]
  simp only [beq_self_eq_true, if_true]
  rw [bind_eq _ _ _ _ _ h1]
  have hp : pPeek s1 = .ok q s1 := pPeek_eq g1.w (by rw [hq] at hr1; exact hr1)
  rw [bind_eq _ _ _ _ _ hp]
  have : (q == PIPE || q == AT) = false := by simp [hq1, hq2]
  simp only [this, Bool.false_eq_true, if_false]
  exact h'

/-- `| implicit inputs`, absent because `||` or `|@` follows: nothing is consumed. -/
theorem optImplicit_skip (buf : Array UInt8) (q : UInt8) (x : Bytes) (hq : q = PIPE ∨ q = AT) (ins : List EvalStr)
    (s : Scanner) (g : G buf s) (hr : Rest buf s.ofs (PIPE :: q :: x)) :
    ∃ s', optImplicit ins s = .ok ins s' ∧ G buf s' ∧ Rest buf s'.ofs (PIPE :: q :: x) := by
  obtain ⟨s1, h1, g1, w1, ho, hr1⟩ := pNext_eq g hr (by decide) (by decide)
  obtain ⟨s2, h2, g2, ho2⟩ := pBack_eq g w1 ho
  refine ⟨s2, ?_, g2, by rw [ho2]; exact hr⟩
  unfold optImplicit
  rw [bind_eq _ _ _ _ _ (pPeek_eq g.w hr)]
  simp only [beq_self_eq_true, if_true]
  rw [bind_eq _ _ _ _ _ h1, bind_eq _ _ _ _ _ (pPeek_eq g1.w hr1)]
  have : (q == PIPE || q == AT) = true := by rcases hq with h | h <;> subst h <;> decide
  simp only [this, if_true]
  rw [bind_eq _ _ _ _ _ h2]
  rfl

theorem optImplicit_none (buf : Array UInt8) (c : UInt8) (r : Bytes) (hc : c ≠ PIPE) (ins : List EvalStr)
    (s : Scanner) (g : G buf s) (hr : Rest buf s.ofs (c :: r)) : optImplicit ins s = .ok ins s := by
  unfold optImplicit
  exact peek_not_pipe g hr hc _ _

/-- `|| order-only inputs`, present. -/
theorem optOrderOnly_some (buf : Array UInt8) (sec : Section) (after : Bytes) (e0 : UInt8) (r0 : Bytes)
    (hafter : after = e0 :: r0) (he0 : e0 = PIPE ∨ e0 = NL) (hwf : SectionWF sec after) (ins : List EvalStr)
    (s : Scanner) (g : G buf s) (hr : Rest buf s.ofs (PIPE :: PIPE :: (sectionBytes sec ++ after))) :
    ∃ s', optOrderOnly ins s = .ok (ins ++ sectionValues sec) s' ∧ G buf s' ∧ Rest buf s'.ofs after := by
  obtain ⟨s1, h1, g1, _, _, hr1⟩ := pNext_eq g hr (by decide) (by decide)
  obtain ⟨s2, h2, g2, _, _, hr2⟩ := pNext_eq g1 hr1 (by decide) (by decide)
  obtain ⟨s', h', g', hr'⟩ := section_spec buf sec after e0 r0 hafter (by rcases he0 with h | h <;> simp [h]) hwf ins s2 g2 hr2
  refine ⟨s', ?_, g', hr'⟩
  unfold optOrderOnly
  rw [bind_eq _ _ _ _ _ (pPeek_eq g.w hr)]
  simp only [beq_self_eq_true, if_true]
  rw [bind_eq _ _ _ _ _ h1, bind_eq _ _ _ _ _ (pPeek_eq g1.w hr1)]
  have : (PIPE == AT) = false := by decide
  simp only [this, Bool.false_eq_true, if_false]
  -- `expect('|')` consumes the second bar
  have hex : pExpect PIPE s1 = .ok () s2 := by
    obtain ⟨s2', hrd, _, _, _, _⟩ := pRead_eq g1.w hr1
    unfold pNext Scanner.next at h2
    unfold pExpect expect
    unfold pRead liftRes at hrd
    cases hread : s1.read with
    | ok v =>
      obtain ⟨c', sx⟩ := v
      rw [hread] at hrd h2
      simp only [] at hrd h2
      cases hrd; cases h2
      simp
    | _ => rw [hread] at hrd; simp [PRes.ofRes] at hrd
  rw [bind_eq _ _ _ _ _ hex]
  exact h'

/-- `|| order-only inputs`, absent because `|@` follows. -/
theorem optOrderOnly_skip (buf : Array UInt8) (x : Bytes) (ins : List EvalStr) (s : Scanner) (g : G buf s)
    (hr : Rest buf s.ofs (PIPE :: AT :: x)) :
    ∃ s', optOrderOnly ins s = .ok ins s' ∧ G buf s' ∧ Rest buf s'.ofs (PIPE :: AT :: x) := by
  obtain ⟨s1, h1, g1, w1, ho, hr1⟩ := pNext_eq g hr (by decide) (by decide)
  obtain ⟨s2, h2, g2, ho2⟩ := pBack_eq g w1 ho
  refine ⟨s2, ?_, g2, by rw [ho2]; exact hr⟩
  unfold optOrderOnly
  rw [bind_eq _ _ _ _ _ (pPeek_eq g.w hr)]
  simp only [beq_self_eq_true, if_true]
  rw [bind_eq _ _ _ _ _ h1, bind_eq _ _ _ _ _ (pPeek_eq g1.w hr1)]
  simp only [beq_self_eq_true, if_true]
  rw [bind_eq _ _ _ _ _ h2]
  rfl

theorem optOrderOnly_none (buf : Array UInt8) (c : UInt8) (r : Bytes) (hc : c ≠ PIPE) (ins : List EvalStr)
    (s : Scanner) (g : G buf s) (hr : Rest buf s.ofs (c :: r)) : optOrderOnly ins s = .ok ins s := by
  unfold optOrderOnly
  exact peek_not_pipe g hr hc _ _

/-- `|@ validation inputs`, present. -/
theorem optValidation_some (buf : Array UInt8) (sec : Section) (after : Bytes) (r0 : Bytes)
    (hafter : after = NL :: r0) (hwf : SectionWF sec after) (ins : List EvalStr)
    (s : Scanner) (g : G buf s) (hr : Rest buf s.ofs (PIPE :: AT :: (sectionBytes sec ++ after))) :
    ∃ s', optValidation ins s = .ok (ins ++ sectionValues sec) s' ∧ G buf s' ∧ Rest buf s'.ofs after := by
  obtain ⟨s1, h1, g1, _, _, hr1⟩ := pNext_eq g hr (by decide) (by decide)
  obtain ⟨s2, h2, g2, _, _, hr2⟩ := pNext_eq g1 hr1 (by decide) (by decide)
  obtain ⟨s', h', g', hr'⟩ := section_spec buf sec after NL r0 hafter (Or.inr (Or.inr rfl)) hwf ins s2 g2 hr2
  refine ⟨s', ?_, g', hr'⟩
  unfold optValidation
  rw [bind_eq _ _ _ _ _ (pPeek_eq g.w hr)]
  simp only [beq_self_eq_true, if_true]
  rw [bind_eq _ _ _ _ _ h1]
  have hex : pExpect AT s1 = .ok () s2 := by
    obtain ⟨s2', hrd, _, _, _, _⟩ := pRead_eq g1.w hr1
    unfold pNext Scanner.next at h2
    unfold pExpect expect
    unfold pRead liftRes at hrd
    cases hread : s1.read with
    | ok v =>
      obtain ⟨c', sx⟩ := v
      rw [hread] at hrd h2
      simp only [] at hrd h2
      cases hrd; cases h2
      simp
    | _ => rw [hread] at hrd; simp [PRes.ofRes] at hrd
  rw [bind_eq _ _ _ _ _ hex]
  exact h'

theorem optValidation_none (buf : Array UInt8) (c : UInt8) (r : Bytes) (hc : c ≠ PIPE) (ins : List EvalStr)
    (s : Scanner) (g : G buf s) (hr : Rest buf s.ofs (c :: r)) : optValidation ins s = .ok ins s := by
  unfold optValidation
  exact peek_not_pipe g hr hc _ _


/-! ### Bindings -/

theorem pExpect_eq {buf : Array UInt8} {s : Scanner} {c : UInt8} {r : Bytes} (g : G buf s) (hr : Rest buf s.ofs (c :: r))
    (h0 : c ≠ NUL) (h1 : c ≠ CR) : ∃ s1, pExpect c s = .ok () s1 ∧ G buf s1 ∧ s1.ofs = s.ofs + 1 ∧ Rest buf s1.ofs r := by
  obtain ⟨s1, hrd, w1, ho, hr1, hn⟩ := pRead_eq g.w hr
  refine ⟨s1, ?_, ⟨w1, hn h0, by rw [ho]; exact ncr_after hr.head h1⟩, ho, hr1⟩
  unfold pExpect expect
  unfold pRead liftRes at hrd
  cases hread : s.read with
  | ok v =>
    obtain ⟨c', sx⟩ := v
    rw [hread] at hrd
    simp only [] at hrd
    cases hrd
    simp
  | _ => rw [hread] at hrd; simp [PRes.ofRes] at hrd

/-- The right-hand side of a binding: `= value` up to the end of the line. -/
structure ValueText where
  g1 : List PGap                 -- before `=`
  g2 : List PGap                 -- after `=`
  value : Option PathText        -- `none`: nothing after the `=`

def valueBytes (v : ValueText) : Bytes :=
  pgapBytes v.g1 ++ EQ :: (pgapBytes v.g2 ++ (match v.value with | none => [] | some t => pathBytes t) ++ [NL])

def valueOf (v : ValueText) : EvalStr := match v.value with | none => [] | some t => pathValue t

def ValueWF (v : ValueText) (r : Bytes) : Prop :=
  match v.value with
  | none => True
  | some t => SegsWF false t.1 (t.2 ++ NL :: r) ∧ (∀ c ∈ t.2, plain false c) ∧ pathValue t ≠ [] ∧
      GapEnd (pathBytes t ++ NL :: r) ∧ (∃ c x, pathBytes t = c :: x ∧ c ≠ NL)

theorem gapEnd_eq (x : Bytes) : GapEnd (EQ :: x) := ⟨by decide, fun h => absurd h (by decide)⟩
theorem gapEnd_nl (x : Bytes) : GapEnd (NL :: x) := ⟨by decide, fun h => absurd h (by decide)⟩

theorem readVardef_spec (buf : Array UInt8) (v : ValueText) (r : Bytes) (hwf : ValueWF v r) (s : Scanner) (g : G buf s)
    (hr : Rest buf s.ofs (valueBytes v ++ r)) :
    ∃ s', readVardef s = .ok (valueOf v) s' ∧ G buf s' ∧ Rest buf s'.ofs r := by
  unfold valueBytes at hr
  simp only [List.append_assoc, List.cons_append] at hr
  obtain ⟨s1, h1, g1, _, hr1⟩ := skipSpaces_spec buf v.g1 s _ g hr (gapEnd_eq _)
  obtain ⟨s2, h2, g2, _, hr2⟩ := pExpect_eq g1 hr1 (by decide) (by decide)
  cases hv : v.value with
  | none =>
    rw [hv] at hr2
    simp only [List.nil_append] at hr2
    obtain ⟨s3, h3, g3, _, hr3⟩ := skipSpaces_spec buf v.g2 s2 _ g2 hr2 (gapEnd_nl _)
    obtain ⟨s4, h4, g4, _, hr4⟩ := pExpect_eq g3 hr3 (by decide) (by decide)
    refine ⟨s4, ?_, g4, hr4⟩
    unfold readVardef
    rw [bind_eq _ _ _ _ _ h1, bind_eq _ _ _ _ _ h2, bind_eq _ _ _ _ _ h3, bind_eq _ _ _ _ _ (pPeek_eq g3.w hr3)]
    simp only [beq_self_eq_true, if_true]
    rw [bind_eq _ _ _ _ _ h4]
    simp [valueOf, hv, pure_eq]
  | some t =>
    unfold ValueWF at hwf
    rw [hv] at hwf hr2
    obtain ⟨hsw, hl, hne, hge, c, x, hcx, hcn⟩ := hwf
    simp only [] at hr2
    have hr2' : Rest buf s2.ofs (pgapBytes v.g2 ++ (pathBytes t ++ NL :: r)) := by
      simpa [List.append_assoc] using hr2
    obtain ⟨s3, h3, g3, _, hr3⟩ := skipSpaces_spec buf v.g2 s2 _ g2 hr2' hge
    have hr3' : Rest buf s3.ofs (segsBytes t.1 ++ t.2 ++ NL :: r) := by
      simpa [pathBytes, List.append_assoc] using hr3
    obtain ⟨s4, h4, g4, hr4⟩ := readEval_spec buf false t.1 t.2 NL r hsw hl (Or.inl rfl) hne s3 g3 hr3'
    obtain ⟨s5, h5, g5, _, hr5⟩ := pExpect_eq g4 hr4 (by decide) (by decide)
    refine ⟨s5, ?_, g5, hr5⟩
    unfold readVardef
    have hpk : pPeek s3 = .ok c s3 := pPeek_eq g3.w (by rw [hcx] at hr3; exact hr3)
    rw [bind_eq _ _ _ _ _ h1, bind_eq _ _ _ _ _ h2, bind_eq _ _ _ _ _ h3, bind_eq _ _ _ _ _ hpk]
    have : (c == NL) = false := by simpa using hcn
    simp only [this, Bool.false_eq_true, if_false]
    rw [bind_eq _ _ _ _ _ h4, bind_eq _ _ _ _ _ h5]
    simp [valueOf, hv, pathValue, pure_eq]

/-- One indented binding line. -/
structure BindingText where
  indent : Nat                   -- `indent + 1` leading spaces
  name : Bytes
  rhs : ValueText

def bindingBytes (b : BindingText) : Bytes :=
  List.replicate (b.indent + 1) SP ++ b.name ++ valueBytes b.rhs

def bindingsBytes (bs : List BindingText) : Bytes := bs.flatMap bindingBytes

theorem valueBytes_head (v : ValueText) : ∃ c x, valueBytes v = c :: x ∧ isIdentChar c true = false := by
  unfold valueBytes
  cases hg : v.g1 with
  | nil => simp only [pgapBytes, List.nil_append]; exact ⟨_, _, rfl, by decide⟩
  | cons gi gs =>
    cases gi with
    | sp => simp only [pgapBytes, List.cons_append]; exact ⟨_, _, rfl, by decide⟩
    | cont => simp only [pgapBytes, List.cons_append]; exact ⟨_, _, rfl, by decide⟩

theorem valueBytes_split (v : ValueText) :
    valueBytes v = pgapBytes v.g1 ++ valueBytes { v with g1 := [] } := by
  simp [valueBytes, pgapBytes]

def BindingsWF (valid : Bytes → Bool) : List BindingText → Bytes → Prop
  | [], _ => True
  | b :: bs, after =>
    b.name ≠ [] ∧ (∀ c ∈ b.name, isIdentChar c true = true) ∧ valid b.name = true ∧
    ValueWF b.rhs (bindingsBytes bs ++ after) ∧ BindingsWF valid bs after

theorem scopedVarsLoop_spec (buf : Array UInt8) (valid : Bytes → Bool) (after : Bytes) (c0 : UInt8) (r0 : Bytes)
    (hafter : after = c0 :: r0) (hc0 : c0 ≠ SP) (bs : List BindingText) : BindingsWF valid bs after →
    ∀ (fuel : Nat) (vars : EvalMap) (s : Scanner), G buf s → Rest buf s.ofs (bindingsBytes bs ++ after) →
    bs.length < fuel →
    ∃ s', scopedVarsLoop valid fuel vars s
        = .ok (bs.foldl (fun m b => Eval.insert m b.name (valueOf b.rhs)) vars) s' ∧ G buf s' ∧ Rest buf s'.ofs after := by
  induction bs with
  | nil =>
    intro _ fuel vars s g hr hf
    cases fuel with
    | zero => simp at hf
    | succ fuel =>
      simp only [bindingsBytes, List.flatMap_nil, List.nil_append] at hr
      rw [hafter] at hr
      refine ⟨s, ?_, g, by rw [hafter]; exact hr⟩
      unfold scopedVarsLoop
      rw [bind_eq _ _ _ _ _ (pPeek_eq g.w hr)]
      have : (c0 != SP) = true := by simpa using hc0
      simp [this, pure_eq]
  | cons b bs ih =>
    intro hwf fuel vars s g hr hf
    obtain ⟨hne, hid, hval, hvw, hwf'⟩ := hwf
    obtain ⟨c, x, hcx, hcn⟩ := valueBytes_head b.rhs
    cases fuel with
    | zero => simp at hf
    | succ fuel =>
      obtain ⟨n0, n', hn0⟩ : ∃ n0 n', b.name = n0 :: n' := by
        cases h : b.name with
        | nil => exact absurd h hne
        | cons n0 n' => exact ⟨n0, n', rfl⟩
      have hn0id := hid n0 (by rw [hn0]; simp)
      have hn0sp : n0 ≠ SP := by intro e; subst e; simp [isIdentChar, SP] at hn0id
      have hr' : Rest buf s.ofs (List.replicate (b.indent + 1) SP ++ n0 :: (n' ++ (valueBytes b.rhs ++ (bindingsBytes bs ++ after)))) := by
        simpa [bindingsBytes, bindingBytes, hn0, List.append_assoc] using hr
      have hpk : pPeek s = .ok SP s := pPeek_eq g.w (by rw [List.replicate_succ] at hr'; exact hr')
      obtain ⟨s1, h1, g1, _, hr1⟩ := pScannerSkipSpaces_eq g (b.indent + 1) n0 _ hr' hn0sp
      have hr1' : Rest buf s1.ofs (b.name ++ c :: (x ++ (bindingsBytes bs ++ after))) := by
        rw [hn0]; rw [hcx] at hr1; simpa [List.append_assoc] using hr1
      obtain ⟨s2, h2, g2, _, hr2⟩ := readIdentGen_spec buf true "failed to scan ident" b.name hne hid s1 c _ g1 hr1' hcn
      have hr2' : Rest buf s2.ofs (pgapBytes b.rhs.g1 ++ (valueBytes { b.rhs with g1 := [] } ++ (bindingsBytes bs ++ after))) := by
        have : c :: (x ++ (bindingsBytes bs ++ after)) = valueBytes b.rhs ++ (bindingsBytes bs ++ after) := by
          rw [hcx]; rfl
        rw [this, valueBytes_split b.rhs] at hr2
        simpa [List.append_assoc] using hr2
      have hge : GapEnd (valueBytes { b.rhs with g1 := [] } ++ (bindingsBytes bs ++ after)) := by
        simp only [valueBytes, pgapBytes, List.nil_append, List.cons_append]
        exact gapEnd_eq _
      obtain ⟨s3, h3, g3, _, hr3⟩ := skipSpaces_spec buf b.rhs.g1 s2 _ g2 hr2' hge
      obtain ⟨s4, h4, g4, hr4⟩ := readVardef_spec buf { b.rhs with g1 := [] } (bindingsBytes bs ++ after) hvw s3 g3 hr3
      obtain ⟨s', h', g', hr'⟩ := ih hwf' fuel (Eval.insert vars b.name (valueOf b.rhs)) s4 g4 hr4 (by simp at hf; omega)
      refine ⟨s', ?_, g', hr'⟩
      unfold scopedVarsLoop
      rw [bind_eq _ _ _ _ _ hpk]
      simp only [bne_self_eq_false, Bool.false_eq_true, if_false]
      rw [bind_eq _ _ _ _ _ h1]
      have hri : readIdent s1 = .ok b.name s2 := h2
      rw [bind_eq _ _ _ _ _ hri]
      simp only [hval, Bool.not_true, Bool.false_eq_true, if_false]
      rw [bind_eq _ _ _ _ _ h3]
      have h4' : readVardef s3 = .ok (valueOf b.rhs) s4 := h4
      rw [bind_eq _ _ _ _ _ h4', h']
      rfl

theorem readScopedVars_spec (buf : Array UInt8) (valid : Bytes → Bool) (after : Bytes) (c0 : UInt8) (r0 : Bytes)
    (hafter : after = c0 :: r0) (hc0 : c0 ≠ SP) (bs : List BindingText) (hwf : BindingsWF valid bs after)
    (s : Scanner) (g : G buf s) (hr : Rest buf s.ofs (bindingsBytes bs ++ after)) :
    ∃ s', readScopedVars valid s = .ok (bs.foldl (fun m b => Eval.insert m b.name (valueOf b.rhs)) []) s' ∧
      G buf s' ∧ Rest buf s'.ofs after := by
  have hlen : bs.length < s.buf.size + 1 := by
    have key : ∀ (l : List BindingText), l.length ≤ (bindingsBytes l).length := by
      intro l
      induction l with
      | nil => simp
      | cons b l ih => simp [bindingsBytes, bindingBytes] at ih ⊢; omega
    have h1 := key bs
    have h2 := (Rest.append (a := bindingsBytes bs) (by rw [hafter] at hr; exact hr)).lt
    rw [g.w.hb]; omega
  obtain ⟨s', h', g', hr'⟩ := scopedVarsLoop_spec buf valid after c0 r0 hafter hc0 bs hwf (s.buf.size + 1) [] s g hr hlen
  refine ⟨s', ?_, g', hr'⟩
  unfold readScopedVars
  have e : pSize s = .ok s.buf.size s := rfl
  rw [bind_eq _ _ _ _ _ e]
  exact h'


/-! ### A whole `build` statement -/

def optSec (intro : Bytes) : Option Section → Bytes
  | none => []
  | some sec => intro ++ sectionBytes sec

def optVals : Option Section → List EvalStr
  | none => []
  | some sec => sectionValues sec

/-- What follows the implicit-input position when that section is absent: the end of the line, or
    `||` / `|@`. -/
def BarOrNl (x : Bytes) : Prop :=
  (∃ r, x = NL :: r) ∨ (∃ q r, x = PIPE :: q :: r ∧ (q = PIPE ∨ q = AT))

theorem optImplicitOuts_spec (buf : Array UInt8) (io : Option Section) (r0 : Bytes)
    (hwf : ∀ sec, io = some sec → SectionWF sec (COLON :: r0)) (outs : List EvalStr) (s : Scanner) (g : G buf s)
    (hr : Rest buf s.ofs (optSec [PIPE] io ++ COLON :: r0)) :
    ∃ s', optImplicitOuts outs s = .ok (outs ++ optVals io) s' ∧ G buf s' ∧ Rest buf s'.ofs (COLON :: r0) := by
  cases io with
  | none =>
    simp only [optSec, List.nil_append] at hr
    exact ⟨s, by rw [optImplicitOuts_none buf COLON r0 (by decide) outs s g hr]; simp [optVals], g, hr⟩
  | some sec =>
    simp only [optSec, List.append_assoc, List.cons_append, List.nil_append] at hr
    exact optImplicitOuts_some buf sec _ r0 rfl (hwf sec rfl) outs s g hr

theorem optImplicit_spec (buf : Array UInt8) (ii : Option Section) (tail : Bytes) (htail : BarOrNl tail)
    (hwf : ∀ sec, ii = some sec → SectionWF sec tail ∧ ∃ q x, sectionBytes sec ++ tail = q :: x ∧ q ≠ PIPE ∧ q ≠ AT)
    (ins : List EvalStr) (s : Scanner) (g : G buf s) (hr : Rest buf s.ofs (optSec [PIPE] ii ++ tail)) :
    ∃ s', optImplicit ins s = .ok (ins ++ optVals ii) s' ∧ G buf s' ∧ Rest buf s'.ofs tail := by
  cases ii with
  | none =>
    simp only [optSec, List.nil_append] at hr
    rcases htail with ⟨r, rfl⟩ | ⟨q, r, rfl, hq⟩
    · exact ⟨s, by rw [optImplicit_none buf NL r (by decide) ins s g hr]; simp [optVals], g, hr⟩
    · obtain ⟨s', h', g', hr'⟩ := optImplicit_skip buf q r hq ins s g hr
      exact ⟨s', by rw [h']; simp [optVals], g', hr'⟩
  | some sec =>
    simp only [optSec, List.append_assoc, List.cons_append, List.nil_append] at hr
    obtain ⟨hsw, q, x, hq, hq1, hq2⟩ := hwf sec rfl
    rcases htail with ⟨r, rfl⟩ | ⟨q', r, rfl, _⟩
    · exact optImplicit_some buf sec _ NL r rfl (Or.inr rfl) hsw q x hq hq1 hq2 ins s g hr
    · exact optImplicit_some buf sec _ PIPE _ rfl (Or.inl rfl) hsw q x hq hq1 hq2 ins s g hr

/-- What follows the order-only position when that section is absent: the end of the line or `|@`. -/
def AtOrNl (x : Bytes) : Prop := (∃ r, x = NL :: r) ∨ (∃ r, x = PIPE :: AT :: r)

theorem optOrderOnly_spec (buf : Array UInt8) (oi : Option Section) (tail : Bytes) (htail : AtOrNl tail)
    (hwf : ∀ sec, oi = some sec → SectionWF sec tail) (ins : List EvalStr) (s : Scanner) (g : G buf s)
    (hr : Rest buf s.ofs (optSec [PIPE, PIPE] oi ++ tail)) :
    ∃ s', optOrderOnly ins s = .ok (ins ++ optVals oi) s' ∧ G buf s' ∧ Rest buf s'.ofs tail := by
  cases oi with
  | none =>
    simp only [optSec, List.nil_append] at hr
    rcases htail with ⟨r, rfl⟩ | ⟨r, rfl⟩
    · exact ⟨s, by rw [optOrderOnly_none buf NL r (by decide) ins s g hr]; simp [optVals], g, hr⟩
    · obtain ⟨s', h', g', hr'⟩ := optOrderOnly_skip buf r ins s g hr
      exact ⟨s', by rw [h']; simp [optVals], g', hr'⟩
  | some sec =>
    simp only [optSec, List.append_assoc, List.cons_append, List.nil_append] at hr
    rcases htail with ⟨r, rfl⟩ | ⟨r, rfl⟩
    · exact optOrderOnly_some buf sec _ NL r rfl (Or.inr rfl) (hwf sec rfl) ins s g hr
    · exact optOrderOnly_some buf sec _ PIPE _ rfl (Or.inl rfl) (hwf sec rfl) ins s g hr

theorem optValidation_spec (buf : Array UInt8) (vi : Option Section) (r0 : Bytes)
    (hwf : ∀ sec, vi = some sec → SectionWF sec (NL :: r0)) (ins : List EvalStr) (s : Scanner) (g : G buf s)
    (hr : Rest buf s.ofs (optSec [PIPE, AT] vi ++ NL :: r0)) :
    ∃ s', optValidation ins s = .ok (ins ++ optVals vi) s' ∧ G buf s' ∧ Rest buf s'.ofs (NL :: r0) := by
  cases vi with
  | none =>
    simp only [optSec, List.nil_append] at hr
    exact ⟨s, by rw [optValidation_none buf NL r0 (by decide) ins s g hr]; simp [optVals], g, hr⟩
  | some sec =>
    simp only [optSec, List.append_assoc, List.cons_append, List.nil_append] at hr
    exact optValidation_some buf sec _ r0 rfl (hwf sec rfl) ins s g hr

/-- A `build` statement as written (after the keyword). -/
structure BuildText where
  eouts : Section
  iouts : Option Section
  colonGap : List PGap
  rule : Bytes
  eins : Section
  iins : Option Section
  oins : Option Section
  vins : Option Section
  bindings : List BindingText

def BuildText.tail5 (b : BuildText) (after : Bytes) : Bytes := NL :: (bindingsBytes b.bindings ++ after)
def BuildText.tail4 (b : BuildText) (after : Bytes) : Bytes := optSec [PIPE, AT] b.vins ++ b.tail5 after
def BuildText.tail3 (b : BuildText) (after : Bytes) : Bytes := optSec [PIPE, PIPE] b.oins ++ b.tail4 after
def BuildText.tail2 (b : BuildText) (after : Bytes) : Bytes := optSec [PIPE] b.iins ++ b.tail3 after
def BuildText.tail1 (b : BuildText) (after : Bytes) : Bytes := b.rule ++ (sectionBytes b.eins ++ b.tail2 after)
def BuildText.tail0 (b : BuildText) (after : Bytes) : Bytes := COLON :: (pgapBytes b.colonGap ++ b.tail1 after)
def BuildText.bytes (b : BuildText) (after : Bytes) : Bytes :=
  sectionBytes b.eouts ++ (optSec [PIPE] b.iouts ++ b.tail0 after)

structure BuildWF (b : BuildText) (after : Bytes) : Prop where
  eouts : SectionWF b.eouts (optSec [PIPE] b.iouts ++ b.tail0 after)
  iouts : ∀ sec, b.iouts = some sec → SectionWF sec (b.tail0 after)
  ruleNe : b.rule ≠ []
  ruleId : ∀ c ∈ b.rule, isIdentChar c true = true
  ruleEnd : ∃ c x, sectionBytes b.eins ++ b.tail2 after = c :: x ∧ isIdentChar c true = false
  eins : SectionWF b.eins (b.tail2 after)
  iins : ∀ sec, b.iins = some sec → SectionWF sec (b.tail3 after) ∧
    ∃ q x, sectionBytes sec ++ b.tail3 after = q :: x ∧ q ≠ PIPE ∧ q ≠ AT
  oins : ∀ sec, b.oins = some sec → SectionWF sec (b.tail4 after)
  vins : ∀ sec, b.vins = some sec → SectionWF sec (b.tail5 after)
  binds : BindingsWF (fun _ => true) b.bindings after
  afterOk : ∃ c0 r0, after = c0 :: r0 ∧ c0 ≠ SP

theorem tail4_atOrNl (b : BuildText) (after : Bytes) : AtOrNl (b.tail4 after) := by
  unfold BuildText.tail4 BuildText.tail5
  cases b.vins with
  | none => exact Or.inl ⟨_, rfl⟩
  | some sec => exact Or.inr ⟨_, by simp only [optSec, List.cons_append, List.nil_append]; rfl⟩

theorem tail3_barOrNl (b : BuildText) (after : Bytes) : BarOrNl (b.tail3 after) := by
  unfold BuildText.tail3
  cases ho : b.oins with
  | none =>
    simp only [optSec, List.nil_append]
    rcases tail4_atOrNl b after with ⟨r, h⟩ | ⟨r, h⟩
    · exact Or.inl ⟨r, h⟩
    · exact Or.inr ⟨AT, r, h, Or.inr rfl⟩
  | some sec => exact Or.inr ⟨PIPE, _, by simp only [optSec, List.cons_append, List.nil_append]; rfl, Or.inl rfl⟩

/-- The sections of the statement, as `read_build` records them. -/
def BuildText.outsV (b : BuildText) : List EvalStr := sectionValues b.eouts ++ optVals b.iouts
def BuildText.insV (b : BuildText) : List EvalStr :=
  sectionValues b.eins ++ optVals b.iins ++ optVals b.oins ++ optVals b.vins
def BuildText.varsV (b : BuildText) : EvalMap :=
  b.bindings.foldl (fun m bd => Eval.insert m bd.name (valueOf bd.rhs)) []


theorem optSec_pipe_head (io : Option Section) (c : UInt8) (x : Bytes) :
    ∃ e0 r0, optSec [PIPE] io ++ c :: x = e0 :: r0 ∧ (e0 = c ∨ e0 = PIPE) := by
  cases io with
  | none => exact ⟨c, x, rfl, Or.inl rfl⟩
  | some sec => exact ⟨PIPE, _, by simp only [optSec, List.cons_append, List.nil_append]; rfl, Or.inr rfl⟩

theorem tail2_head (b : BuildText) (after : Bytes) :
    ∃ e0 r0, b.tail2 after = e0 :: r0 ∧ (e0 = COLON ∨ e0 = PIPE ∨ e0 = NL) := by
  unfold BuildText.tail2
  rcases tail3_barOrNl b after with ⟨r, h⟩ | ⟨q, r, h, _⟩
  · rw [h]
    obtain ⟨e0, r0, he, hc⟩ := optSec_pipe_head b.iins NL r
    exact ⟨e0, r0, he, by rcases hc with rfl | rfl <;> simp⟩
  · rw [h]
    obtain ⟨e0, r0, he, hc⟩ := optSec_pipe_head b.iins PIPE (q :: r)
    exact ⟨e0, r0, he, by rcases hc with rfl | rfl <;> simp⟩

/-- **`read_build` reads a statement as written.**  Every path lands in the section it was written in, in
    order, with the four input counts and the explicit-output count equal to the section lengths; the rule name
    and the indented bindings are read exactly; the scanner is left at the next statement. -/
theorem readBuild_spec (buf : Array UInt8) (b : BuildText) (after : Bytes) (hwf : BuildWF b after)
    (s : Scanner) (g : G buf s) (hr : Rest buf s.ofs (b.bytes after)) :
    ∃ s', readBuild s = .ok (.build
        { rule := b.rule, line := s.line, outs := b.outsV, explicitOuts := (sectionValues b.eouts).length,
          ins := b.insV, explicitIns := (sectionValues b.eins).length, implicitIns := (optVals b.iins).length,
          orderOnlyIns := (optVals b.oins).length, validationIns := (optVals b.vins).length,
          vars := b.varsV }) s' ∧ G buf s' ∧ Rest buf s'.ofs after := by
  unfold BuildText.bytes at hr
  -- explicit outputs
  obtain ⟨e0, r0, he0, hc0⟩ := optSec_pipe_head b.iouts COLON (pgapBytes b.colonGap ++ b.tail1 after)
  have ht0 : b.tail0 after = COLON :: (pgapBytes b.colonGap ++ b.tail1 after) := rfl
  rw [ht0] at hr
  obtain ⟨s1, h1, g1, hr1⟩ := section_spec buf b.eouts _ e0 r0 he0
    (by rcases hc0 with rfl | rfl <;> simp) (by rw [← ht0]; exact hwf.eouts) [] s g hr
  -- implicit outputs
  obtain ⟨s2, h2, g2, hr2⟩ := optImplicitOuts_spec buf b.iouts _ (by rw [← ht0]; exact hwf.iouts)
    ([] ++ sectionValues b.eouts) s1 g1 hr1
  -- ':' and the gap after it
  obtain ⟨s3, h3, g3, _, hr3⟩ := pExpect_eq g2 hr2 (by decide) (by decide)
  have hge1 : GapEnd (b.tail1 after) := by
    unfold BuildText.tail1
    cases hrule : b.rule with
    | nil => exact absurd hrule hwf.ruleNe
    | cons c r =>
      have hc := hwf.ruleId c (by rw [hrule]; simp)
      refine ⟨?_, ?_⟩
      · intro e; rw [e] at hc; exact absurd hc (by decide)
      · intro e; rw [e] at hc; exact absurd hc (by decide)
  obtain ⟨s4, h4, g4, _, hr4⟩ := skipSpaces_spec buf b.colonGap s3 _ g3 hr3 hge1
  -- rule name
  obtain ⟨c, x, hcx, hcid⟩ := hwf.ruleEnd
  have hr4' : Rest buf s4.ofs (b.rule ++ c :: x) := by
    unfold BuildText.tail1 at hr4; rw [hcx] at hr4; exact hr4
  obtain ⟨s5, h5, g5, _, hr5⟩ := readIdentGen_spec buf true "failed to scan ident" b.rule hwf.ruleNe hwf.ruleId
    s4 c x g4 hr4' hcid
  rw [← hcx] at hr5
  -- inputs
  obtain ⟨e2, r2, he2, hc2⟩ := tail2_head b after
  obtain ⟨s6, h6, g6, hr6⟩ := section_spec buf b.eins _ e2 r2 he2 hc2 hwf.eins [] s5 g5 hr5
  obtain ⟨s7, h7, g7, hr7⟩ := optImplicit_spec buf b.iins _ (tail3_barOrNl b after) hwf.iins
    ([] ++ sectionValues b.eins) s6 g6 hr6
  obtain ⟨s8, h8, g8, hr8⟩ := optOrderOnly_spec buf b.oins _ (tail4_atOrNl b after) hwf.oins _ s7 g7 hr7
  obtain ⟨s9, h9, g9, hr9⟩ := optValidation_spec buf b.vins _ hwf.vins _ s8 g8 hr8
  obtain ⟨s10, h10, g10, _, hr10⟩ := pExpect_eq g9 hr9 (by decide) (by decide)
  obtain ⟨c0, ra, hafter, hc0'⟩ := hwf.afterOk
  obtain ⟨s11, h11, g11, hr11⟩ := readScopedVars_spec buf (fun _ => true) after c0 ra hafter hc0' b.bindings
    hwf.binds s10 g10 hr10
  refine ⟨s11, ?_, g11, hr11⟩
  unfold readBuild
  have hl : pLine s = .ok s.line s := rfl
  rw [bind_eq _ _ _ _ _ hl, bind_eq _ _ _ _ _ h1, bind_eq _ _ _ _ _ h2, bind_eq _ _ _ _ _ h3,
    bind_eq _ _ _ _ _ h4]
  unfold readIdent
  rw [bind_eq _ _ _ _ _ h5, bind_eq _ _ _ _ _ h6, bind_eq _ _ _ _ _ h7, bind_eq _ _ _ _ _ h8,
    bind_eq _ _ _ _ _ h9, bind_eq _ _ _ _ _ h10, bind_eq _ _ _ _ _ h11]
  simp only [pure_eq, List.nil_append, List.length_append, BuildText.outsV, BuildText.insV, BuildText.varsV]
  generalize (sectionValues b.eins).length = n0
  generalize (optVals b.iins).length = n1
  generalize (optVals b.oins).length = n2
  generalize (optVals b.vins).length = n3
  have e1 : n0 + n1 - n0 = n1 := by omega
  have e2 : n0 + n1 + n2 - n1 - n0 = n2 := by omega
  have e3 : n0 + n1 + n2 + n3 - n2 - n1 - n0 = n3 := by omega
  rw [e1, e2, e3]


/-! ### `Parser::read`: one item -/

def kwRule : Bytes := [114, 117, 108, 101]
def kwBuild : Bytes := [98, 117, 105, 108, 100]
def kwDefault : Bytes := [100, 101, 102, 97, 117, 108, 116]
def kwInclude : Bytes := [105, 110, 99, 108, 117, 100, 101]
def kwSubninja : Bytes := [115, 117, 98, 110, 105, 110, 106, 97]
def kwPool : Bytes := [112, 111, 111, 108]

theorem kw_rule : bytesOfString "rule" = kwRule := by decide +kernel
theorem kw_build : bytesOfString "build" = kwBuild := by decide +kernel
theorem kw_default : bytesOfString "default" = kwDefault := by decide +kernel
theorem kw_include : bytesOfString "include" = kwInclude := by decide +kernel
theorem kw_subninja : bytesOfString "subninja" = kwSubninja := by decide +kernel
theorem kw_pool : bytesOfString "pool" = kwPool := by decide +kernel

/-- What `Parser::read` does once it has the leading identifier. -/
def dispatch (ident : Bytes) : PM Item :=
  if ident == kwRule then do let s ← readRule; pure (.stmt s)
  else if ident == kwBuild then do let s ← readBuild; pure (.stmt s)
  else if ident == kwDefault then do let s ← readDefault; pure (.stmt s)
  else if ident == kwInclude then do let e ← readEval false; pure (.stmt (.include e))
  else if ident == kwSubninja then do let e ← readEval false; pure (.stmt (.subninja e))
  else if ident == kwPool then do let s ← readPool; pure (.stmt s)
  else do
    let v ← readVardef
    pure (.binding ident v)

theorem ident_first {c : UInt8} (h : isIdentChar c true = true) :
    c ≠ NUL ∧ c ≠ NL ∧ c ≠ HASH ∧ c ≠ SP ∧ c ≠ TAB := by
  refine ⟨?_, ?_, ?_, ?_, ?_⟩ <;> (intro e; rw [e] at h; exact absurd h (by decide))

/-- A line that begins with an identifier: the identifier is read, the spacing after it is skipped,
    and the statement parser chosen by the identifier runs on what follows. -/
theorem readItem_ident (buf : Array UInt8) (name : Bytes) (hne : name ≠ []) (hid : ∀ c ∈ name, isIdentChar c true = true)
    (gs : List PGap) (x : Bytes) (hx : GapEnd x)
    (hend : ∃ c r, pgapBytes gs ++ x = c :: r ∧ isIdentChar c true = false)
    (fuel : Nat) (s : Scanner) (g : G buf s) (hr : Rest buf s.ofs (name ++ (pgapBytes gs ++ x))) :
    ∃ s2, G buf s2 ∧ Rest buf s2.ofs x ∧ readItem (fuel + 1) s = dispatch name s2 := by
  obtain ⟨c, r, hcr, hc⟩ := hend
  cases hname : name with
  | nil => exact absurd hname hne
  | cons c0 n0 =>
    have hc0 := ident_first (hid c0 (by rw [hname]; simp))
    have hr0 : Rest buf s.ofs (c0 :: (n0 ++ (pgapBytes gs ++ x))) := by rw [hname] at hr; exact hr
    have hp : pPeek s = .ok c0 s := pPeek_eq g.w hr0
    rw [hcr] at hr
    obtain ⟨s1, h1, g1, _, hr1⟩ := readIdentGen_spec buf true "failed to scan ident" name hne hid s c r g hr hc
    rw [← hcr] at hr1
    obtain ⟨s2, h2, g2, _, hr2⟩ := skipSpaces_spec buf gs s1 x g1 hr1 hx
    refine ⟨s2, g2, hr2, ?_⟩
    unfold readItem
    rw [bind_eq _ _ _ _ _ hp]
    have e1 : (c0 == NUL) = false := by simpa using hc0.1
    have e2 : (c0 == NL) = false := by simpa using hc0.2.1
    have e3 : (c0 == HASH) = false := by simpa using hc0.2.2.1
    have e4 : (c0 == SP || c0 == TAB) = false := by simp [hc0.2.2.2.1, hc0.2.2.2.2]
    simp only [e1, e2, e3, e4, Bool.false_eq_true, if_false]
    unfold readIdent
    rw [← hname, bind_eq _ _ _ _ _ h1, bind_eq _ _ _ _ _ h2, kw_rule, kw_build, kw_default, kw_include,
      kw_subninja, kw_pool]
    rfl

/-- Blank lines before an item are skipped. -/
theorem readItem_blank (buf : Array UInt8) (x : Bytes) (fuel : Nat) (s : Scanner) (g : G buf s)
    (hr : Rest buf s.ofs (NL :: x)) :
    ∃ s1, G buf s1 ∧ Rest buf s1.ofs x ∧ readItem (fuel + 1) s = readItem fuel s1 := by
  have hp : pPeek s = .ok NL s := pPeek_eq g.w hr
  obtain ⟨s1, h1, g1, _, _, hr1⟩ := pNext_eq g hr (by decide) (by decide)
  refine ⟨s1, g1, hr1, ?_⟩
  conv => lhs; unfold readItem
  rw [bind_eq _ _ _ _ _ hp]
  have e1 : (NL == NUL) = false := by decide
  simp only [e1, Bool.false_eq_true, if_false, beq_self_eq_true, if_true]
  rw [bind_eq _ _ _ _ _ h1]

/-- The end of the input. -/
theorem readItem_eof (buf : Array UInt8) (x : Bytes) (fuel : Nat) (s : Scanner) (g : G buf s)
    (hr : Rest buf s.ofs (NUL :: x)) : readItem (fuel + 1) s = .ok .eof s := by
  have hp : pPeek s = .ok NUL s := pPeek_eq g.w hr
  unfold readItem
  rw [bind_eq _ _ _ _ _ hp]
  simp [pure_eq]

/-- **A `build` statement is read as written**, from the keyword on. -/
theorem readItem_build (buf : Array UInt8) (gs : List PGap) (hgs : gs ≠ []) (b : BuildText) (after : Bytes)
    (hwf : BuildWF b after) (hge : GapEnd (b.bytes after)) (fuel : Nat) (s : Scanner) (g : G buf s)
    (hr : Rest buf s.ofs (kwBuild ++ (pgapBytes gs ++ b.bytes after))) :
    ∃ s' ln, readItem (fuel + 1) s = .ok (.stmt (.build
        { rule := b.rule, line := ln, outs := b.outsV, explicitOuts := (sectionValues b.eouts).length,
          ins := b.insV, explicitIns := (sectionValues b.eins).length, implicitIns := (optVals b.iins).length,
          orderOnlyIns := (optVals b.oins).length, validationIns := (optVals b.vins).length,
          vars := b.varsV })) s' ∧ G buf s' ∧ Rest buf s'.ofs after := by
  have hend : ∃ c r, pgapBytes gs ++ b.bytes after = c :: r ∧ isIdentChar c true = false := by
    cases gs with
    | nil => exact absurd rfl hgs
    | cons gi gr => cases gi <;> exact ⟨_, _, rfl, by decide⟩
  obtain ⟨s2, g2, hr2, h2⟩ := readItem_ident buf kwBuild (by decide) (by decide) gs _ hge hend fuel s g hr
  obtain ⟨s', h', g', hr'⟩ := readBuild_spec buf b after hwf s2 g2 hr2
  refine ⟨s', s2.line, ?_, g', hr'⟩
  rw [h2]
  have hd : dispatch kwBuild = (do let s ← readBuild; pure (.stmt s)) := by
    unfold dispatch
    rw [if_neg (by decide), if_pos (by decide)]
  rw [hd, bind_eq _ _ _ _ _ h', pure_eq]

/-- **A top-level binding `name = value` is read as written.** -/
theorem readItem_binding (buf : Array UInt8) (name : Bytes) (hne : name ≠ []) (hid : ∀ c ∈ name, isIdentChar c true = true)
    (hkw : name ∉ [kwRule, kwBuild, kwDefault, kwInclude, kwSubninja, kwPool])
    (v : ValueText) (r : Bytes) (hwf : ValueWF v r) (fuel : Nat) (s : Scanner) (g : G buf s)
    (hr : Rest buf s.ofs (name ++ (valueBytes v ++ r))) :
    ∃ s', readItem (fuel + 1) s = .ok (.binding name (valueOf v)) s' ∧ G buf s' ∧ Rest buf s'.ofs r := by
  have hsplit : valueBytes v ++ r = pgapBytes v.g1 ++ (valueBytes { v with g1 := [] } ++ r) := by
    rw [valueBytes_split]; simp [List.append_assoc]
  rw [hsplit] at hr
  have hx : GapEnd (valueBytes { v with g1 := [] } ++ r) := by
    unfold valueBytes; simp only [pgapBytes, List.nil_append, List.cons_append]; exact gapEnd_eq _
  have hend : ∃ c x, pgapBytes v.g1 ++ (valueBytes { v with g1 := [] } ++ r) = c :: x ∧ isIdentChar c true = false := by
    rw [← hsplit]
    obtain ⟨c, x, h, hc⟩ := valueBytes_head v
    exact ⟨c, x ++ r, by rw [h]; rfl, hc⟩
  obtain ⟨s2, g2, hr2, h2⟩ := readItem_ident buf name hne hid v.g1 _ hx hend fuel s g hr
  obtain ⟨s', h', g', hr'⟩ := readVardef_spec buf { v with g1 := [] } r hwf s2 g2 hr2
  refine ⟨s', ?_, g', hr'⟩
  rw [h2]
  simp only [List.mem_cons, List.not_mem_nil, or_false, not_or] at hkw
  obtain ⟨k1, k2, k3, k4, k5, k6⟩ := hkw
  have hd : dispatch name = (do let v ← readVardef; pure (.binding name v)) := by
    unfold dispatch
    rw [if_neg (by simpa using k1), if_neg (by simpa using k2), if_neg (by simpa using k3),
      if_neg (by simpa using k4), if_neg (by simpa using k5), if_neg (by simpa using k6)]
  rw [hd, bind_eq _ _ _ _ _ h', pure_eq]
  rfl

/-- A statement keyword is followed by spacing. -/
theorem kw_end (gs : List PGap) (hgs : gs ≠ []) (x : Bytes) :
    ∃ c r, pgapBytes gs ++ x = c :: r ∧ isIdentChar c true = false := by
  cases gs with
  | nil => exact absurd rfl hgs
  | cons gi gr => cases gi <;> exact ⟨_, _, rfl, by decide⟩

theorem gapEnd_ident (name : Bytes) (hne : name ≠ []) (hid : ∀ c ∈ name, isIdentChar c true = true) (x : Bytes) :
    GapEnd (name ++ x) := by
  cases hname : name with
  | nil => exact absurd hname hne
  | cons c r =>
    have hc := hid c (by rw [hname]; simp)
    exact ⟨fun e => by rw [e] at hc; exact absurd hc (by decide), fun e => by rw [e] at hc; exact absurd hc (by decide)⟩

/-- **A `rule` statement is read as written**: its name and its bindings (those with a known rule
    variable name). -/
theorem readItem_rule (buf : Array UInt8) (gs : List PGap) (hgs : gs ≠ []) (name : Bytes) (hne : name ≠ [])
    (hid : ∀ c ∈ name, isIdentChar c true = true) (bs : List BindingText) (after : Bytes) (c0 : UInt8) (r0 : Bytes)
    (hafter : after = c0 :: r0) (hc0 : c0 ≠ SP) (hwf : BindingsWF isRuleVar bs after)
    (fuel : Nat) (s : Scanner) (g : G buf s)
    (hr : Rest buf s.ofs (kwRule ++ (pgapBytes gs ++ (name ++ NL :: (bindingsBytes bs ++ after))))) :
    ∃ s', readItem (fuel + 1) s =
        .ok (.stmt (.rule name (bs.foldl (fun m b => Eval.insert m b.name (valueOf b.rhs)) []))) s' ∧
      G buf s' ∧ Rest buf s'.ofs after := by
  obtain ⟨s2, g2, hr2, h2⟩ := readItem_ident buf kwRule (by decide) (by decide) gs _
    (gapEnd_ident name hne hid _) (kw_end gs hgs _) fuel s g hr
  obtain ⟨s3, h3, g3, _, hr3⟩ := readIdentGen_spec buf true "failed to scan ident" name hne hid s2 NL _ g2 hr2
    (by decide)
  obtain ⟨s4, h4, g4, _, hr4⟩ := pExpect_eq g3 hr3 (by decide) (by decide)
  obtain ⟨s', h', g', hr'⟩ := readScopedVars_spec buf isRuleVar after c0 r0 hafter hc0 bs hwf s4 g4 hr4
  refine ⟨s', ?_, g', hr'⟩
  rw [h2]
  have hd : dispatch kwRule = (do let s ← readRule; pure (.stmt s)) := by
    unfold dispatch; rw [if_pos (by decide)]
  have hrule : readRule s2 = .ok (.rule name (bs.foldl (fun m b => Eval.insert m b.name (valueOf b.rhs)) [])) s' := by
    unfold readRule readIdent
    rw [bind_eq _ _ _ _ _ h3, bind_eq _ _ _ _ _ h4, bind_eq _ _ _ _ _ h', pure_eq]
  rw [hd, bind_eq _ _ _ _ _ hrule, pure_eq]

/-- The depth a `pool` block declares: the value of its first stored `depth` binding (the last
    one written wins in the map), 0 when there is none. -/
def poolDepth (vars : EvalMap) : Option Nat :=
  match vars with
  | [] => some 0
  | (_, val) :: _ => parseUsize (Eval.evaluate [] val)

/-- **A `pool` statement is read as written**: its name, and the depth its `depth` binding gives
    (bindings with other names are rejected by the reader, so the block holds only `depth`). -/
theorem readItem_pool (buf : Array UInt8) (gs : List PGap) (hgs : gs ≠ []) (name : Bytes) (hne : name ≠ [])
    (hid : ∀ c ∈ name, isIdentChar c true = true) (bs : List BindingText) (after : Bytes) (c0 : UInt8) (r0 : Bytes)
    (hafter : after = c0 :: r0) (hc0 : c0 ≠ SP) (hwf : BindingsWF (fun n => n == bytesOfString "depth") bs after)
    (d : Nat) (hd : poolDepth (bs.foldl (fun m b => Eval.insert m b.name (valueOf b.rhs)) []) = some d)
    (fuel : Nat) (s : Scanner) (g : G buf s)
    (hr : Rest buf s.ofs (kwPool ++ (pgapBytes gs ++ (name ++ NL :: (bindingsBytes bs ++ after))))) :
    ∃ s', readItem (fuel + 1) s = .ok (.stmt (.pool name d)) s' ∧ G buf s' ∧ Rest buf s'.ofs after := by
  obtain ⟨s2, g2, hr2, h2⟩ := readItem_ident buf kwPool (by decide) (by decide) gs _
    (gapEnd_ident name hne hid _) (kw_end gs hgs _) fuel s g hr
  obtain ⟨s3, h3, g3, _, hr3⟩ := readIdentGen_spec buf true "failed to scan ident" name hne hid s2 NL _ g2 hr2
    (by decide)
  obtain ⟨s4, h4, g4, _, hr4⟩ := pExpect_eq g3 hr3 (by decide) (by decide)
  obtain ⟨s', h', g', hr'⟩ := readScopedVars_spec buf (fun n => n == bytesOfString "depth") after c0 r0 hafter hc0 bs hwf s4 g4 hr4
  refine ⟨s', ?_, g', hr'⟩
  rw [h2]
  have hdp : dispatch kwPool = (do let s ← readPool; pure (.stmt s)) := by
    unfold dispatch
    rw [if_neg (by decide), if_neg (by decide), if_neg (by decide), if_neg (by decide), if_neg (by decide), if_pos (by decide)]
  have hpool : readPool s2 = .ok (.pool name d) s' := by
    unfold readPool readIdent
    rw [bind_eq _ _ _ _ _ h3, bind_eq _ _ _ _ _ h4, bind_eq _ _ _ _ _ h']
    unfold poolDepth at hd
    cases hv : bs.foldl (fun m b => Eval.insert m b.name (valueOf b.rhs)) [] with
    | nil => rw [hv] at hd; cases hd; simp only []; exact pure_eq _ _
    | cons x xs =>
      obtain ⟨k, val⟩ := x
      rw [hv] at hd
      simp only [] at hd ⊢
      rw [hd]
      exact pure_eq _ _
  rw [hdp, bind_eq _ _ _ _ _ hpool, pure_eq]

/-- **A `default` statement is read as written.** -/
theorem readItem_default (buf : Array UInt8) (gs : List PGap) (hgs : gs ≠ []) (ps : List (PathText × List PGap))
    (hps : ps ≠ []) (after : Bytes) (hwf : PathsWF ps (NL :: after)) (hge : GapEnd (pathsBytes ps ++ NL :: after))
    (fuel : Nat) (s : Scanner) (g : G buf s)
    (hr : Rest buf s.ofs (kwDefault ++ (pgapBytes gs ++ (pathsBytes ps ++ NL :: after)))) :
    ∃ s', readItem (fuel + 1) s = .ok (.stmt (.default (ps.map (fun pg => pathValue pg.1)))) s' ∧
      G buf s' ∧ Rest buf s'.ofs after := by
  obtain ⟨s2, g2, hr2, h2⟩ := readItem_ident buf kwDefault (by decide) (by decide) gs _ hge (kw_end gs hgs _) fuel s g hr
  obtain ⟨s3, h3, g3, hr3⟩ := readPathsTo_spec buf (NL :: after) NL after rfl (Or.inr (Or.inr rfl)) [] ps hwf hge []
    s2 g2 (by simpa [pgapBytes] using hr2)
  obtain ⟨s', h', g', _, hr'⟩ := pExpect_eq g3 hr3 (by decide) (by decide)
  refine ⟨s', ?_, g', hr'⟩
  rw [h2]
  have hd : dispatch kwDefault = (do let s ← readDefault; pure (.stmt s)) := by
    unfold dispatch; rw [if_neg (by decide), if_neg (by decide), if_pos (by decide)]
  have hdef : readDefault s2 = .ok (.default (ps.map (fun pg => pathValue pg.1))) s' := by
    unfold readDefault
    rw [bind_eq _ _ _ _ _ h3]
    have : (([] : List EvalStr) ++ ps.map (fun pg => pathValue pg.1)).isEmpty = false := by
      cases ps with
      | nil => exact absurd rfl hps
      | cons p l => simp
    simp only [this, Bool.false_eq_true, if_false]
    rw [bind_eq _ _ _ _ _ h', pure_eq, List.nil_append]
  rw [hd, bind_eq _ _ _ _ _ hdef, pure_eq]

/-- **`include` and `subninja` read their path as written** (up to, not including, the newline). -/
theorem readItem_include (buf : Array UInt8) (sub : Bool) (gs : List PGap) (hgs : gs ≠ []) (t : PathText) (r : Bytes)
    (hwf : SegsWF false t.1 (t.2 ++ NL :: r)) (hlast : ∀ c ∈ t.2, plain false c) (hne : pathValue t ≠ [])
    (hge : GapEnd (pathBytes t ++ NL :: r)) (fuel : Nat) (s : Scanner) (g : G buf s)
    (hr : Rest buf s.ofs ((if sub then kwSubninja else kwInclude) ++ (pgapBytes gs ++ (pathBytes t ++ NL :: r)))) :
    ∃ s', readItem (fuel + 1) s =
        .ok (.stmt (if sub then .subninja (pathValue t) else .include (pathValue t))) s' ∧
      G buf s' ∧ Rest buf s'.ofs (NL :: r) := by
  obtain ⟨s2, g2, hr2, h2⟩ := readItem_ident buf (if sub then kwSubninja else kwInclude)
    (by cases sub <;> decide) (by cases sub <;> decide) gs _ hge (kw_end gs hgs _) fuel s g hr
  obtain ⟨s', h', g', hr'⟩ := readEval_spec buf false t.1 t.2 NL r hwf hlast (Or.inl rfl) hne s2 g2
    (by simpa [pathBytes, List.append_assoc] using hr2)
  refine ⟨s', ?_, g', hr'⟩
  rw [h2]
  cases sub with
  | false =>
    have hd : dispatch kwInclude = (do let e ← readEval false; pure (.stmt (.include e))) := by
      unfold dispatch; rw [if_neg (by decide), if_neg (by decide), if_neg (by decide), if_pos (by decide)]
    simp only [Bool.false_eq_true, if_false]
    rw [hd, bind_eq _ _ _ _ _ h', pure_eq]; rfl
  | true =>
    have hd : dispatch kwSubninja = (do let e ← readEval false; pure (.stmt (.subninja e))) := by
      unfold dispatch
      rw [if_neg (by decide), if_neg (by decide), if_neg (by decide), if_neg (by decide), if_pos (by decide)]
    simp only [if_true]
    rw [hd, bind_eq _ _ _ _ _ h', pure_eq]; rfl

/-- Comment lines before an item are skipped. -/
theorem skipCommentLoop_spec (buf : Array UInt8) (body : Bytes) (x : Bytes)
    (hb : ∀ c ∈ body, c ≠ NUL ∧ c ≠ NL ∧ c ≠ CR) : ∀ (fuel : Nat) (s : Scanner), G buf s →
    Rest buf s.ofs (body ++ NL :: x) → body.length < fuel →
    ∃ s', skipCommentLoop fuel s = .ok () s' ∧ G buf s' ∧ Rest buf s'.ofs x := by
  induction body with
  | nil =>
    intro fuel s g hr hf
    cases fuel with
    | zero => simp at hf
    | succ fuel =>
      obtain ⟨s1, h1, w1, ho, hr1, hn⟩ := pRead_eq g.w hr
      refine ⟨s1, ?_, ⟨w1, hn (by decide), by rw [ho]; exact ncr_after hr.head (by decide)⟩, hr1⟩
      unfold skipCommentLoop
      rw [bind_eq _ _ _ _ _ h1]
      have e1 : (NL == NUL) = false := by decide
      simp [e1, pure_eq]
  | cons c body ih =>
    intro fuel s g hr hf
    cases fuel with
    | zero => simp at hf
    | succ fuel =>
      have hc := hb c (by simp)
      obtain ⟨s1, h1, w1, ho, hr1, hn⟩ := pRead_eq g.w (by simpa using hr)
      have g1 : G buf s1 := ⟨w1, hn hc.1, by rw [ho]; exact ncr_after (Rest.head (by simpa using hr)) hc.2.2⟩
      obtain ⟨s', h', g', hr'⟩ := ih (fun c hc => hb c (by simp [hc])) fuel s1 g1 hr1 (by simp at hf; omega)
      refine ⟨s', ?_, g', hr'⟩
      unfold skipCommentLoop
      rw [bind_eq _ _ _ _ _ h1]
      have e1 : (c == NUL) = false := by simpa using hc.1
      have e2 : (c == NL) = false := by simpa using hc.2.1
      simp only [e1, e2, Bool.false_eq_true, if_false]
      exact h'

theorem readItem_comment (buf : Array UInt8) (body x : Bytes) (hb : ∀ c ∈ body, c ≠ NUL ∧ c ≠ NL ∧ c ≠ CR)
    (fuel : Nat) (s : Scanner) (g : G buf s) (hr : Rest buf s.ofs (HASH :: (body ++ NL :: x))) :
    ∃ s1, G buf s1 ∧ Rest buf s1.ofs x ∧ readItem (fuel + 1) s = readItem fuel s1 := by
  have hp : pPeek s = .ok HASH s := pPeek_eq g.w hr
  have hlen : (HASH :: body).length < s.buf.size + 1 := by
    have := (Rest.append (a := HASH :: body) (by simpa using hr)).lt
    rw [g.w.hb]; simp at this ⊢; omega
  obtain ⟨s1, h1, g1, hr1⟩ := skipCommentLoop_spec buf (HASH :: body) x
    (by intro c hc; rcases List.mem_cons.mp hc with rfl | h
        · exact ⟨by decide, by decide, by decide⟩
        · exact hb c h) (s.buf.size + 1) s g (by simpa using hr) hlen
  refine ⟨s1, g1, hr1, ?_⟩
  conv => lhs; unfold readItem
  rw [bind_eq _ _ _ _ _ hp]
  have e1 : (HASH == NUL) = false := by decide
  have e2 : (HASH == NL) = false := by decide
  simp only [e1, e2, Bool.false_eq_true, if_false, beq_self_eq_true, if_true]
  have hs : skipComment s = .ok () s1 := by
    unfold skipComment
    have e : pSize s = .ok s.buf.size s := rfl
    rw [bind_eq _ _ _ _ _ e]; exact h1
  rw [bind_eq _ _ _ _ _ hs]

/-! ### Non-vacuity: a statement with every kind of section meets `BuildWF` -/

instance (sep : Bool) (c : UInt8) : Decidable (plain sep c) := by unfold plain; infer_instance
instance (sep : Bool) (t : UInt8) : Decidable (stops sep t) := by unfold stops; infer_instance

theorem gapEnd_of {c : UInt8} {r : Bytes} (h1 : c ≠ SP) (h2 : c ≠ DOLLAR) : GapEnd (c :: r) :=
  ⟨h1, fun h => absurd h h2⟩

/-- ` o: cc a | b || c` / `  x = 1`. -/
def exBuild : BuildText where
  eouts := ([.sp], [(([], [111]), [])])
  iouts := none
  colonGap := [.sp]
  rule := [99, 99]
  eins := ([.sp], [(([], [97]), [.sp])])
  iins := some ([.sp], [(([], [98]), [.sp])])
  oins := some ([.sp], [(([], [99]), [])])
  vins := none
  bindings := [{ indent := 1, name := [120], rhs := { g1 := [.sp], g2 := [.sp], value := some ([], [49]) } }]

example : exBuild.bytes [NL] =
    [32, 111, 58, 32, 99, 99, 32, 97, 32, 124, 32, 98, 32, 124, 124, 32, 99, 10, 32, 32, 120, 32, 61, 32, 49, 10, 10] := by
  decide

theorem exBuild_wf : BuildWF exBuild [NL] := by
  refine ⟨?_, ?_, ?_, ?_, ?_, ?_, ?_, ?_, ?_, ?_, ?_⟩
  · exact ⟨⟨⟨_, _, rfl, by decide⟩, trivial, by decide, by decide, gapEnd_of (by decide) (by decide), trivial⟩,
      gapEnd_of (by decide) (by decide)⟩
  · intro sec h; cases h
  · decide
  · decide
  · exact ⟨_, _, rfl, by decide⟩
  · exact ⟨⟨⟨_, _, rfl, by decide⟩, trivial, by decide, by decide, gapEnd_of (by decide) (by decide), trivial⟩,
      gapEnd_of (by decide) (by decide)⟩
  · intro sec h; cases h
    exact ⟨⟨⟨⟨_, _, rfl, by decide⟩, trivial, by decide, by decide, gapEnd_of (by decide) (by decide), trivial⟩,
      gapEnd_of (by decide) (by decide)⟩, _, _, rfl, by decide, by decide⟩
  · intro sec h; cases h
    exact ⟨⟨⟨_, _, rfl, by decide⟩, trivial, by decide, by decide, gapEnd_of (by decide) (by decide), trivial⟩,
      gapEnd_of (by decide) (by decide)⟩
  · intro sec h; cases h
  · exact ⟨by decide, by decide, rfl,
      ⟨trivial, by decide, by decide, gapEnd_of (by decide) (by decide), _, _, rfl, by decide⟩, trivial⟩
  · exact ⟨_, _, rfl, by decide⟩

end N2V.Parse
