/-
  Only the requested closure is touched: a build leaves `Unknown` only if a requested file needs
  it (through ordering or validation inputs), and `Work::run` never draws in anything new.
-/
import N2V.Lemmas.SchedBuild
namespace N2V.Sched

/-- `Needs g f b`: bringing file `f` up to date involves build `b` — `b` produces `f`, or `b` is
    needed by an ordering or validation input of a build that is. -/
inductive Needs (g : Graph) : Nat → Nat → Prop where
  | direct {f b} : g.producer f = some b → Needs g f b
  | step {f b f' b'} : Needs g f b → f' ∈ (g.build b).ordering ++ (g.build b).validation →
      Needs g f' b' → Needs g f b'

/-- What the want phase may touch, per function. -/
def TouchF (g : Graph) (s : S) (f : Nat) : WR Bool → Prop
  | .ok _ s' => ∀ b, s'.st b ≠ .unknown → s.st b ≠ .unknown ∨ Needs g f b
  | .err _ s' => ∀ b, s'.st b ≠ .unknown → s.st b ≠ .unknown ∨ Needs g f b
  | .bad _ => True

def TouchB (g : Graph) (s : S) (id : Nat) : WR St → Prop
  | .ok _ s' => ∀ b, s'.st b ≠ .unknown → s.st b ≠ .unknown ∨ b = id ∨
      ∃ f' ∈ (g.build id).ordering ++ (g.build id).validation, Needs g f' b
  | .err _ s' => ∀ b, s'.st b ≠ .unknown → s.st b ≠ .unknown ∨ b = id ∨
      ∃ f' ∈ (g.build id).ordering ++ (g.build id).validation, Needs g f' b
  | .bad _ => True

def TouchL {α : Type} (g : Graph) (s : S) (fs : List Nat) : WR α → Prop
  | .ok _ s' => ∀ b, s'.st b ≠ .unknown → s.st b ≠ .unknown ∨ ∃ f' ∈ fs, Needs g f' b
  | .err _ s' => ∀ b, s'.st b ≠ .unknown → s.st b ≠ .unknown ∨ ∃ f' ∈ fs, Needs g f' b
  | .bad _ => True

theorem touch_all (g : Graph) : ∀ fuel : Nat,
    (∀ s stack f, TouchF g s f (wantFile g fuel s stack f)) ∧
    (∀ s stack id, TouchB g s id (wantBuild g fuel s stack id)) ∧
    (∀ s stack fs rd, TouchL g s fs (wantIns g fuel s stack fs rd)) ∧
    (∀ s fs, TouchL g s fs (wantVals g fuel s fs)) := by
  intro fuel
  induction fuel with
  | zero => refine ⟨?_, ?_, ?_, ?_⟩ <;> intros <;> simp [wantFile, wantBuild, wantIns, wantVals, TouchF, TouchB, TouchL]
  | succ fuel ih =>
    obtain ⟨ihF, ihB, ihI, ihV⟩ := ih
    refine ⟨?_, ?_, ?_, ?_⟩
    · intro s stack f
      unfold wantFile
      split
      · exact fun b hb => Or.inl hb
      · split
        · exact fun b hb => Or.inl hb
        · rename_i bid hprod
          have hb := ihB s (stack ++ [f]) bid
          have lift : ∀ s' : S, (∀ b, s'.st b ≠ .unknown → s.st b ≠ .unknown ∨ b = bid ∨
              ∃ f' ∈ (g.build bid).ordering ++ (g.build bid).validation, Needs g f' b) →
              ∀ b, s'.st b ≠ .unknown → s.st b ≠ .unknown ∨ Needs g f b := by
            intro s' h b hbn
            rcases h b hbn with h | rfl | ⟨f', hf', hn⟩
            · exact Or.inl h
            · exact Or.inr (.direct hprod)
            · exact Or.inr (.step (.direct hprod) hf' hn)
          split <;> rename_i hw <;> rw [hw] at hb
          · exact lift _ hb
          · exact lift _ hb
          · trivial
    · intro s stack id
      unfold wantBuild
      split
      · exact fun b hb => Or.inl hb
      · have hi := ihI s stack (g.build id).ordering true
        split
        · rename_i rd s1 hins
          rw [hins] at hi
          simp only []
          split
          · rename_i s2 hs
            obtain ⟨_, _, -, -, hst2, -⟩ := set_spec hs
            have t2 : ∀ b, s2.st b ≠ .unknown → s.st b ≠ .unknown ∨ b = id ∨
                ∃ f' ∈ (g.build id).ordering ++ (g.build id).validation, Needs g f' b := by
              intro b hb
              by_cases e : b = id
              · exact Or.inr (Or.inl e)
              · rw [hst2, upd_other _ _ _ _ e] at hb
                rcases hi b hb with h | ⟨f', hf', hn⟩
                · exact Or.inl h
                · exact Or.inr (Or.inr ⟨f', by simp [hf'], hn⟩)
            have hv := ihV s2 (g.build id).validation
            have lift : ∀ s3 : S, (∀ b, s3.st b ≠ .unknown → s2.st b ≠ .unknown ∨
                ∃ f' ∈ (g.build id).validation, Needs g f' b) →
                ∀ b, s3.st b ≠ .unknown → s.st b ≠ .unknown ∨ b = id ∨
                  ∃ f' ∈ (g.build id).ordering ++ (g.build id).validation, Needs g f' b := by
              intro s3 h b hb
              rcases h b hb with h | ⟨f', hf', hn⟩
              · exact t2 b h
              · exact Or.inr (Or.inr ⟨f', by simp [hf'], hn⟩)
            split <;> rename_i hvv <;> rw [hvv] at hv
            · exact lift _ hv
            · exact lift _ hv
            · trivial
          · trivial
          · trivial
        · rename_i m s1 hins
          rw [hins] at hi
          intro b hb
          rcases hi b hb with h | ⟨f', hf', hn⟩
          · exact Or.inl h
          · exact Or.inr (Or.inr ⟨f', by simp [hf'], hn⟩)
        · trivial
    · intro s stack fs rd
      cases fs with
      | nil => simp only [wantIns]; exact fun b hb => Or.inl hb
      | cons f fs =>
        simp only [wantIns]
        have hf := ihF s stack f
        split <;> rename_i hff <;> rw [hff] at hf
        · rename_i r s'
          have h2 := ihI s' stack fs (rd && r)
          have lift : ∀ s2 : S, (∀ b, s2.st b ≠ .unknown → s'.st b ≠ .unknown ∨ ∃ f' ∈ fs, Needs g f' b) →
              ∀ b, s2.st b ≠ .unknown → s.st b ≠ .unknown ∨ ∃ f' ∈ f :: fs, Needs g f' b := by
            intro s2 h b hb
            rcases h b hb with h | ⟨f', hf', hn⟩
            · rcases hf b h with h' | hn
              · exact Or.inl h'
              · exact Or.inr ⟨f, by simp, hn⟩
            · exact Or.inr ⟨f', by simp [hf'], hn⟩
          revert h2
          cases wantIns g fuel s' stack fs (rd && r) with
          | ok a s2 => intro h2; exact lift _ h2
          | err m s2 => intro h2; exact lift _ h2
          | bad m => intro _; trivial
        · intro b hb
          rcases hf b hb with h | hn
          · exact Or.inl h
          · exact Or.inr ⟨f, by simp, hn⟩
        · trivial
    · intro s fs
      cases fs with
      | nil => simp only [wantVals]; exact fun b hb => Or.inl hb
      | cons f fs =>
        simp only [wantVals]
        have hf := ihF s [] f
        split <;> rename_i hff <;> rw [hff] at hf
        · rename_i r s'
          have h2 := ihV s' fs
          have lift : ∀ s2 : S, (∀ b, s2.st b ≠ .unknown → s'.st b ≠ .unknown ∨ ∃ f' ∈ fs, Needs g f' b) →
              ∀ b, s2.st b ≠ .unknown → s.st b ≠ .unknown ∨ ∃ f' ∈ f :: fs, Needs g f' b := by
            intro s2 h b hb
            rcases h b hb with h | ⟨f', hf', hn⟩
            · rcases hf b h with h' | hn
              · exact Or.inl h'
              · exact Or.inr ⟨f, by simp, hn⟩
            · exact Or.inr ⟨f', by simp [hf'], hn⟩
          revert h2
          cases wantVals g fuel s' fs with
          | ok a s2 => intro h2; exact lift _ h2
          | err m s2 => intro h2; exact lift _ h2
          | bad m => intro _; trivial
        · intro b hb
          rcases hf b hb with h | hn
          · exact Or.inl h
          · exact Or.inr ⟨f, by simp, hn⟩
        · trivial

/-- `Work::want_file f` marks only builds that `f` needs (whether it succeeds or stops with a
    dependency-cycle error). -/
theorem want_touch (g : Graph) (s : S) (f : Nat) :
    match want g s f with
    | .ok _ s' => ∀ b, s'.st b ≠ .unknown → s.st b ≠ .unknown ∨ Needs g f b
    | .err _ s' => ∀ b, s'.st b ≠ .unknown → s.st b ≠ .unknown ∨ Needs g f b
    | .bad _ => True := by
  have := (touch_all g (wantFuel g)).1 s [] f
  unfold want
  cases h : wantFile g (wantFuel g) s [] f with
  | ok a s' => rw [h] at this; exact this
  | err m s' => rw [h] at this; exact this
  | bad m => trivial


/-! ### `Work::run` draws nothing new in -/

def Keeps (s s' : S) : Prop := ∀ b, s'.st b ≠ .unknown → s.st b ≠ .unknown

theorem Keeps.refl (s : S) : Keeps s s := fun _ h => h
theorem Keeps.trans {a b c : S} (h1 : Keeps a b) (h2 : Keeps b c) : Keeps a c := fun x h => h1 x (h2 x h)

theorem set_keeps {g : Graph} {s s' : S} {id : Nat} {new : St} (h : set g s id new = .ok s')
    (hid : s.st id ≠ .unknown) : Keeps s s' := by
  obtain ⟨_, _, -, -, hst, -⟩ := set_spec h
  intro b hb
  by_cases e : b = id
  · subst e; exact hid
  · rw [hst, upd_other _ _ _ _ e] at hb; exact hb

theorem promote_keeps {g : Graph} (l : List Nat) (s s' : S) (hw : ∀ d ∈ l, s.st d ≠ .unknown)
    (h : promote g s l = .ok s') : Keeps s s' := by
  induction l generalizing s with
  | nil => simp [promote] at h; subst h; exact Keeps.refl s
  | cons d ds ih =>
    unfold promote at h
    split at h
    · rename_i s1 hs
      obtain ⟨_, _, -, -, hst, -⟩ := set_spec hs
      refine (set_keeps hs (hw d (by simp))).trans (ih s1 ?_ h)
      intro x hx
      rw [hst]
      by_cases e : x = d
      · subst e; simp
      · rw [upd_other _ _ _ _ e]; exact hw x (by simp [hx])
    · rename_i hne; exact absurd h (hne s')

theorem readyDependents_keeps {g : Graph} {s s' : S} {id : Nat} {perm : List Nat} (hid : s.st id ≠ .unknown)
    (h : readyDependents g s id perm = .ok s') : Keeps s s' := by
  unfold readyDependents at h
  split at h
  · rename_i s1 hs
    refine (set_keeps hs hid).trans (promote_keeps _ s1 s' ?_ h)
    intro d hd
    have := (promotable_spec g s1 id d (mem_orderBy _ _ _ hd)).1
    rw [this]; simp
  · rename_i hne; exact absurd h (hne s')

theorem enqueueRun_keeps {g : Graph} {s : S} {id : Nat} (hid : s.st id ≠ .unknown) :
    match enqueueRun g s id with
    | .inl s1 => Keeps s s1
    | .inr (se, _) => Keeps s se := by
  cases hres : enqueueRun g s id with
  | inl s1 =>
    simp only []
    unfold enqueueRun at hres
    split at hres
    · rename_i s2 hs
      split at hres
      · cases hres; exact (set_keeps hs hid).trans (fun _ h => h)
      · cases hres
    · rename_i r hne; exact absurd (resToRun_inl hres) (hne s1)
  | inr x =>
    obtain ⟨se, rr⟩ := x
    simp only []
    unfold enqueueRun at hres
    split at hres
    · rename_i s2 hs
      split at hres
      · cases hres
      · cases hres; exact set_keeps hs hid
    · rw [resToRun_inr hres]; exact Keeps.refl s

theorem startLoop_keeps {g : Graph} {par : Nat} (fuel : Nat) (s : S) (p : Bool) (inv : Inv g par s) :
    match startLoop g par fuel s p with
    | .inl (s', _) => Keeps s s'
    | .inr (se, _) => Keeps s se := by
  induction fuel generalizing s p with
  | zero => simp only [startLoop]; exact Keeps.refl s
  | succ fuel ih =>
    have step : ∀ id pools s1, popQueued s.pools = some (id, pools) →
        set g { s with pools := pools } id .running = .ok s1 →
        Keeps s { s1 with running := s1.running + 1, trace := Ev.start id :: s1.trace } := by
      intro id pools s1 hpop hs
      obtain ⟨p0, q, hp0, hq, -, -⟩ := popQueued_spec _ _ _ inv.poolNames hpop
      have hstid := (inv.queuedSt p0 hp0 id (by simp [hq])).1
      have : Keeps { s with pools := pools } s1 := set_keeps hs (by show s.st id ≠ .unknown; rw [hstid]; simp)
      exact fun b hb => this b hb
    cases hres : startLoop g par (fuel + 1) s p with
    | inl x =>
      obtain ⟨s', p'⟩ := x
      simp only []
      unfold startLoop at hres
      split at hres
      · rename_i hlt
        split at hres
        · cases hres; exact Keeps.refl s
        · rename_i id pools hpop
          split at hres
          · rename_i s1 hs
            have := ih _ true (start_inv inv hlt hpop (resToRun_inl hs))
            rw [hres] at this
            exact (step id pools s1 hpop (resToRun_inl hs)).trans this
          · cases hres
      · cases hres; exact Keeps.refl s
    | inr x =>
      obtain ⟨se, r⟩ := x
      simp only []
      unfold startLoop at hres
      split at hres
      · rename_i hlt
        split at hres
        · cases hres
        · rename_i id pools hpop
          split at hres
          · rename_i s1 hs
            have := ih _ true (start_inv inv hlt hpop (resToRun_inl hs))
            rw [hres] at this
            exact (step id pools s1 hpop (resToRun_inl hs)).trans this
          · rename_i r' hr
            cases hres
            rw [resToRun_inr hr]; exact Keeps.refl s
      · cases hres

theorem readyLoop_keeps {E : Type} {g : Graph} {par : Nat} (c : Choices E) (fuel : Nat) (s : S) (e : E)
    (perms : List (List Nat)) (p : Bool) (inv : Inv g par s) :
    match readyLoop g c fuel s e perms p with
    | .inl (s', _, _, _) => Keeps s s'
    | .inr (se, _, _) => Keeps s se := by
  induction fuel generalizing s e perms p with
  | zero => simp only [readyLoop]; exact Keeps.refl s
  | succ fuel ih =>
    have lift : ∀ (s1 : S) e1 perms1 p1, Inv g par s1 → Keeps s s1 →
        (match readyLoop g c fuel s1 e1 perms1 p1 with
          | .inl (s', _, _, _) => Keeps s s'
          | .inr (se, _, _) => Keeps s se) := by
      intro s1 e1 perms1 p1 i1 f1
      have := ih s1 e1 perms1 p1 i1
      cases hr : readyLoop g c fuel s1 e1 perms1 p1 with
      | inl x => obtain ⟨a, b, c', d⟩ := x; rw [hr] at this; exact f1.trans this
      | inr x => obtain ⟨a, b, c'⟩ := x; rw [hr] at this; exact f1.trans this
    have k0 : ∀ rest, Keeps s { s with ready := rest } := fun _ _ h => h
    cases hres : readyLoop g c (fuel + 1) s e perms p with
    | inl x =>
      obtain ⟨s', e', perms', p'⟩ := x
      simp only []
      unfold readyLoop at hres
      split at hres
      · cases hres; exact Keeps.refl s
      · rename_i id rest hr
        have hstid : s.st id = .ready := inv.readySt id (by simp [hr])
        have hidn : ({ s with ready := rest } : S).st id ≠ .unknown := by show s.st id ≠ .unknown; rw [hstid]; simp
        simp only [] at hres
        split at hres
        · cases hres
        · rename_i dirty e1 hc
          split at hres
          · split at hres
            · rename_i s1 hs
              have := lift s1 e1 perms.tail true (clean_inv inv hr (resToRun_inl hs))
                ((k0 rest).trans (readyDependents_keeps hidn (resToRun_inl hs)))
              rw [hres] at this; exact this
            · cases hres
          · split at hres
            · split at hres
              · rename_i s1 hs
                have := lift s1 (c.onAdopt e1 id) perms.tail true (clean_inv inv hr (resToRun_inl hs))
                  ((k0 rest).trans (readyDependents_keeps hidn (resToRun_inl hs)))
                rw [hres] at this; exact this
              · cases hres
            · split at hres
              · rename_i s1 hs
                have hq := @enqueueRun_keeps g { s with ready := rest } id hidn
                rw [hs] at hq
                have := lift s1 e1 perms true (enqueue_inv inv hr hs) ((k0 rest).trans hq)
                rw [hres] at this; exact this
              · cases hres
    | inr x =>
      obtain ⟨se, e', r⟩ := x
      simp only []
      unfold readyLoop at hres
      split at hres
      · cases hres
      · rename_i id rest hr
        have hstid : s.st id = .ready := inv.readySt id (by simp [hr])
        have hidn : ({ s with ready := rest } : S).st id ≠ .unknown := by show s.st id ≠ .unknown; rw [hstid]; simp
        simp only [] at hres
        split at hres
        · cases hres; exact k0 rest
        · rename_i dirty e1 hc
          split at hres
          · split at hres
            · rename_i s1 hs
              have := lift s1 e1 perms.tail true (clean_inv inv hr (resToRun_inl hs))
                ((k0 rest).trans (readyDependents_keeps hidn (resToRun_inl hs)))
              rw [hres] at this; exact this
            · rename_i se' r' hs
              cases hres
              rw [resToRun_inr hs]; exact k0 rest
          · split at hres
            · split at hres
              · rename_i s1 hs
                have := lift s1 (c.onAdopt e1 id) perms.tail true (clean_inv inv hr (resToRun_inl hs))
                  ((k0 rest).trans (readyDependents_keeps hidn (resToRun_inl hs)))
                rw [hres] at this; exact this
              · rename_i se' r' hs
                cases hres
                rw [resToRun_inr hs]; exact k0 rest
            · have hq := @enqueueRun_keeps g { s with ready := rest } id hidn
              split at hres
              · rename_i s1 hs
                rw [hs] at hq
                have := lift s1 e1 perms true (enqueue_inv inv hr hs) ((k0 rest).trans hq)
                rw [hres] at this; exact this
              · rename_i se' r' hs
                rw [hs] at hq
                cases hres
                exact (k0 rest).trans hq

/-- **`Work::run` never takes a build out of `Unknown`**: whatever it ends with, every build that
    is not `Unknown` afterwards was not `Unknown` before. -/
theorem runLoop_keeps {E : Type} {g : Graph} {par : Nat} (c : Choices E) (fuel : Nat) (s : S) (e : E)
    (perms : List (List Nat)) (fin : List (Nat × Term)) (inv : Inv g par s) :
    Keeps s (runLoop g par c fuel s e perms fin).s := by
  induction fuel generalizing s e perms fin with
  | zero => simp only [runLoop]; exact Keeps.refl s
  | succ fuel ih =>
    unfold runLoop
    by_cases hp : s.pending ≤ 0
    · simp only [hp, if_true]; exact Keeps.refl s
    · simp only [hp, if_false]
      have inv0 : Inv g par { s with trace := Ev.update (countsList s.counts) :: s.trace } :=
        Inv.of_sameCore (s := s) ⟨rfl, rfl, rfl, rfl, rfl, rfl⟩ inv
      have k0 : Keeps s { s with trace := Ev.update (countsList s.counts) :: s.trace } := fun _ h => h
      have hs1 := startLoop_keeps (g := g) (par := par) (g.nBuilds + 1) _ false inv0
      cases h1 : startLoop g par (g.nBuilds + 1) { s with trace := Ev.update (countsList s.counts) :: s.trace } false with
      | inr r =>
        obtain ⟨se, rr⟩ := r
        rw [h1] at hs1
        exact k0.trans hs1
      | inl r =>
        obtain ⟨s1, p1⟩ := r
        rw [h1] at hs1
        simp only []
        have i1 := startLoop_inl_inv _ _ _ inv0 _ _ h1
        have hs2 := readyLoop_keeps (g := g) c (g.nBuilds + 1) s1 e perms false i1
        cases h2 : readyLoop g c (g.nBuilds + 1) s1 e perms false with
        | inr r =>
          obtain ⟨se, e2, rr⟩ := r
          rw [h2] at hs2
          exact (k0.trans hs1).trans hs2
        | inl r =>
          obtain ⟨s2, e2, perms2, p2⟩ := r
          rw [h2] at hs2
          simp only []
          have i2 := readyLoop_inl_inv c _ _ _ _ _ i1 _ _ _ _ h2
          have k2 : Keeps s s2 := (k0.trans hs1).trans hs2
          by_cases hpp : (p1 || p2) = true
          · simp only [hpp, if_true]; exact k2.trans (ih _ _ _ _ i2)
          · simp only [hpp, Bool.false_eq_true, if_false]
            by_cases hrun : s2.running ≤ 0
            · simp only [hrun, if_true]; split <;> exact k2
            · simp only [hrun, if_false]
              cases fin with
              | nil => exact k2
              | cons ft fin' =>
                obtain ⟨id, t⟩ := ft
                simp only []
                by_cases hst : s2.st id ≠ .running
                · rw [if_pos hst]; exact k2
                · rw [if_neg hst]
                  have hst' : s2.st id = .running := by simpa using hst
                  have hidn : s2.st id ≠ .unknown := by rw [hst']; simp
                  cases t with
                  | interrupted => exact fun b hb => k2 b hb
                  | success =>
                    simp only []
                    generalize h4 : resToRun _ _ = r4
                    cases r4 with
                    | inl s4 =>
                      simp only []
                      have i4 : Inv g par s4 := by
                        refine succeeded_inv _ i2 hst' ?_ ?_ (resToRun_inl h4)
                        · exact ⟨rfl, rfl, rfl, rfl, rfl⟩
                        · rfl
                      have k4 : Keeps s2 s4 := by
                        refine fun b hb => readyDependents_keeps ?_ (resToRun_inl h4) b hb
                        exact hidn
                      exact (k2.trans k4).trans (ih _ _ _ _ i4)
                    | inr r =>
                      obtain ⟨se, rr⟩ := r
                      simp only []
                      rw [resToRun_inr h4]; exact fun b hb => k2 b hb
                  | failure =>
                    simp only []
                    cases hfl : s2.failuresLeft with
                    | none =>
                      simp only []
                      generalize h4 : resToRun _ _ = r4
                      cases r4 with
                      | inl s4 =>
                        simp only []
                        have i4 : Inv g par s4 := by
                          refine failed_inv _ i2 hst' ?_ ?_ (resToRun_inl h4)
                          · exact ⟨rfl, rfl, rfl, rfl, rfl⟩
                          · rfl
                        have k4 : Keeps s2 s4 := fun b hb => set_keeps (s := _) (resToRun_inl h4) hidn b hb
                        exact (k2.trans k4).trans (ih _ _ _ _ i4)
                      | inr r =>
                        obtain ⟨se, rr⟩ := r
                        simp only []
                        rw [resToRun_inr h4]; exact fun b hb => k2 b hb
                    | some n =>
                      simp only []
                      by_cases hn0 : n = 0
                      · rw [if_pos hn0]; exact fun b hb => k2 b hb
                      · rw [if_neg hn0]
                        by_cases hn1 : n - 1 = 0
                        · rw [if_pos hn1]; exact fun b hb => k2 b hb
                        · rw [if_neg hn1]
                          generalize h4 : resToRun _ _ = r4
                          cases r4 with
                          | inl s4 =>
                            simp only []
                            have i4 : Inv g par s4 := by
                              refine failed_inv _ i2 hst' ?_ ?_ (resToRun_inl h4)
                              · exact ⟨rfl, rfl, rfl, rfl, rfl⟩
                              · rfl
                            have k4 : Keeps s2 s4 := fun b hb => set_keeps (s := _) (resToRun_inl h4) hidn b hb
                            exact (k2.trans k4).trans (ih _ _ _ _ i4)
                          | inr r =>
                            obtain ⟨se, rr⟩ := r
                            simp only []
                            rw [resToRun_inr h4]; exact fun b hb => k2 b hb


end N2V.Sched

namespace N2V.Run
open N2V N2V.Sched

/-- The want phase's three target choices, as "what may have been touched". -/
def TouchW (g : Graph) (s : S) (P : Nat → Prop) : WR Unit → Prop
  | .ok _ s' => ∀ b, s'.st b ≠ .unknown → s.st b ≠ .unknown ∨ ∃ f, P f ∧ Needs g f b
  | .err _ s' => ∀ b, s'.st b ≠ .unknown → s.st b ≠ .unknown ∨ ∃ f, P f ∧ Needs g f b
  | .bad _ => True

theorem wantAll_touch (g : Graph) (fs : List Nat) (s0 s : S) (P : Nat → Prop) (hP : ∀ f ∈ fs, P f)
    (h0 : ∀ b, s.st b ≠ .unknown → s0.st b ≠ .unknown ∨ ∃ f, P f ∧ Needs g f b) :
    TouchW g s0 P (wantAll g s fs) := by
  induction fs generalizing s with
  | nil => exact h0
  | cons f fs ih =>
    unfold wantAll
    have hw := want_touch g s f
    have lift : ∀ s' : S, (∀ b, s'.st b ≠ .unknown → s.st b ≠ .unknown ∨ Needs g f b) →
        ∀ b, s'.st b ≠ .unknown → s0.st b ≠ .unknown ∨ ∃ f, P f ∧ Needs g f b := by
      intro s' h b hb
      rcases h b hb with h | hn
      · exact h0 b h
      · exact Or.inr ⟨f, hP f (by simp), hn⟩
    split
    · rename_i s' h; rw [h] at hw
      exact ih s' (fun x hx => hP x (by simp [hx])) (lift s' hw)
    · rename_i r hne
      cases h : want g s f with
      | ok u s' => exact absurd h (hne u s')
      | err m s' => rw [h] at hw; exact lift s' hw
      | bad m => trivial

theorem wantTargets_touch (g : Graph) (a : Args) (ns : List Bytes) (s0 s : S) (P : Nat → Prop)
    (hP : ∀ n ∈ ns, ∀ t, lookupM g a n = .ok (some t) → P t)
    (h0 : ∀ b, s.st b ≠ .unknown → s0.st b ≠ .unknown ∨ ∃ f, P f ∧ Needs g f b) :
    TouchW g s0 P (wantTargets g a s ns) := by
  induction ns generalizing s with
  | nil => exact h0
  | cons n ns ih =>
    unfold wantTargets
    have hP' : ∀ n' ∈ ns, ∀ t, lookupM g a n' = .ok (some t) → P t := fun n' hn' => hP n' (by simp [hn'])
    split
    · split
      · exact ih s hP' h0
      · exact h0
    · rename_i t hl
      split
      · exact ih s hP' h0
      · have hw := want_touch g s t
        have lift : ∀ s' : S, (∀ b, s'.st b ≠ .unknown → s.st b ≠ .unknown ∨ Needs g t b) →
            ∀ b, s'.st b ≠ .unknown → s0.st b ≠ .unknown ∨ ∃ f, P f ∧ Needs g f b := by
          intro s' h b hb
          rcases h b hb with h | hn
          · exact h0 b h
          · exact Or.inr ⟨t, hP n (by simp) t hl, hn⟩
        split
        · rename_i s' h; rw [h] at hw; exact ih s' hP' (lift s' hw)
        · rename_i r hne
          cases h : want g s t with
          | ok u s' => exact absurd h (hne u s')
          | err m s' => rw [h] at hw; exact lift s' hw
          | bad m => trivial
    · trivial
    · trivial

/-- The files an invocation asks for: the manifest; the command-line names that resolve, else the
    `default` statements, else every file. -/
def Requested (g : Graph) (a : Args) (f : Nat) : Prop :=
  f = a.manifest ∨ (∃ n ∈ a.targets, lookupM g a n = .ok (some f)) ∨
  (a.targets = [] ∧ f ∈ a.defaults) ∨ (a.targets = [] ∧ a.defaults = [] ∧ f < g.nFiles)

theorem phase2_only_requested {E : Type} {g : Graph} (gok : GraphOK g) (a : Args) (c : Choices E) (s2 : S) (e : E)
    (perms : List (List Nat)) (fin : List (Nat × Term)) (n0 : Nat) (inv : Inv g a.par s2) (s0 : S)
    (h0 : ∀ b, s2.st b ≠ .unknown → s0.st b ≠ .unknown ∨ ∃ f, Requested g a f ∧ Needs g f b) :
    ∀ b, (phase2 g a c s2 e perms fin n0).1.st b ≠ .unknown →
      s0.st b ≠ .unknown ∨ ∃ f, Requested g a f ∧ Needs g f b := by
  unfold phase2
  have hw : WRRel g a.par s2 (if !a.targets.isEmpty then wantTargets g a s2 a.targets
      else if !a.defaults.isEmpty then wantAll g s2 a.defaults
      else wantAll g s2 ((List.range g.nFiles).filter (· ≠ a.manifest))) := by
    split
    · exact wantTargets_rel a gok _ _ _ (WRel.refl inv)
    · split
      · exact wantAll_rel gok _ _ _ (WRel.refl inv)
      · exact wantAll_rel gok _ _ _ (WRel.refl inv)
  have ht : TouchW g s0 (Requested g a) (if !a.targets.isEmpty then wantTargets g a s2 a.targets
      else if !a.defaults.isEmpty then wantAll g s2 a.defaults
      else wantAll g s2 ((List.range g.nFiles).filter (· ≠ a.manifest))) := by
    split
    · exact wantTargets_touch g a _ s0 s2 _ (fun n hn t hl => Or.inr (Or.inl ⟨n, hn, hl⟩)) h0
    · rename_i ht
      have hte : a.targets = [] := by cases h : a.targets with | nil => rfl | cons _ _ => simp [h] at ht
      split
      · exact wantAll_touch g _ s0 s2 _ (fun f hf => Or.inr (Or.inr (Or.inl ⟨hte, hf⟩))) h0
      · rename_i hd
        have hde : a.defaults = [] := by cases h : a.defaults with | nil => rfl | cons _ _ => simp [h] at hd
        exact wantAll_touch g _ s0 s2 _ (fun f hf => Or.inr (Or.inr (Or.inr ⟨hte, hde, by
          simp only [List.mem_filter, List.mem_range] at hf; exact hf.1⟩))) h0
  simp only []
  generalize (if !a.targets.isEmpty then wantTargets g a s2 a.targets
      else if !a.defaults.isEmpty then wantAll g s2 a.defaults
      else wantAll g s2 ((List.range g.nFiles).filter (· ≠ a.manifest))) = w at hw ht ⊢
  cases w with
  | ok u s3 =>
    simp only []
    have hk := runLoop_keeps c (runFuel g) s3 e perms fin hw.inv
    intro b hb
    have : (runLoop g a.par c (runFuel g) s3 e perms fin).s.st b ≠ .unknown := by
      split at hb <;> exact hb
    exact ht b (hk b this)
  | err m s3 => exact ht
  | bad m => exact h0

/-- **Exactly the requested closure**: in any `run::build`, whatever happens, a build leaves
    `Unknown` (is considered at all, let alone run) only if some requested file — the manifest, a
    command-line name that resolves, else a `default`, else any file — needs it through explicit,
    implicit, order-only or validation inputs. -/
theorem build_only_requested {E : Type} {g : Graph} (gok : GraphOK g) (a : Args) (c : Choices E) (e : E) (b : Nat)
    (hb : (build g a c e).1.st b ≠ .unknown) : ∃ f, Requested g a f ∧ Needs g f b := by
  have key : (fresh a).st b ≠ .unknown ∨ ∃ f, Requested g a f ∧ Needs g f b := by
    revert hb
    unfold build
    simp only []
    have hw := want_rel gok (fresh a) a.manifest (fresh_inv g a)
    have ht := want_touch g (fresh a) a.manifest
    cases hwant : want g (fresh a) a.manifest with
    | ok u s1 =>
      rw [hwant] at hw ht
      simp only []
      have h1 : ∀ x, s1.st x ≠ .unknown → (fresh a).st x ≠ .unknown ∨ ∃ f, Requested g a f ∧ Needs g f x := by
        intro x hx
        rcases ht x hx with h | h
        · exact Or.inl h
        · exact Or.inr ⟨a.manifest, Or.inl rfl, h⟩
      have hk := runLoop_keeps c (runFuel g) s1 e c.perms c.finishes hw.inv
      have h2 : ∀ x, (runLoop g a.par c (runFuel g) s1 e c.perms c.finishes).s.st x ≠ .unknown →
          (fresh a).st x ≠ .unknown ∨ ∃ f, Requested g a f ∧ Needs g f x := fun x hx => h1 x (hk x hx)
      cases hres : (runLoop g a.par c (runFuel g) s1 e c.perms c.finishes).result with
      | ok bb =>
        cases bb with
        | true =>
          simp only []
          split
          · exact h2 b
          · exact phase2_only_requested gok a c _ _ _ _ 0 (runLoop_inv c _ _ _ _ _ hw.inv hres) (fresh a) h2 b
        | false => exact h2 b
      | _ => exact h2 b
    | err m s1 =>
      rw [hwant] at ht
      simp only []
      intro hx
      rcases ht b hx with h | h
      · exact Or.inl h
      · exact Or.inr ⟨a.manifest, Or.inl rfl, h⟩
    | bad m => simp only []; exact fun hx => Or.inl hx
  rcases key with h | h
  · exact absurd rfl h
  · exact h

end N2V.Run

namespace N2V.Sched

end N2V.Sched
