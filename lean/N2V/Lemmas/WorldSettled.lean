/-
  The round trip (projects without discovered dependencies): a successful invocation leaves a
  world in which an immediate second invocation does nothing.
-/
import N2V.Lemmas.WorkSettled
import N2V.Lemmas.SchedComplete
import N2V.Lemmas.SchedReg
namespace N2V.Work
open N2V N2V.Load N2V.Sched N2V.Run

theorem loadEnv_eq (w : World) (m : Bytes) (l : Loader) (e0 : Env) (h : loadEnv w m = .ok (l, e0)) :
    e0 = applyLog { g := l.graph, disc := [], hashes := [], cache := [], fs := w.fs, clock := w.clock, log := w.log } w.log := by
  unfold loadEnv at h
  simp only [] at h
  split at h
  · cases h
  · rename_i l0 _
    cases h
    rfl

theorem js_initial (e0 : Env) (a : Args) (hnd0 : ∀ b, discOf e0 b = []) (hc0 : e0.cache = []) : JS e0 (fresh a) e0 := by
  refine ⟨rfl, rfl, hnd0, List.prefix_refl _, ?_, ?_, ?_, ?_⟩
  · intro r hr; simp [newLog] at hr
  · intro f m _ hm; rw [hc0] at hm; simp [assocGet] at hm
  · intro b bm hb; simp [fresh, init] at hb
  · intro b bm hb; simp [fresh, init] at hb

/-- **What is Done is settled, at the end of a successful `run::build`** (no discovered
    dependencies, no reload): for every Done non-phony step whose named files exist, the signature
    the next start-up will attach to it is the manifest of the files as they are now. -/
theorem build_done_js (e0 : Env) (inv0 : GInv e0.g) (plain : Plain e0.g) (hnd0 : ∀ b, discOf e0 b = [])
    (hc0 : e0.cache = []) (a : Args) (adopt : Bool) (perms : List (List Nat)) (fin : List (Nat × Term)) (n : Nat)
    (h : (build (schedGraph e0.g) a (choices adopt perms fin) e0).2.2 = .done n) :
    JS e0 (build (schedGraph e0.g) a (choices adopt perms fin) e0).1
      (build (schedGraph e0.g) a (choices adopt perms fin) e0).2.1 :=
  build_done (schedGraph_ok e0.g inv0).1 a _ (JS e0) (js_spec e0 inv0 plain adopt perms fin) e0
    (js_initial e0 a hnd0 hc0) n h

/-- **A successful build followed by the same build: the second does nothing.**  For a project
    without discovered dependencies (no depfile / `deps`, no rewritten inputs, log without
    dependency lists) whose graph has no ordering cycle: if an invocation succeeds without
    reloading the manifest, the files the steps it wanted name exist
    afterwards and the manifest still loads to the same graph, then the next invocation with the
    same arguments leaves the world as it is, starts no command, and reports 0 tasks — for every
    scheduling behaviour of the environment in either invocation. -/
theorem second_build_does_nothing (w : World) (a : InvArgs) (perms : List (List Nat)) (fin : List (Nat × Term))
    (l : Loader) (e0 : Env) (hl : loadEnv w a.manifestName = .ok (l, e0))
    (plain : Plain e0.g) (hlog : ∀ r ∈ w.log, r.deps = [])
    (hpar : 0 < a.par) (n : Nat)
    (hdone : (build (schedGraph e0.g) (argsOf l a) (choices a.adopt perms fin) e0).2.2 = .done n)
    (hpresent : ∀ b bm, Wanted (schedGraph e0.g) (argsOf l a) b → buildOf e0.g b = some bm → bm.cmdline.isNone = false →
      AllPresent (build (schedGraph e0.g) (argsOf l a) (choices a.adopt perms fin) e0).2.1 bm)
    (w' : World)
    (hw' : w' = { fs := (build (schedGraph e0.g) (argsOf l a) (choices a.adopt perms fin) e0).2.1.fs,
                  clock := (build (schedGraph e0.g) (argsOf l a) (choices a.adopt perms fin) e0).2.1.clock,
                  log := (build (schedGraph e0.g) (argsOf l a) (choices a.adopt perms fin) e0).2.1.log })
    (e0' : Env) (hl' : loadEnv w' a.manifestName = .ok (l, e0'))
    (o1 o2 : List (List Nat) × List (Nat × Term)) :
    (invoke w' a o1 o2).1 = w' ∧ commandEvents (invoke w' a o1 o2).2.2 = [] ∧
    (∀ k, (invoke w' a o1 o2).2.1 = .done k → k = 0) := by
  obtain ⟨inv0, gok, dok⟩ := loadEnv_graph_ok w a.manifestName l e0 hl
  obtain ⟨hcache0, hfs0, hclock0, hlog0⟩ := loadEnv_frame w a.manifestName l e0 hl
  -- the first environment: graph and signatures as functions of the log
  have he0 := loadEnv_eq w a.manifestName l e0 hl
  obtain ⟨g0, h0, d0⟩ := applyLog_plain w.log hlog
    { g := l.graph, disc := [], hashes := [], cache := [], fs := w.fs, clock := w.clock, log := w.log }
  have hg0 : e0.g = l.graph := by rw [he0]; exact g0
  have hh0 : e0.hashes = hashesOf l.graph w.log [] := by rw [he0]; exact h0
  have hnd0 : ∀ b, discOf e0 b = [] := by intro b; rw [he0]; exact d0 b (by simp [discOf, assocGet])
  have hcomplete : ∀ b, Wanted (schedGraph e0.g) (argsOf l a) b →
      (build (schedGraph e0.g) (argsOf l a) (choices a.adopt perms fin) e0).1.st b ≠ .unknown :=
    fun b hW => build_complete gok (argsOf l a) _ e0 n hdone b hW
  -- the invariant at the end of the first build
  have j := build_done_js e0 inv0 plain hnd0 hcache0 (argsOf l a) a.adopt perms fin n hdone
  generalize hr : build (schedGraph e0.g) (argsOf l a) (choices a.adopt perms fin) e0 = r at j hdone hcomplete hpresent hw'
  obtain ⟨s1, e1, out1⟩ := r
  simp only [] at j hdone hcomplete hpresent hw'
  have hsettled := fun b => build_done_settled_free gok dok (argsOf l a) hpar (choices a.adopt perms fin) e0 n (by rw [hr]; exact hdone) b
  rw [hr] at hsettled
  simp only [] at hsettled
  -- the log after the first build
  have hlog1 : e1.log = w.log ++ newLog e0 e1 := by
    obtain ⟨t, ht⟩ := j.logPre
    unfold newLog
    rw [← ht, hlog0]
    simp
  have hlogd : ∀ r ∈ w'.log, r.deps = [] := by
    intro r hr'
    rw [hw'] at hr'
    simp only [] at hr'
    rw [hlog1] at hr'
    rcases List.mem_append.mp hr' with h | h
    · exact hlog r h
    · exact (j.newRecs r h).1
  -- the second environment
  have he0' := loadEnv_eq w' a.manifestName l e0' hl'
  obtain ⟨g1, h1, d1⟩ := applyLog_plain w'.log hlogd
    { g := l.graph, disc := [], hashes := [], cache := [], fs := w'.fs, clock := w'.clock, log := w'.log }
  obtain ⟨_, hfs1, _, _⟩ := loadEnv_frame w' a.manifestName l e0' hl'
  have hg1 : e0'.g = e0.g := by rw [he0', hg0]; exact g1
  have hnd1 : ∀ b, discOf e0' b = [] := by intro b; rw [he0']; exact d1 b (by simp [discOf, assocGet])
  have hh1 : e0'.hashes = inForce e0 e1 := by
    rw [he0']
    rw [h1]
    show hashesOf l.graph w'.log [] = _
    rw [hw']
    simp only []
    rw [hlog1, hashesOf_append, ← hh0]
    unfold inForce
    rw [hg0]
  have hmt : ∀ f, mtimeOf e0' f = mtimeOf e1 f := by
    intro f
    unfold mtimeOf
    rw [hg1, ← j.g, hfs1, hw']
  apply invoke_upToDate w' a o1 o2 l e0' hl'
  rw [hg1]
  refine ⟨?_, ?_⟩
  · intro b bm hW hb hnp
    rw [hg1] at hb
    have hdoneb : s1.st b = .done := by
      rcases hsettled b with h | h
      · exact absurd h (hcomplete b hW)
      · exact h
    have hall := hpresent b bm hW hb hnp
    refine ⟨?_, ?_⟩
    · intro f hf
      rw [hnd1 b] at hf
      simp only [List.append_nil] at hf
      rw [hmt]
      exact hall f hf
    · rw [hh1, j.settled b bm hdoneb hb hnp hall]
      congr 1
      symm
      apply manifestFs_congr
      · rw [hg1, j.g]
      · rw [hnd1 b, j.nodisc b]
      · intro f _; exact hmt f
  · intro b bm _ _ _ f hf
    rw [hnd1 b] at hf
    cases hf

end N2V.Work
