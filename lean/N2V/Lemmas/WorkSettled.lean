/-
  What is Done is settled (projects without discovered dependencies).

  Through a whole `Work::run`, jointly with the scheduler state: for every Done non-phony step
  whose named files exist, the signature that the NEXT start-up would attach to it (the latest
  record attributed to it in the log as it is now) equals the manifest of the files as they are
  now.  This needs, and the invariant carries: the stat cache tells the truth except about
  outputs of steps that are not Done yet; files named by a Done step are produced by Done steps
  only (so no later command rewrites them); every record appended belongs to a Done step.
-/
import N2V.Lemmas.WorkClean
import N2V.Lemmas.WorkFrame
import N2V.Lemmas.SchedDone
import N2V.Lemmas.LoadSched
import N2V.Lemmas.WorldClean
import N2V.Props.C08
namespace N2V.Work
open N2V N2V.Load N2V.Sched

/-! ### The signatures a start-up attaches, as a function of the log -/

def producerByName (g : GraphM) (n : Bytes) : Option Nat :=
  (g.files.find? (fun f => f.name == n)).bind (·.input)

def hashesOf (g : GraphM) : List Rec → List (Nat × Manifest) → List (Nat × Manifest)
  | [], h => h
  | r :: rs, h =>
    match Db.attributeRec (producerByName g) r.outs with
    | some b => hashesOf g rs (assocPut h b r.hash)
    | none => hashesOf g rs h

theorem hashesOf_append (g : GraphM) (a b : List Rec) (h : List (Nat × Manifest)) :
    hashesOf g (a ++ b) h = hashesOf g b (hashesOf g a h) := by
  induction a generalizing h with
  | nil => rfl
  | cons r rs ih =>
    simp only [List.cons_append, hashesOf]
    split <;> exact ih _

theorem applyLog_cons_plain (e : Env) (r : Rec) (rs : List Rec) (hr : r.deps = []) :
    applyLog e (r :: rs) =
      match Db.attributeRec (producerByName e.g) r.outs with
      | some b => applyLog { e with disc := assocPut e.disc b [], hashes := assocPut e.hashes b r.hash } rs
      | none => applyLog e rs := by
  conv => lhs; unfold applyLog
  simp only [hr, List.foldl_nil]
  rfl

/-- With no recorded dependencies, attaching the log interns nothing: the graph stays, the
    signatures are `hashesOf`, and discovered lists are empty or untouched. -/
theorem applyLog_plain (rs : List Rec) (hnd : ∀ r ∈ rs, r.deps = []) : ∀ (e : Env),
    (applyLog e rs).g = e.g ∧ (applyLog e rs).hashes = hashesOf e.g rs e.hashes ∧
    (∀ b, discOf e b = [] → discOf (applyLog e rs) b = []) := by
  induction rs with
  | nil => intro e; exact ⟨rfl, rfl, fun _ h => h⟩
  | cons r rs ih =>
    intro e
    have hr : r.deps = [] := hnd r (by simp)
    have ih' := ih (fun x hx => hnd x (by simp [hx]))
    rw [applyLog_cons_plain e r rs hr]
    unfold hashesOf
    cases hatt : Db.attributeRec (producerByName e.g) r.outs with
    | none =>
      simp only []
      exact ih' e
    | some b =>
      simp only []
      obtain ⟨h1, h2, h3⟩ := ih' { e with disc := assocPut e.disc b [], hashes := assocPut e.hashes b r.hash }
      refine ⟨h1, h2, ?_⟩
      intro x hx
      apply h3
      unfold discOf
      by_cases hxb : x = b
      · subst hxb; simp [assocGet_put_self]
      · simp only []
        rw [assocGet_put_other _ _ _ _ hxb]
        exact hx

/-! ### Names, producers and attribution in a loaded graph -/

theorem producerByName_fileName (g : GraphM) (inv : GInv g) (f : Nat) (fm : FileM) (hf : g.files[f]? = some fm) :
    producerByName g (fileName g f) = fileInput g f := by
  have hname : fileName g f = fm.name := by unfold fileName; rw [hf]; rfl
  unfold producerByName fileInput
  rw [hname, hf]
  -- the first file with that name is `f` itself (names are unique)
  have hmem : fm ∈ g.files := List.mem_of_getElem? hf
  cases hfind : g.files.find? (fun x => x.name == fm.name) with
  | none =>
    have := List.find?_eq_none.mp hfind fm hmem
    simp at this
  | some fm' =>
    have hp := List.find?_some hfind
    obtain ⟨i, hi, hget⟩ := List.getElem_of_mem (List.mem_of_find?_eq_some hfind)
    have hi' : g.files[i]? = some fm' := by rw [List.getElem?_eq_getElem hi, hget]
    have : i = f := inv.names i f fm' fm hi' hf (by simpa using hp)
    subst this
    rw [hf] at hi'
    cases hi'
    rfl

theorem outs_produced (g : GraphM) (inv : GInv g) (b : Nat) (bm : BuildM) (hb : buildOf g b = some bm) :
    ∀ o ∈ bm.outs, producerByName g (fileName g o) = some b := by
  intro o ho
  obtain ⟨fm, hfm, hin⟩ := inv.outs b bm hb o ho
  rw [producerByName_fileName g inv o fm hfm]
  unfold fileInput; rw [hfm]; exact hin

theorem attributed_own (g : GraphM) (inv : GInv g) (b : Nat) (bm : BuildM) (hb : buildOf g b = some bm)
    (hne : bm.outs ≠ []) : Db.attributeRec (producerByName g) (bm.outs.map (fileName g)) = some b := by
  apply C08.attribution_complete
  · simpa using hne
  · intro n hn
    obtain ⟨o, ho, rfl⟩ := List.mem_map.mp hn
    exact outs_produced g inv b bm hb o ho

theorem attributed_unique (g : GraphM) (inv : GInv g) (b b' : Nat) (bm' : BuildM) (hb' : buildOf g b' = some bm')
    (h : Db.attributeRec (producerByName g) (bm'.outs.map (fileName g)) = some b) : b = b' := by
  obtain ⟨hne, hall⟩ := C08.attribution _ _ _ h
  cases ho : bm'.outs with
  | nil => rw [ho] at hne; simp at hne
  | cons o os =>
    have h1 := hall (fileName g o) (by rw [ho]; simp)
    have h2 := outs_produced g inv b' bm' hb' o (by rw [ho]; simp)
    rw [h2] at h1
    exact (Option.some.inj h1).symm

/-! ### `hashesOf` at one build -/

theorem hashesOf_other (g : GraphM) (rs : List Rec) (b : Nat)
    (hno : ∀ r ∈ rs, Db.attributeRec (producerByName g) r.outs ≠ some b) : ∀ (h : List (Nat × Manifest)),
    assocGet (hashesOf g rs h) b = assocGet h b := by
  induction rs with
  | nil => intro h; rfl
  | cons r rs ih =>
    intro h
    unfold hashesOf
    cases hatt : Db.attributeRec (producerByName g) r.outs with
    | none => simp only []; exact ih (fun x hx => hno x (by simp [hx])) h
    | some b' =>
      simp only []
      rw [ih (fun x hx => hno x (by simp [hx]))]
      have : b ≠ b' := fun e => hno r (by simp) (by rw [hatt, e])
      exact assocGet_put_other _ _ _ _ this

theorem hashesOf_snoc (g : GraphM) (rs : List Rec) (r : Rec) (h : List (Nat × Manifest)) (b : Nat)
    (hatt : Db.attributeRec (producerByName g) r.outs = some b) :
    assocGet (hashesOf g (rs ++ [r]) h) b = some r.hash ∧
    ∀ b', b' ≠ b → assocGet (hashesOf g (rs ++ [r]) h) b' = assocGet (hashesOf g rs h) b' := by
  rw [hashesOf_append]
  simp only [hashesOf, hatt]
  exact ⟨assocGet_put_self _ _ _, fun b' hb' => assocGet_put_other _ _ _ _ hb'⟩

/-! ### stat()s: what they do to the cache -/

/-- `e'` is `e` after some stat()s: nothing but the cache changed, and every entry of the new
    cache is an old entry or a fresh, truthful answer. -/
structure Stat (e e' : Env) : Prop extends SameButCache e e' where
  fresh : ∀ f m, assocGet e'.cache f = some m → assocGet e.cache f = some m ∨ m = mtimeOf e f

theorem Stat.refl (e : Env) : Stat e e := ⟨SameButCache.refl e, fun _ _ h => Or.inl h⟩

theorem Stat.trans {a b c : Env} (h1 : Stat a b) (h2 : Stat b c) : Stat a c := by
  refine ⟨h1.toSameButCache.trans h2.toSameButCache, ?_⟩
  intro f m hm
  rcases h2.fresh f m hm with h | h
  · exact h1.fresh f m h
  · right; rw [h, mtimeOf_same h1.toSameButCache]

theorem statFile_stat (e : Env) (f : Nat) : Stat e (statFile e f).2 ∧
    assocGet (statFile e f).2.cache f = some (mtimeOf e f) := by
  refine ⟨⟨statFile_same e f, ?_⟩, ?_⟩
  · intro f' m hm
    by_cases e' : f' = f
    · subst e'
      simp only [statFile] at hm
      rw [assocGet_put_self] at hm
      right; exact (Option.some.inj hm).symm
    · simp only [statFile] at hm
      rw [assocGet_put_other _ _ _ _ e'] at hm
      exact Or.inl hm
  · simp only [statFile]; rw [assocGet_put_self]; rfl

/-- An entry survives later stat()s unless it is overwritten by the (same) truthful answer. -/
theorem Stat.keeps_truthful {e e' : Env} (h : Stat e e') (f : Nat)
    (hf : assocGet e.cache f = some (mtimeOf e f)) (hc : Cached e' f) : assocGet e'.cache f = some (mtimeOf e f) := by
  unfold Cached at hc
  cases hm : assocGet e'.cache f with
  | none => rw [hm] at hc; cases hc
  | some m =>
    rcases h.fresh f m hm with h' | h'
    · rw [hf] at h'; rw [← h']
    · rw [h']

theorem ensureInputs_stat (l : List Nat) : ∀ (e e' : Env) (r : Option Nat), ensureInputs e l = .ok (r, e') →
    Stat e e' ∧ (∀ f, Cached e f → Cached e' f) ∧ (r = none → ∀ f ∈ l, Cached e' f) := by
  induction l with
  | nil => intro e e' r h; unfold ensureInputs at h; cases h; exact ⟨Stat.refl _, fun _ h => h, fun _ f hf => by cases hf⟩
  | cons f fs ih =>
    intro e e' r h
    unfold ensureInputs at h
    split at h
    · rename_i m hcache
      split at h
      · cases h; exact ⟨Stat.refl _, fun _ h => h, fun hr => by cases hr⟩
      · obtain ⟨h1, h2, h3⟩ := ih e e' r h
        refine ⟨h1, h2, fun hr x hx => ?_⟩
        rcases List.mem_cons.mp hx with rfl | hx
        · exact h2 _ (by unfold Cached; rw [hcache]; rfl)
        · exact h3 hr x hx
    · split at h
      · cases h
      · simp only at h
        obtain ⟨s1, s2⟩ := statFile_stat e f
        have hc1 : ∀ x, Cached e x → Cached (statFile e f).2 x := by
          intro x hx
          unfold Cached at *
          by_cases ex : x = f
          · subst ex; rw [s2]; rfl
          · simp only [statFile]; rw [assocGet_put_other _ _ _ _ ex]; exact hx
        split at h
        · cases h; exact ⟨s1, hc1, fun hr => by cases hr⟩
        · obtain ⟨h1, h2, h3⟩ := ih _ e' r h
          refine ⟨s1.trans h1, fun x hx => h2 x (hc1 x hx), fun hr x hx => ?_⟩
          rcases List.mem_cons.mp hx with rfl | hx
          · exact h2 _ (by unfold Cached; rw [s2]; rfl)
          · exact h3 hr x hx

theorem statAllOutputs_stat (outs : List Nat) (e : Env) :
    Stat e (statAllOutputs e outs).2 ∧ (∀ f, Cached e f → Cached (statAllOutputs e outs).2 f) ∧
    ∀ o ∈ outs, assocGet (statAllOutputs e outs).2.cache o = some (mtimeOf e o) := by
  unfold statAllOutputs
  have key : ∀ (l : List Nat) (acc : Option Nat × Env), Stat e acc.2 → (∀ f, Cached e f → Cached acc.2 f) →
      Stat e (l.foldl (fun (acc : Option Nat × Env) o =>
        let (m, e') := statFile acc.2 o
        (if m.isNone && acc.1.isNone then some o else acc.1, e')) acc).2 ∧
      (∀ f, Cached e f → Cached (l.foldl (fun (acc : Option Nat × Env) o =>
        let (m, e') := statFile acc.2 o
        (if m.isNone && acc.1.isNone then some o else acc.1, e')) acc).2 f) ∧
      ∀ o, (o ∈ l ∨ assocGet acc.2.cache o = some (mtimeOf e o)) →
        assocGet (l.foldl (fun (acc : Option Nat × Env) o =>
          let (m, e') := statFile acc.2 o
          (if m.isNone && acc.1.isNone then some o else acc.1, e')) acc).2.cache o = some (mtimeOf e o) := by
    intro l
    induction l with
    | nil => intro acc h1 h2; exact ⟨h1, h2, fun o ho => by rcases ho with ho | ho; cases ho; exact ho⟩
    | cons x xs ih =>
      intro acc h1 h2
      simp only [List.foldl_cons]
      obtain ⟨s1, s2⟩ := statFile_stat acc.2 x
      have hm : mtimeOf acc.2 = mtimeOf e := funext (mtimeOf_same h1.toSameButCache)
      have hc1 : ∀ f, Cached e f → Cached (statFile acc.2 x).2 f := by
        intro f hf
        have := h2 f hf
        unfold Cached at *
        by_cases ex : f = x
        · subst ex; rw [s2]; rfl
        · simp only [statFile]; rw [assocGet_put_other _ _ _ _ ex]; exact this
      obtain ⟨r1, r2, r3⟩ := ih ((if (statFile acc.2 x).1.isNone && acc.1.isNone then some x else acc.1), (statFile acc.2 x).2)
        (h1.trans s1) hc1
      refine ⟨r1, r2, ?_⟩
      intro o ho
      apply r3
      rcases ho with ho | ho
      · rcases List.mem_cons.mp ho with rfl | ho
        · right; rw [s2, hm]
        · exact Or.inl ho
      · right
        by_cases ex : o = x
        · subst ex; rw [s2, hm]
        · show assocGet (statFile acc.2 x).2.cache o = _
          simp only [statFile]; rw [assocGet_put_other _ _ _ _ ex]; exact ho
  obtain ⟨a, b, c⟩ := key outs (none, e) (Stat.refl e) (fun _ h => h)
  exact ⟨a, b, fun o ho => c o (Or.inl ho)⟩

theorem filesMissing_stat (e : Env) (bm : BuildM) (b : Nat) :
    Stat e (filesMissing e bm b).1 ∧ (∀ f, Cached e f → Cached (filesMissing e bm b).1 f) := by
  unfold filesMissing
  split
  · exact ⟨Stat.refl e, fun _ h => h⟩
  · rename_i missing e1 h1
    obtain ⟨a, b', _⟩ := ensureInputs_stat _ _ _ _ h1
    exact ⟨a, b'⟩
  · rename_i e1 h1
    obtain ⟨a1, b1, _⟩ := ensureInputs_stat _ _ _ _ h1
    split
    · exact ⟨a1, b1⟩
    · rename_i m e2 h2
      obtain ⟨a2, b2, _⟩ := ensureInputs_stat _ _ _ _ h2
      exact ⟨a1.trans a2, fun f hf => b2 f (b1 f hf)⟩
    · rename_i e2 h2
      obtain ⟨a2, b2, _⟩ := ensureInputs_stat _ _ _ _ h2
      obtain ⟨a3, b3, _⟩ := statAllOutputs_stat bm.outs e2
      exact ⟨(a1.trans a2).trans a3, fun f hf => b3 f (b2 f (b1 f hf))⟩

theorem checkDirty_stat (e : Env) (b : Nat) : Stat e (checkDirty e b).2 := by
  unfold checkDirty
  split
  · exact Stat.refl e
  · rename_i bm _
    split
    · exact (statAllOutputs_stat bm.outs e).1
    · split <;> try exact (filesMissing_stat e bm b).1
      split <;> exact (filesMissing_stat e bm b).1

/-- What a "clean" answer tells about a non-phony step. -/
theorem checkDirty_clean_facts (e : Env) (b : Nat) (bm : BuildM) (hb : buildOf e.g b = some bm)
    (hnp : bm.cmdline.isNone = false) (h : (checkDirty e b).1 = some false) :
    (∀ f ∈ bm.dirtying ++ bm.outs, Cached (checkDirty e b).2 f) ∧
    (∀ o ∈ bm.outs, assocGet (checkDirty e b).2.cache o = some (mtimeOf e o)) ∧
    assocGet (checkDirty e b).2.hashes b = some (manifestOf (checkDirty e b).2 bm b) := by
  have h0 := h
  unfold checkDirty at h
  rw [hb] at h
  simp only [hnp, Bool.false_eq_true, if_false] at h
  -- the stat rounds must all have found their files
  have hfm : (filesMissing e bm b).2 = some false := by
    cases hm : (filesMissing e bm b).2 with
    | none => rw [hm] at h; cases h
    | some m =>
      cases m with
      | true => rw [hm] at h; cases h
      | false => rfl
  rw [hfm] at h
  simp only [] at h
  have hhash : assocGet (filesMissing e bm b).1.hashes b = some (manifestOf (filesMissing e bm b).1 bm b) := by
    cases hp : assocGet (filesMissing e bm b).1.hashes b with
    | none => rw [hp] at h; cases h
    | some prev =>
      rw [hp] at h
      simp only [Option.some.injEq, decide_eq_false_iff_not, ne_eq, Decidable.not_not] at h
      rw [h]
  have hcd : (checkDirty e b).2 = (filesMissing e bm b).1 := by
    unfold checkDirty
    rw [hb]
    simp only [hnp, Bool.false_eq_true, if_false, hfm, hhash]
  rw [hcd]
  refine ⟨?_, ?_, hhash⟩
  all_goals
    revert hfm
    unfold filesMissing
    split
    · intro hx; cases hx
    · intro hx; split at hx <;> cases hx
    · rename_i e1 h1
      obtain ⟨a1, b1, c1⟩ := ensureInputs_stat _ _ _ _ h1
      split
      · intro hx; cases hx
      · intro hx; cases hx
      · rename_i e2 h2
        obtain ⟨a2, b2, _⟩ := ensureInputs_stat _ _ _ _ h2
        obtain ⟨a3, b3, c3⟩ := statAllOutputs_stat bm.outs e2
        intro _
        first
        | (intro f hf
           rcases List.mem_append.mp hf with hf | hf
           · exact b3 f (b2 f (c1 rfl f hf))
           · unfold Cached; rw [c3 f hf]; rfl)
        | (intro o ho
           rw [c3 o ho, mtimeOf_same (a1.trans a2).toSameButCache])

/-- A phony step's check stat()s its outputs. -/
theorem checkDirty_phony_facts (e : Env) (b : Nat) (bm : BuildM) (hb : buildOf e.g b = some bm)
    (hp : bm.cmdline.isNone = true) :
    ∀ o ∈ bm.outs, assocGet (checkDirty e b).2.cache o = some (mtimeOf e o) := by
  unfold checkDirty
  rw [hb]
  simp only [hp, if_true]
  exact (statAllOutputs_stat bm.outs e).2.2

/-! ### `record_finished` without reported dependencies -/

theorem statFold_stat (l : List Nat) (e : Env) :
    Stat e (l.foldl (fun (acc : Bool × Env) f => let (m, e') := statFile acc.2 f; (acc.1 || m.isNone, e')) (false, e)).2 ∧
    (∀ f, Cached e f → Cached (l.foldl (fun (acc : Bool × Env) f => let (m, e') := statFile acc.2 f; (acc.1 || m.isNone, e')) (false, e)).2 f) ∧
    (∀ f ∈ l, assocGet (l.foldl (fun (acc : Bool × Env) f => let (m, e') := statFile acc.2 f; (acc.1 || m.isNone, e')) (false, e)).2.cache f = some (mtimeOf e f)) ∧
    ((∀ f ∈ l, (mtimeOf e f).isSome = true) →
      (l.foldl (fun (acc : Bool × Env) f => let (m, e') := statFile acc.2 f; (acc.1 || m.isNone, e')) (false, e)).1 = false) := by
  have key : ∀ (l : List Nat) (acc : Bool × Env), Stat e acc.2 → (∀ f, Cached e f → Cached acc.2 f) →
      Stat e (l.foldl (fun (acc : Bool × Env) f => let (m, e') := statFile acc.2 f; (acc.1 || m.isNone, e')) acc).2 ∧
      (∀ f, Cached e f → Cached (l.foldl (fun (acc : Bool × Env) f => let (m, e') := statFile acc.2 f; (acc.1 || m.isNone, e')) acc).2 f) ∧
      (∀ f, (f ∈ l ∨ assocGet acc.2.cache f = some (mtimeOf e f)) →
        assocGet (l.foldl (fun (acc : Bool × Env) f => let (m, e') := statFile acc.2 f; (acc.1 || m.isNone, e')) acc).2.cache f = some (mtimeOf e f)) ∧
      (acc.1 = false → (∀ f ∈ l, (mtimeOf e f).isSome = true) →
        (l.foldl (fun (acc : Bool × Env) f => let (m, e') := statFile acc.2 f; (acc.1 || m.isNone, e')) acc).1 = false) := by
    intro l
    induction l with
    | nil => intro acc h1 h2; exact ⟨h1, h2, fun f hf => by rcases hf with hf | hf; cases hf; exact hf, fun h _ => h⟩
    | cons x xs ih =>
      intro acc h1 h2
      simp only [List.foldl_cons]
      obtain ⟨s1, s2⟩ := statFile_stat acc.2 x
      have hm : mtimeOf acc.2 = mtimeOf e := funext (mtimeOf_same h1.toSameButCache)
      have hc1 : ∀ f, Cached e f → Cached (statFile acc.2 x).2 f := by
        intro f hf
        have := h2 f hf
        unfold Cached at *
        by_cases ex : f = x
        · subst ex; rw [s2]; rfl
        · simp only [statFile]; rw [assocGet_put_other _ _ _ _ ex]; exact this
      obtain ⟨r1, r2, r3, r4⟩ := ih (acc.1 || (statFile acc.2 x).1.isNone, (statFile acc.2 x).2) (h1.trans s1) hc1
      refine ⟨r1, r2, ?_, ?_⟩
      · intro f hf
        apply r3
        rcases hf with hf | hf
        · rcases List.mem_cons.mp hf with rfl | hf
          · right; rw [s2, hm]
          · exact Or.inl hf
        · right
          by_cases ex : f = x
          · subst ex; rw [s2, hm]
          · show assocGet (statFile acc.2 x).2.cache f = _
            simp only [statFile]; rw [assocGet_put_other _ _ _ _ ex]; exact hf
      · intro ha hall
        apply r4
        · have hx := hall x (by simp)
          rw [statFile_fst, hm]
          simp only [ha, Bool.false_or]
          cases h : mtimeOf e x <;> simp_all
        · exact fun f hf => hall f (by simp [hf])
  obtain ⟨a, b, c, d⟩ := key l (false, e) (Stat.refl e) (fun _ h => h)
  exact ⟨a, b, fun f hf => c f (Or.inl hf), d rfl⟩

theorem keepDeps_nil (e : Env) (dirtying : List Nat) : keepDeps e dirtying [] [] = (e, []) := rfl

theorem statAllOutputs_none (outs : List Nat) (e : Env) (hp : ∀ o ∈ outs, (mtimeOf e o).isSome = true) :
    (statAllOutputs e outs).1 = none := by
  unfold statAllOutputs
  have key : ∀ (l : List Nat) (acc : Option Nat × Env), acc.1 = none → SameButCache e acc.2 →
      (∀ o ∈ l, (mtimeOf e o).isSome = true) →
      (l.foldl (fun (acc : Option Nat × Env) o =>
        let (m, e') := statFile acc.2 o
        (if m.isNone && acc.1.isNone then some o else acc.1, e')) acc).1 = none := by
    intro l
    induction l with
    | nil => intro acc h1 _ _; exact h1
    | cons o l ih =>
      intro acc h1 h2 h3
      simp only [List.foldl_cons]
      have hs : (statFile acc.2 o).1.isNone = false := by
        rw [statFile_fst, mtimeOf_same h2]
        have := h3 o (by simp); cases h : mtimeOf e o <;> simp_all
      exact ih _ (by simp [hs, h1]) (h2.trans (statFile_same _ _)) (fun x hx => h3 x (by simp [hx]))
  exact key outs (none, e) rfl (SameButCache.refl e) hp

theorem manifestOf_log (e : Env) (l : List Rec) (bm : BuildM) (b : Nat) :
    manifestOf { e with log := l } bm b = manifestOf e bm b := rfl

/-- `record_finished` when the command reported no dependencies: the step's discovered list
    becomes empty, its inputs and outputs are stat()ed afresh, and — if none is missing — one
    record with the manifest of that fresh state is appended. -/
theorem recordFinished_plain (e : Env) (b : Nat) (bm : BuildM) (hb : buildOf e.g b = some bm) :
    (recordFinished e b none).g = e.g ∧ (recordFinished e b none).fs = e.fs ∧
    (recordFinished e b none).hashes = e.hashes ∧ (recordFinished e b none).clock = e.clock ∧
    (∀ x, discOf (recordFinished e b none) x = if x = b then [] else discOf e x) ∧
    (∀ f m, assocGet (recordFinished e b none).cache f = some m → assocGet e.cache f = some m ∨ m = mtimeOf e f) ∧
    (∀ f ∈ bm.dirtying ++ bm.outs, assocGet (recordFinished e b none).cache f = some (mtimeOf e f)) ∧
    ((recordFinished e b none).log = e.log ∨
      (recordFinished e b none).log = e.log ++ [⟨bm.outs.map (fileName e.g), [], manifestOf (recordFinished e b none) bm b⟩]) ∧
    ((∀ f ∈ bm.dirtying ++ bm.outs, (mtimeOf e f).isSome = true) →
      (recordFinished e b none).log = e.log ++ [⟨bm.outs.map (fileName e.g), [], manifestOf (recordFinished e b none) bm b⟩]) := by
  -- the environment after the re-stat
  let e2 : Env := { e with disc := assocPut e.disc b [] }
  have hme2 : mtimeOf e2 = mtimeOf e := rfl
  obtain ⟨f1, f2, f3, f4⟩ := statFold_stat (bm.dirtying ++ []) e2
  let st := (bm.dirtying ++ []).foldl (fun (acc : Bool × Env) f => let (m, e') := statFile acc.2 f; (acc.1 || m.isNone, e')) (false, e2)
  obtain ⟨o1, o2, o3⟩ := statAllOutputs_stat bm.outs st.2
  let r := (statAllOutputs st.2 bm.outs).2
  have hstat : Stat e2 r := f1.trans o1
  have hmst : mtimeOf st.2 = mtimeOf e := funext (fun f => by rw [mtimeOf_same f1.toSameButCache]; rfl)
  have hrestat : restat e bm b none = (st.1, (statAllOutputs st.2 bm.outs).1, r) := rfl
  have hdisc : ∀ x, discOf r x = if x = b then [] else discOf e x := by
    intro x
    unfold discOf
    rw [hstat.disc]
    by_cases hx : x = b
    · subst hx; simp [e2, assocGet_put_self]
    · simp only [hx, if_false, e2]; rw [assocGet_put_other _ _ _ _ hx]
  have hcache : ∀ f m, assocGet r.cache f = some m → assocGet e.cache f = some m ∨ m = mtimeOf e f := by
    intro f m hm
    rcases hstat.fresh f m hm with h | h
    · exact Or.inl h
    · exact Or.inr h
  have hfresh : ∀ f ∈ bm.dirtying ++ bm.outs, assocGet r.cache f = some (mtimeOf e f) := by
    intro f hf
    rcases List.mem_append.mp hf with hf | hf
    · have h1 := f3 f (by simp [hf])
      have := Stat.keeps_truthful o1 f (by rw [h1, hmst, hme2]) (o2 f (by unfold Cached; rw [h1]; rfl))
      rw [this, hmst]
    · rw [o3 f hf, hmst]
  have hdiscb : discOf r b = [] := by rw [hdisc b]; simp
  have hrec : (⟨bm.outs.map (fileName r.g), (discOf r b).map (fileName r.g), manifestOf r bm b⟩ : Rec) =
      ⟨bm.outs.map (fileName e.g), [], manifestOf r bm b⟩ := by
    rw [hdiscb, hstat.g]; rfl
  unfold recordFinished
  rw [hb]
  simp only [hrestat]
  by_cases hmiss : (st.1 || (statAllOutputs st.2 bm.outs).1.isSome) = true
  · rw [if_pos hmiss]
    refine ⟨hstat.g, hstat.fs, hstat.hashes, hstat.clock, hdisc, hcache, hfresh, Or.inl hstat.log, ?_⟩
    intro hall
    exfalso
    have h1 : st.1 = false := f4 (fun f hf => hall f (by simp at hf; simp [hf]))
    have h2 : (statAllOutputs st.2 bm.outs).1 = none :=
      statAllOutputs_none bm.outs st.2 (fun o ho => by rw [hmst]; exact hall o (by simp [ho]))
    rw [h1, h2] at hmiss
    simp at hmiss
  · rw [if_neg hmiss]
    have hlog : ({ r with log := r.log ++ [⟨bm.outs.map (fileName r.g), (discOf r b).map (fileName r.g), manifestOf r bm b⟩] } : Env).log
        = e.log ++ [⟨bm.outs.map (fileName e.g), [], manifestOf r bm b⟩] := by
      show r.log ++ _ = _
      rw [hrec, hstat.log]
    exact ⟨hstat.g, hstat.fs, hstat.hashes, hstat.clock, hdisc, hcache, hfresh, Or.inr hlog, fun _ => hlog⟩

/-! ### The joint invariant -/

structure Plain (g : GraphM) : Prop where
  noDeps : ∀ b bm, buildOf g b = some bm → readsDeps bm = false
  noRw : ∀ b bm, buildOf g b = some bm → isRw bm = false
  outsNe : ∀ b bm, buildOf g b = some bm → bm.outs ≠ []

def newLog (e0 e : Env) : List Rec := e.log.drop e0.log.length

/-- The signatures the next start-up would attach (graph as loaded, log as it is now). -/
def inForce (e0 e : Env) : List (Nat × Manifest) := hashesOf e0.g (newLog e0 e) e0.hashes

def AllPresent (e : Env) (bm : BuildM) : Prop := ∀ f ∈ bm.dirtying ++ bm.outs, (mtimeOf e f).isSome = true

structure JS (e0 : Env) (s : S) (e : Env) : Prop where
  g : e.g = e0.g
  hashes : e.hashes = e0.hashes
  nodisc : ∀ b, discOf e b = []
  logPre : e0.log <+: e.log
  newRecs : ∀ r ∈ newLog e0 e, r.deps = [] ∧ ∃ b bm, s.st b = .done ∧ buildOf e0.g b = some bm ∧ r.outs = bm.outs.map (fileName e0.g)
  cache : ∀ f m, f < e0.g.files.length → assocGet e.cache f = some m →
    m = mtimeOf e f ∨ ∃ p, fileInput e0.g f = some p ∧ s.st p ≠ .done
  stable : ∀ b bm, s.st b = .done → buildOf e0.g b = some bm →
    ∀ f ∈ bm.dirtying, ∀ p, fileInput e0.g f = some p → s.st p = .done
  settled : ∀ b bm, s.st b = .done → buildOf e0.g b = some bm → bm.cmdline.isNone = false → AllPresent e bm →
    assocGet (inForce e0 e) b = some (manifestFs e bm b)

theorem JS.ext {e0 : Env} {s s' : S} {e : Env} (d : DoneEq s s') (j : JS e0 s e) : JS e0 s' e := by
  refine ⟨j.g, j.hashes, j.nodisc, j.logPre, ?_, ?_, ?_, ?_⟩
  · intro r hr
    obtain ⟨hd, b, bm, h1, h2, h3⟩ := j.newRecs r hr
    exact ⟨hd, b, bm, (d b).mpr h1, h2, h3⟩
  · intro f m hf hm
    rcases j.cache f m hf hm with h | ⟨p, hp, hnd⟩
    · exact Or.inl h
    · exact Or.inr ⟨p, hp, fun h => hnd ((d p).mp h)⟩
  · intro b bm hb hbm f hf p hp
    exact (d p).mpr (j.stable b bm ((d b).mp hb) hbm f hf p hp)
  · intro b bm hb hbm hnp hall
    exact j.settled b bm ((d b).mp hb) hbm hnp hall

/-- Valid ids, distinct files: distinct names. -/
theorem name_ne_of_not_mem (g : GraphM) (inv : GInv g) (b : Nat) (bm : BuildM) (hb : buildOf g b = some bm)
    (f : Nat) (hf : f < g.files.length) (hnot : f ∉ bm.outs) : ∀ o ∈ bm.outs, fileName g o ≠ fileName g f := by
  intro o ho hname
  obtain ⟨fmo, hfmo, _⟩ := inv.outs b bm hb o ho
  have hff : g.files[f]? = some g.files[f] := List.getElem?_eq_getElem hf
  have : o = f := inv.names o f fmo g.files[f] hfmo hff (by
    unfold fileName at hname; rw [hfmo, hff] at hname; simpa using hname)
  exact hnot (this ▸ ho)

theorem manifestOf_eq_fs' (e : Env) (bm : BuildM) (b : Nat)
    (hfresh : ∀ f ∈ bm.dirtying ++ discOf e b ++ bm.outs, assocGet e.cache f = some (mtimeOf e f)) :
    manifestOf e bm b = manifestFs e bm b := by
  unfold manifestOf manifestFs
  have stamp_eq : ∀ f, assocGet e.cache f = some (mtimeOf e f) →
      (fileName e.g f, ((assocGet e.cache f).getD none).getD 0) = (fileName e.g f, (mtimeOf e f).getD 0) := by
    intro f hf; rw [hf]; rfl
  simp only [Manifest.mk.injEq, true_and]
  refine ⟨?_, ?_, ?_⟩
  · apply List.map_congr_left; intro f hf; exact stamp_eq f (hfresh f (by simp [hf]))
  · apply List.map_congr_left; intro f hf; exact stamp_eq f (hfresh f (by simp [hf]))
  · apply List.map_congr_left; intro f hf; exact stamp_eq f (hfresh f (by simp [hf]))

theorem manifestFs_congr (e e' : Env) (bm : BuildM) (b : Nat) (hg : e'.g = e.g) (hd : discOf e' b = discOf e b)
    (hm : ∀ f ∈ bm.dirtying ++ discOf e b ++ bm.outs, mtimeOf e' f = mtimeOf e f) :
    manifestFs e' bm b = manifestFs e bm b := by
  unfold manifestFs
  rw [hg, hd]
  simp only [Manifest.mk.injEq, true_and]
  refine ⟨?_, ?_, ?_⟩
  · apply List.map_congr_left; intro f hf; rw [hm f (by simp [hf])]
  · apply List.map_congr_left; intro f hf; rw [hm f (by simp [hf])]
  · apply List.map_congr_left; intro f hf; rw [hm f (by simp [hf])]

theorem allPresent_same {e e' : Env} (h : SameButCache e e') (bm : BuildM) : AllPresent e' bm ↔ AllPresent e bm := by
  unfold AllPresent
  constructor <;> intro hp f hf
  · rw [← mtimeOf_same h]; exact hp f hf
  · rw [mtimeOf_same h]; exact hp f hf

theorem newLog_same {e0 e e' : Env} (h : e'.log = e.log) : newLog e0 e' = newLog e0 e := by unfold newLog; rw [h]
theorem inForce_same {e0 e e' : Env} (h : e'.log = e.log) : inForce e0 e' = inForce e0 e := by
  unfold inForce; rw [newLog_same h]

/-- Any dirtiness check keeps the invariant (the scheduler state unchanged). -/
theorem js_check (e0 : Env) {s : S} {e : Env} (b : Nat) (j : JS e0 s e) : JS e0 s (checkDirty e b).2 := by
  have st := checkDirty_stat e b
  refine ⟨st.g.trans j.g, st.hashes.trans j.hashes, ?_, by rw [st.log]; exact j.logPre, ?_, ?_, j.stable, ?_⟩
  · intro x; unfold discOf; rw [st.disc]; exact j.nodisc x
  · intro r hr; rw [newLog_same st.log] at hr; exact j.newRecs r hr
  · intro f m hf hm
    rw [mtimeOf_same st.toSameButCache]
    rcases st.fresh f m hm with h | h
    · exact j.cache f m hf h
    · exact Or.inl h
  · intro b' bm hb hbm hnp hall
    rw [inForce_same st.log, manifestFs_same st.toSameButCache]
    exact j.settled b' bm hb hbm hnp ((allPresent_same st.toSameButCache bm).mp hall)

theorem ginv_prod_build (g : GraphM) (inv : GInv g) (f p : Nat) (h : fileInput g f = some p) :
    ∃ bm, buildOf g p = some bm ∧ f ∈ bm.outs := by
  unfold fileInput at h
  cases hf : g.files[f]? with
  | none => rw [hf] at h; cases h
  | some fm =>
    rw [hf] at h
    exact inv.prod f fm p hf h

/-- A step found clean joins the Done set with everything the invariant asks of it. -/
theorem js_check_clean (e0 : Env) (inv0 : GInv e0.g) {s s' : S} {e : Env} (b : Nat) (j : JS e0 s e)
    (hnd : s.st b ≠ .done) (hanc : ∀ p, Anc (schedGraph e0.g) b p → s.st p = .done)
    (hc : (checkDirty e b).1 = some false) (da : DoneAdd s s' b) : JS e0 s' (checkDirty e b).2 := by
  have j1 := js_check e0 b j
  have st := checkDirty_stat e b
  have hsub : ∀ x, s.st x = .done → s'.st x = .done := fun x hx => (da x).mpr (Or.inr hx)
  have hnew : s'.st b = .done := (da b).mpr (Or.inl rfl)
  have hother : ∀ x, x ≠ b → s.st x ≠ .done → s'.st x ≠ .done := by
    intro x hx hn h
    rcases (da x).mp h with h' | h'
    · exact hx h'
    · exact hn h'
  -- outputs of `b` were stat()ed by this check
  have houts : ∀ bm, buildOf e0.g b = some bm → ∀ o ∈ bm.outs,
      assocGet (checkDirty e b).2.cache o = some (mtimeOf e o) := by
    intro bm hbm o ho
    have hbe : buildOf e.g b = some bm := by rw [j.g]; exact hbm
    by_cases hp : bm.cmdline.isNone = true
    · exact checkDirty_phony_facts e b bm hbe hp o ho
    · have hp' : bm.cmdline.isNone = false := by cases h : bm.cmdline.isNone with | false => rfl | true => exact absurd h hp
      exact (checkDirty_clean_facts e b bm hbe hp' hc).2.1 o ho
  have hstable : ∀ b' bm, s'.st b' = .done → buildOf e0.g b' = some bm →
      ∀ f ∈ bm.dirtying, ∀ p, fileInput e0.g f = some p → s'.st p = .done := by
    intro b' bm hb hbm f hf p hp
    rcases (da b').mp hb with rfl | hb'
    · apply hsub
      apply hanc
      exact Anc.direct (f := f) (by rw [sg_ordering _ _ _ hbm]; exact dirtying_sub_ordering bm f hf)
        (by rw [sg_producer]; exact hp)
    · exact hsub p (j.stable b' bm hb' hbm f hf p hp)
  have hcache : ∀ f m, f < e0.g.files.length → assocGet (checkDirty e b).2.cache f = some m →
      m = mtimeOf (checkDirty e b).2 f ∨ ∃ p, fileInput e0.g f = some p ∧ s'.st p ≠ .done := by
    intro f m hf hm
    rcases j1.cache f m hf hm with h | ⟨p, hp, hpn⟩
    · exact Or.inl h
    · by_cases hpb : p = b
      · subst hpb
        obtain ⟨bm, hbm, hfo⟩ := ginv_prod_build e0.g inv0 f p hp
        left
        rw [houts bm hbm f hfo] at hm
        rw [mtimeOf_same st.toSameButCache]
        exact (Option.some.inj hm).symm
      · exact Or.inr ⟨p, hp, hother p hpb hpn⟩
  refine ⟨j1.g, j1.hashes, j1.nodisc, j1.logPre, ?_, hcache, hstable, ?_⟩
  · intro r hr
    obtain ⟨hd, x, bm, h1, h2, h3⟩ := j1.newRecs r hr
    exact ⟨hd, x, bm, hsub x h1, h2, h3⟩
  · intro b' bm hb hbm hnp hall
    rcases (da b').mp hb with rfl | hb'
    · -- the step just found clean
      have hbe : buildOf e.g b' = some bm := by rw [j.g]; exact hbm
      obtain ⟨c1, c2, c3⟩ := checkDirty_clean_facts e b' bm hbe hnp hc
      have hd : discOf (checkDirty e b').2 b' = [] := j1.nodisc b'
      have ids := ginv_idsOK e0.g inv0
      have hfresh : ∀ f ∈ bm.dirtying ++ discOf (checkDirty e b').2 b' ++ bm.outs,
          assocGet (checkDirty e b').2.cache f = some (mtimeOf (checkDirty e b').2 f) := by
        intro f hf
        rw [hd] at hf
        simp only [List.append_nil, List.mem_append] at hf
        rcases hf with hf | hf
        · have hcached := c1 f (by simp [hf])
          unfold Cached at hcached
          cases hm : assocGet (checkDirty e b').2.cache f with
          | none => rw [hm] at hcached; cases hcached
          | some m =>
            have hfm : f ∈ bm.ins := List.mem_of_mem_take hf
            rcases hcache f m (ids b' bm hbm f (by simp [hfm])) hm with h | ⟨p, hp, hpn⟩
            · rw [h]
            · exact absurd (hstable b' bm hb hbm f hf p hp) hpn
        · rw [c2 f hf, mtimeOf_same st.toSameButCache]
      rw [← manifestOf_eq_fs' _ bm b' hfresh, ← c3, st.hashes, j.hashes]
      -- no new record belongs to this step: the signature in force is the loaded one
      unfold inForce
      apply hashesOf_other
      intro r hr hatt
      obtain ⟨_, x, bmx, hx1, hx2, hx3⟩ := j1.newRecs r hr
      rw [hx3] at hatt
      have := attributed_unique e0.g inv0 b' x bmx hx2 hatt
      subst this
      exact hnd hx1
    · exact j1.settled b' bm hb' hbm hnp hall

theorem newLog_snoc (e0 : Env) (l : List Rec) (r : Rec) (h : e0.log <+: l) :
    (l ++ [r]).drop e0.log.length = l.drop e0.log.length ++ [r] := by
  obtain ⟨t, rfl⟩ := h
  simp [List.drop_append]

/-- The step `b` finishes (its command succeeded, or `-t restat` adopts it): `record_finished`
    runs in an environment `e1` that differs from the invariant's `e` at most in the state of
    `b`'s own outputs; `b` joins the Done set. -/
theorem js_record (e0 : Env) (inv0 : GInv e0.g) (plain : Plain e0.g) {s s' : S} {e e1 : Env} (b : Nat) (bm : BuildM)
    (hbm : buildOf e0.g b = some bm) (j : JS e0 s e)
    (hnd : s.st b ≠ .done) (hanc : ∀ p, Anc (schedGraph e0.g) b p → s.st p = .done) (da : DoneAdd s s' b)
    (h1g : e1.g = e.g) (h1l : e1.log = e.log) (h1h : e1.hashes = e.hashes) (h1d : e1.disc = e.disc)
    (h1c : e1.cache = e.cache)
    (h1m : ∀ f, f < e0.g.files.length → f ∉ bm.outs → mtimeOf e1 f = mtimeOf e f) :
    JS e0 s' (recordFinished e1 b none) := by
  have hb1 : buildOf e1.g b = some bm := by rw [h1g, j.g]; exact hbm
  obtain ⟨r1, r2, r3, r4, r5, r6, r7, r8, r9⟩ := recordFinished_plain e1 b bm hb1
  have ids := ginv_idsOK e0.g inv0
  have hsub : ∀ x, s.st x = .done → s'.st x = .done := fun x hx => (da x).mpr (Or.inr hx)
  have hother : ∀ x, x ≠ b → s.st x ≠ .done → s'.st x ≠ .done := by
    intro x hx hn h
    rcases (da x).mp h with h' | h'
    · exact hx h'
    · exact hn h'
  have hmr : ∀ f, mtimeOf (recordFinished e1 b none) f = mtimeOf e1 f := by
    intro f; unfold mtimeOf; rw [r1, r2]
  have hstable : ∀ b' bm', s'.st b' = .done → buildOf e0.g b' = some bm' →
      ∀ f ∈ bm'.dirtying, ∀ p, fileInput e0.g f = some p → s'.st p = .done := by
    intro b' bm' hb hbm' f hf p hp
    rcases (da b').mp hb with rfl | hb'
    · apply hsub
      apply hanc
      exact Anc.direct (f := f) (by rw [sg_ordering _ _ _ hbm']; exact dirtying_sub_ordering bm' f hf)
        (by rw [sg_producer]; exact hp)
    · exact hsub p (j.stable b' bm' hb' hbm' f hf p hp)
  -- files of an older Done step are not outputs of `b`
  have hfiles_old : ∀ b' bm', b' ≠ b → s.st b' = .done → buildOf e0.g b' = some bm' →
      ∀ f ∈ bm'.dirtying ++ bm'.outs, f < e0.g.files.length ∧ f ∉ bm.outs := by
    intro b' bm' hne hb' hbm' f hf
    refine ⟨ids b' bm' hbm' f (by
      rcases List.mem_append.mp hf with h | h
      · exact List.mem_append.mpr (Or.inl (List.mem_of_mem_take h))
      · exact List.mem_append.mpr (Or.inr h)), ?_⟩
    intro hfo
    obtain ⟨fm, hfm, hin⟩ := inv0.outs b bm hbm f hfo
    have hfi : fileInput e0.g f = some b := by unfold fileInput; rw [hfm]; exact hin
    rcases List.mem_append.mp hf with h | h
    · exact hnd (j.stable b' bm' hb' hbm' f h b hfi)
    · obtain ⟨fm', hfm', hin'⟩ := inv0.outs b' bm' hbm' f h
      rw [hfm] at hfm'; cases hfm'
      rw [hin] at hin'; exact hne (Option.some.inj hin').symm
  have hlogPre : e0.log <+: (recordFinished e1 b none).log := by
    rcases r8 with h | h
    · rw [h, h1l]; exact j.logPre
    · rw [h, h1l]; exact j.logPre.trans (List.prefix_append _ _)
  have hnewLog : newLog e0 (recordFinished e1 b none) = newLog e0 e ∨
      newLog e0 (recordFinished e1 b none) = newLog e0 e ++
        [⟨bm.outs.map (fileName e1.g), [], manifestOf (recordFinished e1 b none) bm b⟩] := by
    rcases r8 with h | h
    · left; unfold newLog; rw [h, h1l]
    · right; unfold newLog; rw [h, h1l]; exact newLog_snoc e0 e.log _ j.logPre
  have hattr : Db.attributeRec (producerByName e0.g) (bm.outs.map (fileName e1.g)) = some b := by
    rw [h1g, j.g]; exact attributed_own e0.g inv0 b bm hbm (plain.outsNe b bm hbm)
  refine ⟨r1.trans (h1g.trans j.g), r3.trans (h1h.trans j.hashes), ?_, hlogPre, ?_, ?_, hstable, ?_⟩
  · intro x
    rw [r5 x]
    split
    · rfl
    · unfold discOf; rw [h1d]; exact j.nodisc x
  · intro r hr
    rcases hnewLog with h | h
    · rw [h] at hr
      obtain ⟨hd, x, bmx, h1, h2, h3⟩ := j.newRecs r hr
      exact ⟨hd, x, bmx, hsub x h1, h2, h3⟩
    · rw [h] at hr
      rcases List.mem_append.mp hr with hr | hr
      · obtain ⟨hd, x, bmx, h1, h2, h3⟩ := j.newRecs r hr
        exact ⟨hd, x, bmx, hsub x h1, h2, h3⟩
      · simp only [List.mem_singleton] at hr
        subst hr
        exact ⟨rfl, b, bm, (da b).mpr (Or.inl rfl), hbm, by simp only []; rw [h1g, j.g]⟩
  · intro f m hf hm
    rw [hmr]
    by_cases hfb : f ∈ bm.dirtying ++ bm.outs
    · left
      rw [r7 f hfb] at hm
      exact (Option.some.inj hm).symm
    · have hfo : f ∉ bm.outs := fun h => hfb (List.mem_append.mpr (Or.inr h))
      rcases r6 f m hm with h | h
      · rw [h1c] at h
        rcases j.cache f m hf h with h' | ⟨p, hp, hpn⟩
        · left; rw [h', h1m f hf hfo]
        · right
          refine ⟨p, hp, hother p ?_ hpn⟩
          intro hpb
          subst hpb
          obtain ⟨bm2, hbm2, hfo2⟩ := ginv_prod_build e0.g inv0 f p hp
          rw [hbm] at hbm2; cases hbm2
          exact hfo hfo2
      · exact Or.inl h
  · intro b' bm' hb hbm' hnp hall
    rcases (da b').mp hb with rfl | hb'
    · -- the step that just finished: its record is the manifest of the fresh state
      rw [hbm] at hbm'; cases hbm'
      have hall1 : ∀ f ∈ bm.dirtying ++ bm.outs, (mtimeOf e1 f).isSome = true := by
        intro f hf; rw [← hmr]; exact hall f hf
      have hlog := r9 hall1
      have hd : discOf (recordFinished e1 b' none) b' = [] := by rw [r5 b']; simp
      have hfresh : ∀ f ∈ bm.dirtying ++ discOf (recordFinished e1 b' none) b' ++ bm.outs,
          assocGet (recordFinished e1 b' none).cache f = some (mtimeOf (recordFinished e1 b' none) f) := by
        intro f hf
        rw [hd] at hf
        simp only [List.append_nil] at hf
        rw [r7 f hf, hmr]
      rw [← manifestOf_eq_fs' _ bm b' hfresh]
      unfold inForce
      have hnl : newLog e0 (recordFinished e1 b' none) = newLog e0 e ++
          [⟨bm.outs.map (fileName e1.g), [], manifestOf (recordFinished e1 b' none) bm b'⟩] := by
        unfold newLog; rw [hlog, h1l]; exact newLog_snoc e0 e.log _ j.logPre
      rw [hnl]
      exact (hashesOf_snoc e0.g _ _ _ b' hattr).1
    · -- an older Done step: its files were not touched, the new record is not its own
      have hne : b' ≠ b := fun h => hnd (h ▸ hb')
      have hfo := hfiles_old b' bm' hne hb' hbm'
      have hmt : ∀ f ∈ bm'.dirtying ++ bm'.outs, mtimeOf (recordFinished e1 b none) f = mtimeOf e f := by
        intro f hf
        rw [hmr, h1m f (hfo f hf).1 (hfo f hf).2]
      have hall0 : AllPresent e bm' := fun f hf => by rw [← hmt f hf]; exact hall f hf
      have hset := j.settled b' bm' hb' hbm' hnp hall0
      have hmf : manifestFs (recordFinished e1 b none) bm' b' = manifestFs e bm' b' := by
        apply manifestFs_congr
        · exact r1.trans h1g
        · rw [r5 b']; simp only [hne, if_false]; unfold discOf; rw [h1d]
        · intro f hf
          rw [j.nodisc b'] at hf
          simp only [List.append_nil] at hf
          exact hmt f hf
      rw [hmf, ← hset]
      unfold inForce
      rcases hnewLog with h | h
      · rw [h]
      · rw [h]
        exact (hashesOf_snoc e0.g _ _ _ b hattr).2 b' hne

theorem js_add_nobuild (e0 : Env) (inv0 : GInv e0.g) {s s' : S} {e : Env} (b : Nat) (hnone : buildOf e0.g b = none)
    (j : JS e0 s e) (da : DoneAdd s s' b) : JS e0 s' e := by
  have hsub : ∀ x, s.st x = .done → s'.st x = .done := fun x hx => (da x).mpr (Or.inr hx)
  refine ⟨j.g, j.hashes, j.nodisc, j.logPre, ?_, ?_, ?_, ?_⟩
  · intro r hr
    obtain ⟨hd, x, bmx, h1, h2, h3⟩ := j.newRecs r hr
    exact ⟨hd, x, bmx, hsub x h1, h2, h3⟩
  · intro f m hf hm
    rcases j.cache f m hf hm with h | ⟨p, hp, hpn⟩
    · exact Or.inl h
    · refine Or.inr ⟨p, hp, ?_⟩
      intro hd
      rcases (da p).mp hd with rfl | h
      · obtain ⟨bm, hbm, _⟩ := ginv_prod_build e0.g inv0 f p hp
        rw [hnone] at hbm; cases hbm
      · exact hpn h
  · intro b' bm hb hbm f hf p hp
    rcases (da b').mp hb with rfl | hb'
    · rw [hnone] at hbm; cases hbm
    · exact hsub p (j.stable b' bm hb' hbm f hf p hp)
  · intro b' bm hb hbm hnp hall
    rcases (da b').mp hb with rfl | hb'
    · rw [hnone] at hbm; cases hbm
    · exact j.settled b' bm hb' hbm hnp hall

/-- The environment operations of an invocation meet the specification for `JS`. -/
theorem js_spec (e0 : Env) (inv0 : GInv e0.g) (plain : Plain e0.g) (adopt : Bool) (perms : List (List Nat))
    (fin : List (Nat × Term)) : DoneSpec (schedGraph e0.g) (choices adopt perms fin) (JS e0) where
  ext := fun s s' e d j => j.ext d
  clean := fun s s' e b j hnd hanc hc da => js_check_clean e0 inv0 b j hnd hanc hc da
  dirty := fun s e b j _ _ _ => js_check e0 b j
  adopt := by
    intro s s' e b j hnd hanc da
    show JS e0 s' (recordFinished e b none)
    cases hbm : buildOf e0.g b with
    | none =>
      have : recordFinished e b none = e := by
        unfold recordFinished; rw [j.g, hbm]
      rw [this]
      exact js_add_nobuild e0 inv0 b hbm j da
    | some bm =>
      exact js_record e0 inv0 plain b bm hbm j hnd hanc da rfl rfl rfl rfl rfl (fun _ _ _ => rfl)
  success := by
    intro s s' e b j hnd hanc da
    show JS e0 s' (onSuccess e b)
    cases hbm : buildOf e0.g b with
    | none =>
      have : onSuccess e b = e := by unfold onSuccess; rw [j.g, hbm]
      rw [this]
      exact js_add_nobuild e0 inv0 b hbm j da
    | some bm =>
      have hbe : buildOf e.g b = some bm := by rw [j.g]; exact hbm
      have hso : onSuccess e b = recordFinished (runCommand e b) b none := by
        unfold onSuccess; rw [hbe]; simp only [plain.noDeps b bm hbm, Bool.false_eq_true, if_false]
      rw [hso]
      obtain ⟨c1, c2, c3, _, c5⟩ := runCommand_frame e b
      have hdisc : (runCommand e b).disc = e.disc := by unfold runCommand; rw [hbe]; simp only []; split <;> rfl
      have hcache : (runCommand e b).cache = e.cache := by unfold runCommand; rw [hbe]; simp only []; split <;> rfl
      refine js_record e0 inv0 plain b bm hbm j hnd hanc da c3 c1 c2 hdisc hcache ?_
      intro f hf hfo
      unfold mtimeOf
      rw [c3, c5]
      intro bm' hb'
      rw [hbe] at hb'; cases hb'
      constructor
      · intro o ho
        rw [j.g]
        exact name_ne_of_not_mem e0.g inv0 b bm hbm f hf hfo o ho
      · intro hrw
        rw [plain.noRw b bm hbm] at hrw; cases hrw

end N2V.Work
