/-
  Loading is total: for every file system content and manifest name, `load::read` (up to opening
  the log) returns a loader or one of its diagnostics.  The internal outcomes of the model — a
  read outside a buffer, an unknown file id, a panic in path canonicalisation, a loop that runs out
  of fuel — are unreachable.
-/
import N2V.Lemmas.LoadInv
import N2V.Lemmas.ParseTotal
import N2V.Lemmas.Canon
namespace N2V.Load
open N2V N2V.Scanner N2V.Eval N2V.Parse
open N2V.Depfile (G)

/-- The errors `load::read` reports to the user. -/
def Diagnosed : LoadErr → Prop
  | .parse _ _ ofs view => ∃ buf : Array UInt8, ofs ≤ buf.size ∧ view = formatParseError buf ofs
  | .dupOutput _ _ _ => True
  | .other k => k ∈ ["empty path", "read", "include nesting", "unknown rule", "invalid deps attribute",
      "rspfile and rspfile_content need to be both specified"]

/-- A loader with consistent cross references, or a diagnostic. -/
def TotalR {α : Type} (P : α → Prop) : Except LoadErr α → Prop
  | .ok a => P a
  | .error e => Diagnosed e

theorem path_total (l : Loader) (p : Bytes) (e : LoadErr) (h : path l p = .error e) : Diagnosed e := by
  unfold path at h
  split at h
  · cases h; simp [Diagnosed]
  · rename_i hne
    have hp : p ≠ [] := by intro e; subst e; simp at hne
    rw [Canon.canon_spec p hp] at h
    simp at h

theorem evalPaths_total (envs : List Env) (ps : List EvalStr) : ∀ (l : Loader) (e : LoadErr),
    evalPaths l envs ps = .error e → Diagnosed e := by
  induction ps with
  | nil => intro l e h; simp [evalPaths] at h
  | cons p ps ih =>
    intro l e h
    unfold evalPaths at h
    split at h
    · rename_i e' hp; cases h; exact path_total _ _ _ hp
    · split at h
      · rename_i e' hps; cases h; exact ih _ _ hps
      · cases h

theorem claimOuts_total (newId : Nat) (loc : Loc) (builds : List BuildM) (os : List Nat) :
    ∀ (files : List FileM) (dup : Nat) (e : LoadErr), (∀ o ∈ os, o < files.length) →
    claimOuts newId loc builds os files dup = .error e → Diagnosed e := by
  induction os with
  | nil => intro files dup e _ h; simp [claimOuts] at h
  | cons o rest ih =>
    intro files dup e hlt h
    unfold claimOuts at h
    have ho : o < files.length := hlt o (by simp)
    have hx : files[o]? = some files[o] := by simp [ho]
    rw [hx] at h
    simp only [] at h
    split at h
    · split at h
      · exact ih files _ e (fun o' ho' => hlt o' (by simp [ho'])) h
      · cases h; trivial
    · exact ih _ _ e (fun o' ho' => by rw [modFile_len]; exact hlt o' (by simp [ho'])) h

theorem addBuild_total (g : GraphM) (b : BuildM) (e : LoadErr) (houts : ∀ o ∈ b.outs, o < g.files.length)
    (h : addBuild g b = .error e) : Diagnosed e := by
  unfold addBuild at h
  simp only [] at h
  split at h
  · rename_i e' hc
    cases h
    refine claimOuts_total _ _ _ _ _ _ _ ?_ hc
    intro o ho
    rw [(insFold_spec g.builds.length b.ins g.files).1]
    exact houts o ho
  · cases h

theorem loaderAddBuild_total (l : Loader) (file : Bytes) (vars : StrMap) (b : PBuild) (e : LoadErr)
    (inv : GInv l.graph) (h : loaderAddBuild l file vars b = .error e) : Diagnosed e := by
  unfold loaderAddBuild at h
  simp only [] at h
  split at h
  · rename_i e' h1; cases h; exact evalPaths_total _ _ _ _ h1
  · rename_i l1 ins h1
    split at h
    · rename_i e' h2; cases h; exact evalPaths_total _ _ _ _ h2
    · rename_i l2 outs h2
      obtain ⟨a1, a2, a3, a4, _⟩ := evalPaths_inv _ _ l l1 ins inv h1
      obtain ⟨b1, b2, b3, b4, _⟩ := evalPaths_inv _ _ l1 l2 outs a1 h2
      split at h
      · cases h; simp [Diagnosed]
      · split at h
        · cases h; simp [Diagnosed]
        · split at h
          · rename_i e' hr
            cases h
            -- the rspfile pair
            split at hr
            · cases hr
            · cases hr
            · cases hr; simp [Diagnosed]
          · split at h
            · rename_i e' hab
              cases h
              exact addBuild_total l2.graph _ _ b4 hab
            · cases h

abbrev LoaderOK (r : Loader × StrMap) : Prop := GInv r.1.graph

theorem stmtLoop_total (ie : Bool) (fs : Fs) (file : Bytes) (depth : Nat)
    (sub : Loader → Bytes → Bytes → StrMap → Nat → Except LoadErr (Loader × StrMap))
    (hsub : ∀ l name content vars d, GInv l.graph → TotalR LoaderOK (sub l name content vars d))
    (buf : Array UInt8) :
    ∀ (fuel : Nat) (l : Loader) (sc : Scanner) (vars : StrMap),
    GInv l.graph → G buf sc → buf.size - sc.ofs < fuel →
    TotalR LoaderOK (stmtLoop ie fs file depth sub fuel l sc vars) := by
  intro fuel
  induction fuel with
  | zero => intro l sc vars _ _ h; exact absurd h (by omega)
  | succ fuel ih =>
    intro l sc vars inv g hf
    have hlt := g.lt
    have hro := readItem_ok1 buf (sc.buf.size + 1) sc g (by rw [g.w.hb]; omega)
    unfold stmtLoop
    cases hri : readItem (sc.buf.size + 1) sc with
    | perr msg ofs =>
      rw [hri] at hro
      exact ⟨sc.buf, by rw [g.w.hb]; exact hro, rfl⟩
    | bad r => rw [hri] at hro; exact absurd hro (by simp [Ok1])
    | ok item sc' =>
      rw [hri] at hro
      obtain ⟨g', hle, hadv⟩ := hro
      simp only []
      cases item with
      | eof => exact inv
      | binding name val =>
        exact ih _ _ _ inv g' (by have := hadv trivial; omega)
      | stmt st =>
        have hadv' : sc.ofs < sc'.ofs := hadv trivial
        have hf' : buf.size - sc'.ofs < fuel := by omega
        cases st with
        | «include» p =>
          simp only []
          split
          · rename_i e hp; exact path_total _ _ _ hp
          · rename_i l1 id hp
            obtain ⟨a1, _⟩ := path_inv l _ l1 id inv hp
            split
            · simp [TotalR, Diagnosed]
            · split
              · simp [TotalR, Diagnosed]
              · rename_i content hfs hd
                have hs := hsub l1 ((l1.graph.files[id]?.map (·.name)).getD []) content vars (depth + 1) a1
                split
                · rename_i e he; rw [he] at hs; exact hs
                · rename_i l2 vars2 he
                  rw [he] at hs
                  exact ih _ _ _ hs g' hf'
        | subninja p =>
          simp only []
          split
          · rename_i e hp; exact path_total _ _ _ hp
          · rename_i l1 id hp
            obtain ⟨a1, _⟩ := path_inv l _ l1 id inv hp
            split
            · simp [TotalR, Diagnosed]
            · split
              · simp [TotalR, Diagnosed]
              · rename_i content hfs hd
                have hs := hsub l1 ((l1.graph.files[id]?.map (·.name)).getD []) content vars (depth + 1) a1
                split
                · rename_i e he; rw [he] at hs; exact hs
                · rename_i l2 vars2 he
                  rw [he] at hs
                  exact ih _ _ _ hs g' hf'
        | default ps =>
          simp only []
          split
          · rename_i e hp; exact evalPaths_total _ _ _ _ hp
          · rename_i l1 ids hp
            obtain ⟨a1, _⟩ := evalPaths_inv _ _ l l1 ids inv hp
            exact ih _ _ _ (show GInv ({ l1 with defaults := l1.defaults ++ ids } : Loader).graph from a1) g' hf'
        | rule name rvars =>
          exact ih _ _ _ (show GInv ({ l with rules := Eval.insert l.rules name rvars } : Loader).graph from inv) g' hf'
        | build b =>
          simp only []
          split
          · rename_i e hb; exact loaderAddBuild_total l file vars b e inv hb
          · rename_i l1 hb
            exact ih _ _ _ (loaderAddBuild_inv l file vars b l1 inv hb) g' hf'
        | pool name d =>
          exact ih _ _ _ (show GInv ({ l with pools := Eval.insert l.pools name d } : Loader).graph from inv) g' hf'

theorem parseFile_total (ie : Bool) (fs : Fs) : ∀ (d : Nat) (l : Loader) (file content : Bytes) (vars : StrMap)
    (depth : Nat), GInv l.graph → TotalR LoaderOK (parseFile ie fs d l file content vars depth) := by
  intro d
  induction d with
  | zero => intro l file content vars depth _; simp [parseFile, TotalR, Diagnosed]
  | succ d ih =>
    intro l file content vars depth inv
    unfold parseFile
    simp only []
    obtain ⟨s0, h0, g0, ho⟩ := new_good content
    have h0' : Scanner.new (content ++ [NUL]).toArray = .ok s0 := h0
    rw [h0']
    simp only []
    exact stmtLoop_total ie fs file depth _ (fun l name content vars dd hi => ih l name content vars dd hi)
      (content ++ [NUL]).toArray _ l s0 vars inv g0 (by omega)

/-- **Every input is either loaded or rejected with a diagnostic** (the whole of `load::read` up to
    opening the log): for every file system content and manifest name the result is a loader — whose
    graph has consistent cross references — or one of the errors n2 reports: a parse error, a duplicate
    output, an empty path, an unreadable file, too deep include nesting, an unknown rule, a bad `deps`
    value, an unpaired `rspfile`. -/
theorem load_total (ie : Bool) (fs : Fs) (main : Bytes) :
    TotalR (fun l => GInv l.graph) (loadWith ie fs main) := by
  unfold loadWith
  split
  · simp [TotalR, Diagnosed]
  · rename_i hne
    have hp : main ≠ [] := by intro e; subst e; simp at hne
    rw [Canon.canon_spec main hp]
    simp only []
    split
    · simp [TotalR, Diagnosed]
    · rename_i content hfs
      have hs := idFromCanonical_spec {} (Canon.render (Canon.denote main)) ginv_empty
      simp only [] at hs
      have ht := parseFile_total ie fs (MAX_INCLUDE_DEPTH + 2) { graph := (idFromCanonical {} (Canon.render (Canon.denote main))).1 }
        (((idFromCanonical {} (Canon.render (Canon.denote main))).1.files[(idFromCanonical {} (Canon.render (Canon.denote main))).2]?.map (·.name)).getD [])
        content [] 0 hs.1
      revert ht
      generalize parseFile ie fs (MAX_INCLUDE_DEPTH + 2) _ _ content [] 0 = r
      intro ht
      cases r with
      | error e => exact ht
      | ok v => exact ht

end N2V.Load
