/-
  Totality of the depfile parser: for every byte string, `depfile::parse` returns entries or a
  parse error — it never reads outside the buffer, never steps back before its start, never
  wraps the line counter and never loops (the model's fuel `size + 1` is always enough).
-/
import N2V.Lemmas.Scanner
import N2V.Model.Depfile
namespace N2V.Depfile
open N2V N2V.Scanner

/-- A scanner in good standing: well-formed, at a readable position, not on the `\n` of `\r\n`. -/
structure G (buf : Array UInt8) (s : Scanner) : Prop where
  w : SW buf s
  lt : s.ofs < buf.size
  ncr : NCR buf s.ofs

/-- The outcome is a value with a scanner in good standing satisfying `P`, or a parse error. -/
def Fine {α : Type} (buf : Array UInt8) (P : α → Scanner → Prop) : PRes α → Prop
  | .ok a s' => G buf s' ∧ P a s'
  | .perr _ o => o ≤ buf.size
  | .bad _ => False

theorem ncr_after {buf : Array UInt8} {k : Nat} {c : UInt8} (hc : buf[k]? = some c) (hne : c ≠ CR) :
    NCR buf (k + 1) := by
  intro hx
  have := hx.2.2
  simp only [Nat.add_sub_cancel] at this
  rw [hc] at this
  exact hne (Option.some.inj this)

/-- `back` right after reading the byte at a position that is in good standing returns there. -/
theorem back_after_read {buf : Array UInt8} {s s1 : Scanner} (g : G buf s) (w1 : SW buf s1)
    (ho : s1.ofs = s.ofs + 1) : ∃ s', s1.back = .ok s' ∧ G buf s' ∧ s'.ofs = s.ofs := by
  obtain ⟨s', hb, w', n', lt', hcase⟩ := back_ok w1 (by omega)
  refine ⟨s', hb, ⟨w', lt', n'⟩, ?_⟩
  rcases hcase with ⟨h1, _⟩ | ⟨h1, _⟩ | ⟨h2, hcr, hnl⟩
  · omega
  · omega
  · exfalso
    apply g.ncr
    have e : s'.ofs + 1 = s.ofs := by omega
    refine ⟨by rw [← e]; exact hnl, by omega, ?_⟩
    rw [← e]; simpa using hcr

theorem skipSpaces_fine (buf : Array UInt8) : ∀ (fuel : Nat) (s : Scanner), G buf s → buf.size - s.ofs < fuel →
    Fine buf (fun _ s' => s.ofs ≤ s'.ofs) (skipSpaces fuel s) := by
  intro fuel
  induction fuel with
  | zero => intro s _ h; exact absurd h (by omega)
  | succ fuel ih =>
    intro s g hf
    have hlt := g.lt
    obtain ⟨c, s1, hc, hr, w1, ho, hn⟩ := read_ok g.w g.lt
    unfold skipSpaces
    rw [hr]
    simp only []
    by_cases hsp : c = SP
    · subst hsp
      simp only [beq_self_eq_true, if_true]
      have g1 : G buf s1 := ⟨w1, hn (by decide), by rw [ho]; exact ncr_after hc (by decide)⟩
      have := ih s1 g1 (by omega)
      revert this
      cases skipSpaces fuel s1 with
      | ok a s' => intro h; exact ⟨h.1, by have := h.2; omega⟩
      | perr m o => intro _; trivial
      | bad r => intro h; exact h
    · have hsp' : (c == SP) = false := by simpa using hsp
      simp only [hsp', Bool.false_eq_true, if_false]
      by_cases hbs : c = BSL
      · subst hbs
        simp only [beq_self_eq_true, if_true]
        have hlt1 : s1.ofs < buf.size := hn (by decide)
        obtain ⟨c2, s2, hc2, hr2, w2, ho2, hn2⟩ := read_ok w1 hlt1
        rw [hr2]
        simp only []
        by_cases hnl : c2 = NL
        · subst hnl
          simp only [beq_self_eq_true, if_true]
          have g2 : G buf s2 := ⟨w2, hn2 (by decide), by rw [ho2]; exact ncr_after hc2 (by decide)⟩
          have := ih s2 g2 (by omega)
          revert this
          cases skipSpaces fuel s2 with
          | ok a s' => intro h; exact ⟨h.1, by have := h.2; omega⟩
          | perr m o => intro _; trivial
          | bad r => intro h; exact h
        · have : (c2 == NL) = false := by simpa using hnl
          simp only [this, Bool.false_eq_true, if_false]
          exact w2.le
      · have hbs' : (c == BSL) = false := by simpa using hbs
        simp only [hbs', Bool.false_eq_true, if_false]
        obtain ⟨s', hb, g', ho'⟩ := back_after_read g w1 ho
        rw [hb]
        exact ⟨g', by omega⟩

/-- The loop of `read_path`, started at `start`. -/
theorem readPathLoop_fine (buf : Array UInt8) (start : Nat) : ∀ (fuel : Nat) (s : Scanner),
    SW buf s → s.ofs < buf.size → start ≤ s.ofs → (s.ofs = start → NCR buf start) → buf.size - s.ofs < fuel →
    Fine buf (fun _ s' => start ≤ s'.ofs) (readPathLoop fuel s) := by
  intro fuel
  induction fuel with
  | zero => intro s _ _ _ _ h; exact absurd h (by omega)
  | succ fuel ih =>
    intro s w hlt hst hn0 hf
    obtain ⟨c, s1, hc, hr, w1, ho, hn⟩ := read_ok w hlt
    -- stepping back from `s1` lands at or after `start`
    have backs : ∃ s', s1.back = .ok s' ∧ G buf s' ∧ start ≤ s'.ofs := by
      obtain ⟨s', hb, w', n', lt', hcase⟩ := back_ok w1 (by omega)
      refine ⟨s', hb, ⟨w', lt', n'⟩, ?_⟩
      rcases hcase with ⟨h1, _⟩ | ⟨h1, _⟩ | ⟨h2, hcr, hnl⟩
      · omega
      · omega
      · by_cases e : s.ofs = start
        · exfalso
          apply hn0 e
          have e2 : s'.ofs + 1 = start := by omega
          refine ⟨by rw [← e2]; exact hnl, by omega, ?_⟩
          rw [← e2]; simpa using hcr
        · omega
    unfold readPathLoop
    rw [hr]
    simp only []
    by_cases hend : (c == NUL || c == SP || c == NL) = true
    · simp only [hend, if_true]
      obtain ⟨s', hb, g', hs'⟩ := backs
      rw [hb]
      exact ⟨g', hs'⟩
    · have hend' : (c == NUL || c == SP || c == NL) = false := by simpa using hend
      simp only [hend', Bool.false_eq_true, if_false]
      have hcn : c ≠ NUL := by intro e; subst e; simp at hend'
      have hlt1 : s1.ofs < buf.size := hn hcn
      have hrec := ih s1 w1 hlt1 (by omega) (by intro e; omega) (by omega)
      by_cases hbs : c = BSL
      · subst hbs
        simp only [beq_self_eq_true, if_true]
        obtain ⟨c2, hc2, hp⟩ := peek_ok w1 hlt1
        rw [hp]
        simp only []
        by_cases hnl : c2 = NL
        · subst hnl
          simp only [beq_self_eq_true, if_true]
          obtain ⟨s', hb, g', hs'⟩ := backs
          rw [hb]
          exact ⟨g', hs'⟩
        · have : (c2 == NL) = false := by simpa using hnl
          simp only [this, Bool.false_eq_true, if_false]
          exact hrec
      · have hbs' : (c == BSL) = false := by simpa using hbs
        simp only [hbs', Bool.false_eq_true, if_false]
        exact hrec


/-- `read_path`: no path (`None`) leaves the position at or after where it started; a path
    (`Some`) consumed at least one byte. -/
theorem readPath_fine (buf : Array UInt8) (fuel : Nat) (s : Scanner) (g : G buf s) (hf : buf.size - s.ofs < fuel) :
    Fine buf (fun r s' => s.ofs ≤ s'.ofs ∧ (r.isSome → s.ofs < s'.ofs)) (readPath fuel s) := by
  unfold readPath
  have h1 := skipSpaces_fine buf fuel s g hf
  cases hs : skipSpaces fuel s with
  | bad r => rw [hs] at h1; exact h1
  | perr m o => rw [hs] at h1; exact h1
  | ok u s1 =>
    rw [hs] at h1
    obtain ⟨g1, hle1⟩ := h1
    simp only []
    have h2 := readPathLoop_fine buf s1.ofs fuel s1 g1.w g1.lt (Nat.le_refl _) (fun _ => g1.ncr) (by omega)
    cases hl : readPathLoop fuel s1 with
    | bad r => rw [hl] at h2; exact h2
    | perr m o => rw [hl] at h2; exact h2
    | ok u2 s2 =>
      rw [hl] at h2
      obtain ⟨g2, hle2⟩ := h2
      simp only []
      by_cases he : s2.ofs = s1.ofs
      · simp only [he, beq_self_eq_true, if_true]
        exact ⟨g2, by omega, by simp⟩
      · have : (s2.ofs == s1.ofs) = false := by simpa using he
        simp only [this, Bool.false_eq_true, if_false]
        have hsl : s2.slice s1.ofs s2.ofs = .ok (s2.buf.extract s1.ofs s2.ofs).toList := by
          unfold slice
          have : s1.ofs ≤ s2.ofs ∧ s2.ofs ≤ s2.buf.size := ⟨hle2, by rw [g2.w.hb]; exact Nat.le_of_lt g2.lt⟩
          rw [if_pos this]
        rw [hsl]
        exact ⟨g2, by omega, fun _ => by omega⟩

theorem skipBlank_fine (buf : Array UInt8) : ∀ (fuel : Nat) (s : Scanner), G buf s → buf.size - s.ofs < fuel →
    Fine buf (fun _ s' => s.ofs ≤ s'.ofs) (skipBlank fuel s) := by
  intro fuel
  induction fuel with
  | zero => intro s _ h; exact absurd h (by omega)
  | succ fuel ih =>
    intro s g hf
    have hlt := g.lt
    obtain ⟨c, hc, hp⟩ := peek_ok g.w g.lt
    unfold skipBlank
    rw [hp]
    simp only []
    by_cases hb : (c == SP || c == NL) = true
    · simp only [hb, if_true]
      obtain ⟨c', s1, hc', hnx, w1, ho, hn⟩ := next_ok g.w g.lt
      have hcc : c' = c := by rw [hc] at hc'; exact (Option.some.inj hc').symm
      subst hcc
      rw [hnx]
      simp only []
      have hcn : c' ≠ NUL := by intro e; subst e; simp [SP, NL, NUL] at hb
      have hcr : c' ≠ CR := by intro e; subst e; simp [SP, NL, CR] at hb
      have g1 : G buf s1 := ⟨w1, hn hcn, by rw [ho]; exact ncr_after hc hcr⟩
      have := ih s1 g1 (by omega)
      revert this
      cases skipBlank fuel s1 with
      | ok a s' => intro h; exact ⟨h.1, by have := h.2; omega⟩
      | perr m o => intro _; trivial
      | bad r => intro h; exact h
    · have : (c == SP || c == NL) = false := by simpa using hb
      simp only [this, Bool.false_eq_true, if_false]
      exact ⟨g, Nat.le_refl _⟩

theorem readDeps_fine (buf : Array UInt8) (pf : Nat) : ∀ (fuel : Nat) (s : Scanner) (acc : List Bytes), G buf s →
    buf.size - s.ofs < fuel → buf.size - s.ofs < pf →
    Fine buf (fun _ s' => s.ofs ≤ s'.ofs) (readDeps fuel pf s acc) := by
  intro fuel
  induction fuel with
  | zero => intro s _ _ h; exact absurd h (by omega)
  | succ fuel ih =>
    intro s acc g hf hpf
    have hlt := g.lt
    unfold readDeps
    have h1 := readPath_fine buf pf s g hpf
    cases hr : readPath pf s with
    | bad r => rw [hr] at h1; exact h1
    | perr m o => rw [hr] at h1; exact h1
    | ok r s1 =>
      rw [hr] at h1
      obtain ⟨g1, hle, hsome⟩ := h1
      cases r with
      | none => exact ⟨g1, hle⟩
      | some p =>
        simp only []
        have hlt1 := hsome rfl
        have := ih s1 (acc ++ [p]) g1 (by omega) (by omega)
        revert this
        cases readDeps fuel pf s1 (acc ++ [p]) with
        | ok a s' => intro h; exact ⟨h.1, by have := h.2; omega⟩
        | perr m o => intro _; trivial
        | bad r => intro h; exact h

/-- The scanner's own `skip_spaces` (used between a target and its colon). -/
theorem scanner_skipSpaces_ok (buf : Array UInt8) : ∀ (fuel : Nat) (s : Scanner), G buf s → buf.size - s.ofs < fuel →
    ∃ s', Scanner.skipSpaces fuel s = .ok s' ∧ G buf s' ∧ s.ofs ≤ s'.ofs := by
  intro fuel
  induction fuel with
  | zero => intro s _ h; exact absurd h (by omega)
  | succ fuel ih =>
    intro s g hf
    have hlt := g.lt
    obtain ⟨c, s1, hc, hr, w1, ho, hn⟩ := read_ok g.w g.lt
    unfold Scanner.skipSpaces skip
    rw [hr]
    simp only []
    by_cases hsp : c = SP
    · subst hsp
      simp only [bne_self_eq_false, Bool.false_eq_true, if_false]
      have g1 : G buf s1 := ⟨w1, hn (by decide), by rw [ho]; exact ncr_after hc (by decide)⟩
      obtain ⟨s', h', g', hle⟩ := ih s1 g1 (by omega)
      exact ⟨s', h', g', by omega⟩
    · have : (c != SP) = true := by simpa using hsp
      simp only [this, if_true]
      obtain ⟨s', hb, g', ho'⟩ := back_after_read g w1 ho
      rw [hb]
      exact ⟨s', rfl, g', by omega⟩

theorem expect_fine (buf : Array UInt8) (s : Scanner) (g : G buf s) (ch : UInt8) (h0 : ch ≠ NUL) (h1 : ch ≠ CR) :
    Fine buf (fun _ s' => s.ofs < s'.ofs) (s.expect ch) := by
  obtain ⟨c, s1, hc, hr, w1, ho, hn⟩ := read_ok g.w g.lt
  unfold expect
  rw [hr]
  simp only []
  by_cases hcc : c = ch
  · subst hcc
    simp only [bne_self_eq_false, Bool.false_eq_true, if_false]
    exact ⟨⟨w1, hn h0, by rw [ho]; exact ncr_after hc h1⟩, by omega⟩
  · have : (c != ch) = true := by simpa using hcc
    simp only [this, if_true]
    obtain ⟨s', hb, g', ho'⟩ := back_after_read g w1 ho
    rw [hb]
    exact Nat.le_of_lt g'.lt

theorem expect_nul_ok (buf : Array UInt8) (s : Scanner) (g : G buf s) :
    match s.expect NUL with
    | .bad _ => False
    | .perr _ o => o ≤ buf.size
    | .ok _ _ => True := by
  obtain ⟨c, s1, hc, hr, w1, ho, hn⟩ := read_ok g.w g.lt
  unfold expect
  rw [hr]
  simp only []
  by_cases hcc : c = NUL
  · subst hcc
    simp
  · have : (c != NUL) = true := by simpa using hcc
    simp only [this, if_true]
    obtain ⟨s', hb, g', ho'⟩ := back_after_read g w1 ho
    rw [hb]
    exact Nat.le_of_lt g'.lt


theorem parseLoop_fine (buf : Array UInt8) (pf : Nat) (hpf : buf.size < pf) : ∀ (fuel : Nat) (s : Scanner)
    (acc : Entries), G buf s → buf.size - s.ofs < fuel →
    Fine buf (fun _ _ => True) (parseLoop fuel pf s acc) := by
  intro fuel
  induction fuel with
  | zero => intro s _ _ h; exact absurd h (by omega)
  | succ fuel ih =>
    intro s acc g hf
    have hlt := g.lt
    unfold parseLoop
    have h1 := skipBlank_fine buf pf s g (by omega)
    cases hsb : skipBlank pf s with
    | bad r => rw [hsb] at h1; exact h1
    | perr m o => rw [hsb] at h1; exact h1
    | ok u s1 =>
      rw [hsb] at h1
      obtain ⟨g1, hle1⟩ := h1
      simp only []
      have h2 := readPath_fine buf pf s1 g1 (by omega)
      cases hrp : readPath pf s1 with
      | bad r => rw [hrp] at h2; exact h2
      | perr m o => rw [hrp] at h2; exact h2
      | ok r s2 =>
        rw [hrp] at h2
        obtain ⟨g2, hle2, hsome⟩ := h2
        cases r with
        | none => exact ⟨g2, trivial⟩
        | some target =>
          simp only []
          have hlt2 := hsome rfl
          obtain ⟨s3, hss, g3, hle3⟩ := scanner_skipSpaces_ok buf pf s2 g2 (by omega)
          rw [hss]
          simp only []
          -- the continuation: prerequisites, then the next entry
          have cont : ∀ (t : Bytes) (s4 : Scanner), G buf s4 → s3.ofs ≤ s4.ofs →
              Fine buf (fun _ _ => True)
                (match readDeps pf pf s4 [] with
                 | .ok deps s5 => parseLoop fuel pf s5 (addEntry acc t deps)
                 | .perr m o => .perr m o
                 | .bad r => .bad r) := by
            intro t s4 g4 hle4
            have h5 := readDeps_fine buf pf pf s4 [] g4 (by omega) (by omega)
            cases hrd : readDeps pf pf s4 [] with
            | bad r => rw [hrd] at h5; exact h5
            | perr m o => rw [hrd] at h5; exact h5
            | ok deps s5 =>
              rw [hrd] at h5
              obtain ⟨g5, hle5⟩ := h5
              simp only []
              exact ih s5 _ g5 (by omega)
          cases hsc : stripColon target with
          | some t => simp only []; exact cont t s3 g3 (Nat.le_refl _)
          | none =>
            simp only []
            have h4 := expect_fine buf s3 g3 COLON (by decide) (by decide)
            cases hex : s3.expect COLON with
            | bad r => rw [hex] at h4; exact h4
            | perr m o => rw [hex] at h4; exact h4
            | ok u4 s4 =>
              rw [hex] at h4
              obtain ⟨g4, hlt4⟩ := h4
              simp only []
              exact cont target s4 g4 (by omega)

/-- **`depfile::parse` is total**: for every byte string it returns the entries or a parse error
    with an offset INSIDE the buffer (so `format_parse_error` is applied where `format_total` covers it); it never reads outside the (NUL-terminated) buffer, never steps back before
    the start, never wraps the line counter, and the loops' fuel (`size + 1`) is always enough. -/
theorem parse_total (text : Bytes) : match parse text with
    | .ok _ _ => True
    | .perr _ o => o ≤ text.length + 1
    | .bad _ => False := by
  unfold parse
  simp only []
  have hsz : (text ++ [NUL]).toArray.size = text.length + 1 := by simp
  have hlast : (text ++ [NUL]).toArray[(text ++ [NUL]).toArray.size - 1]? = some NUL := by
    rw [hsz]; simp
  have hnew : Scanner.new (text ++ [NUL]).toArray = .ok ⟨(text ++ [NUL]).toArray, 0, 1⟩ := by
    unfold Scanner.new
    have : (text ++ [NUL]).toArray.back? = some NUL := by
      rw [Array.back?]; exact hlast
    simp [this]
  rw [hnew]
  simp only []
  have g0 : G (text ++ [NUL]).toArray ⟨(text ++ [NUL]).toArray, 0, 1⟩ :=
    ⟨⟨rfl, by rw [hsz]; omega, hlast, by show 0 ≤ _; omega, rfl⟩, by show 0 < _; rw [hsz]; omega,
     fun hx => by have := hx.2.1; exact absurd this (by show ¬ 0 < 0; omega)⟩
  have h := parseLoop_fine (text ++ [NUL]).toArray ((text ++ [NUL]).toArray.size + 1) (by omega)
    ((text ++ [NUL]).toArray.size + 1) _ [] g0 (by show _ - 0 < _; omega)
  cases hp : parseLoop ((text ++ [NUL]).toArray.size + 1) ((text ++ [NUL]).toArray.size + 1)
      ⟨(text ++ [NUL]).toArray, 0, 1⟩ [] with
  | bad r => rw [hp] at h; exact h
  | perr m o => rw [hp] at h; rw [← hsz]; exact h
  | ok es s1 =>
    rw [hp] at h
    simp only []
    have := expect_nul_ok _ s1 h.1
    revert this
    cases s1.expect NUL with
    | ok u s2 => intro _; trivial
    | perr m o => intro h; rw [← hsz]; exact h
    | bad r => intro h; exact h

end N2V.Depfile
