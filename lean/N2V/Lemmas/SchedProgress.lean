/-
  Progress: the invariants that make "nothing to do while something is pending" impossible
  (`panic!("BUG: no work to do and runner not running")`), for acyclic graphs.
-/
import N2V.Lemmas.SchedStep
namespace N2V.Sched

/-- Consistency of the graph's cross references (how `Graph::add_build` fills them in): a
    file's producer lists it among its outputs, and every build is a dependent of each of its
    ordering inputs. -/
structure DepsOK (g : Graph) : Prop where
  outs : ∀ f p, g.producer f = some p → f ∈ (g.build p).outs
  deps : ∀ b f, f ∈ (g.build b).ordering → b ∈ g.dependents f

structure PInv (g : Graph) (s : S) : Prop where
  rdy : ∀ b, s.st b = .ready → b ∈ s.ready
  que : ∀ b, s.st b = .queued → ∃ p ∈ s.pools, b ∈ p.queued
  wnt : ∀ b, s.st b = .want → recheckReady g s b = false
  clo : ∀ b, s.st b ≠ .unknown → ∀ f ∈ (g.build b).ordering, ∀ p, g.producer f = some p → s.st p ≠ .unknown
  fld : ∀ b, s.st b = .failed → 0 < s.tasksFailed

/-- `recheck_ready` only looks at which builds are `Done`. -/
theorem recheckReady_congr (g : Graph) (s s' : S) (b : Nat)
    (h : ∀ p, (s'.st p = .done ↔ s.st p = .done)) : recheckReady g s' b = recheckReady g s b := by
  unfold recheckReady
  apply List.all_congr rfl
  intro f
  cases hp : g.producer f with
  | none => rfl
  | some p =>
    simp only []
    have := h p
    by_cases e : s.st p = .done
    · rw [e, this.mpr e]
    · have e' : ¬ s'.st p = .done := fun x => e (this.mp x)
      have a1 : (s.st p == St.done) = false := by simpa using e
      have a2 : (s'.st p == St.done) = false := by simpa using e'
      rw [a1, a2]

theorem mem_orderBy_of (perm cands : List Nat) (x : Nat) (h : x ∈ cands) : x ∈ orderBy perm cands := by
  unfold orderBy
  simp only [List.mem_append, List.mem_filter]
  by_cases hp : x ∈ perm
  · left; rw [mem_dedup]; simp [hp, h]
  · right; exact ⟨h, by simp [hp]⟩

/-- The promotion loop: the builds in `l` are `Want` with every producer `Done`; the `Want`
    clause of the invariant holds for everything else.  Afterwards it holds for all. -/
theorem promote_pinv {g : Graph} (l : List Nat) (s s' : S) (hl : l.Nodup)
    (hw : ∀ d ∈ l, s.st d = .want ∧ recheckReady g s d = true)
    (rdy : ∀ b, s.st b = .ready → b ∈ s.ready)
    (que : ∀ b, s.st b = .queued → ∃ p ∈ s.pools, b ∈ p.queued)
    (wnt : ∀ b, b ∉ l → s.st b = .want → recheckReady g s b = false)
    (clo : ∀ b, s.st b ≠ .unknown → ∀ f ∈ (g.build b).ordering, ∀ p, g.producer f = some p → s.st p ≠ .unknown)
    (fld : ∀ b, s.st b = .failed → 0 < s.tasksFailed)
    (h : promote g s l = .ok s') : PInv g s' := by
  induction l generalizing s with
  | nil =>
    simp [promote] at h; subst h
    exact ⟨rdy, que, fun b hb => wnt b (by simp) hb, clo, fld⟩
  | cons d ds ih =>
    unfold promote at h
    split at h
    · rename_i s1 hs
      obtain ⟨ps1, ps2, h1, h2, hst, -, -, hrd, hp, -, htf, -⟩ := set_spec hs
      have hd := hw d (by simp)
      simp at hl
      have hdone : ∀ p, (s1.st p = .done ↔ s.st p = .done) := by
        intro p
        rw [hst]
        by_cases e : p = d
        · subst e; simp [hd.1]
        · rw [upd_other _ _ _ _ e]
      have hpools : s1.pools = s.pools := by
        rw [hp]
        have e1 : ps1 = s.pools := by
          have : ¬ s.st d = .running := by rw [hd.1]; simp
          simp [this] at h1; exact h1.symm
        have e2 : ps2 = ps1 := by simp at h2; exact h2.symm
        rw [e2, e1]
      apply ih s1 hl.2 _ _ _ _ _ _ h
      · intro x hx
        have hxw := hw x (by simp [hx])
        have hne : x ≠ d := fun e => hl.1 (e ▸ hx)
        exact ⟨by rw [hst, upd_other _ _ _ _ hne]; exact hxw.1, by rw [recheckReady_congr g s s1 x hdone]; exact hxw.2⟩
      · intro b hb
        rw [hrd]; simp only [if_true]
        rw [hst] at hb
        by_cases e : b = d
        · subst e; simp
        · rw [upd_other _ _ _ _ e] at hb; simp [rdy b hb]
      · intro b hb
        rw [hst] at hb
        by_cases e : b = d
        · subst e; simp at hb
        · rw [upd_other _ _ _ _ e] at hb; rw [hpools]; exact que b hb
      · intro b hb hbw
        rw [hst] at hbw
        by_cases e : b = d
        · subst e; simp at hbw
        · rw [upd_other _ _ _ _ e] at hbw
          rw [recheckReady_congr g s s1 b hdone]
          exact wnt b (by simp [e, hb]) hbw
      · intro b hb f hf p hp'
        rw [hst] at hb ⊢
        by_cases e : p = d
        · subst e; simp
        · rw [upd_other _ _ _ _ e]
          by_cases e2 : b = d
          · subst e2; exact clo b (by rw [hd.1]; simp) f hf p hp'
          · rw [upd_other _ _ _ _ e2] at hb; exact clo b hb f hf p hp'
      · intro b hb
        rw [htf]
        rw [hst] at hb
        by_cases e : b = d
        · subst e; simp at hb
        · rw [upd_other _ _ _ _ e] at hb; exact fld b hb
    · rename_i hne; exact absurd h (hne s')


theorem modPool_queued_mem (ps ps' : List Pool) (name : Bytes) (f : Pool → Pool)
    (hf : ∀ p x, x ∈ p.queued → x ∈ (f p).queued) (h : modPool ps name f = some ps') (b : Nat)
    (hb : ∃ p ∈ ps, b ∈ p.queued) : ∃ p ∈ ps', b ∈ p.queued := by
  induction ps generalizing ps' with
  | nil => simp [modPool] at h
  | cons p rest ih =>
    unfold modPool at h
    obtain ⟨q, hq, hbq⟩ := hb
    split at h
    · cases h
      simp at hq
      rcases hq with rfl | hq
      · exact ⟨f q, by simp, hf q b hbq⟩
      · exact ⟨q, by simp [hq], hbq⟩
    · cases hm : modPool rest name f with
      | none => simp [hm] at h
      | some r =>
        simp [hm] at h
        subst h
        simp at hq
        rcases hq with rfl | hq
        · exact ⟨q, by simp, hbq⟩
        · obtain ⟨p', hp', hb'⟩ := ih r hm ⟨q, hq, hbq⟩
          exact ⟨p', by simp [hp'], hb'⟩

/-- `set` never takes a build out of a pool's queue. -/
theorem set_queued_mem {g : Graph} {s s' : S} {id : Nat} {new : St} (h : set g s id new = .ok s') (b : Nat)
    (hb : ∃ p ∈ s.pools, b ∈ p.queued) : ∃ p ∈ s'.pools, b ∈ p.queued := by
  obtain ⟨ps1, ps2, h1, h2, -, -, -, -, hp, -⟩ := set_spec h
  rw [hp]
  have e1 : ∃ p ∈ ps1, b ∈ p.queued := by
    split at h1
    · exact modPool_queued_mem _ _ _ decRunning (fun _ _ hx => hx) h1 b hb
    · cases h1; exact hb
  split at h2
  · exact modPool_queued_mem _ _ _ incRunning (fun _ _ hx => hx) h2 b e1
  · cases h2; exact e1

/-- `ready_dependents` (on a build that is `Ready` and already popped, or `Running`). -/
theorem readyDependents_pinv {g : Graph} (dok : DepsOK g) {s0 s' : S} {id : Nat} {perm : List Nat}
    (hst : s0.st id = .ready ∨ s0.st id = .running)
    (rdy : ∀ b, b ≠ id → s0.st b = .ready → b ∈ s0.ready)
    (que : ∀ b, s0.st b = .queued → ∃ p ∈ s0.pools, b ∈ p.queued)
    (wnt : ∀ b, s0.st b = .want → recheckReady g s0 b = false)
    (clo : ∀ b, s0.st b ≠ .unknown → ∀ f ∈ (g.build b).ordering, ∀ p, g.producer f = some p → s0.st p ≠ .unknown)
    (fld : ∀ b, s0.st b = .failed → 0 < s0.tasksFailed)
    (h : readyDependents g s0 id perm = .ok s') : PInv g s' := by
  unfold readyDependents at h
  split at h
  · rename_i s1 hs
    obtain ⟨_, _, -, -, hst1, -, -, hrd, -, -, htf, -⟩ := set_spec hs
    have hid_nd : s0.st id ≠ .done := by rcases hst with e | e <;> rw [e] <;> simp
    have hs1id : s1.st id = .done := by rw [hst1]; simp
    apply promote_pinv _ s1 s' (nodup_orderBy _ _ (nodup_dedup _)) _ _ _ _ _ _ h
    · intro d hd
      exact promotable_spec g s1 id d (mem_orderBy _ _ _ hd)
    · intro b hb
      have hne : b ≠ id := by intro e; subst e; rw [hs1id] at hb; cases hb
      rw [hst1, upd_other _ _ _ _ hne] at hb
      rw [hrd]; simp only [reduceCtorEq, if_false]
      exact rdy b hne hb
    · intro b hb
      have hne : b ≠ id := by intro e; subst e; rw [hs1id] at hb; cases hb
      rw [hst1, upd_other _ _ _ _ hne] at hb
      exact set_queued_mem hs b (que b hb)
    · intro b hnl hb
      have hne : b ≠ id := by intro e; subst e; rw [hs1id] at hb; cases hb
      have hb0 : s0.st b = .want := by rw [hst1, upd_other _ _ _ _ hne] at hb; exact hb
      cases hrr : recheckReady g s1 b with
      | false => rfl
      | true =>
        exfalso
        apply hnl
        apply mem_orderBy_of
        show b ∈ dedup _
        rw [mem_dedup]
        simp only [List.mem_filter, List.mem_flatMap, Bool.and_eq_true, beq_iff_eq]
        refine ⟨?_, hb, hrr⟩
        -- some ordering input of `b` is an output of `id`
        have hall := recheckReady_sound g s1 b hrr
        have h0 := wnt b hb0
        apply Classical.byContradiction
        intro hno
        have : recheckReady g s0 b = true := by
          apply recheckReady_complete
          intro f hf p hp
          have hd := hall f hf p hp
          by_cases e : p = id
          · subst e
            exact absurd ⟨f, dok.outs f p hp, dok.deps b f hf⟩ hno
          · rw [hst1, upd_other _ _ _ _ e] at hd; exact hd
        rw [this] at h0; cases h0
    · intro b hb f hf p hp
      rw [hst1] at hb ⊢
      by_cases e : p = id
      · subst e; simp
      · rw [upd_other _ _ _ _ e]
        by_cases e2 : b = id
        · subst e2; exact clo b (by rcases hst with x | x <;> rw [x] <;> simp) f hf p hp
        · rw [upd_other _ _ _ _ e2] at hb; exact clo b hb f hf p hp
    · intro b hb
      have hne : b ≠ id := by intro e; subst e; rw [hs1id] at hb; cases hb
      rw [hst1, upd_other _ _ _ _ hne] at hb
      rw [htf]; exact fld b hb
  · rename_i hne; exact absurd h (hne s')


theorem modPool_adds (ps ps' : List Pool) (name : Bytes) (id : Nat)
    (h : modPool ps name (fun p => { p with queued := p.queued ++ [id] }) = some ps') :
    ∃ p ∈ ps', id ∈ p.queued := by
  induction ps generalizing ps' with
  | nil => simp [modPool] at h
  | cons p rest ih =>
    unfold modPool at h
    split at h
    · cases h; exact ⟨{ p with queued := p.queued ++ [id] }, by simp, by simp⟩
    · cases hm : modPool rest name (fun p => { p with queued := p.queued ++ [id] }) with
      | none => simp [hm] at h
      | some r =>
        simp [hm] at h
        subst h
        obtain ⟨p', hp', hb'⟩ := ih r hm
        exact ⟨p', by simp [hp'], hb'⟩

/-- `enqueue` (the dirty branch of the ready loop). -/
theorem enqueue_pinv {g : Graph} {par : Nat} {s s1 : S} {id : Nat} {rest : List Nat}
    (inv : Inv g par s) (pi : PInv g s) (hr : s.ready = id :: rest)
    (h : enqueueRun g { s with ready := rest } id = .inl s1) : PInv g s1 := by
  have hstid : s.st id = .ready := inv.readySt id (by simp [hr])
  unfold enqueueRun at h
  split at h
  · rename_i s2 hs
    obtain ⟨_, _, -, -, hst2, -, -, hrd, -, -, htf, -⟩ := set_spec hs
    split at h
    · rename_i pools hm
      cases h
      have hdone : ∀ p, (s2.st p = .done ↔ s.st p = .done) := by
        intro p; rw [hst2]
        by_cases e : p = id
        · subst e; simp [hstid]
        · rw [upd_other _ _ _ _ e]
      refine ⟨?_, ?_, ?_, ?_, ?_⟩
      · intro b hb
        change s2.st b = .ready at hb
        have hne : b ≠ id := by intro e; subst e; rw [hst2] at hb; simp at hb
        rw [hst2, upd_other _ _ _ _ hne] at hb
        have := pi.rdy b hb
        rw [hr] at this
        simp [hne] at this
        show b ∈ s2.ready
        rw [hrd]; simp only [reduceCtorEq, if_false]; exact this
      · intro b hb
        change s2.st b = .queued at hb
        show ∃ p ∈ pools, b ∈ p.queued
        by_cases e : b = id
        · subst e; exact modPool_adds _ _ _ _ hm
        · rw [hst2, upd_other _ _ _ _ e] at hb
          have := set_queued_mem hs b (pi.que b hb)
          exact modPool_queued_mem _ _ _ _ (fun p x hx => by simp [hx]) hm b this
      · intro b hb
        change s2.st b = .want at hb
        have hne : b ≠ id := by intro e; subst e; rw [hst2] at hb; simp at hb
        rw [hst2, upd_other _ _ _ _ hne] at hb
        have := pi.wnt b hb
        rw [← recheckReady_congr g s s2 b hdone] at this
        rw [← this]
        exact recheckReady_congr g s2 _ b (fun _ => Iff.rfl)
      · intro b hb f hf p hp
        change s2.st b ≠ .unknown at hb
        show s2.st p ≠ .unknown
        rw [hst2] at hb ⊢
        by_cases e : p = id
        · subst e; simp
        · rw [upd_other _ _ _ _ e]
          by_cases e2 : b = id
          · subst e2; exact pi.clo b (by rw [hstid]; simp) f hf p hp
          · rw [upd_other _ _ _ _ e2] at hb; exact pi.clo b hb f hf p hp
      · intro b hb
        change s2.st b = .failed at hb
        show 0 < s2.tasksFailed
        have hne : b ≠ id := by intro e; subst e; rw [hst2] at hb; simp at hb
        rw [hst2, upd_other _ _ _ _ hne] at hb
        rw [htf]; exact pi.fld b hb
    · cases h
  · rename_i r hne
    exact absurd (resToRun_inl h) (hne s1)

/-- Starting a command. -/
theorem start_pinv {g : Graph} {par : Nat} {s s1 : S} {id : Nat} {pools : List Pool}
    (inv : Inv g par s) (pi : PInv g s) (hpop : popQueued s.pools = some (id, pools))
    (h : set g { s with pools := pools } id .running = .ok s1) :
    PInv g { s1 with running := s1.running + 1, trace := Ev.start id :: s1.trace } := by
  obtain ⟨p, q, hp, hq, hroom, hps⟩ := popQueued_spec _ _ _ inv.poolNames hpop
  have hpq := inv.queuedSt p hp id (by simp [hq])
  have hstid : s.st id = .queued := hpq.1
  obtain ⟨_, _, -, -, hst1, -, -, hrd, -, -, htf, -⟩ := set_spec h
  have hdone : ∀ x, (s1.st x = .done ↔ s.st x = .done) := by
    intro x; rw [hst1]
    by_cases e : x = id
    · subst e; simp [hstid]
    · rw [upd_other _ _ _ _ e]
  refine ⟨?_, ?_, ?_, ?_, ?_⟩
  · intro b hb
    change s1.st b = .ready at hb
    have hne : b ≠ id := by intro e; subst e; rw [hst1] at hb; simp at hb
    rw [hst1, upd_other _ _ _ _ hne] at hb
    show b ∈ s1.ready
    rw [hrd]; simp only [reduceCtorEq, if_false]; exact pi.rdy b hb
  · intro b hb
    change s1.st b = .queued at hb
    show ∃ x ∈ s1.pools, b ∈ x.queued
    have hne : b ≠ id := by intro e; subst e; rw [hst1] at hb; simp at hb
    rw [hst1, upd_other _ _ _ _ hne] at hb
    obtain ⟨p0, hp0, hb0⟩ := pi.que b hb
    apply set_queued_mem h b
    show ∃ x ∈ pools, b ∈ x.queued
    rw [hps]
    by_cases hn : p0.name = p.name
    · have : p0 = p := pool_eq_of_name _ inv.poolNames _ _ hp0 hp hn
      subst this
      rw [hq] at hb0
      simp [hne] at hb0
      exact ⟨{ p0 with queued := q }, by simp only [List.mem_map]; exact ⟨p0, hp0, by simp⟩, hb0⟩
    · exact ⟨p0, by simp only [List.mem_map]; exact ⟨p0, hp0, by simp [hn]⟩, hb0⟩
  · intro b hb
    change s1.st b = .want at hb
    have hne : b ≠ id := by intro e; subst e; rw [hst1] at hb; simp at hb
    rw [hst1, upd_other _ _ _ _ hne] at hb
    have := pi.wnt b hb
    rw [← recheckReady_congr g s s1 b hdone] at this
    rw [← this]
    exact recheckReady_congr g s1 _ b (fun _ => Iff.rfl)
  · intro b hb f hf p' hp'
    change s1.st b ≠ .unknown at hb
    show s1.st p' ≠ .unknown
    rw [hst1] at hb ⊢
    by_cases e : p' = id
    · subst e; simp
    · rw [upd_other _ _ _ _ e]
      by_cases e2 : b = id
      · subst e2; exact pi.clo b (by rw [hstid]; simp) f hf p' hp'
      · rw [upd_other _ _ _ _ e2] at hb; exact pi.clo b hb f hf p' hp'
  · intro b hb
    change s1.st b = .failed at hb
    show 0 < s1.tasksFailed
    have hne : b ≠ id := by intro e; subst e; rw [hst1] at hb; simp at hb
    rw [hst1, upd_other _ _ _ _ hne] at hb
    rw [htf]; exact pi.fld b hb

/-- A running command failed (`tasks_failed` was incremented first). -/
theorem failed_pinv {g : Graph} {s0 s1 : S} {id : Nat} (hst : s0.st id = .running) (htf0 : 0 < s0.tasksFailed)
    (rdy : ∀ b, s0.st b = .ready → b ∈ s0.ready)
    (que : ∀ b, s0.st b = .queued → ∃ p ∈ s0.pools, b ∈ p.queued)
    (wnt : ∀ b, s0.st b = .want → recheckReady g s0 b = false)
    (clo : ∀ b, s0.st b ≠ .unknown → ∀ f ∈ (g.build b).ordering, ∀ p, g.producer f = some p → s0.st p ≠ .unknown)
    (h : set g s0 id .failed = .ok s1) : PInv g s1 := by
  obtain ⟨_, _, -, -, hst1, -, -, hrd, -, -, htf, -⟩ := set_spec h
  have hdone : ∀ x, (s1.st x = .done ↔ s0.st x = .done) := by
    intro x; rw [hst1]
    by_cases e : x = id
    · subst e; simp [hst]
    · rw [upd_other _ _ _ _ e]
  refine ⟨?_, ?_, ?_, ?_, ?_⟩
  · intro b hb
    have hne : b ≠ id := by intro e; subst e; rw [hst1] at hb; simp at hb
    rw [hst1, upd_other _ _ _ _ hne] at hb
    rw [hrd]; simp only [reduceCtorEq, if_false]; exact rdy b hb
  · intro b hb
    have hne : b ≠ id := by intro e; subst e; rw [hst1] at hb; simp at hb
    rw [hst1, upd_other _ _ _ _ hne] at hb
    exact set_queued_mem h b (que b hb)
  · intro b hb
    have hne : b ≠ id := by intro e; subst e; rw [hst1] at hb; simp at hb
    rw [hst1, upd_other _ _ _ _ hne] at hb
    rw [recheckReady_congr g s0 s1 b hdone]; exact wnt b hb
  · intro b hb f hf p hp
    rw [hst1] at hb ⊢
    by_cases e : p = id
    · subst e; simp
    · rw [upd_other _ _ _ _ e]
      by_cases e2 : b = id
      · subst e2; exact clo b (by rw [hst]; simp) f hf p hp
      · rw [upd_other _ _ _ _ e2] at hb; exact clo b hb f hf p hp
  · intro b hb
    rw [htf]; exact htf0


theorem clean_pinv {g : Graph} {par : Nat} (dok : DepsOK g) {s s1 : S} {id : Nat} {rest perm : List Nat}
    (inv : Inv g par s) (pi : PInv g s) (hr : s.ready = id :: rest)
    (h : readyDependents g { s with ready := rest } id perm = .ok s1) : PInv g s1 := by
  have hstid : s.st id = .ready := inv.readySt id (by simp [hr])
  refine readyDependents_pinv (s0 := { s with ready := rest }) dok (Or.inl hstid) ?_ pi.que ?_ pi.clo pi.fld h
  · intro b hne hb
    have := pi.rdy b hb
    rw [hr] at this
    simpa [hne] using this
  · intro b hb
    have := pi.wnt b hb
    rw [← this]
    exact recheckReady_congr g s _ b (fun _ => Iff.rfl)

theorem succeeded_pinv {g : Graph} (dok : DepsOK g) {s s1 : S} {id : Nat} {perm : List Nat} (s0 : S)
    (pi : PInv g s) (hst : s.st id = .running)
    (c1 : s0.st = s.st) (c4 : s0.ready = s.ready) (c5 : s0.pools = s.pools) (c6 : s0.tasksFailed = s.tasksFailed)
    (h : readyDependents g s0 id perm = .ok s1) : PInv g s1 := by
  apply readyDependents_pinv dok (Or.inr (by rw [c1]; exact hst)) _ _ _ _ _ h
  · intro b _ hb; rw [c4]; rw [c1] at hb; exact pi.rdy b hb
  · intro b hb; rw [c5]; rw [c1] at hb; exact pi.que b hb
  · intro b hb; rw [c1] at hb
    rw [recheckReady_congr g s s0 b (fun p => by rw [c1])]; exact pi.wnt b hb
  · intro b hb f hf p hp; rw [c1] at hb ⊢; exact pi.clo b hb f hf p hp
  · intro b hb; rw [c6]; rw [c1] at hb; exact pi.fld b hb

theorem startLoop_inl_pinv {g : Graph} {par : Nat} (fuel : Nat) (s : S) (p : Bool) (inv : Inv g par s)
    (pi : PInv g s) (s' : S) (p' : Bool) (h : startLoop g par fuel s p = .inl (s', p')) : PInv g s' := by
  induction fuel generalizing s p with
  | zero => simp [startLoop] at h
  | succ fuel ih =>
    unfold startLoop at h
    split at h
    · rename_i hlt
      split at h
      · cases h; exact pi
      · rename_i id pools hpop
        split at h
        · rename_i s1 hs
          exact ih _ _ (start_inv inv hlt hpop (resToRun_inl hs)) (start_pinv inv pi hpop (resToRun_inl hs)) h
        · cases h
    · cases h; exact pi

theorem readyLoop_inl_pinv {E : Type} {g : Graph} {par : Nat} (dok : DepsOK g) (c : Choices E) (fuel : Nat)
    (s : S) (e : E) (perms : List (List Nat)) (p : Bool) (inv : Inv g par s) (pi : PInv g s)
    (s' : S) (e' : E) (perms' : List (List Nat)) (p' : Bool)
    (h : readyLoop g c fuel s e perms p = .inl (s', e', perms', p')) : PInv g s' := by
  induction fuel generalizing s e perms p with
  | zero => simp [readyLoop] at h
  | succ fuel ih =>
    unfold readyLoop at h
    split at h
    · cases h; exact pi
    · rename_i id rest hr
      simp only [] at h
      split at h
      · cases h
      · rename_i dirty e1 hc
        split at h
        · split at h
          · rename_i s1 hs
            exact ih _ _ _ _ (clean_inv inv hr (resToRun_inl hs)) (clean_pinv dok inv pi hr (resToRun_inl hs)) h
          · cases h
        · split at h
          · split at h
            · rename_i s1 hs
              exact ih _ _ _ _ (clean_inv inv hr (resToRun_inl hs)) (clean_pinv dok inv pi hr (resToRun_inl hs)) h
            · cases h
          · split at h
            · rename_i s1 hs
              exact ih _ _ _ _ (enqueue_inv inv hr hs) (enqueue_pinv inv pi hr hs) h
            · cases h

/-! ### "No progress" means nothing was there to do -/

theorem startLoop_true {g : Graph} {par : Nat} (fuel : Nat) (s : S) (s' : S) (p' : Bool)
    (h : startLoop g par fuel s true = .inl (s', p')) : p' = true := by
  induction fuel generalizing s with
  | zero => simp [startLoop] at h
  | succ fuel ih =>
    unfold startLoop at h
    split at h
    · split at h
      · cases h; rfl
      · split at h
        · exact ih _ h
        · cases h
    · cases h; rfl

theorem startLoop_false {g : Graph} {par : Nat} (fuel : Nat) (s : S) (s' : S)
    (h : startLoop g par fuel s false = .inl (s', false)) :
    s' = s ∧ (¬ s.running < par ∨ popQueued s.pools = none) := by
  cases fuel with
  | zero => simp [startLoop] at h
  | succ fuel =>
    unfold startLoop at h
    split at h
    · split at h
      · rename_i hpop; cases h; exact ⟨rfl, Or.inr hpop⟩
      · split at h
        · have := startLoop_true _ _ _ _ h; cases this
        · cases h
    · rename_i hlt; cases h; exact ⟨rfl, Or.inl hlt⟩

theorem readyLoop_true {E : Type} {g : Graph} (c : Choices E) (fuel : Nat) (s : S) (e : E)
    (perms : List (List Nat)) (s' : S) (e' : E) (perms' : List (List Nat)) (p' : Bool)
    (h : readyLoop g c fuel s e perms true = .inl (s', e', perms', p')) : p' = true := by
  induction fuel generalizing s e perms with
  | zero => simp [readyLoop] at h
  | succ fuel ih =>
    unfold readyLoop at h
    split at h
    · cases h; rfl
    · simp only [] at h
      split at h
      · cases h
      · split at h
        · split at h
          · exact ih _ _ _ h
          · cases h
        · split at h
          · split at h
            · exact ih _ _ _ h
            · cases h
          · split at h
            · exact ih _ _ _ h
            · cases h

theorem readyLoop_false {E : Type} {g : Graph} (c : Choices E) (fuel : Nat) (s : S) (e : E)
    (perms : List (List Nat)) (s' : S) (e' : E) (perms' : List (List Nat))
    (h : readyLoop g c fuel s e perms false = .inl (s', e', perms', false)) : s' = s ∧ s.ready = [] := by
  cases fuel with
  | zero => simp [readyLoop] at h
  | succ fuel =>
    unfold readyLoop at h
    split at h
    · rename_i hr; cases h; exact ⟨rfl, hr⟩
    · simp only [] at h
      split at h
      · cases h
      · split at h
        · split at h
          · have := readyLoop_true _ _ _ _ _ _ _ _ _ h; cases this
          · cases h
        · split at h
          · split at h
            · have := readyLoop_true _ _ _ _ _ _ _ _ _ h; cases this
            · cases h
          · split at h
            · have := readyLoop_true _ _ _ _ _ _ _ _ _ h; cases this
            · cases h



/-! ### The inner loops and `set` never produce the `BUG` outcome -/

theorem resToRun_not_bug (s0 : S) (r : Res S) (se : S) : resToRun s0 r ≠ .inr (se, .bug) := by
  unfold resToRun; split <;> simp

theorem enqueueRun_not_bug (g : Graph) (s : S) (id : Nat) (se : S) : enqueueRun g s id ≠ .inr (se, .bug) := by
  unfold enqueueRun
  split
  · split <;> simp
  · exact resToRun_not_bug _ _ _

theorem startLoop_not_bug (g : Graph) (par fuel : Nat) (s : S) (p : Bool) (se : S) :
    startLoop g par fuel s p ≠ .inr (se, .bug) := by
  induction fuel generalizing s p with
  | zero => simp [startLoop]
  | succ fuel ih =>
    unfold startLoop
    split
    · split
      · simp
      · split
        · exact ih _ _
        · rename_i r hr; intro e; cases e; exact resToRun_not_bug _ _ _ hr
    · simp

theorem readyLoop_not_bug {E : Type} (g : Graph) (c : Choices E) (fuel : Nat) (s : S) (e : E)
    (perms : List (List Nat)) (p : Bool) (se : S) (e' : E) :
    readyLoop g c fuel s e perms p ≠ .inr (se, e', .bug) := by
  induction fuel generalizing s e perms p with
  | zero => simp [readyLoop]
  | succ fuel ih =>
    unfold readyLoop
    split
    · simp
    · simp only []
      split
      · simp
      · split
        · split
          · exact ih _ _ _ _
          · rename_i r hr; intro h; cases h; exact resToRun_not_bug _ _ _ hr
        · split
          · split
            · exact ih _ _ _ _
            · rename_i r hr; intro h; cases h; exact resToRun_not_bug _ _ _ hr
          · split
            · exact ih _ _ _ _
            · rename_i r hr; intro h; cases h; exact enqueueRun_not_bug _ _ _ _ hr

/-! ### Nothing to do while something is pending: impossible -/

theorem cnt_zero_forall (n : Nat) (p : Nat → Bool) (h : cnt n p = 0) : ∀ b, b < n → p b = false := by
  induction n with
  | zero => intro b hb; omega
  | succ n ih =>
    rw [cnt_succ] at h
    intro b hb
    by_cases e : b = n
    · subst e
      cases hp : p b with
      | false => rfl
      | true => simp [hp] at h
    · exact ih (by omega) b (by omega)

theorem cnt_pos_exists (n : Nat) (p : Nat → Bool) (h : 0 < cnt n p) : ∃ b, b < n ∧ p b = true := by
  induction n with
  | zero => simp [cnt] at h
  | succ n ih =>
    rw [cnt_succ] at h
    by_cases hp : p n = true
    · exact ⟨n, by omega, hp⟩
    · simp [hp] at h
      obtain ⟨b, hb, hpb⟩ := ih h
      exact ⟨b, by omega, hpb⟩

theorem popQueued_none (ps : List Pool) (h : popQueued ps = none) :
    ∀ p ∈ ps, (p.depth = 0 ∨ p.running < p.depth) → p.queued = [] := by
  induction ps with
  | nil => intro p hp; cases hp
  | cons p0 rest ih =>
    unfold popQueued at h
    intro p hp hroom
    simp at hp
    split at h
    · split at h
      · cases h
      · rename_i hq
        cases hr : popQueued rest with
        | none =>
          rcases hp with rfl | hp
          · exact hq
          · exact ih hr p hp hroom
        | some r => simp [hr] at h
    · rename_i hnr
      cases hr : popQueued rest with
      | none =>
        rcases hp with rfl | hp
        · exact absurd hroom hnr
        · exact ih hr p hp hroom
      | some r => simp [hr] at h

theorem recheckReady_false (g : Graph) (s : S) (b : Nat) (h : recheckReady g s b = false) :
    ∃ f ∈ (g.build b).ordering, ∃ p, g.producer f = some p ∧ s.st p ≠ .done := by
  apply Classical.byContradiction
  intro hno
  have : recheckReady g s b = true := by
    apply recheckReady_complete
    intro f hf p hp
    apply Classical.byContradiction
    intro hnd
    exact hno ⟨f, hf, p, hp, hnd⟩
  rw [this] at h; cases h

/-- Ordering edges form no cycle: producers rank strictly below their consumers. -/
def Acyclic (g : Graph) : Prop :=
  ∃ rank : Nat → Nat, ∀ b f p, f ∈ (g.build b).ordering → g.producer f = some p → rank p < rank b

/-- **The situation in which n2 would panic with `BUG: no work to do and runner not running`
    cannot arise** on an acyclic graph: something pending, nothing ready, nothing startable,
    nothing running, nothing failed. -/
theorem no_stall {g : Graph} {par : Nat} {s : S} (inv : Inv g par s) (pi : PInv g s) (acyc : Acyclic g)
    (hpar : 0 < par) (hpend : ¬ s.pending ≤ 0) (hready : s.ready = [])
    (hpop : ¬ s.running < par ∨ popQueued s.pools = none) (hrun : s.running ≤ 0)
    (htf : s.tasksFailed = 0) : False := by
  -- nothing is running
  have hcr : cnt g.nBuilds (fun b => s.st b == .running) = 0 := by
    have := inv.running; omega
  have hnorun : ∀ b, s.st b ≠ .running := by
    intro b hb
    have hlt : b < g.nBuilds := inv.valid b (by rw [hb]; simp)
    have := cnt_zero_forall _ _ hcr b hlt
    simp [hb] at this
  -- hence the queues hold nothing
  have hpopn : popQueued s.pools = none := by
    rcases hpop with h | h
    · exfalso; apply h; have := inv.running; omega
    · exact h
  have hnoq : ∀ b, s.st b ≠ .queued := by
    intro b hb
    obtain ⟨p, hp, hbp⟩ := pi.que b hb
    have hpr := inv.poolRunning p hp
    have hz : cnt g.nBuilds (fun b => s.st b == .running && (g.build b).pool == p.name) = 0 := by
      apply cnt_eq_zero
      intro x
      have := hnorun x
      simp [this]
    have hroom : p.depth = 0 ∨ p.running < p.depth := by
      by_cases hd : p.depth = 0
      · exact Or.inl hd
      · right; rw [hpr, hz]; omega
    have := popQueued_none _ hpopn p hp hroom
    rw [this] at hbp; cases hbp
  have hnor : ∀ b, s.st b ≠ .ready := by
    intro b hb; have := pi.rdy b hb; rw [hready] at this; cases this
  have hnof : ∀ b, s.st b ≠ .failed := by
    intro b hb; have := pi.fld b hb; omega
  -- no build can be Want: follow producers downwards
  obtain ⟨rank, hrank⟩ := acyc
  have hnow : ∀ n b, rank b = n → s.st b ≠ .want := by
    intro n
    induction n using Nat.strongRecOn with
    | _ n ih =>
      intro b hb hw
      obtain ⟨f, hf, p, hp, hnd⟩ := recheckReady_false g s b (pi.wnt b hw)
      have hpu := pi.clo b (by rw [hw]; simp) f hf p hp
      have hlt := hrank b f p hf hp
      have hpw : s.st p = .want := by
        cases hsp : s.st p with
        | unknown => exact absurd hsp hpu
        | want => rfl
        | ready => exact absurd hsp (hnor p)
        | queued => exact absurd hsp (hnoq p)
        | running => exact absurd hsp (hnorun p)
        | done => exact absurd hsp hnd
        | failed => exact absurd hsp (hnof p)
      exact ih (rank p) (by omega) p rfl hpw
  -- but something is pending
  have hpos : 0 < cnt g.nBuilds (fun b => active (s.st b)) := by
    have := inv.pending; omega
  obtain ⟨b, _, hb⟩ := cnt_pos_exists _ _ hpos
  cases hsb : s.st b with
  | unknown => rw [hsb] at hb; simp [active] at hb
  | want => exact hnow _ b rfl hsb
  | ready => exact hnor b hsb
  | queued => exact hnoq b hsb
  | running => exact hnorun b hsb
  | done => rw [hsb] at hb; simp [active] at hb
  | failed => rw [hsb] at hb; simp [active] at hb

/-- **`Work::run` never reaches its `BUG` panic** on an acyclic graph with `-j ≥ 1`, whatever the
    environment does. -/
theorem runLoop_no_bug {E : Type} {g : Graph} {par : Nat} (dok : DepsOK g) (acyc : Acyclic g) (hpar : 0 < par)
    (c : Choices E) (fuel : Nat) (s : S) (e : E) (perms : List (List Nat)) (fin : List (Nat × Term))
    (inv : Inv g par s) (pi : PInv g s) :
    (runLoop g par c fuel s e perms fin).result ≠ .bug ∧
    ((runLoop g par c fuel s e perms fin).result = .ok true → PInv g (runLoop g par c fuel s e perms fin).s) := by
  induction fuel generalizing s e perms fin with
  | zero => exact ⟨by simp [runLoop], by simp [runLoop]⟩
  | succ fuel ih =>
    unfold runLoop
    by_cases hp : s.pending ≤ 0
    · simp only [hp, if_true]; exact ⟨by simp, fun _ => pi⟩
    · simp only [hp, if_false]
      have inv0 : Inv g par { s with trace := Ev.update (countsList s.counts) :: s.trace } :=
        Inv.of_sameCore (s := s) ⟨rfl, rfl, rfl, rfl, rfl, rfl⟩ inv
      have pi0 : PInv g { s with trace := Ev.update (countsList s.counts) :: s.trace } :=
        ⟨pi.rdy, pi.que, fun b hb => by
          have := pi.wnt b hb; rw [← this]; exact recheckReady_congr g s _ b (fun _ => Iff.rfl),
         pi.clo, pi.fld⟩
      cases h1 : startLoop g par (g.nBuilds + 1) { s with trace := Ev.update (countsList s.counts) :: s.trace } false with
      | inr r =>
        obtain ⟨se, rr⟩ := r
        simp only []
        exact ⟨fun hb => by rw [hb] at h1; exact startLoop_not_bug _ _ _ _ _ _ h1,
               fun hb => by rw [hb] at h1; exact absurd h1 (startLoop_not_ok _ _ _ _ _ _ _)⟩
      | inl r =>
        obtain ⟨s1, p1⟩ := r
        simp only []
        have i1 := startLoop_inl_inv _ _ _ inv0 _ _ h1
        have q1 := startLoop_inl_pinv _ _ _ inv0 pi0 _ _ h1
        cases h2 : readyLoop g c (g.nBuilds + 1) s1 e perms false with
        | inr r =>
          obtain ⟨se, e2, rr⟩ := r
          simp only []
          exact ⟨fun hb => by rw [hb] at h2; exact readyLoop_not_bug _ c _ _ _ _ _ _ _ h2,
                 fun hb => by rw [hb] at h2; exact absurd h2 (readyLoop_not_ok _ _ _ _ _ _ _ _ _ _)⟩
        | inl r =>
          obtain ⟨s2, e2, perms2, p2⟩ := r
          simp only []
          have i2 := readyLoop_inl_inv c _ _ _ _ _ i1 _ _ _ _ h2
          have q2 := readyLoop_inl_pinv dok c _ _ _ _ _ i1 q1 _ _ _ _ h2
          by_cases hpp : (p1 || p2) = true
          · simp only [hpp, if_true]; exact ih _ _ _ _ i2 q2
          · simp only [hpp, Bool.false_eq_true, if_false]
            have hp1 : p1 = false := by cases p1 <;> simp_all
            have hp2 : p2 = false := by cases p2 <;> simp_all
            subst hp1; subst hp2
            by_cases hrun : s2.running ≤ 0
            · simp only [hrun, if_true]
              split
              · exact ⟨by simp, by simp⟩
              · rename_i htf
                exfalso
                obtain ⟨e21, hrdy⟩ := readyLoop_false c _ _ _ _ _ _ _ h2
                obtain ⟨e10, hpop⟩ := startLoop_false _ _ _ h1
                have hpend2 : ¬ s2.pending ≤ 0 := by rw [e21, e10]; exact hp
                have hrdy2 : s2.ready = [] := by rw [e21]; exact hrdy
                have hpop2 : ¬ s2.running < par ∨ popQueued s2.pools = none := by rw [e21, e10]; exact hpop
                exact no_stall i2 q2 acyc hpar hpend2 hrdy2 hpop2 hrun (by omega)
            · simp only [hrun, if_false]
              cases fin with
              | nil => exact ⟨by simp, by simp⟩
              | cons ft fin' =>
                obtain ⟨id, t⟩ := ft
                simp only []
                by_cases hst : s2.st id ≠ .running
                · rw [if_pos hst]; exact ⟨by simp, by simp⟩
                · rw [if_neg hst]
                  have hst' : s2.st id = .running := by simpa using hst
                  cases t with
                  | interrupted => exact ⟨by simp, by simp⟩
                  | success =>
                    simp only []
                    generalize h4 : resToRun _ _ = r4
                    cases r4 with
                    | inl s4 =>
                      simp only []
                      refine ih _ _ _ _ ?_ ?_
                      · refine succeeded_inv _ i2 hst' ?_ ?_ (resToRun_inl h4)
                        · exact ⟨rfl, rfl, rfl, rfl, rfl⟩
                        · rfl
                      · refine succeeded_pinv dok _ q2 hst' ?_ ?_ ?_ ?_ (resToRun_inl h4) <;> rfl
                    | inr r =>
                      obtain ⟨se, rr⟩ := r
                      simp only []
                      exact ⟨fun hb => by rw [hb] at h4; exact resToRun_not_bug _ _ _ h4,
                             fun hb => by rw [hb] at h4; exact absurd h4 (resToRun_not_ok _ _ _ _)⟩
                  | failure =>
                    simp only []
                    cases hfl : s2.failuresLeft with
                    | none =>
                      simp only []
                      generalize h4 : resToRun _ _ = r4
                      cases r4 with
                      | inl s4 =>
                        simp only []
                        refine ih _ _ _ _ ?_ ?_
                        · refine failed_inv _ i2 hst' ?_ ?_ (resToRun_inl h4)
                          · exact ⟨rfl, rfl, rfl, rfl, rfl⟩
                          · rfl
                        · refine failed_pinv (s0 := _) ?_ ?_ ?_ ?_ ?_ ?_ (resToRun_inl h4)
                          · exact hst'
                          · show 0 < s2.tasksFailed + 1; omega
                          · exact q2.rdy
                          · exact q2.que
                          · intro b hb
                            have := q2.wnt b hb; rw [← this]
                            exact recheckReady_congr g s2 _ b (fun _ => Iff.rfl)
                          · exact q2.clo
                      | inr r =>
                        obtain ⟨se, rr⟩ := r
                        simp only []
                        exact ⟨fun hb => by rw [hb] at h4; exact resToRun_not_bug _ _ _ h4,
                               fun hb => by rw [hb] at h4; exact absurd h4 (resToRun_not_ok _ _ _ _)⟩
                    | some n =>
                      simp only []
                      by_cases hn0 : n = 0
                      · rw [if_pos hn0]; exact ⟨by simp, by simp⟩
                      · rw [if_neg hn0]
                        by_cases hn1 : n - 1 = 0
                        · rw [if_pos hn1]; exact ⟨by simp, by simp⟩
                        · rw [if_neg hn1]
                          generalize h4 : resToRun _ _ = r4
                          cases r4 with
                          | inl s4 =>
                            simp only []
                            refine ih _ _ _ _ ?_ ?_
                            · refine failed_inv _ i2 hst' ?_ ?_ (resToRun_inl h4)
                              · exact ⟨rfl, rfl, rfl, rfl, rfl⟩
                              · rfl
                            · refine failed_pinv (s0 := _) ?_ ?_ ?_ ?_ ?_ ?_ (resToRun_inl h4)
                              · exact hst'
                              · show 0 < s2.tasksFailed + 1; omega
                              · exact q2.rdy
                              · exact q2.que
                              · intro b hb
                                have := q2.wnt b hb; rw [← this]
                                exact recheckReady_congr g s2 _ b (fun _ => Iff.rfl)
                              · exact q2.clo
                          | inr r =>
                            obtain ⟨se, rr⟩ := r
                            simp only []
                            exact ⟨fun hb => by rw [hb] at h4; exact resToRun_not_bug _ _ _ h4,
                                   fun hb => by rw [hb] at h4; exact absurd h4 (resToRun_not_ok _ _ _ _)⟩

end N2V.Sched
