/-
  Totality of the manifest parser: for every byte string, `Parser::read` returns an item or a
  parse error — it never reads outside the buffer, never steps back before the start, never wraps
  the line counter, and every loop advances (the model's fuel `size + 1` is always enough).
-/
import N2V.Lemmas.DepfileTotal
import N2V.Model.Parse
namespace N2V.Parse
open N2V N2V.Scanner N2V.Eval
open N2V.Depfile (G ncr_after back_after_read)

/-- The outcome is a value with a scanner satisfying `P`, or a parse error whose offset is at most
    `B` (the size of the buffer: the excerpt formatter can always locate it); never abnormal. -/
def Ok1 {α : Type} (B : Nat) (P : α → Scanner → Prop) : PRes α → Prop
  | .ok a s' => P a s'
  | .perr _ o => o ≤ B
  | .bad _ => False

theorem ok1_bind {α β : Type} {B : Nat} (m : PM α) (f : α → PM β) (s : Scanner) {P : α → Scanner → Prop}
    {Q : β → Scanner → Prop} (hm : Ok1 B P (m s)) (hf : ∀ a s1, P a s1 → Ok1 B Q (f a s1)) :
    Ok1 B Q ((m >>= f) s) := by
  simp only [bind, PM.bind]
  cases h : m s with
  | ok a s1 => rw [h] at hm; exact hf a s1 hm
  | perr msg o => rw [h] at hm; exact hm
  | bad r => rw [h] at hm; exact hm

theorem ok1_pure {α : Type} {B : Nat} (a : α) (s : Scanner) {P : α → Scanner → Prop} (h : P a s) :
    Ok1 B P ((pure a : PM α) s) := h

theorem ok1_mono {α : Type} {B : Nat} {P Q : α → Scanner → Prop} {r : PRes α} (h : Ok1 B P r)
    (hpq : ∀ a s, P a s → Q a s) : Ok1 B Q r := by
  cases r with
  | ok a s => exact hpq a s h
  | perr m o => exact h
  | bad r => exact h

theorem ok1_error {α : Type} {B : Nat} (msg : String) (s : Scanner) {P : α → Scanner → Prop} (h : s.ofs ≤ B) :
    Ok1 B P ((pError msg : PM α) s) := h

/-! ### Primitives -/

theorem pRead_ok1 {buf : Array UInt8} {s : Scanner} (w : SW buf s) (h : s.ofs < buf.size) :
    Ok1 buf.size (fun c s1 => SW buf s1 ∧ s1.ofs = s.ofs + 1 ∧ buf[s.ofs]? = some c ∧ (c ≠ NUL → s1.ofs < buf.size))
      (pRead s) := by
  obtain ⟨c, s1, hc, hr, w1, ho, hn⟩ := read_ok w h
  unfold pRead liftRes
  rw [hr]
  exact ⟨w1, ho, hc, hn⟩

theorem pPeek_ok1 {buf : Array UInt8} {s : Scanner} (w : SW buf s) (h : s.ofs < buf.size) :
    Ok1 buf.size (fun c s1 => s1 = s ∧ buf[s.ofs]? = some c) (pPeek s) := by
  obtain ⟨c, hc, hp⟩ := peek_ok w h
  unfold pPeek
  rw [hp]
  exact ⟨rfl, hc⟩

theorem pNext_ok1 {buf : Array UInt8} {s : Scanner} (w : SW buf s) (h : s.ofs < buf.size) :
    Ok1 buf.size (fun _ s1 => SW buf s1 ∧ s1.ofs = s.ofs + 1 ∧ ∃ c, buf[s.ofs]? = some c ∧ (c ≠ NUL → s1.ofs < buf.size))
      (pNext s) := by
  obtain ⟨c, s1, hc, hr, w1, ho, hn⟩ := next_ok w h
  unfold pNext
  rw [hr]
  exact ⟨w1, ho, c, hc, hn⟩

/-- `back` when more than `start` was consumed: lands at or after `start`, in good standing. -/
theorem pBack_ge {buf : Array UInt8} {s : Scanner} (w : SW buf s) (start : Nat) (h : start < s.ofs)
    (hn : s.ofs = start + 1 → NCR buf start) :
    Ok1 buf.size (fun _ s' => G buf s' ∧ start ≤ s'.ofs ∧ s'.ofs < s.ofs) (pBack s) := by
  obtain ⟨s', hb, w', n', lt', hcase⟩ := back_ok w (by omega)
  unfold pBack
  rw [hb]
  refine ⟨⟨w', lt', n'⟩, ?_, ?_⟩
  · rcases hcase with ⟨h1, _⟩ | ⟨h1, _⟩ | ⟨h2, hcr, hnl⟩
    · omega
    · omega
    · by_cases e : s.ofs = start + 1
      · exfalso
        apply hn e
        have e2 : s'.ofs + 1 = start := by omega
        refine ⟨by rw [← e2]; exact hnl, by omega, ?_⟩
        rw [← e2]; simpa using hcr
      · omega
  · rcases hcase with ⟨h1, _⟩ | ⟨h1, _⟩ | ⟨h2, _, _⟩ <;> omega

/-- `back` right after reading one byte from a position in good standing returns there. -/
theorem pBack_one {buf : Array UInt8} {s s1 : Scanner} (g : G buf s) (w1 : SW buf s1) (ho : s1.ofs = s.ofs + 1) :
    Ok1 buf.size (fun _ s' => G buf s' ∧ s'.ofs = s.ofs) (pBack s1) := by
  obtain ⟨s', hb, g', e⟩ := back_after_read g w1 ho
  unfold pBack
  rw [hb]
  exact ⟨g', e⟩

theorem pExpect_ok1 {buf : Array UInt8} {s : Scanner} (g : G buf s) (ch : UInt8) (h0 : ch ≠ NUL) (h1 : ch ≠ CR) :
    Ok1 buf.size (fun _ s' => G buf s' ∧ s'.ofs = s.ofs + 1) (pExpect ch s) := by
  obtain ⟨c, s1, hc, hr, w1, ho, hn⟩ := read_ok g.w g.lt
  unfold pExpect expect
  rw [hr]
  simp only []
  by_cases hcc : c = ch
  · subst hcc
    simp only [bne_self_eq_false, Bool.false_eq_true, if_false]
    exact ⟨⟨w1, hn h0, by rw [ho]; exact ncr_after hc h1⟩, ho⟩
  · have : (c != ch) = true := by simpa using hcc
    simp only [this, if_true]
    obtain ⟨s', hb, g', ho'⟩ := back_after_read g w1 ho
    rw [hb]
    exact g'.w.le

theorem pSlice_ok1 {buf : Array UInt8} {s : Scanner} (w : SW buf s) (a b : Nat) (h : a ≤ b ∧ b ≤ buf.size)
    {P : Bytes → Scanner → Prop} (hp : ∀ x, P x s) : Ok1 buf.size P (pSlice a b s) := by
  unfold pSlice slice
  have : a ≤ b ∧ b ≤ s.buf.size := by rw [w.hb]; exact h
  rw [if_pos this]
  exact hp _

theorem pScannerSkipSpaces_ok1 {buf : Array UInt8} {s : Scanner} (g : G buf s) :
    Ok1 buf.size (fun _ s' => G buf s' ∧ s.ofs ≤ s'.ofs) (pScannerSkipSpaces s) := by
  obtain ⟨s', h', g', hle⟩ := Depfile.scanner_skipSpaces_ok buf (s.buf.size + 1) s g (by rw [g.w.hb]; omega)
  unfold pScannerSkipSpaces
  rw [h']
  exact ⟨g', hle⟩


/-! ### Identifiers, spaces, escapes -/

theorem isIdentChar_ne (c : UInt8) (d : Bool) (h : isIdentChar c d = true) : c ≠ NUL ∧ c ≠ CR ∧ c ≠ NL := by
  refine ⟨?_, ?_, ?_⟩ <;> intro e <;> subst e <;> cases d <;> simp [isIdentChar, NUL, CR, NL] at h

theorem identLoop_ok1 (buf : Array UInt8) (d : Bool) : ∀ (fuel : Nat) (s : Scanner), SW buf s → s.ofs < buf.size →
    buf.size - s.ofs < fuel → Ok1 buf.size (fun _ s' => SW buf s' ∧ s.ofs < s'.ofs) (identLoop d fuel s) := by
  intro fuel
  induction fuel with
  | zero => intro s _ _ h; exact absurd h (by omega)
  | succ fuel ih =>
    intro s w hlt hf
    unfold identLoop
    apply ok1_bind _ _ _ (pRead_ok1 w hlt)
    intro c s1 ⟨w1, ho, hc, hn⟩
    by_cases hi : isIdentChar c d = true
    · simp only [hi, if_true]
      have hne := isIdentChar_ne c d hi
      exact ok1_mono (ih s1 w1 (hn hne.1) (by omega)) (fun _ s' h => ⟨h.1, by have := h.2; omega⟩)
    · simp only [hi, Bool.false_eq_true, if_false]
      exact ok1_pure () s1 ⟨w1, by omega⟩

theorem readIdentGen_ok1 (buf : Array UInt8) (d : Bool) (msg : String) (s : Scanner) (g : G buf s) :
    Ok1 buf.size (fun _ s' => G buf s' ∧ s.ofs < s'.ofs) (readIdentGen d msg s) := by
  unfold readIdentGen
  apply ok1_bind _ _ _ (P := fun a s1 => s.ofs = a ∧ s = s1) (by exact ⟨rfl, rfl⟩)
  rintro start s1 ⟨rfl, rfl⟩
  apply ok1_bind _ _ _ (P := fun n s1 => buf.size = n ∧ s = s1) (by exact ⟨g.w.hb ▸ rfl, rfl⟩)
  rintro n s1 ⟨rfl, rfl⟩
  apply ok1_bind _ _ _ (identLoop_ok1 buf d _ s g.w g.lt (by omega))
  intro _ s2 ⟨w2, hlt2⟩
  apply ok1_bind _ _ _ (pBack_ge w2 s.ofs hlt2 (fun _ => g.ncr))
  intro _ s3 ⟨g3, hge, _⟩
  apply ok1_bind _ _ _ (P := fun a s4 => s3.ofs = a ∧ s3 = s4) (by exact ⟨rfl, rfl⟩)
  rintro stop s4 ⟨rfl, rfl⟩
  by_cases he : s3.ofs = s.ofs
  · simp only [he, beq_self_eq_true, if_true]; exact ok1_error _ _ g3.w.le
  · have : (s3.ofs == s.ofs) = false := by simpa using he
    simp only [this, Bool.false_eq_true, if_false]
    exact pSlice_ok1 g3.w _ _ ⟨hge, Nat.le_of_lt g3.lt⟩ (fun _ => ⟨g3, by omega⟩)

theorem readIdent_ok1 (buf : Array UInt8) (s : Scanner) (g : G buf s) :
    Ok1 buf.size (fun _ s' => G buf s' ∧ s.ofs < s'.ofs) (readIdent s) := readIdentGen_ok1 buf _ _ s g

theorem readSimpleVarname_ok1 (buf : Array UInt8) (s : Scanner) (g : G buf s) :
    Ok1 buf.size (fun _ s' => G buf s' ∧ s.ofs < s'.ofs) (readSimpleVarname s) := readIdentGen_ok1 buf _ _ s g

theorem skipSpacesLoop_ok1 (buf : Array UInt8) : ∀ (fuel : Nat) (s : Scanner), G buf s → buf.size - s.ofs < fuel →
    Ok1 buf.size (fun _ s' => G buf s' ∧ s.ofs ≤ s'.ofs) (skipSpacesLoop fuel s) := by
  intro fuel
  induction fuel with
  | zero => intro s _ h; exact absurd h (by omega)
  | succ fuel ih =>
    intro s g hf
    have hlt := g.lt
    unfold skipSpacesLoop
    apply ok1_bind _ _ _ (pRead_ok1 g.w g.lt)
    intro c s1 ⟨w1, ho, hc, hn⟩
    by_cases hsp : c = SP
    · subst hsp
      simp only [beq_self_eq_true, if_true]
      have g1 : G buf s1 := ⟨w1, hn (by decide), by rw [ho]; exact ncr_after hc (by decide)⟩
      exact ok1_mono (ih s1 g1 (by omega)) (fun _ s' h => ⟨h.1, by have := h.2; omega⟩)
    · have hsp' : (c == SP) = false := by simpa using hsp
      simp only [hsp', Bool.false_eq_true, if_false]
      by_cases hd : c = DOLLAR
      · subst hd
        simp only [beq_self_eq_true, if_true]
        have hlt1 : s1.ofs < buf.size := hn (by decide)
        apply ok1_bind _ _ _ (pPeek_ok1 w1 hlt1)
        rintro p s1' ⟨rfl, hp⟩
        by_cases hnl : p = NL
        · subst hnl
          simp only [bne_self_eq_false, Bool.false_eq_true, if_false]
          apply ok1_bind _ _ _ (pRead_ok1 w1 hlt1)
          intro c2 s2 ⟨w2, ho2, hc2, hn2⟩
          have hc2nl : c2 = NL := by rw [hp] at hc2; exact (Option.some.inj hc2).symm
          subst hc2nl
          have g2 : G buf s2 := ⟨w2, hn2 (by decide), by rw [ho2]; exact ncr_after hc2 (by decide)⟩
          exact ok1_mono (ih s2 g2 (by omega)) (fun _ s' h => ⟨h.1, by have := h.2; omega⟩)
        · have : (p != NL) = true := by simpa using hnl
          simp only [this, if_true]
          exact ok1_mono (pBack_one g w1 ho) (fun _ s' h => ⟨h.1, by omega⟩)
      · have hd' : (c == DOLLAR) = false := by simpa using hd
        simp only [hd', Bool.false_eq_true, if_false]
        exact ok1_mono (pBack_one g w1 ho) (fun _ s' h => ⟨h.1, by omega⟩)

theorem skipSpaces_ok1 (buf : Array UInt8) (s : Scanner) (g : G buf s) :
    Ok1 buf.size (fun _ s' => G buf s' ∧ s.ofs ≤ s'.ofs) (skipSpaces s) := by
  unfold skipSpaces
  apply ok1_bind _ _ _ (P := fun n s1 => buf.size = n ∧ s = s1) (by exact ⟨g.w.hb ▸ rfl, rfl⟩)
  rintro n s1 ⟨rfl, rfl⟩
  exact skipSpacesLoop_ok1 buf _ s g (by omega)

theorem braceLoop_ok1 (buf : Array UInt8) : ∀ (fuel : Nat) (s : Scanner), SW buf s → s.ofs < buf.size →
    buf.size - s.ofs < fuel → Ok1 buf.size (fun _ s' => G buf s' ∧ s.ofs < s'.ofs) (braceLoop fuel s) := by
  intro fuel
  induction fuel with
  | zero => intro s _ _ h; exact absurd h (by omega)
  | succ fuel ih =>
    intro s w hlt hf
    unfold braceLoop
    apply ok1_bind _ _ _ (pRead_ok1 w hlt)
    intro c s1 ⟨w1, ho, hc, hn⟩
    by_cases h0 : c = NUL
    · subst h0; simp only [beq_self_eq_true, if_true]; exact ok1_error _ _ w1.le
    · have h0' : (c == NUL) = false := by simpa using h0
      simp only [h0', Bool.false_eq_true, if_false]
      by_cases hr : c = RBRACE
      · subst hr
        simp only [beq_self_eq_true, if_true]
        exact ok1_pure () s1 ⟨⟨w1, hn h0, by rw [ho]; exact ncr_after hc (by decide)⟩, by omega⟩
      · have hr' : (c == RBRACE) = false := by simpa using hr
        simp only [hr', Bool.false_eq_true, if_false]
        exact ok1_mono (ih s1 w1 (hn h0) (by omega)) (fun _ s' h => ⟨h.1, by have := h.2; omega⟩)


theorem readEscape_ok1 (buf : Array UInt8) (s : Scanner) (g : G buf s) :
    Ok1 buf.size (fun _ s' => G buf s' ∧ s.ofs < s'.ofs) (readEscape s) := by
  unfold readEscape
  apply ok1_bind _ _ _ (pRead_ok1 g.w g.lt)
  intro c s1 ⟨w1, ho, hc, hn⟩
  by_cases hnl : c = NL
  · subst hnl
    simp only [beq_self_eq_true, if_true]
    have g1 : G buf s1 := ⟨w1, hn (by decide), by rw [ho]; exact ncr_after hc (by decide)⟩
    apply ok1_bind _ _ _ (pScannerSkipSpaces_ok1 g1)
    intro _ s2 ⟨g2, hle⟩
    exact ok1_pure _ s2 ⟨g2, by omega⟩
  · have hnl' : (c == NL) = false := by simpa using hnl
    simp only [hnl', Bool.false_eq_true, if_false]
    by_cases hlit : (c == SP || c == DOLLAR || c == COLON) = true
    · simp only [hlit, if_true]
      have hcn : c ≠ NUL := by intro e; subst e; simp [SP, DOLLAR, COLON, NUL] at hlit
      have hcr : c ≠ CR := by intro e; subst e; simp [SP, DOLLAR, COLON, CR] at hlit
      exact ok1_pure _ s1 ⟨⟨w1, hn hcn, by rw [ho]; exact ncr_after hc hcr⟩, by omega⟩
    · have hlit' : (c == SP || c == DOLLAR || c == COLON) = false := by simpa using hlit
      simp only [hlit', Bool.false_eq_true, if_false]
      by_cases hlb : c = LBRACE
      · subst hlb
        simp only [beq_self_eq_true, if_true]
        have hlt1 : s1.ofs < buf.size := hn (by decide)
        apply ok1_bind _ _ _ (P := fun a s' => s1.ofs = a ∧ s1 = s') (by exact ⟨rfl, rfl⟩)
        rintro start s1' ⟨rfl, rfl⟩
        apply ok1_bind _ _ _ (P := fun n s' => buf.size = n ∧ s1 = s') (by exact ⟨w1.hb ▸ rfl, rfl⟩)
        rintro n s1' ⟨rfl, rfl⟩
        apply ok1_bind _ _ _ (braceLoop_ok1 buf _ s1 w1 hlt1 (by omega))
        intro _ s2 ⟨g2, hlt2⟩
        apply ok1_bind _ _ _ (P := fun a s' => s2.ofs = a ∧ s2 = s') (by exact ⟨rfl, rfl⟩)
        rintro stop s2' ⟨rfl, rfl⟩
        apply ok1_bind _ _ _ (pSlice_ok1 g2.w _ _ ⟨by omega, by have := g2.lt; omega⟩ (P := fun _ s' => s' = s2) (fun _ => rfl))
        rintro name s2' rfl
        exact ok1_pure _ _ ⟨g2, by omega⟩
      · have hlb' : (c == LBRACE) = false := by simpa using hlb
        simp only [hlb', Bool.false_eq_true, if_false]
        apply ok1_bind _ _ _ (pBack_one g w1 ho)
        intro _ s2 ⟨g2, ho2⟩
        apply ok1_bind _ _ _ (readSimpleVarname_ok1 buf s2 g2)
        intro v s3 ⟨g3, hlt3⟩
        exact ok1_pure _ s3 ⟨g3, by omega⟩

/-- The main loop of `read_eval`.  `lo` is where `read_eval` started; `ofs` is the start of the
    pending literal. -/
theorem evalLoop_ok1 (buf : Array UInt8) (sep : Bool) (lo : Nat) : ∀ (fuel : Nat) (ofs : Nat) (acc : List Part)
    (s : Scanner), SW buf s → s.ofs < buf.size → ofs ≤ s.ofs → (s.ofs = ofs → NCR buf ofs) → lo ≤ ofs →
    (acc ≠ [] → lo < ofs) → buf.size - s.ofs < fuel →
    Ok1 buf.size (fun r s' => G buf s' ∧ r.2.2 = s'.ofs ∧ r.2.1 ≤ r.2.2 ∧ lo ≤ r.2.1 ∧ (r.1 ≠ [] → lo < r.2.1))
      (evalLoop sep fuel ofs acc s) := by
  intro fuel
  induction fuel with
  | zero => intro _ _ s _ _ _ _ _ _ h; exact absurd h (by omega)
  | succ fuel ih =>
    intro ofs acc s w hlt hle hn0 hlo hacc hf
    unfold evalLoop
    apply ok1_bind _ _ _ (pRead_ok1 w hlt)
    intro c s1 ⟨w1, ho, hc, hn⟩
    by_cases h0 : c = NUL
    · subst h0; simp only [beq_self_eq_true, if_true]; exact ok1_error _ _ w1.le
    · have h0' : (c == NUL) = false := by simpa using h0
      simp only [h0', Bool.false_eq_true, if_false]
      by_cases hstop : (c == NL || (sep && (c == SP || c == COLON || c == PIPE))) = true
      · simp only [hstop, if_true]
        apply ok1_bind _ _ _ (pBack_ge w1 ofs (by omega) (fun e => hn0 (by omega)))
        intro _ s2 ⟨g2, hge, _⟩
        apply ok1_bind _ _ _ (P := fun a s' => s2.ofs = a ∧ s2 = s') (by exact ⟨rfl, rfl⟩)
        rintro e s2' ⟨rfl, rfl⟩
        exact ok1_pure _ s2 ⟨g2, rfl, hge, hlo, hacc⟩
      · have hstop' : (c == NL || (sep && (c == SP || c == COLON || c == PIPE))) = false := by simpa using hstop
        simp only [hstop', Bool.false_eq_true, if_false]
        by_cases hd : c = DOLLAR
        · subst hd
          simp only [beq_self_eq_true, if_true]
          have g1 : G buf s1 := ⟨w1, hn (by decide), by rw [ho]; exact ncr_after hc (by decide)⟩
          apply ok1_bind _ _ _ (P := fun a s' => s1.ofs = a ∧ s1 = s') (by exact ⟨rfl, rfl⟩)
          rintro cur s1' ⟨rfl, rfl⟩
          apply ok1_bind _ _ _ (P := fun (a1 : List Part) s' => s' = s1 ∧ a1 ≠ [] ∨ (s' = s1 ∧ a1 = acc))
          · by_cases hgt : s1.ofs - 1 > ofs
            · simp only [hgt, if_true]
              apply ok1_bind _ _ _ (pSlice_ok1 w1 _ _ ⟨by omega, by have := w1.le; omega⟩ (P := fun _ s' => s' = s1) (fun _ => rfl))
              rintro l s1' rfl
              exact ok1_pure _ _ (Or.inl ⟨rfl, by simp⟩)
            · simp only [hgt, if_false]
              exact ok1_pure _ _ (Or.inr ⟨rfl, rfl⟩)
          · intro acc1 s1' hacc1
            have hs1 : s1' = s1 := by rcases hacc1 with h | h <;> exact h.1
            subst hs1
            apply ok1_bind _ _ _ (readEscape_ok1 buf s1' g1)
            intro esc s2 ⟨g2, hlt2⟩
            apply ok1_bind _ _ _ (P := fun a s' => s2.ofs = a ∧ s2 = s') (by exact ⟨rfl, rfl⟩)
            rintro ofs' s2' ⟨rfl, rfl⟩
            exact ih s2.ofs (acc1 ++ [esc]) s2 g2.w g2.lt (Nat.le_refl _) (fun _ => g2.ncr) (by omega)
              (fun _ => by omega) (by omega)
        · have hd' : (c == DOLLAR) = false := by simpa using hd
          simp only [hd', Bool.false_eq_true, if_false]
          exact ih ofs acc s1 w1 (hn h0) (by omega) (fun e => by omega) hlo hacc (by omega)

theorem readEval_ok1 (buf : Array UInt8) (sep : Bool) (s : Scanner) (g : G buf s) :
    Ok1 buf.size (fun _ s' => G buf s' ∧ s.ofs < s'.ofs) (readEval sep s) := by
  unfold readEval
  apply ok1_bind _ _ _ (P := fun a s1 => s.ofs = a ∧ s = s1) (by exact ⟨rfl, rfl⟩)
  rintro ofs s1 ⟨rfl, rfl⟩
  apply ok1_bind _ _ _ (P := fun n s1 => buf.size = n ∧ s = s1) (by exact ⟨g.w.hb ▸ rfl, rfl⟩)
  rintro n s1 ⟨rfl, rfl⟩
  apply ok1_bind _ _ _ (evalLoop_ok1 buf sep s.ofs _ s.ofs [] s g.w g.lt (Nat.le_refl _) (fun _ => g.ncr)
    (Nat.le_refl _) (fun h => absurd rfl h) (by omega))
  intro r s2 h
  obtain ⟨acc, ofs', e⟩ := r
  obtain ⟨g2, he, hle, hlo, hacc⟩ := h
  simp only [] at he hle hlo hacc
  simp only []
  apply ok1_bind _ _ _ (P := fun (a1 : List Part) s' => s' = s2 ∧ (a1 ≠ [] → s.ofs < s2.ofs))
  · by_cases hgt : e > ofs'
    · simp only [hgt, if_true]
      apply ok1_bind _ _ _ (pSlice_ok1 g2.w _ _ ⟨hle, by rw [he]; exact Nat.le_of_lt g2.lt⟩ (P := fun _ s' => s' = s2) (fun _ => rfl))
      rintro l s2' rfl
      exact ok1_pure _ _ ⟨rfl, fun _ => by omega⟩
    · simp only [hgt, if_false]
      exact ok1_pure _ _ ⟨rfl, fun hne => by have := hacc hne; omega⟩
  · rintro acc' s2' ⟨rfl, hprog⟩
    by_cases hem : acc'.isEmpty = true
    · simp only [hem, if_true]; exact ok1_error _ _ g2.w.le
    · simp only [hem, Bool.false_eq_true, if_false]
      exact ok1_pure _ _ ⟨g2, hprog (by intro e; subst e; simp at hem)⟩


/-! ### Statements -/

theorem readVardef_ok1 (buf : Array UInt8) (s : Scanner) (g : G buf s) :
    Ok1 buf.size (fun _ s' => G buf s' ∧ s.ofs < s'.ofs) (readVardef s) := by
  unfold readVardef
  apply ok1_bind _ _ _ (skipSpaces_ok1 buf s g)
  intro _ s1 ⟨g1, h1⟩
  apply ok1_bind _ _ _ (pExpect_ok1 g1 EQ (by decide) (by decide))
  intro _ s2 ⟨g2, h2⟩
  apply ok1_bind _ _ _ (skipSpaces_ok1 buf s2 g2)
  intro _ s3 ⟨g3, h3⟩
  apply ok1_bind _ _ _ (pPeek_ok1 g3.w g3.lt)
  rintro p s3' ⟨rfl, hp⟩
  by_cases hnl : p = NL
  · subst hnl
    simp only [beq_self_eq_true, if_true]
    apply ok1_bind _ _ _ (pExpect_ok1 g3 NL (by decide) (by decide))
    intro _ s4 ⟨g4, h4⟩
    exact ok1_pure _ s4 ⟨g4, by omega⟩
  · have : (p == NL) = false := by simpa using hnl
    simp only [this, Bool.false_eq_true, if_false]
    apply ok1_bind _ _ _ (readEval_ok1 buf false s3' g3)
    intro r s4 ⟨g4, h4⟩
    apply ok1_bind _ _ _ (pExpect_ok1 g4 NL (by decide) (by decide))
    intro _ s5 ⟨g5, h5⟩
    exact ok1_pure _ s5 ⟨g5, by omega⟩

theorem scopedVarsLoop_ok1 (buf : Array UInt8) (valid : Bytes → Bool) : ∀ (fuel : Nat) (vars : EvalMap)
    (s : Scanner), G buf s → buf.size - s.ofs < fuel →
    Ok1 buf.size (fun _ s' => G buf s' ∧ s.ofs ≤ s'.ofs) (scopedVarsLoop valid fuel vars s) := by
  intro fuel
  induction fuel with
  | zero => intro _ s _ h; exact absurd h (by omega)
  | succ fuel ih =>
    intro vars s g hf
    have hlt := g.lt
    unfold scopedVarsLoop
    apply ok1_bind _ _ _ (pPeek_ok1 g.w g.lt)
    rintro p s' ⟨rfl, hp⟩
    by_cases hsp : p = SP
    · subst hsp
      simp only [bne_self_eq_false, Bool.false_eq_true, if_false]
      -- the leading space is consumed, so the loop advances
      obtain ⟨c, s1, hc, hr, w1, ho, hn⟩ := read_ok g.w g.lt
      have hcs : c = SP := by rw [hp] at hc; exact (Option.some.inj hc).symm
      subst hcs
      have hskip : Ok1 buf.size (fun _ s2 => G buf s2 ∧ s'.ofs < s2.ofs) (pScannerSkipSpaces s') := by
        have g1 : G buf s1 := ⟨w1, hn (by decide), by rw [ho]; exact ncr_after hc (by decide)⟩
        obtain ⟨s2, h2, g2, hle2⟩ := Depfile.scanner_skipSpaces_ok buf (s'.buf.size) s1 g1 (by rw [g.w.hb]; omega)
        unfold pScannerSkipSpaces Scanner.skipSpaces skip
        rw [hr]
        simp only [bne_self_eq_false, Bool.false_eq_true, if_false]
        rw [h2]
        exact ⟨g2, by omega⟩
      apply ok1_bind _ _ _ hskip
      intro _ s2 ⟨g2, hlt2⟩
      apply ok1_bind _ _ _ (readIdent_ok1 buf s2 g2)
      intro name s3 ⟨g3, h3⟩
      by_cases hv : valid name = true
      · simp only [hv, Bool.not_true, Bool.false_eq_true, if_false]
        apply ok1_bind _ _ _ (skipSpaces_ok1 buf s3 g3)
        intro _ s4 ⟨g4, h4⟩
        apply ok1_bind _ _ _ (readVardef_ok1 buf s4 g4)
        intro val s5 ⟨g5, h5⟩
        exact ok1_mono (ih _ s5 g5 (by omega)) (fun _ s6 h => ⟨h.1, by have := h.2; omega⟩)
      · have : valid name = false := by simpa using hv
        simp only [this, Bool.not_false, if_true]
        exact ok1_error _ _ (by first | exact g3.w.le | exact g2.w.le | exact g1.w.le | exact g.w.le)
    · have : (p != SP) = true := by simpa using hsp
      simp only [this, if_true]
      exact ok1_pure _ s' ⟨g, Nat.le_refl _⟩

theorem readScopedVars_ok1 (buf : Array UInt8) (valid : Bytes → Bool) (s : Scanner) (g : G buf s) :
    Ok1 buf.size (fun _ s' => G buf s' ∧ s.ofs ≤ s'.ofs) (readScopedVars valid s) := by
  unfold readScopedVars
  apply ok1_bind _ _ _ (P := fun n s1 => buf.size = n ∧ s = s1) (by exact ⟨g.w.hb ▸ rfl, rfl⟩)
  rintro n s1 ⟨rfl, rfl⟩
  exact scopedVarsLoop_ok1 buf valid _ [] s g (by omega)

theorem readRule_ok1 (buf : Array UInt8) (s : Scanner) (g : G buf s) :
    Ok1 buf.size (fun _ s' => G buf s' ∧ s.ofs < s'.ofs) (readRule s) := by
  unfold readRule
  apply ok1_bind _ _ _ (readIdent_ok1 buf s g)
  intro name s1 ⟨g1, h1⟩
  apply ok1_bind _ _ _ (pExpect_ok1 g1 NL (by decide) (by decide))
  intro _ s2 ⟨g2, h2⟩
  apply ok1_bind _ _ _ (readScopedVars_ok1 buf _ s2 g2)
  intro vars s3 ⟨g3, h3⟩
  exact ok1_pure _ s3 ⟨g3, by omega⟩

theorem readPool_ok1 (buf : Array UInt8) (s : Scanner) (g : G buf s) :
    Ok1 buf.size (fun _ s' => G buf s' ∧ s.ofs < s'.ofs) (readPool s) := by
  unfold readPool
  apply ok1_bind _ _ _ (readIdent_ok1 buf s g)
  intro name s1 ⟨g1, h1⟩
  apply ok1_bind _ _ _ (pExpect_ok1 g1 NL (by decide) (by decide))
  intro _ s2 ⟨g2, h2⟩
  apply ok1_bind _ _ _ (readScopedVars_ok1 buf _ s2 g2)
  intro vars s3 ⟨g3, h3⟩
  cases vars with
  | nil => exact ok1_pure _ s3 ⟨g3, by omega⟩
  | cons v rest =>
    obtain ⟨k, val⟩ := v
    simp only []
    cases parseUsize (Eval.evaluate [] val) with
    | some d => exact ok1_pure _ s3 ⟨g3, by omega⟩
    | none => exact ok1_error _ _ g3.w.le

theorem pathsLoop_ok1 (buf : Array UInt8) : ∀ (fuel : Nat) (acc : List EvalStr) (s : Scanner), G buf s →
    buf.size - s.ofs < fuel → Ok1 buf.size (fun _ s' => G buf s' ∧ s.ofs ≤ s'.ofs) (pathsLoop fuel acc s) := by
  intro fuel
  induction fuel with
  | zero => intro _ s _ h; exact absurd h (by omega)
  | succ fuel ih =>
    intro acc s g hf
    have hlt := g.lt
    unfold pathsLoop
    apply ok1_bind _ _ _ (pPeek_ok1 g.w g.lt)
    rintro p s' ⟨rfl, hp⟩
    by_cases hstop : (p == COLON || p == PIPE || p == NL) = true
    · simp only [hstop, if_true]
      exact ok1_pure _ s' ⟨g, Nat.le_refl _⟩
    · have : (p == COLON || p == PIPE || p == NL) = false := by simpa using hstop
      simp only [this, Bool.false_eq_true, if_false]
      apply ok1_bind _ _ _ (readEval_ok1 buf true s' g)
      intro e s1 ⟨g1, h1⟩
      apply ok1_bind _ _ _ (skipSpaces_ok1 buf s1 g1)
      intro _ s2 ⟨g2, h2⟩
      exact ok1_mono (ih _ s2 g2 (by omega)) (fun _ s3 h => ⟨h.1, by have := h.2; omega⟩)

theorem readPathsTo_ok1 (buf : Array UInt8) (acc : List EvalStr) (s : Scanner) (g : G buf s) :
    Ok1 buf.size (fun _ s' => G buf s' ∧ s.ofs ≤ s'.ofs) (readPathsTo acc s) := by
  unfold readPathsTo
  apply ok1_bind _ _ _ (skipSpaces_ok1 buf s g)
  intro _ s1 ⟨g1, h1⟩
  apply ok1_bind _ _ _ (P := fun n s2 => buf.size = n ∧ s1 = s2) (by exact ⟨g1.w.hb ▸ rfl, rfl⟩)
  rintro n s2 ⟨rfl, rfl⟩
  exact ok1_mono (pathsLoop_ok1 buf _ acc s1 g1 (by omega)) (fun _ s3 h => ⟨h.1, by have := h.2; omega⟩)

/-- Consuming a byte that is known not to be NUL or CR keeps the scanner in good standing. -/
theorem pNext_good {buf : Array UInt8} {s : Scanner} (g : G buf s) (c : UInt8) (hc : buf[s.ofs]? = some c)
    (h0 : c ≠ NUL) (h1 : c ≠ CR) : Ok1 buf.size (fun _ s1 => G buf s1 ∧ s1.ofs = s.ofs + 1 ∧ SW buf s1) (pNext s) := by
  apply ok1_mono (pNext_ok1 g.w g.lt)
  rintro _ s1 ⟨w1, ho, c', hc', hn⟩
  have : c' = c := by rw [hc] at hc'; exact (Option.some.inj hc').symm
  subst this
  exact ⟨⟨w1, hn h0, by rw [ho]; exact ncr_after hc h1⟩, ho, w1⟩

theorem optImplicitOuts_ok1 (buf : Array UInt8) (outs : List EvalStr) (s : Scanner) (g : G buf s) :
    Ok1 buf.size (fun _ s' => G buf s' ∧ s.ofs ≤ s'.ofs) (optImplicitOuts outs s) := by
  unfold optImplicitOuts
  apply ok1_bind _ _ _ (pPeek_ok1 g.w g.lt)
  rintro p s' ⟨rfl, hp⟩
  by_cases hpipe : p = PIPE
  · subst hpipe
    simp only [beq_self_eq_true, if_true]
    apply ok1_bind _ _ _ (pNext_good g PIPE hp (by decide) (by decide))
    intro _ s1 ⟨g1, ho, _⟩
    exact ok1_mono (readPathsTo_ok1 buf outs s1 g1) (fun _ s2 h => ⟨h.1, by have := h.2; omega⟩)
  · have : (p == PIPE) = false := by simpa using hpipe
    simp only [this, Bool.false_eq_true, if_false]
    exact ok1_pure _ s' ⟨g, Nat.le_refl _⟩

theorem optImplicit_ok1 (buf : Array UInt8) (ins : List EvalStr) (s : Scanner) (g : G buf s) :
    Ok1 buf.size (fun _ s' => G buf s' ∧ s.ofs ≤ s'.ofs) (optImplicit ins s) := by
  unfold optImplicit
  apply ok1_bind _ _ _ (pPeek_ok1 g.w g.lt)
  rintro p s' ⟨rfl, hp⟩
  by_cases hpipe : p = PIPE
  · subst hpipe
    simp only [beq_self_eq_true, if_true]
    apply ok1_bind _ _ _ (pNext_good g PIPE hp (by decide) (by decide))
    intro _ s1 ⟨g1, ho, w1⟩
    apply ok1_bind _ _ _ (pPeek_ok1 g1.w g1.lt)
    rintro q s1' ⟨rfl, hq⟩
    by_cases hq2 : (q == PIPE || q == AT) = true
    · simp only [hq2, if_true]
      apply ok1_bind _ _ _ (pBack_one g w1 ho)
      intro _ s2 ⟨g2, ho2⟩
      exact ok1_pure _ s2 ⟨g2, by omega⟩
    · have : (q == PIPE || q == AT) = false := by simpa using hq2
      simp only [this, Bool.false_eq_true, if_false]
      exact ok1_mono (readPathsTo_ok1 buf ins s1' g1) (fun _ s2 h => ⟨h.1, by have := h.2; omega⟩)
  · have : (p == PIPE) = false := by simpa using hpipe
    simp only [this, Bool.false_eq_true, if_false]
    exact ok1_pure _ s' ⟨g, Nat.le_refl _⟩

theorem optOrderOnly_ok1 (buf : Array UInt8) (ins : List EvalStr) (s : Scanner) (g : G buf s) :
    Ok1 buf.size (fun _ s' => G buf s' ∧ s.ofs ≤ s'.ofs) (optOrderOnly ins s) := by
  unfold optOrderOnly
  apply ok1_bind _ _ _ (pPeek_ok1 g.w g.lt)
  rintro p s' ⟨rfl, hp⟩
  by_cases hpipe : p = PIPE
  · subst hpipe
    simp only [beq_self_eq_true, if_true]
    apply ok1_bind _ _ _ (pNext_good g PIPE hp (by decide) (by decide))
    intro _ s1 ⟨g1, ho, w1⟩
    apply ok1_bind _ _ _ (pPeek_ok1 g1.w g1.lt)
    rintro q s1' ⟨rfl, hq⟩
    by_cases hq2 : q = AT
    · subst hq2
      simp only [beq_self_eq_true, if_true]
      apply ok1_bind _ _ _ (pBack_one g w1 ho)
      intro _ s2 ⟨g2, ho2⟩
      exact ok1_pure _ s2 ⟨g2, by omega⟩
    · have : (q == AT) = false := by simpa using hq2
      simp only [this, Bool.false_eq_true, if_false]
      apply ok1_bind _ _ _ (pExpect_ok1 g1 PIPE (by decide) (by decide))
      intro _ s2 ⟨g2, h2⟩
      exact ok1_mono (readPathsTo_ok1 buf ins s2 g2) (fun _ s3 h => ⟨h.1, by have := h.2; omega⟩)
  · have : (p == PIPE) = false := by simpa using hpipe
    simp only [this, Bool.false_eq_true, if_false]
    exact ok1_pure _ s' ⟨g, Nat.le_refl _⟩

theorem optValidation_ok1 (buf : Array UInt8) (ins : List EvalStr) (s : Scanner) (g : G buf s) :
    Ok1 buf.size (fun _ s' => G buf s' ∧ s.ofs ≤ s'.ofs) (optValidation ins s) := by
  unfold optValidation
  apply ok1_bind _ _ _ (pPeek_ok1 g.w g.lt)
  rintro p s' ⟨rfl, hp⟩
  by_cases hpipe : p = PIPE
  · subst hpipe
    simp only [beq_self_eq_true, if_true]
    apply ok1_bind _ _ _ (pNext_good g PIPE hp (by decide) (by decide))
    intro _ s1 ⟨g1, ho, w1⟩
    apply ok1_bind _ _ _ (pExpect_ok1 g1 AT (by decide) (by decide))
    intro _ s2 ⟨g2, h2⟩
    exact ok1_mono (readPathsTo_ok1 buf ins s2 g2) (fun _ s3 h => ⟨h.1, by have := h.2; omega⟩)
  · have : (p == PIPE) = false := by simpa using hpipe
    simp only [this, Bool.false_eq_true, if_false]
    exact ok1_pure _ s' ⟨g, Nat.le_refl _⟩


theorem readBuild_ok1 (buf : Array UInt8) (s : Scanner) (g : G buf s) :
    Ok1 buf.size (fun _ s' => G buf s' ∧ s.ofs < s'.ofs) (readBuild s) := by
  unfold readBuild
  apply ok1_bind _ _ _ (P := fun _ s1 => s = s1) (by exact rfl)
  rintro line s1 rfl
  apply ok1_bind _ _ _ (readPathsTo_ok1 buf [] s g)
  intro outs0 s1 ⟨g1, h1⟩
  apply ok1_bind _ _ _ (optImplicitOuts_ok1 buf outs0 s1 g1)
  intro outs s2 ⟨g2, h2⟩
  apply ok1_bind _ _ _ (pExpect_ok1 g2 COLON (by decide) (by decide))
  intro _ s3 ⟨g3, h3⟩
  apply ok1_bind _ _ _ (skipSpaces_ok1 buf s3 g3)
  intro _ s4 ⟨g4, h4⟩
  apply ok1_bind _ _ _ (readIdent_ok1 buf s4 g4)
  intro rule s5 ⟨g5, h5⟩
  apply ok1_bind _ _ _ (readPathsTo_ok1 buf [] s5 g5)
  intro ins0 s6 ⟨g6, h6⟩
  apply ok1_bind _ _ _ (optImplicit_ok1 buf ins0 s6 g6)
  intro ins1 s7 ⟨g7, h7⟩
  apply ok1_bind _ _ _ (optOrderOnly_ok1 buf ins1 s7 g7)
  intro ins2 s8 ⟨g8, h8⟩
  apply ok1_bind _ _ _ (optValidation_ok1 buf ins2 s8 g8)
  intro ins3 s9 ⟨g9, h9⟩
  apply ok1_bind _ _ _ (pExpect_ok1 g9 NL (by decide) (by decide))
  intro _ s10 ⟨g10, h10⟩
  apply ok1_bind _ _ _ (readScopedVars_ok1 buf _ s10 g10)
  intro vars s11 ⟨g11, h11⟩
  exact ok1_pure _ s11 ⟨g11, by omega⟩

theorem readDefault_ok1 (buf : Array UInt8) (s : Scanner) (g : G buf s) :
    Ok1 buf.size (fun _ s' => G buf s' ∧ s.ofs < s'.ofs) (readDefault s) := by
  unfold readDefault
  apply ok1_bind _ _ _ (readPathsTo_ok1 buf [] s g)
  intro ps s1 ⟨g1, h1⟩
  by_cases he : ps.isEmpty = true
  · simp only [he, if_true]; exact ok1_error _ _ g1.w.le
  · simp only [he, Bool.false_eq_true, if_false]
    apply ok1_bind _ _ _ (pExpect_ok1 g1 NL (by decide) (by decide))
    intro _ s2 ⟨g2, h2⟩
    exact ok1_pure _ s2 ⟨g2, by omega⟩

/-- `back` over a byte that is not a newline is a plain one-byte step. -/
theorem pBack_plain {buf : Array UInt8} {s : Scanner} (w : SW buf s) (k : Nat) (hk : s.ofs = k + 1) (c : UInt8)
    (hc : buf[k]? = some c) (hne : c ≠ NL) : Ok1 buf.size (fun _ s' => G buf s' ∧ s'.ofs = k) (pBack s) := by
  obtain ⟨s', hb, w', n', lt', hcase⟩ := back_ok w (by omega)
  unfold pBack
  rw [hb]
  refine ⟨⟨w', lt', n'⟩, ?_⟩
  rcases hcase with ⟨h1, _⟩ | ⟨h1, hnl, _⟩ | ⟨h2, _, hnl⟩
  · omega
  · exfalso
    have : s'.ofs = k := by omega
    rw [this, hc] at hnl
    exact hne (Option.some.inj hnl)
  · exfalso
    have : s'.ofs + 1 = k := by omega
    rw [this, hc] at hnl
    exact hne (Option.some.inj hnl)

theorem skipCommentLoop_ok1 (buf : Array UInt8) : ∀ (fuel : Nat) (s : Scanner), SW buf s → s.ofs < buf.size →
    buf.size - s.ofs < fuel →
    Ok1 buf.size (fun _ s' => G buf s' ∧ s.ofs ≤ s'.ofs ∧ (buf[s.ofs]? ≠ some NUL → s.ofs < s'.ofs))
      (skipCommentLoop fuel s) := by
  intro fuel
  induction fuel with
  | zero => intro s _ _ h; exact absurd h (by omega)
  | succ fuel ih =>
    intro s w hlt hf
    unfold skipCommentLoop
    apply ok1_bind _ _ _ (pRead_ok1 w hlt)
    intro c s1 ⟨w1, ho, hc, hn⟩
    by_cases h0 : c = NUL
    · subst h0
      simp only [beq_self_eq_true, if_true]
      apply ok1_mono (pBack_plain w1 s.ofs ho NUL hc (by decide))
      intro _ s2 ⟨g2, h2⟩
      exact ⟨g2, by omega, fun hne => absurd hc hne⟩
    · have h0' : (c == NUL) = false := by simpa using h0
      simp only [h0', Bool.false_eq_true, if_false]
      by_cases hnl : c = NL
      · subst hnl
        simp only [beq_self_eq_true, if_true]
        exact ok1_pure _ s1 ⟨⟨w1, hn h0, by rw [ho]; exact ncr_after hc (by decide)⟩, by omega, fun _ => by omega⟩
      · have : (c == NL) = false := by simpa using hnl
        simp only [this, Bool.false_eq_true, if_false]
        apply ok1_mono (ih s1 w1 (hn h0) (by omega))
        intro _ s2 ⟨g2, h2, _⟩
        exact ⟨g2, by omega, fun _ => by omega⟩

theorem skipComment_ok1 (buf : Array UInt8) (s : Scanner) (g : G buf s) :
    Ok1 buf.size (fun _ s' => G buf s' ∧ s.ofs ≤ s'.ofs ∧ (buf[s.ofs]? ≠ some NUL → s.ofs < s'.ofs)) (skipComment s) := by
  unfold skipComment
  apply ok1_bind _ _ _ (P := fun n s1 => buf.size = n ∧ s = s1) (by exact ⟨g.w.hb ▸ rfl, rfl⟩)
  rintro n s1 ⟨rfl, rfl⟩
  exact skipCommentLoop_ok1 buf _ s g.w g.lt (by omega)

/-- One round of `Parser::read`: an item (with the scanner advanced unless it is end of file) or
    a parse error. -/
theorem readItem_ok1 (buf : Array UInt8) : ∀ (fuel : Nat) (s : Scanner), G buf s → buf.size - s.ofs < fuel →
    Ok1 buf.size (fun it s' => G buf s' ∧ s.ofs ≤ s'.ofs ∧ ((match it with | .eof => False | _ => True) → s.ofs < s'.ofs))
      (readItem fuel s) := by
  intro fuel
  induction fuel with
  | zero => intro s _ h; exact absurd h (by omega)
  | succ fuel ih =>
    intro s g hf
    have hlt := g.lt
    unfold readItem
    apply ok1_bind _ _ _ (pPeek_ok1 g.w g.lt)
    rintro p s' ⟨rfl, hp⟩
    by_cases h0 : p = NUL
    · subst h0
      simp only [beq_self_eq_true, if_true]
      exact ok1_pure _ s' ⟨g, Nat.le_refl _, fun h => h.elim⟩
    · have h0' : (p == NUL) = false := by simpa using h0
      simp only [h0', Bool.false_eq_true, if_false]
      by_cases hnl : p = NL
      · subst hnl
        simp only [beq_self_eq_true, if_true]
        apply ok1_bind _ _ _ (pNext_good g NL hp (by decide) (by decide))
        intro _ s1 ⟨g1, ho, _⟩
        apply ok1_mono (ih s1 g1 (by omega))
        intro it s2 ⟨g2, h2, _⟩
        exact ⟨g2, by omega, fun _ => by omega⟩
      · have hnl' : (p == NL) = false := by simpa using hnl
        simp only [hnl', Bool.false_eq_true, if_false]
        by_cases hh : p = HASH
        · subst hh
          simp only [beq_self_eq_true, if_true]
          apply ok1_bind _ _ _ (skipComment_ok1 buf s' g)
          intro _ s1 ⟨g1, h1, hprog⟩
          have hlt1 : s'.ofs < s1.ofs := hprog (by rw [hp]; intro e; exact absurd (Option.some.inj e) (by decide))
          apply ok1_mono (ih s1 g1 (by omega))
          intro it s2 ⟨g2, h2, _⟩
          exact ⟨g2, by omega, fun _ => by omega⟩
        · have hh' : (p == HASH) = false := by simpa using hh
          simp only [hh', Bool.false_eq_true, if_false]
          by_cases hws : (p == SP || p == TAB) = true
          · simp only [hws, if_true]; exact ok1_error _ _ (by first | exact g1.w.le | exact g'.w.le | exact g.w.le)
          · have hws' : (p == SP || p == TAB) = false := by simpa using hws
            simp only [hws', Bool.false_eq_true, if_false]
            apply ok1_bind _ _ _ (readIdent_ok1 buf s' g)
            intro ident s1 ⟨g1, h1⟩
            apply ok1_bind _ _ _ (skipSpaces_ok1 buf s1 g1)
            intro _ s2 ⟨g2, h2⟩
            split
            · apply ok1_bind _ _ _ (readRule_ok1 buf s2 g2)
              intro st s3 ⟨g3, h3⟩
              exact ok1_pure _ s3 ⟨g3, by omega, fun _ => by omega⟩
            · split
              · apply ok1_bind _ _ _ (readBuild_ok1 buf s2 g2)
                intro st s3 ⟨g3, h3⟩
                exact ok1_pure _ s3 ⟨g3, by omega, fun _ => by omega⟩
              · split
                · apply ok1_bind _ _ _ (readDefault_ok1 buf s2 g2)
                  intro st s3 ⟨g3, h3⟩
                  exact ok1_pure _ s3 ⟨g3, by omega, fun _ => by omega⟩
                · split
                  · apply ok1_bind _ _ _ (readEval_ok1 buf false s2 g2)
                    intro e s3 ⟨g3, h3⟩
                    exact ok1_pure _ s3 ⟨g3, by omega, fun _ => by omega⟩
                  · split
                    · apply ok1_bind _ _ _ (readEval_ok1 buf false s2 g2)
                      intro e s3 ⟨g3, h3⟩
                      exact ok1_pure _ s3 ⟨g3, by omega, fun _ => by omega⟩
                    · split
                      · apply ok1_bind _ _ _ (readPool_ok1 buf s2 g2)
                        intro st s3 ⟨g3, h3⟩
                        exact ok1_pure _ s3 ⟨g3, by omega, fun _ => by omega⟩
                      · apply ok1_bind _ _ _ (readVardef_ok1 buf s2 g2)
                        intro v s3 ⟨g3, h3⟩
                        exact ok1_pure _ s3 ⟨g3, by omega, fun _ => by omega⟩

/-- The scanner `Scanner::new` makes over a NUL-terminated buffer is in good standing. -/
theorem new_good (text : Bytes) :
    ∃ s, Scanner.new (text ++ [NUL]).toArray = .ok s ∧ G (text ++ [NUL]).toArray s ∧ s.ofs = 0 := by
  have hsz : (text ++ [NUL]).toArray.size = text.length + 1 := by simp
  have hlast : (text ++ [NUL]).toArray[(text ++ [NUL]).toArray.size - 1]? = some NUL := by
    rw [hsz]; simp
  refine ⟨⟨(text ++ [NUL]).toArray, 0, 1⟩, ?_, ?_, rfl⟩
  · unfold Scanner.new
    have : (text ++ [NUL]).toArray.back? = some NUL := by rw [Array.back?]; exact hlast
    simp [this]
  · exact ⟨⟨rfl, by rw [hsz]; omega, hlast, by show 0 ≤ _; omega, rfl⟩, by show 0 < _; rw [hsz]; omega,
      fun hx => by have := hx.2.1; exact absurd this (by show ¬ 0 < 0; omega)⟩

/-- **The manifest parser is total**: from any position in good standing of any NUL-terminated
    buffer — in particular from the start of any file content — one round of `Parser::read`
    returns an item or a parse error.  Reading outside the buffer, stepping back before the start,
    wrapping the line counter and running out of fuel (a loop that does not advance) are
    unreachable; and every item other than end-of-file consumed at least one byte, so the
    statement loop terminates too. -/
theorem readItem_total (text : Bytes) :
    ∃ s0, Scanner.new (text ++ [NUL]).toArray = .ok s0 ∧
      ∀ s, G (text ++ [NUL]).toArray s →
        Ok1 (text ++ [NUL]).toArray.size (fun it s' => G (text ++ [NUL]).toArray s' ∧ s.ofs ≤ s'.ofs ∧
              ((match it with | .eof => False | _ => True) → s.ofs < s'.ofs))
          (readItem ((text ++ [NUL]).toArray.size + 1) s) ∧ G (text ++ [NUL]).toArray s0 := by
  obtain ⟨s0, h0, g0, _⟩ := new_good text
  exact ⟨s0, h0, fun s g => ⟨readItem_ok1 _ _ s g (by omega), g0⟩⟩

end N2V.Parse
