/-
  What an invocation can change (C02: "nothing else is written"): n2 itself never modifies the
  tree — only commands do, and only their declared outputs (the abstract command semantics'
  write set) —, the log only grows, the recorded signatures loaded at start-up, the build
  statements and the names/ids of known files are never changed, the clock never runs backwards.
-/
import N2V.Lemmas.Work
import N2V.Lemmas.SchedEnv
namespace N2V.Work
open N2V N2V.Load

/-! ### The file table only grows -/

theorem idFromCanonical_grows (g : GraphM) (name : Bytes) :
    (idFromCanonical g name).1.builds = g.builds ∧ g.files <+: (idFromCanonical g name).1.files := by
  unfold idFromCanonical
  split
  · exact ⟨rfl, List.prefix_refl _⟩
  · exact ⟨rfl, List.prefix_append _ _⟩

theorem keepDeps_grows (dirtying : List Nat) (ns : List Bytes) : ∀ (e : Env) (acc : List Nat),
    (keepDeps e dirtying ns acc).1.g.builds = e.g.builds ∧ e.g.files <+: (keepDeps e dirtying ns acc).1.g.files := by
  induction ns with
  | nil => intro e acc; exact ⟨rfl, List.prefix_refl _⟩
  | cons n ns ih =>
    intro e acc
    unfold keepDeps
    split
    · exact ih e acc
    · split
      · rename_i c hc
        have hg := idFromCanonical_grows e.g c
        have step : ∀ acc', (keepDeps (intern e c).1 dirtying ns acc').1.g.builds = e.g.builds ∧
            e.g.files <+: (keepDeps (intern e c).1 dirtying ns acc').1.g.files := by
          intro acc'
          obtain ⟨h1, h2⟩ := ih (intern e c).1 acc'
          exact ⟨h1.trans hg.1, hg.2.trans h2⟩
        by_cases hcond : (acc.contains (intern e c).2 || dirtying.contains (intern e c).2) = true
        · rw [if_pos hcond]; exact step acc
        · rw [if_neg hcond]; exact step _
      · exact ih e acc

theorem fileName_prefix {g g' : GraphM} (h : g.files <+: g'.files) (f : Nat) (hf : f < g.files.length) :
    fileName g' f = fileName g f := by
  obtain ⟨t, ht⟩ := h
  unfold fileName
  rw [← ht, List.getElem?_append_left hf]

/-! ### What an invocation may change -/

/-- Names a command of the graph may write: the outputs of the build statements (and the private
    input an `rw` command rewrites). -/
def writeSet (g : GraphM) : Bytes → Prop := fun n =>
  ∃ b bm, buildOf g b = some bm ∧
    ((∃ o ∈ bm.outs, fileName g o = n) ∨ (isRw bm = true ∧ ∃ f, bm.dirtying.getLast? = some f ∧ fileName g f = n))

structure Within (e0 e : Env) : Prop where
  hashes : e.hashes = e0.hashes
  builds : e.g.builds = e0.g.builds
  files : e0.g.files <+: e.g.files
  log : e0.log <+: e.log
  clock : e0.clock ≤ e.clock
  untouched : ∀ n, ¬ writeSet e0.g n → e.fs.get n = e0.fs.get n

theorem Within.refl (e : Env) : Within e e :=
  ⟨rfl, rfl, List.prefix_refl _, List.prefix_refl _, Nat.le_refl _, fun _ _ => rfl⟩

theorem Within.of_same {e0 e e' : Env} (w : Within e0 e) (h : SameButCache e e') : Within e0 e' :=
  ⟨h.hashes.trans w.hashes, by rw [h.g]; exact w.builds, by rw [h.g]; exact w.files, by rw [h.log]; exact w.log,
   by rw [h.clock]; exact w.clock, fun n hn => by rw [h.fs]; exact w.untouched n hn⟩

theorem checkDirty_same (e : Env) (b : Nat) : SameButCache e (checkDirty e b).2 := by
  unfold checkDirty
  split
  · exact SameButCache.refl e
  · rename_i bm _
    split
    · exact statAllOutputs_same e bm.outs
    · split <;> try exact filesMissing_same e bm b
      split <;> exact filesMissing_same e bm b

theorem restat_frame (e : Env) (bm : BuildM) (b : Nat) (deps : Option (List Bytes)) :
    (restat e bm b deps).2.2.fs = e.fs ∧ (restat e bm b deps).2.2.log = e.log ∧
    (restat e bm b deps).2.2.hashes = e.hashes ∧ (restat e bm b deps).2.2.clock = e.clock ∧
    (restat e bm b deps).2.2.g.builds = e.g.builds ∧ e.g.files <+: (restat e bm b deps).2.2.g.files := by
  unfold restat
  simp only []
  have k := keepDeps_frame bm.dirtying (deps.getD []) e []
  have kg := keepDeps_grows bm.dirtying (deps.getD []) e []
  have s1 := statFold_same { (keepDeps e bm.dirtying (deps.getD []) []).1 with
    disc := assocPut (keepDeps e bm.dirtying (deps.getD []) []).1.disc b (keepDeps e bm.dirtying (deps.getD []) []).2 }
    (bm.dirtying ++ (keepDeps e bm.dirtying (deps.getD []) []).2)
  have s2 := statAllOutputs_same ((bm.dirtying ++ (keepDeps e bm.dirtying (deps.getD []) []).2).foldl
    (fun (acc : Bool × Env) f => let (m, e') := statFile acc.2 f; (acc.1 || m.isNone, e'))
    (false, { (keepDeps e bm.dirtying (deps.getD []) []).1 with
      disc := assocPut (keepDeps e bm.dirtying (deps.getD []) []).1.disc b (keepDeps e bm.dirtying (deps.getD []) []).2 })).2 bm.outs
  refine ⟨?_, ?_, ?_, ?_, ?_, ?_⟩
  · rw [s2.fs, s1.fs]; exact k.2.1
  · rw [s2.log, s1.log]; exact k.1
  · rw [s2.hashes, s1.hashes]; exact k.2.2.2.1
  · rw [s2.clock, s1.clock]; exact k.2.2.2.2.2
  · rw [s2.g, s1.g]; exact kg.1
  · rw [s2.g, s1.g]; exact kg.2

/-- `record_finished` touches no file, keeps the loaded signatures, the build statements and the
    known files, and appends at most one record to the log. -/
theorem recordFinished_frame (e : Env) (b : Nat) (deps : Option (List Bytes)) :
    (recordFinished e b deps).fs = e.fs ∧ e.log <+: (recordFinished e b deps).log ∧
    (recordFinished e b deps).hashes = e.hashes ∧ (recordFinished e b deps).clock = e.clock ∧
    (recordFinished e b deps).g.builds = e.g.builds ∧ e.g.files <+: (recordFinished e b deps).g.files := by
  unfold recordFinished
  split
  · exact ⟨rfl, List.prefix_refl _, rfl, rfl, rfl, List.prefix_refl _⟩
  · rename_i bm _
    obtain ⟨f1, f2, f3, f4, f5, f6⟩ := restat_frame e bm b deps
    simp only []
    split
    · exact ⟨f1, by rw [f2]; exact List.prefix_refl _, f3, f4, f5, f6⟩
    · exact ⟨f1, by show e.log <+: _ ++ _; rw [f2]; exact List.prefix_append _ _, f3, f4, f5, f6⟩

/-! ### FsM -/

theorem FsM.get_put_other (fs : FsM) (n m : Bytes) (i : FileInfo) (h : m ≠ n) : (FsM.put fs n i).get m = fs.get m := by
  unfold FsM.put FsM.get FsM.del
  rw [List.find?_append]
  have h1 : ([(n, i)] : FsM).find? (fun p => p.1 == m) = none := by
    have hk : (n == m) = false := by
      cases hh : (n == m) with
      | false => rfl
      | true => exact absurd (beq_iff_eq.mp hh).symm h
    simp [List.find?_cons, hk]
  rw [h1, Option.or_none]
  congr 1
  induction fs with
  | nil => rfl
  | cons p ps ih =>
    by_cases hp : p.1 = n
    · have hf : (p.1 != n) = false := by rw [hp]; exact bne_self_eq_false n
      have hk : (p.1 == m) = false := by
        rw [hp]; cases hh : (n == m) with
        | false => rfl
        | true => exact absurd (beq_iff_eq.mp hh).symm h
      rw [List.filter_cons, hf, List.find?_cons, hk]
      exact ih
    · have hf : (p.1 != n) = true := bne_iff_ne.mpr hp
      rw [List.filter_cons, hf]
      simp only [if_true, List.find?_cons]
      rw [ih]

/-- A command changes only files of its write set, and advances the clock. -/
theorem runCommand_frame (e : Env) (b : Nat) :
    (runCommand e b).log = e.log ∧ (runCommand e b).hashes = e.hashes ∧ (runCommand e b).g = e.g ∧
    e.clock ≤ (runCommand e b).clock ∧
    ∀ n, (∀ bm, buildOf e.g b = some bm →
        (∀ o ∈ bm.outs, fileName e.g o ≠ n) ∧
        (isRw bm = true → ∀ f, bm.dirtying.getLast? = some f → fileName e.g f ≠ n)) →
      (runCommand e b).fs.get n = e.fs.get n := by
  unfold runCommand
  split
  · exact ⟨rfl, rfl, rfl, Nat.le_refl _, fun _ _ => rfl⟩
  · rename_i bm hb
    by_cases hsp : isSplit bm = true
    · -- a `split` command: every output is either left alone or rewritten
      rw [if_pos hsp]
      refine ⟨rfl, rfl, rfl, Nat.le_succ _, ?_⟩
      intro n hn
      obtain ⟨ho, _⟩ := hn bm hb
      unfold runSplit
      simp only []
      have hfold : ∀ (l : List (Nat × Nat)) (fs : FsM), (∀ oi ∈ l, fileName e.g oi.1 ≠ n) →
          (l.foldl (fun (fs : FsM) (oi : Nat × Nat) =>
            if (e.fs.get (fileName e.g oi.1)).map (·.content) == some (splitContent e bm oi.2 (fileName e.g oi.1)) then fs
            else fs.put (fileName e.g oi.1) ⟨e.clock + 1, splitContent e bm oi.2 (fileName e.g oi.1)⟩) fs).get n = fs.get n := by
        intro l
        induction l with
        | nil => intro fs _; rfl
        | cons oi os ih =>
          intro fs h
          simp only [List.foldl_cons]
          rw [ih _ (fun x hx => h x (by simp [hx]))]
          split
          · rfl
          · exact FsM.get_put_other fs _ n _ (fun e' => h oi (by simp) e'.symm)
      apply hfold
      intro oi hoi
      exact ho oi.1 (List.fst_mem_of_mem_zipIdx hoi)
    rw [if_neg hsp]
    refine ⟨rfl, rfl, rfl, Nat.le_succ _, ?_⟩
    intro n hn
    obtain ⟨ho, hrw⟩ := hn bm hb
    simp only []
    -- the fold over the outputs
    have hfold : ∀ (outs : List Nat) (fs : FsM) (content : Nat → Bytes), (∀ o ∈ outs, fileName e.g o ≠ n) →
        (outs.foldl (fun (fs : FsM) o => fs.put (fileName e.g o) ⟨e.clock + 1, content o⟩) fs).get n = fs.get n := by
      intro outs
      induction outs with
      | nil => intro fs _ _; rfl
      | cons o os ih =>
        intro fs content h
        simp only [List.foldl_cons]
        rw [ih _ content (fun x hx => h x (by simp [hx]))]
        exact FsM.get_put_other fs _ n _ (fun e' => h o (by simp) e'.symm)
    have houts := hfold bm.outs e.fs (fun o =>
      if isGen bm then
        match bm.explicitIns.head? with
        | some f => ((e.fs.get (fileName e.g f)).map (·.content)).getD []
        | none => []
      else outContent e bm (fileName e.g o)) ho
    split
    · rename_i hisrw
      split
      · rename_i f hlast
        rw [FsM.get_put_other _ _ n _ (fun e' => hrw hisrw f hlast e'.symm)]
        exact houts
      · exact houts
    · exact houts

/-- File ids used by build statements are ids of the graph (true of every loaded graph). -/
def IdsOK (g : GraphM) : Prop :=
  ∀ b bm, buildOf g b = some bm → ∀ f ∈ bm.ins ++ bm.outs, f < g.files.length

theorem within_check {e0 e : Env} (w : Within e0 e) (b : Nat) : Within e0 (checkDirty e b).2 :=
  w.of_same (checkDirty_same e b)

theorem within_record {e0 e : Env} (w : Within e0 e) (b : Nat) (deps : Option (List Bytes)) :
    Within e0 (recordFinished e b deps) := by
  obtain ⟨f1, f2, f3, f4, f5, f6⟩ := recordFinished_frame e b deps
  exact ⟨f3.trans w.hashes, f5.trans w.builds, w.files.trans f6, w.log.trans f2, by rw [f4]; exact w.clock,
    fun n hn => by rw [f1]; exact w.untouched n hn⟩

theorem within_success {e0 e : Env} (ids : IdsOK e0.g) (w : Within e0 e) (b : Nat) : Within e0 (onSuccess e b) := by
  unfold onSuccess
  split
  · exact w
  · rename_i bm hb
    apply within_record
    obtain ⟨r1, r2, r3, r4, r5⟩ := runCommand_frame e b
    have hb0 : buildOf e0.g b = some bm := by unfold buildOf at hb ⊢; rw [← w.builds]; exact hb
    refine ⟨r2.trans w.hashes, by rw [r3]; exact w.builds, by rw [r3]; exact w.files, by rw [r1]; exact w.log,
      Nat.le_trans w.clock r4, ?_⟩
    intro n hn
    rw [r5 n ?_]
    · exact w.untouched n hn
    · intro bm' hb'
      rw [hb] at hb'
      cases hb'
      constructor
      · intro o ho hname
        apply hn
        refine ⟨b, bm, hb0, Or.inl ⟨o, ho, ?_⟩⟩
        rw [← fileName_prefix w.files o (ids b bm hb0 o (by simp [ho]))]; exact hname
      · intro hrw f hf hname
        apply hn
        refine ⟨b, bm, hb0, Or.inr ⟨hrw, f, hf, ?_⟩⟩
        have hfm : f ∈ bm.ins := by
          have := List.mem_of_getLast? hf
          exact List.mem_of_mem_take this
        rw [← fileName_prefix w.files f (ids b bm hb0 f (by simp [hfm]))]; exact hname

/-- **An invocation changes only what commands write**: through the whole of `run::build`
    (both phases, any targets, any scheduling, failures and interruptions included) the recorded
    signatures, the build statements and the known files are kept, the log and the clock only
    grow, and every file outside the commands' write set is exactly as it was. -/
theorem build_within (e0 : Env) (ids : IdsOK e0.g) (g : Sched.Graph) (a : Run.Args) (adopt : Bool)
    (perms : List (List Nat)) (fin : List (Nat × Sched.Term)) :
    Within e0 (Run.build g a (choices adopt perms fin) e0).2.1 :=
  Run.build_env g a (choices adopt perms fin) (Within e0)
    (fun e b w => within_check w b) (fun e b w => within_success ids w b)
    (fun e b w => within_record w b none) e0 (Within.refl e0)

theorem buildReloaded_within (e0 : Env) (ids : IdsOK e0.g) (g : Sched.Graph) (a : Run.Args) (adopt : Bool)
    (perms : List (List Nat)) (fin : List (Nat × Sched.Term)) (n : Nat) :
    Within e0 (Run.buildReloaded g a (choices adopt perms fin) e0 n).2.1 :=
  Run.buildReloaded_env g a (choices adopt perms fin) (Within e0)
    (fun e b w => within_check w b) (fun e b w => within_success ids w b)
    (fun e b w => within_record w b none) e0 n (Within.refl e0)

end N2V.Work
