/-
  Reflection: the decidable predicate the C03 monitor evaluates on a concrete world
  (`World.settled`, plus a closedness check of the computed closure) implies the hypothesis of
  `repeated_build_does_nothing` (`Work.AllUpToDate` over `Run.Wanted`).  So "the monitor said
  settled" and "the theorem applies" are the same statement, by proof and not by resemblance.
-/
import N2V.Model.Settled
import N2V.Lemmas.WorldClean
namespace N2V.World
open N2V N2V.Work N2V.Load N2V.Sched N2V.Run

theorem needs_in_closed (g : Graph) (roots acc : List Nat) (h : closedUnder g roots acc = true)
    (f b : Nat) (hn : Needs g f b) : (∀ p, g.producer f = some p → p ∈ acc) → b ∈ acc := by
  unfold closedUnder at h
  simp only [Bool.and_eq_true, List.all_eq_true] at h
  obtain ⟨_, hcl⟩ := h
  induction hn with
  | direct hp => intro hr; exact hr _ hp
  | step _ hmem _ ih1 ih2 =>
    intro hr
    have hb := ih1 hr
    apply ih2
    intro p hp
    have := hcl _ hb _ hmem
    rw [hp] at this
    simpa using this

theorem needs_root_in_closed (g : Graph) (roots acc : List Nat) (h : closedUnder g roots acc = true)
    (f b : Nat) (hf : f ∈ roots) (hn : Needs g f b) : b ∈ acc := by
  apply needs_in_closed g roots acc h f b hn
  intro p hp
  unfold closedUnder at h
  simp only [Bool.and_eq_true, List.all_eq_true] at h
  have := h.1 f hf
  rw [hp] at this
  simpa using this

/-- One step of `Mon.wantedFiles`' fold over the command-line names. -/
def wfStep (g : Graph) (a : Args) (acc : Option (List Nat)) (n : Bytes) : Option (List Nat) :=
  match acc, lookupM g a n with
  | some l, .ok (some t) => some (if t = a.manifest then l else l ++ [t])
  | some l, .ok none => if a.adopt then some l else none
  | _, _ => none

theorem wantedFiles_eq (g : Graph) (a : Args) : Mon.wantedFiles g a =
    if !a.targets.isEmpty then a.targets.foldl (wfStep g a) (some [])
    else if !a.defaults.isEmpty then some a.defaults
    else some ((List.range g.nFiles).filter (· ≠ a.manifest)) := rfl

theorem wfStep_none (g : Graph) (a : Args) (n : Bytes) : wfStep g a none n = none := by
  unfold wfStep; rfl

theorem wantedFold_none (g : Graph) (a : Args) (ts : List Bytes) : ts.foldl (wfStep g a) none = none := by
  induction ts with
  | nil => rfl
  | cons t ts ih => simp only [List.foldl_cons, wfStep_none]; exact ih

theorem wantedFold_spec (g : Graph) (a : Args) (ts : List Bytes) : ∀ (acc l : List Nat),
    ts.foldl (wfStep g a) (some acc) = some l →
    (∀ x ∈ acc, x ∈ l) ∧ ∀ n ∈ ts, ∀ t, lookupM g a n = .ok (some t) → t = a.manifest ∨ t ∈ l := by
  induction ts with
  | nil =>
    intro acc l h
    simp only [List.foldl_nil, Option.some.injEq] at h
    subst h
    exact ⟨fun _ h => h, fun _ h => by cases h⟩
  | cons n ts ih =>
    intro acc l h
    simp only [List.foldl_cons] at h
    cases hl : lookupM g a n
    case ok r =>
      cases r with
      | some t =>
        have hst : wfStep g a (some acc) n = some (if t = a.manifest then acc else acc ++ [t]) := by
          unfold wfStep; rw [hl]
        rw [hst] at h
        obtain ⟨h1, h2⟩ := ih _ l h
        refine ⟨fun x hx => h1 x (by split <;> simp [hx]), ?_⟩
        intro n' hn' t' ht'
        rcases List.mem_cons.mp hn' with rfl | hn'
        · rw [hl] at ht'
          have : t = t' := by injection ht' with h'; injection h'
          subst this
          by_cases hm : t = a.manifest
          · exact Or.inl hm
          · right; apply h1; simp [hm]
        · exact h2 n' hn' t' ht'
      | none =>
        have hst : wfStep g a (some acc) n = if a.adopt then some acc else none := by
          unfold wfStep; rw [hl]
        rw [hst] at h
        by_cases had : a.adopt = true
        · rw [if_pos had] at h
          obtain ⟨h1, h2⟩ := ih _ l h
          refine ⟨h1, ?_⟩
          intro n' hn' t' ht'
          rcases List.mem_cons.mp hn' with rfl | hn'
          · rw [hl] at ht'; injection ht' with h'; cases h'
          · exact h2 n' hn' t' ht'
        · rw [if_neg had, wantedFold_none] at h; cases h
    all_goals
      have hst : wfStep g a (some acc) n = none := by unfold wfStep; rw [hl]
      rw [hst, wantedFold_none] at h
      cases h

/-- Every requested file is the manifest or one of `wantedFiles`. -/
theorem requested_in_wantedFiles (g : Graph) (a : Args) (files : List Nat)
    (h : Mon.wantedFiles g a = some files) (f : Nat) (hr : Requested g a f) : f ∈ a.manifest :: files := by
  rw [wantedFiles_eq] at h
  rcases hr with rfl | ⟨n, hn, hl⟩ | ⟨ht, hd⟩ | ⟨ht, hd, hlt⟩
  · simp
  · have hne : a.targets.isEmpty = false := by
      cases hx : a.targets with
      | nil => rw [hx] at hn; cases hn
      | cons _ _ => rfl
    simp only [hne, Bool.not_false, if_true] at h
    obtain ⟨_, h2⟩ := wantedFold_spec g a a.targets [] files h
    rcases h2 n hn f hl with h' | h'
    · simp [h']
    · simp [h']
  · simp only [ht, List.isEmpty_nil, Bool.not_true, Bool.false_eq_true, if_false] at h
    have hne : a.defaults.isEmpty = false := by
      cases hx : a.defaults with
      | nil => rw [hx] at hd; cases hd
      | cons _ _ => rfl
    simp only [hne, Bool.not_false, if_true, Option.some.injEq] at h
    subst h; simp [hd]
  · simp only [ht, hd, List.isEmpty_nil, Bool.not_true, Bool.false_eq_true, if_false, Option.some.injEq] at h
    subst h
    by_cases hm : f = a.manifest
    · simp [hm]
    · simp [hm, hlt]

theorem closure_sound (next : Nat → List Nat) (P : Nat → Prop) (hnext : ∀ x y, P x → y ∈ next x → P y) :
    ∀ (fuel : Nat) (frontier acc : List Nat), (∀ x ∈ frontier, P x) → (∀ x ∈ acc, P x) →
    ∀ x ∈ Mon.closure next fuel frontier acc, P x := by
  intro fuel
  induction fuel with
  | zero => intro fr acc _ h2 x hx; unfold Mon.closure at hx; exact h2 x hx
  | succ fuel ih =>
    intro fr acc h1 h2 x hx
    cases fr with
    | nil => unfold Mon.closure at hx; exact h2 x hx
    | cons b rest =>
      unfold Mon.closure at hx
      split at hx
      · exact ih rest acc (fun y hy => h1 y (by simp [hy])) h2 x hx
      · apply ih (next b ++ rest) (b :: acc) _ _ x hx
        · intro y hy
          rcases List.mem_append.mp hy with h | h
          · exact hnext b y (h1 b (by simp)) h
          · exact h1 y (by simp [h])
        · intro y hy
          rcases List.mem_cons.mp hy with rfl | h
          · exact h1 _ (by simp)
          · exact h2 y h

/-- What the monitor's `ancestors` lists are ordering ancestors. -/
theorem ancestors_sound (g : Graph) (b p : Nat) (h : p ∈ Mon.ancestors g b) : Anc g b p := by
  unfold Mon.ancestors at h
  have hdirect : ∀ x y, y ∈ Mon.orderingProducers g x → Anc g x y := by
    intro x y hy
    unfold Mon.orderingProducers at hy
    rw [mem_dedup] at hy
    obtain ⟨f, hf, hp⟩ := List.mem_filterMap.mp hy
    exact Anc.direct hf hp
  apply closure_sound (Mon.orderingProducers g) (Anc g b) _ _ _ _ _ (by simp) p h
  · intro x y hx hy; exact Anc.step hx (hdirect x y hy)
  · intro x hx; exact hdirect b x hx

theorem manifestOfTree_eq (e : Env) (bm : BuildM) (b : Nat) : manifestOfTree e bm b = manifestFs e bm b := rfl

/-- **Reflection.**  When the decidable predicate holds on a concrete world, the hypothesis of
    `C03.repeated_build_does_nothing` holds for it. -/
theorem settledC_sound (w : World) (a : InvArgs) (h : settledC w a = true) :
    ∃ l e0, loadEnv w a.manifestName = .ok (l, e0) ∧
      AllUpToDate e0 (Wanted (schedGraph e0.g) (argsOf l a)) := by
  unfold settledC at h
  simp only [Bool.and_eq_true] at h
  obtain ⟨hs, hc⟩ := h
  unfold settled at hs
  unfold closureOK at hc
  cases hl : loadEnv w a.manifestName with
  | error e => rw [hl] at hs; cases hs
  | ok le =>
    obtain ⟨l, e0⟩ := le
    rw [hl] at hs hc
    simp only [] at hs hc
    refine ⟨l, e0, rfl, ?_⟩
    cases hw : Mon.wantedFiles (schedGraph e0.g) (argsOf l a) with
    | none => rw [hw] at hs; cases hs
    | some files =>
      rw [hw] at hs hc
      simp only [List.all_eq_true] at hs
      have hmem : ∀ b, Wanted (schedGraph e0.g) (argsOf l a) b →
          b ∈ Mon.wantedBuilds (schedGraph e0.g) (argsOf l a) files := by
        intro b ⟨f, hr, hn⟩
        exact needs_root_in_closed _ _ _ hc f b (requested_in_wantedFiles _ _ files hw f hr) hn
      have hstep : ∀ b bm, Wanted (schedGraph e0.g) (argsOf l a) b → buildOf e0.g b = some bm →
          bm.cmdline.isNone = false → stepSettled e0 (schedGraph e0.g) b bm = true := by
        intro b bm hW hb hnp
        have := hs b (hmem b hW)
        rw [hb] at this
        simpa [hnp] using this
      constructor
      · intro b bm hW hb hnp
        have hst := hstep b bm hW hb hnp
        unfold stepSettled at hst
        simp only [Bool.and_eq_true, List.all_eq_true, decide_eq_true_eq] at hst
        obtain ⟨⟨h1, h2⟩, _⟩ := hst
        refine ⟨?_, ?_⟩
        · intro f hf
          have := h1 f (by simpa [BuildM.dirtying, List.append_assoc] using hf)
          unfold mtimeOf
          cases hx : e0.fs.get (fileName e0.g f) with
          | none => rw [hx] at this; cases this
          | some _ => rfl
        · rw [h2, manifestOfTree_eq]
      · intro b bm hW hb hnp f hf p hp
        have hst := hstep b bm hW hb hnp
        unfold stepSettled at hst
        simp only [Bool.and_eq_true, List.all_eq_true] at hst
        have := hst.2 f hf
        rw [hp] at this
        simp only [List.contains_eq_mem, decide_eq_true_eq] at this
        exact ancestors_sound _ b p this

/-- **A decidable sufficient condition for "the build does nothing"**: if `settledC` evaluates to
    `true` on a world, every invocation with these arguments leaves tree, clock and log as they
    are and runs no command, whatever the scheduling choices. -/
theorem settled_world_is_left_alone (w : World) (a : InvArgs) (h : settledC w a = true)
    (obs1 obs2 : List (List Nat) × List (Nat × Sched.Term)) :
    (invoke w a obs1 obs2).1 = w ∧ commandEvents (invoke w a obs1 obs2).2.2 = [] := by
  obtain ⟨l, e0, hl, hu⟩ := settledC_sound w a h
  have := invoke_upToDate w a obs1 obs2 l e0 hl hu
  exact ⟨this.1, this.2.1⟩

end N2V.World
